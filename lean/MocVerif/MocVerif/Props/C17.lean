/-
  C17 — expansion, contraction (Time / Frequency MOCs) obey their definitions.

  Proved: T/F expansion = M plus the previous and next depth-d cell of each cell, clipped to the
  domain, canonical; T/F contraction (repaired at the domain bounds) characterised range by range.
  Space (HEALPix): expansion, contraction, external / internal borders and splitting are modelled
  over an ADJACENCY RELATION GIVEN AS DATA (`Model/Graph.lean`; the harness sends the neighbour lists
  of cdshealpix — the geometry itself is the trusted parameter): the theorems below say that the model
  functions are the property's definitions for EVERY adjacency and EVERY cell set — expansion = cells
  equal or adjacent to a cell of M; contraction = cells of M not adjacent from outside M; borders;
  splitting = a partition into closed, connected, pairwise separated components.  Hole filling is
  checked against the brute-force oracle of the harness only (test level).
-/
import MocVerif.Lemmas.Morpho
import MocVerif.Lemmas.ValidOps
import MocVerif.Model.Params
import MocVerif.Lemmas.Graph
import MocVerif.Lemmas.FillHoles

namespace Moc.C17

/-- **T/F `expanded`** for every valid MOC (`c` = cell size of its depth, `ub` = `n_cells_max`). -/
theorem tf_expanded_sem (c ub : Nat) (hc : 0 < c) (m : List Rng) (hm : Canon m)
    (hb : BoundedBy ub m) (ha : Aligned c m) (hub : c ∣ ub) :
    Canon (tfExpanded c ub m) ∧
    ∀ x, mem x (tfExpanded c ub m) ↔
      x < ub ∧ ∃ y, mem y m ∧ x / c ≤ y / c + 1 ∧ y / c ≤ x / c + 1 :=
  tfExpanded_spec c ub hc m hm hb ha hub

/-- Instantiated on the quantities of the library: a valid T- or F-MOC of depth `d`. -/
theorem tf_expanded_valid_moc (q : Qty) (w d : Nat) (m : List Rng) (hv : Valid q w d m) :
    Canon (tfExpanded (q.cellSize w d) (q.nCellsMax w) m) ∧
    ∀ x, mem x (tfExpanded (q.cellSize w d) (q.nCellsMax w) m) ↔
      x < q.nCellsMax w ∧ ∃ y, mem y m ∧ x / q.cellSize w d ≤ y / q.cellSize w d + 1 ∧
        y / q.cellSize w d ≤ x / q.cellSize w d + 1 :=
  tfExpanded_spec _ _ (q.cellSize_pos w d) m hv.1 hv.2.1 hv.2.2 (q.cellSize_dvd_nCellsMax w d)

/-- **T/F `contracted`** (repaired): a point of a range survives iff it is at least one cell away
    from each end of the range that is not a domain bound. -/
theorem tf_contracted_range (c ub : Nat) (r : Rng) (x : Nat) :
    (∃ s, tfShrink c ub r = some s ∧ s.1 ≤ x ∧ x < s.2) ↔
      ((r.1 > 0 → r.1 + c ≤ x) ∧ (r.1 = 0 → r.1 ≤ x) ∧ (r.2 < ub → x + c < r.2) ∧ (¬ r.2 < ub → x < r.2)) :=
  mem_tfShrink c ub r x

/-- **T/F `contracted`** (repaired) on a whole MOC: canonical, and a point is kept iff every point of the
    domain whose depth-`d` cell is equal or adjacent to its own is covered. -/
theorem tf_contracted_sem (c ub : Nat) (hc : 0 < c) (m : List Rng) (hm : Canon m)
    (hb : BoundedBy ub m) (ha : Aligned c m) (hub : c ∣ ub) :
    Canon (tfContracted c ub m) ∧
    ∀ x, mem x (tfContracted c ub m) ↔
      x < ub ∧ ∀ y, y < ub → x / c ≤ y / c + 1 → y / c ≤ x / c + 1 → mem y m :=
  tfContracted_spec c ub hc m hm hb ha hub

/-- **Duality**, for every valid T- or F-MOC of depth `d`: `contracted = complement ∘ expanded ∘ complement`
    (equality of the range lists, both sides being canonical). -/
theorem tf_contracted_dual (q : Qty) (w d : Nat) (h0 : 0 < q.nCellsMax w) (m : List Rng) (hv : Valid q w d m) :
    tfContracted (q.cellSize w d) (q.nCellsMax w) m =
      complement (q.nCellsMax w) (tfExpanded (q.cellSize w d) (q.nCellsMax w) (complement (q.nCellsMax w) m)) := by
  have hc := q.cellSize_pos w d
  have hub := q.cellSize_dvd_nCellsMax w d
  have c1 := tfContracted_spec _ _ hc m hv.1 hv.2.1 hv.2.2 hub
  have vc := valid_complement q w d m h0 hv
  have sc := complement_spec (q.nCellsMax w) m h0 hv.1 hv.2.1
  have e1 := tfExpanded_spec _ _ hc _ vc.1 vc.2.1 vc.2.2 hub
  have hbe : BoundedBy (q.nCellsMax w) (tfExpanded (q.cellSize w d) (q.nCellsMax w) (complement (q.nCellsMax w) m)) := by
    intro r hr
    apply Classical.byContradiction; intro hgt
    have hne := canon_nonempty e1.1 r hr
    have : mem (r.2 - 1) (tfExpanded (q.cellSize w d) (q.nCellsMax w) (complement (q.nCellsMax w) m)) :=
      (mem_iff_exists _ _).2 ⟨r, hr, by omega, by omega⟩
    have := ((e1.2 _).1 this).1
    omega
  have s2 := complement_spec (q.nCellsMax w) _ h0 e1.1 hbe
  refine Canon.ext c1.1 s2.1 (fun x => ?_)
  rw [c1.2, s2.2, e1.2]
  constructor
  · rintro ⟨hx, hall⟩
    refine ⟨hx, ?_⟩
    rintro ⟨_, y, hy, k1, k2⟩
    have hy' := (sc.2 y).1 hy
    exact hy'.2 (hall y hy'.1 k1 k2)
  · rintro ⟨hx, hno⟩
    refine ⟨hx, fun y hy k1 k2 => ?_⟩
    apply Classical.byContradiction; intro hnm
    exact hno ⟨hx, y, (sc.2 y).2 ⟨hy, hnm⟩, k1, k2⟩

/-- The defect found in the original code, as a theorem about the ORIGINAL formula: shrinking both
    ends unconditionally disagrees with `complement ∘ expanded ∘ complement` on `[0, 10·c)`. -/
theorem original_contracted_counterexample :
    let c := 1; let ub := 100
    (1, 9) ≠ ((0 : Nat), (9 : Nat)) ∧
    complement ub (tfExpanded c ub (complement ub [(0, 10)])) = [(0, 9)] := by
  refine ⟨by decide, ?_⟩
  simp [complement, complFrom, tfExpanded, mergeSorted, mergeOverlapping, mergeOvFrom, tfGrow]

/-! ### Space part: morphology over a given adjacency -/
section Space
open Moc.Graph

/-- **Space expansion** = exactly the cells equal or adjacent to a cell of `M`. -/
theorem space_expanded_sem (g : Adj) (s : List Nat) (x : Nat) :
    x ∈ Graph.expanded g s ↔ x ∈ s ∨ ∃ c ∈ s, x ∈ nbrs g c := mem_expanded g s x

/-- **Space contraction** (`M ⊆ univ`) = the cells of `M` that no cell outside `M` is adjacent to
    (i.e. `complement ∘ expanded ∘ complement`). -/
theorem space_contracted_sem (g : Adj) (univ s : List Nat) (hs : ∀ x ∈ s, x ∈ univ) (x : Nat) :
    x ∈ Graph.contracted g univ s ↔ x ∈ s ∧ ∀ c ∈ univ, c ∉ s → x ∉ nbrs g c :=
  mem_contracted g univ s hs x

/-- **Borders**: the external border is outside `M` and adjacent to it; the internal border is what
    the contraction removes. -/
theorem space_borders (g : Adj) (univ s : List Nat) (x : Nat) :
    (x ∈ extBorder g s ↔ x ∉ s ∧ ∃ c ∈ s, x ∈ nbrs g c) ∧
    (x ∈ intBorder g univ s ↔ x ∈ s ∧ x ∉ Graph.contracted g univ s) :=
  ⟨mem_extBorder g s x, mem_intBorder g univ s x⟩

/-- **Splitting** returns a correct partition, for every adjacency and every cell set: each part is
    the component of one of its cells — inside the set, closed (no cell of the remaining set is
    adjacent from it), every cell reachable from that cell — and the other parts split the rest. -/
theorem space_split_correct (g : Adj) (s : List Nat) : IsSplit g s (splitAll g s) :=
  split_spec g s.length s (Nat.le_refl _)

/-- The parts cover the set exactly … -/
theorem space_split_cover (g : Adj) (s : List Nat) (x : Nat) :
    x ∈ s ↔ ∃ comp ∈ splitAll g s, x ∈ comp := (space_split_correct g s).cover x

/-- … are pairwise disjoint, and no cell of a part is adjacent to a cell of a later part (for a
    symmetric adjacency such as HEALPix neighbourhood: no two parts are adjacent). -/
theorem space_split_separated (g : Adj) (s : List Nat) :
    (splitAll g s).Pairwise fun a b => (∀ x ∈ a, x ∉ b) ∧ ∀ x ∈ a, ∀ n ∈ nbrs g x, n ∉ b :=
  (space_split_correct g s).separated

/-! ### Hole filling (`fill_holes(except_n_largest)`) -/

/-- **Hole filling adds exactly the components of the complement other than the `1 + n` largest**: a cell is
    in the result iff it is in the set or in one of the components that follow the first `1 + n` ones in the
    list of the components of the complement sorted by decreasing size. -/
theorem fill_holes_spec (g : Adj) (univ s : List Nat) (n x : Nat) :
    x ∈ fillHoles g univ s n ↔ x ∈ s ∨ ∃ comp ∈ (holesSorted g univ s).drop (1 + n), x ∈ comp :=
  mem_fillHoles g univ s n x

/-- The sorted list is a rearrangement of the components of the complement (same components, same number),
    and every component left alone is at least as large as every component that is filled. -/
theorem fill_holes_largest_kept (g : Adj) (univ s : List Nat) (n : Nat) :
    (∀ c, c ∈ holesSorted g univ s ↔ c ∈ splitAll g (univ.filter fun y => !s.contains y)) ∧
    (holesSorted g univ s).length = (splitAll g (univ.filter fun y => !s.contains y)).length ∧
    ∀ a ∈ (holesSorted g univ s).take (1 + n), ∀ b ∈ (holesSorted g univ s).drop (1 + n), b.length ≤ a.length :=
  ⟨fun c => mem_sortBySize c _, length_sortBySize _, desc_take_drop _ (1 + n) (desc_sortBySize _)⟩

/-- The result is a superset of the set and only adds cells of its complement, by whole components. -/
theorem fill_holes_superset (g : Adj) (univ s : List Nat) (n : Nat) :
    (∀ x ∈ s, x ∈ fillHoles g univ s n) ∧
    (∀ x ∈ fillHoles g univ s n, x ∈ s ∨ (x ∈ univ ∧ x ∉ s)) := by
  refine ⟨fun x hx => (mem_fillHoles g univ s n x).2 (.inl hx), ?_⟩
  intro x hx
  rcases (mem_fillHoles g univ s n x).1 hx with h | ⟨comp, hc, hxc⟩
  · exact .inl h
  · right
    have hc' : comp ∈ splitAll g (univ.filter fun y => !s.contains y) :=
      (mem_sortBySize comp _).1 (List.mem_of_mem_drop hc)
    have := (space_split_cover g (univ.filter fun y => !s.contains y) x).2 ⟨comp, hc', hxc⟩
    simpa using this

/-- **`fill_holes_smaller_than`** adds exactly the components of the complement of at most `k` cells. -/
theorem fill_holes_smaller_spec (g : Adj) (univ s : List Nat) (k x : Nat) :
    x ∈ fillHolesSmaller g univ s k ↔
      x ∈ s ∨ ∃ comp ∈ splitAll g (univ.filter fun y => !s.contains y), comp.length ≤ k ∧ x ∈ comp := by
  unfold fillHolesSmaller
  rw [mem_norm, List.mem_append, List.mem_flatten]
  constructor
  · rintro (h | ⟨c, hc, hx⟩)
    · exact .inl h
    · have := List.mem_filter.1 hc
      exact .inr ⟨c, this.1, by simpa using this.2, hx⟩
  · rintro (h | ⟨c, hc, hk, hx⟩)
    · exact .inl h
    · exact .inr ⟨c, List.mem_filter.2 ⟨hc, by simpa using hk⟩, hx⟩

/-! Non-vacuity: a path 0–1–2 and an isolated cell 5. -/
example : splitAll [(0, [1]), (1, [0, 2]), (2, [1]), (5, [])] [0, 1, 2, 5] = [[0, 1, 2], [5]] := by decide

end Space

/-! Non-vacuity -/
example : Valid Params.time 16 2 [(0, 2048), (4096, 6144)] := (Moc.validB_iff _ _ _ _).1 (by decide)
example : tfContracted 1 100 [(0, 10), (20, 22), (30, 100)] = [(0, 9), (31, 100)] := by decide

end Moc.C17
