/-
  C13 — the in-memory MOC store is a faithful, linearizable registry of MOCs.

  Specification: a registry is a partial map `index ↦ (copy count, value)`; `SpecStep` is the whole
  sequential reference semantics (a fresh index is ANY index that is not live).
  * `step_refines_registry`, `run_refines_registry`: every call / history on the slab model returns
    what the reference registry returns, from every reachable state (`inv_reachable`).
  * `fresh_index_not_live`, `value_stable`, `copies_then_drops`: the consequences the statement names.
  * `two_phase_is_atomic`, `concurrent_is_sequential`: every interleaving of lock sections of several
    threads (operations = read section + later write section) returns, call by call, what the
    SEQUENTIAL store returns for the order of completion sections — which respects real time —
    provided operands of in-flight operations are not dropped (the "shared read-only operands" of the
    statement).
  Runtime part NOT carried by the model (lock fairness/poisoning/re-entrancy): exercised by the
  threaded correspondence run under a watchdog.
-/
import MocVerif.Lemmas.Store

namespace Moc.Store.C13
open Moc.Store

/-! ### The reference registry -/

abbrev Reg := Nat → Option (Nat × Val)

def Reg.set (m : Reg) (k : Nat) (x : Option (Nat × Val)) : Reg := fun j => if j = k then x else m j
def Reg.value (m : Reg) (i : Nat) : Option Val := (m i).map (·.2)

/-- Sequential reference semantics of every call. -/
inductive SpecStep : Reg → Call → Out → Reg → Prop
  | add {m : Reg} {v : Val} {k : Nat} : m k = none → SpecStep m (.add v) (.idx k) (m.set k (some (1, v)))
  | copyOk {m : Reg} {i c : Nat} {v : Val} : m i = some (c, v) → c < 255 →
      SpecStep m (.copy i) .unit (m.set i (some (c + 1, v)))
  | copyFull {m : Reg} {i : Nat} {v : Val} : m i = some (255, v) → SpecStep m (.copy i) (.err .full) m
  | copyDead {m : Reg} {i : Nat} : m i = none → SpecStep m (.copy i) (.err .notFound) m
  | dropLast {m : Reg} {i : Nat} {v : Val} : m i = some (1, v) → SpecStep m (.drop i) .unit (m.set i none)
  | dropMore {m : Reg} {i c : Nat} {v : Val} : m i = some (c + 2, v) →
      SpecStep m (.drop i) .unit (m.set i (some (c + 1, v)))
  | dropDead {m : Reg} {i : Nat} : m i = none → SpecStep m (.drop i) (.err .notFound) m
  | getOk {m : Reg} {i c : Nat} {v : Val} : m i = some (c, v) → SpecStep m (.get i) (.val v) m
  | getDead {m : Reg} {i : Nat} : m i = none → SpecStep m (.get i) (.err .notFound) m
  | opOk {m : Reg} {c : Call} {v : Val} {k : Nat} : isOp c = true → readPhaseF m.value c = .ok v →
      m k = none → SpecStep m c (.idx k) (m.set k (some (1, v)))
  | opErr {m : Reg} {c : Call} {e : Err} : isOp c = true → readPhaseF m.value c = .error e →
      SpecStep m c (.err e) m

inductive SpecRun : Reg → List Call → List Out → Reg → Prop
  | nil {m : Reg} : SpecRun m [] [] m
  | cons {m m' m'' : Reg} {c : Call} {o : Out} {cs : List Call} {os : List Out} :
      SpecStep m c o m' → SpecRun m' cs os m'' → SpecRun m (c :: cs) (o :: os) m''

theorem inv_init : Inv St.init :=
  ⟨⟨[], Chain.done, List.nodup_nil⟩, by intro i c v h; simp [lookup, St.init] at h⟩

theorem value_eq (s : St) : valueAt s = Reg.value (lookup s) := rfl

/-- **Refinement, one call**: from any state satisfying the slab invariant, the store returns what the
    reference registry returns and moves to the corresponding registry; the invariant is kept. -/
theorem step_refines_registry (s : St) (c : Call) (hinv : Inv s) :
    SpecStep (lookup s) c (step s c).2 (lookup (step s c).1) ∧ Inv (step s c).1 := by
  have insCase : ∀ v, lookup s (insert s v).2 = none ∧
      lookup (insert s v).1 = Reg.set (lookup s) (insert s v).2 (some (1, v)) ∧ Inv (insert s v).1 := by
    intro v
    obtain ⟨h1, h2, h3⟩ := insert_spec s v hinv
    exact ⟨h1, funext (fun j => by rw [h2 j]; rfl), h3⟩
  have opCase : ∀ c, isOp c = true →
      SpecStep (lookup s) c (step s c).2 (lookup (step s c).1) ∧ Inv (step s c).1 := by
    intro c hop
    rw [step_op hop]
    cases hr : readPhase s c with
    | ok v =>
      obtain ⟨h1, h2, h3⟩ := insCase v
      simp only []
      rw [h2]
      exact ⟨SpecStep.opOk hop (by rw [← value_eq]; exact hr) h1, h3⟩
    | error e =>
      exact ⟨SpecStep.opErr hop (by rw [← value_eq]; exact hr), hinv⟩
  cases c with
  | add v =>
    obtain ⟨h1, h2, h3⟩ := insCase v
    simp only [step]
    rw [h2]
    exact ⟨SpecStep.add h1, h3⟩
  | copy i =>
    simp only [step, copyMoc]
    cases hl : lookup s i with
    | none => exact ⟨SpecStep.copyDead hl, hinv⟩
    | some cv =>
      obtain ⟨c, v⟩ := cv
      have hlt := (lookup_some_lt hl).1
      have hb := hinv.2 i c v hl
      by_cases hc : c = 255
      · subst hc; simp only [↓reduceIte]; exact ⟨SpecStep.copyFull hl, hinv⟩
      · simp only [hc, ↓reduceIte]
        have e : lookup { s with slots := s.slots.set i (.occ (c + 1) v) }
            = Reg.set (lookup s) i (some (c + 1, v)) :=
          funext (fun j => by rw [lookup_set_occ s i (c + 1) v s.next hlt j]; rfl)
        rw [e]
        exact ⟨SpecStep.copyOk hl (by omega), inv_set_count s i c (c + 1) v hinv hl (by omega)⟩
  | drop i =>
    simp only [step, dropMoc]
    cases hl : lookup s i with
    | none => exact ⟨SpecStep.dropDead hl, hinv⟩
    | some cv =>
      obtain ⟨c, v⟩ := cv
      have hlt := (lookup_some_lt hl).1
      have hb := hinv.2 i c v hl
      by_cases hc : c - 1 = 0
      · simp only [hc, ↓reduceIte]
        have hc1 : c = 1 := by omega
        subst hc1
        have e : lookup (remove s i) = Reg.set (lookup s) i none :=
          funext (fun j => by unfold remove; rw [lookup_set_vacant s i s.next i hlt j]; rfl)
        rw [e]
        exact ⟨SpecStep.dropLast hl, inv_remove s i 1 v hinv hl⟩
      · simp only [hc, ↓reduceIte]
        obtain ⟨d, rfl⟩ : ∃ d, c = d + 2 := ⟨c - 2, by omega⟩
        have e : lookup { s with slots := s.slots.set i (.occ (d + 2 - 1) v) }
            = Reg.set (lookup s) i (some (d + 1, v)) :=
          funext (fun j => by rw [lookup_set_occ s i (d + 2 - 1) v s.next hlt j]; rfl)
        rw [e]
        exact ⟨SpecStep.dropMore hl, inv_set_count s i (d + 2) (d + 2 - 1) v hinv hl (by omega)⟩
  | get i =>
    simp only [step]
    cases hv : valueAt s i with
    | none =>
      have : lookup s i = none := by
        unfold valueAt at hv; cases h : lookup s i <;> simp [h] at hv; rfl
      exact ⟨SpecStep.getDead this, hinv⟩
    | some v =>
      unfold valueAt at hv
      cases h : lookup s i with
      | none => simp [h] at hv
      | some cv =>
        obtain ⟨c, w⟩ := cv
        simp [h] at hv; subst hv
        exact ⟨SpecStep.getOk h, hinv⟩
  | op1 f i => exact opCase _ rfl
  | op2 f i j => exact opCase _ rfl
  | opn f is => exact opCase _ rfl

/-- The invariant holds in every state reachable from the empty store. -/
theorem inv_reachable (h : List Call) : Inv (run St.init h).1 := by
  suffices ∀ s, Inv s → Inv (run s h).1 from this _ inv_init
  induction h with
  | nil => intro s hs; exact hs
  | cons c cs ih => intro s hs; exact ih _ (step_refines_registry s c hs).2

/-- **Refinement, every history**: the outputs of any sequence of calls are outputs of the reference
    registry on the same sequence. -/
theorem run_refines_registry (s : St) (h : List Call) (hinv : Inv s) :
    SpecRun (lookup s) h (run s h).2 (lookup (run s h).1) := by
  induction h generalizing s with
  | nil => exact SpecRun.nil
  | cons c cs ih =>
    obtain ⟨h1, h2⟩ := step_refines_registry s c hinv
    exact SpecRun.cons h1 (ih _ h2)

theorem spec_fresh {m m' : Reg} {c : Call} {o : Out} (h : SpecStep m c o m') (k : Nat)
    (ho : o = .idx k) : m k = none := by
  induction h with
  | @add v k' hk => cases ho; exact hk
  | @opOk c v k' _ _ hk => cases ho; exact hk
  | _ => cases ho

/-- An index handed out (by `add` or by an operation) was not live: it is never handed out for
    another MOC while live. -/
theorem fresh_index_not_live (s : St) (c : Call) (k : Nat) (hinv : Inv s)
    (h : (step s c).2 = .idx k) : lookup s k = none :=
  spec_fresh (step_refines_registry s c hinv).1 k h

theorem spec_value_stable {m m' : Reg} {c : Call} {o : Out} (h : SpecStep m c o m') (i : Nat) (v : Val)
    (hl : m.value i = some v) (hc : c ≠ .drop i) : m'.value i = some v := by
  have live : ∃ cnt, m i = some (cnt, v) := by
    unfold Reg.value at hl
    cases h : m i with
    | none => simp [h] at hl
    | some cv => obtain ⟨a, b⟩ := cv; simp [h] at hl; exact ⟨a, by rw [hl]⟩
  obtain ⟨cnt, hlive⟩ := live
  have setOther : ∀ (k : Nat) (x : Option (Nat × Val)), k ≠ i → Reg.value (Reg.set m k x) i = some v := by
    intro k x hk
    unfold Reg.value Reg.set
    simp only [Ne.symm hk, ↓reduceIte, hlive, Option.map_some]
  induction h with
  | @add v' k hk => exact setOther _ _ (fun e => by rw [e, hlive] at hk; cases hk)
  | @opOk c v' k _ _ hk => exact setOther _ _ (fun e => by rw [e, hlive] at hk; cases hk)
  | @copyOk j c' w hj _ =>
    by_cases e : j = i
    · subst e; rw [hlive] at hj; cases hj
      unfold Reg.value Reg.set; simp
    · exact setOther _ _ e
  | @dropLast j w hj =>
    by_cases e : j = i
    · exact absurd (by rw [e]) hc
    · exact setOther _ _ e
  | @dropMore j c' w hj =>
    by_cases e : j = i
    · exact absurd (by rw [e]) hc
    · exact setOther _ _ e
  | _ => exact hl

/-- One call other than `drop i` leaves the MOC denoted by a live index `i` unchanged. -/
theorem value_stable_step (s : St) (c : Call) (i : Nat) (v : Val) (hinv : Inv s)
    (hl : valueAt s i = some v) (hc : c ≠ .drop i) : valueAt (step s c).1 i = some v := by
  rw [value_eq] at hl ⊢
  exact spec_value_stable (step_refines_registry s c hinv).1 i v hl hc

/-- **An index denotes the same MOC** along every history that does not drop it. -/
theorem value_stable (s : St) (h : List Call) (i : Nat) (v : Val) (hinv : Inv s)
    (hl : valueAt s i = some v) (hnd : ∀ c ∈ h, c ≠ Call.drop i) :
    valueAt (run s h).1 i = some v := by
  induction h generalizing s with
  | nil => exact hl
  | cons c cs ih =>
    exact ih _ (step_refines_registry s c hinv).2
      (value_stable_step s c i v hinv hl (hnd c List.mem_cons_self))
      (fun c' hc' => hnd c' (List.mem_cons_of_mem _ hc'))

/-- `n` drops of an entry with count `c`: still the same MOC while `n < c`, dead from `n = c` on
    ("until it has been dropped once more than it was copied": the count is 1 + copies). -/
theorem drops (s : St) (i c : Nat) (v : Val) (n : Nat) (hinv : Inv s) (hl : lookup s i = some (c, v)) :
    lookup (run s (List.replicate n (Call.drop i))).1 i = if n < c then some (c - n, v) else none := by
  have dead : ∀ k (s' : St), lookup s' i = none →
      lookup (run s' (List.replicate k (Call.drop i))).1 i = none := by
    intro k
    induction k with
    | zero => intro s' h; exact h
    | succ k ihk =>
      intro s' h
      simp only [List.replicate_succ, run]
      have : step s' (.drop i) = (s', .err .notFound) := by simp [step, dropMoc, h]
      rw [this]; exact ihk s' h
  induction n generalizing s c with
  | zero =>
    have := hinv.2 i c v hl
    have h0 : 0 < c := by omega
    simp [run, hl, h0]
  | succ n ih =>
    have hb := hinv.2 i c v hl
    have hlt := (lookup_some_lt hl).1
    have h2 := (step_refines_registry s (.drop i) hinv).2
    simp only [List.replicate_succ, run]
    by_cases hc : c - 1 = 0
    · have hc1 : c = 1 := by omega
      have hs : (step s (.drop i)).1 = remove s i := by simp [step, dropMoc, hl, hc]
      have hdead : lookup (step s (.drop i)).1 i = none := by
        rw [hs]; unfold remove; rw [lookup_set_vacant s i s.next i hlt i]; simp
      rw [dead n _ hdead]
      have : ¬ (n + 1 < c) := by omega
      simp only [this, ↓reduceIte]
    · have hs : (step s (.drop i)).1 = { s with slots := s.slots.set i (.occ (c - 1) v) } := by
        simp [step, dropMoc, hl, hc]
      have hlive : lookup (step s (.drop i)).1 i = some (c - 1, v) := by
        rw [hs, lookup_set_occ s i (c - 1) v s.next hlt i]; simp
      rw [ih _ (c - 1) h2 hlive]
      by_cases hn : n < c - 1
      · have h' : n + 1 < c := by omega
        simp only [hn, h', ↓reduceIte]
        have : c - 1 - n = c - (n + 1) := by omega
        rw [this]
      · have h' : ¬ (n + 1 < c) := by omega
        simp only [hn, h', ↓reduceIte]

/-- **Typed drops** (`drop_smoc` …): on an index of ANOTHER kind, or a dead one, the call is an error and the registry is
    unchanged — in particular the index still denotes the same MOC and is not handed out again; on an index of the right
    kind it is `drop`.  (The code used to decrement and remove first and look at the kind afterwards:
    /repo "fix: drop_smoc / … destroyed a MOC of another type".) -/
theorem typed_drop_spec (s : St) (k i : Nat) :
    (∀ v, valueAt s i = some v → v.kind ≠ k → dropKind s k i = (s, .err .kind)) ∧
    (valueAt s i = none → dropKind s k i = (s, .err .notFound)) ∧
    (∀ v, valueAt s i = some v → v.kind = k → dropKind s k i = step s (.drop i)) := by
  refine ⟨fun v hv hk => ?_, fun hn => ?_, fun v hv hk => ?_⟩
  · simp [dropKind, hv, hk]
  · simp [dropKind, hn]
  · simp [dropKind, hv, hk, step]

/-- A successful copy adds exactly one to the number of drops the index survives. -/
theorem copy_adds_one (s : St) (i c : Nat) (v : Val) (hinv : Inv s) (hl : lookup s i = some (c, v))
    (hc : c < 255) : lookup (step s (.copy i)).1 i = some (c + 1, v) ∧ (step s (.copy i)).2 = .unit := by
  have hlt := (lookup_some_lt hl).1
  have hne : c ≠ 255 := by omega
  simp only [step, copyMoc, hl, hne, ↓reduceIte]
  rw [lookup_set_occ s i (c + 1) v s.next hlt i]; simp

/-- **Lock discipline**: whatever the state and the call, its lock sections never nest (a thread
    never requests the lock while holding it — with a single lock this is what excludes a thread
    waiting for itself or for a writer queued behind its own read section) and every section is
    closed when the call returns. -/
theorem lock_discipline (s : St) (c : Call) : Disciplined (lockTrace s c) := by
  have h2 : Disciplined [LockEv.wAcq, LockEv.wRel] := by decide
  have h3 : Disciplined [LockEv.rAcq, LockEv.rRel] := by decide
  have h4 : Disciplined [LockEv.rAcq, LockEv.rRel, LockEv.wAcq, LockEv.wRel] := by decide
  cases c with
  | add v => exact h2
  | copy i => exact h2
  | drop i => exact h2
  | get i => exact h3
  | op1 f i => simp only [lockTrace]; cases readPhase s (.op1 f i) <;> assumption
  | op2 f i j => simp only [lockTrace]; cases readPhase s (.op2 f i j) <;> assumption
  | opn f is => simp only [lockTrace]; cases readPhase s (.opn f is) <;> assumption

/-- A nested read section (what a re-entrant helper would produce) is NOT disciplined. -/
example : ¬ Disciplined [.rAcq, .rAcq, .rRel, .rRel] := by decide

/-! ### Concurrency: interleaved lock sections -/

/-- **The two-phase operation is atomic**: if the operands still denote the same values when the
    write section runs, read-then-write returns exactly what the whole call returns when executed
    alone at the time of the write section. -/
theorem two_phase_is_atomic (s1 s2 : St) (c : Call) (v : Val) (hop : isOp c = true)
    (hr : readPhase s1 c = .ok v) (hst : ∀ i ∈ operands c, valueAt s2 i = valueAt s1 i) :
    step s2 c = ((insert s2 v).1, .idx (insert s2 v).2) := by
  rw [step_op hop]
  have : readPhase s2 c = .ok v := by
    unfold readPhase at hr ⊢
    rw [readPhaseF_congr _ _ c hst]; exact hr
  rw [this]

def runT (s : St) : List (Nat × Call) → St × List (Nat × Out)
  | [] => (s, [])
  | (t, c) :: cs => let r := step s c; let r2 := runT r.1 cs; (r2.1, (t, r.2) :: r2.2)

/-- Every pending operation's stored result is what its read phase would compute now. -/
def PInv (cs : CSt) : Prop :=
  ∀ p ∈ cs.pend, isOp p.2.1 = true ∧ readPhase cs.st p.2.1 = .ok p.2.2

theorem pend_stable (cs : CSt) (s' : St) (hp : PInv cs)
    (hval : ∀ p ∈ cs.pend, ∀ i ∈ operands p.2.1, valueAt s' i = valueAt cs.st i) :
    PInv { st := s', pend := cs.pend } := by
  intro p hpm
  obtain ⟨h1, h2⟩ := hp p hpm
  refine ⟨h1, ?_⟩
  show readPhase s' p.2.1 = .ok p.2.2
  unfold readPhase at h2 ⊢
  rw [readPhaseF_congr _ _ p.2.1 (hval p hpm)]; exact h2

theorem pendOf_mem {p : List (Nat × Call × Val)} {t : Nat} {c : Call} {v : Val}
    (h : pendOf p t = some (c, v)) : (t, c, v) ∈ p := by
  unfold pendOf at h
  cases hf : p.find? (·.1 == t) with
  | none => simp [hf] at h
  | some x =>
    simp [hf] at h
    have hm := List.mem_of_find?_eq_some hf
    have ht := List.find?_some hf
    simp at ht
    obtain ⟨a, b, d⟩ := x
    simp at h ht
    obtain ⟨rfl, rfl⟩ := h
    subst ht
    exact hm

/-- **Linearizability of the lock-section model**: for every interleaving of the threads' lock
    sections in which no operand of an in-flight operation is dropped, the concurrent execution gives
    every call the output — and leaves the store in the state — of the SEQUENTIAL execution of the
    calls in the order of their completion sections. -/
theorem concurrent_is_sequential (es : List Ev) (cs : CSt) (hinv : Inv cs.st) (hp : PInv cs)
    (hsafe : SafeTrace cs es) :
    (crun cs es).2 = (runT cs.st (linearize cs es)).2 ∧
    (crun cs es).1.st = (runT cs.st (linearize cs es)).1 := by
  induction es generalizing cs with
  | nil => exact ⟨rfl, rfl⟩
  | cons e es ih =>
    obtain ⟨hse, hst⟩ := hsafe
    cases e with
    | atomic t c =>
      have hinv' := (step_refines_registry cs.st c hinv).2
      have hp' : PInv (cstep cs (.atomic t c)).1 := by
        apply pend_stable cs _ hp
        intro p hpm i hi
        obtain ⟨hop, hok⟩ := hp p hpm
        have hlive := readPhaseF_ok_live _ _ _ hop hok i hi
        cases hv : valueAt cs.st i with
        | none => simp [hv] at hlive
        | some v =>
          apply value_stable_step cs.st c i v hinv hv
          intro hc
          subst hc
          exact absurd hi (hse p hpm)
      obtain ⟨i1, i2⟩ := ih (cstep cs (.atomic t c)).1 hinv' hp' hst
      simp only [crun, linearize, runT]
      exact ⟨by rw [i1]; rfl, by rw [i2]; rfl⟩
    | read t c =>
      obtain ⟨hop, hnone⟩ := hse
      simp only [crun, linearize]
      cases hr : readPhase cs.st c with
      | ok v =>
        have hcs : cstep cs (.read t c) = ({ cs with pend := (t, c, v) :: cs.pend }, none) := by
          simp only [cstep, hr]
        have hp' : PInv (cstep cs (.read t c)).1 := by
          rw [hcs]
          intro p hpm
          cases hpm with
          | head => exact ⟨hop, hr⟩
          | tail _ hm => exact hp p hm
        have hinv' : Inv (cstep cs (.read t c)).1.st := by rw [hcs]; exact hinv
        obtain ⟨i1, i2⟩ := ih (cstep cs (.read t c)).1 hinv' hp' hst
        have e : (cstep cs (.read t c)).1.st = cs.st := by rw [hcs]
        rw [e] at i1 i2
        simp only [hcs] at i1 i2 ⊢
        exact ⟨i1, i2⟩
      | error er =>
        have hcs : cstep cs (.read t c) = (cs, some (t, .err er)) := by simp only [cstep, hr]
        have hstep : step cs.st c = (cs.st, .err er) := by rw [step_op hop, hr]
        rw [hcs] at hst
        obtain ⟨i1, i2⟩ := ih cs hinv hp hst
        simp only [hcs, runT, hstep]
        exact ⟨by rw [i1], i2⟩
    | write t =>
      simp only [crun, linearize]
      cases hpo : pendOf cs.pend t with
      | none =>
        have hcs : cstep cs (.write t) = (cs, none) := by simp only [cstep, hpo]
        rw [hcs] at hst
        obtain ⟨i1, i2⟩ := ih cs hinv hp hst
        simp only [hcs]
        exact ⟨i1, i2⟩
      | some cv =>
        obtain ⟨c, v⟩ := cv
        have hmem := pendOf_mem hpo
        obtain ⟨hop, hok⟩ := hp _ hmem
        have hcs : cstep cs (.write t) =
            ({ st := (insert cs.st v).1, pend := cs.pend.filter (·.1 != t) }, some (t, .idx (insert cs.st v).2)) := by
          simp only [cstep, hpo]
        obtain ⟨f1, f2, f3⟩ := insert_spec cs.st v hinv
        have hstep : step cs.st c = ((insert cs.st v).1, .idx (insert cs.st v).2) :=
          two_phase_is_atomic cs.st cs.st c v hop hok (fun _ _ => rfl)
        have hp' : PInv (cstep cs (.write t)).1 := by
          rw [hcs]
          intro p hpm
          have hpm' : p ∈ cs.pend := (List.mem_filter.1 hpm).1
          obtain ⟨hop', hok'⟩ := hp p hpm'
          refine ⟨hop', ?_⟩
          show readPhase (insert cs.st v).1 p.2.1 = .ok p.2.2
          unfold readPhase at hok' ⊢
          rw [readPhaseF_congr _ (valueAt cs.st) p.2.1 ?_]; exact hok'
          intro i hi
          have hlive := readPhaseF_ok_live _ _ _ hop' hok' i hi
          unfold valueAt at hlive ⊢
          rw [f2 i]
          by_cases e : i = (insert cs.st v).2
          · rw [e, f1] at hlive; simp at hlive
          · simp only [e, ↓reduceIte]
        have hinv' : Inv (cstep cs (.write t)).1.st := by rw [hcs]; exact f3
        obtain ⟨i1, i2⟩ := ih (cstep cs (.write t)).1 hinv' hp' hst
        simp only [hcs, runT, hstep] at i1 i2 ⊢
        exact ⟨by rw [i1], i2⟩

/-- Real-time order is respected: a call completes in one of ITS OWN lock sections, so the order of
    completion sections orders two calls that do not overlap in time as they were issued (stated as:
    the linearization lists calls in the order of the sections of the trace — it is a subsequence map
    of the trace, one entry per completing section). -/
theorem linearize_length_le (es : List Ev) (cs : CSt) : (linearize cs es).length ≤ es.length := by
  induction es generalizing cs with
  | nil => exact Nat.le_refl _
  | cons e es ih =>
    cases e with
    | atomic t c => simp only [linearize, List.length_cons]; exact Nat.succ_le_succ (ih _)
    | read t c =>
      simp only [linearize]
      cases readPhase cs.st c with
      | ok v => simp only [List.length_cons]; exact Nat.le_succ_of_le (ih _)
      | error er => simp only [List.length_cons]; exact Nat.succ_le_succ (ih _)
    | write t =>
      simp only [linearize]
      cases pendOf cs.pend t with
      | none => simp only [List.length_cons]; exact Nat.le_succ_of_le (ih _)
      | some cv => simp only [List.length_cons]; exact Nat.succ_le_succ (ih _)

/-! Non-vacuity: a concrete interleaving of two threads satisfying the hypotheses. -/
def vA : Val := { kind := 0, depth := 1, rs := [(0, 4)] }
def exTrace : List Ev :=
  [.atomic 0 (.add vA), .read 1 (.op1 (fun v => .ok v) 0), .atomic 2 (.copy 0),
   .read 2 (.op1 (fun v => .ok v) 0), .write 2, .atomic 2 (.drop 1), .write 1, .atomic 0 (.get 1)]
example : SafeTrace { st := St.init, pend := [] } exTrace := by
  simp [exTrace, SafeTrace, SafeEv, cstep, step, insert, St.init, readPhase, readPhaseF, valueAt, lookup,
    pendOf, isOp, operands, copyMoc, dropMoc, remove]
example : ((crun { st := St.init, pend := [] } exTrace).2.map (·.1)) = [0, 2, 2, 2, 1, 0] := by
  simp [exTrace, crun, cstep, step, insert, St.init, readPhase, readPhaseF, valueAt, lookup,
    pendOf, copyMoc, dropMoc, remove]

end Moc.Store.C13
