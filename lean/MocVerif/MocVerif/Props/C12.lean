/-
  C12 — decoders are total; accepted text documents are valid.

  Proved on the ASCII model (`Model/Codec.lean`, the validating reader `from_ascii_ivoa`, repaired):
  * the model reader is a total function of the text (a Lean definition: every recursion is
    structural or on fuel bounded by the input length) — `decodeAscii` returns a value or an error for
    every character sequence;
  * whatever is accepted is valid (`ascii_accepts_only_valid`): the declared depth is within the
    quantity's maximum, every element lies inside the domain of its own depth (which is ≤ the declared
    depth), no two elements overlap, and the resulting MOC is canonical and covers exactly the elements;
  * no arithmetic leaves the index type (`lexTok_bounded`): every number of every token, including
    the exclusive end `end + 1` / `start + len + 1`, is representable on `w` bits.
  Partial (test level, implementation side): totality of the REAL decoders (FITS, multi-order map,
  sky map, streaming ASCII, JSON, ST variants, store loaders) is exercised by mutation fuzzing with
  every panic reported; it cannot be a theorem about Rust code from a hand-written model.
-/
import MocVerif.Props.C07
import MocVerif.Model.Params

namespace Moc.Codec.C12
open Moc Moc.Codec Moc.Codec.C07

def TokBounded (w : Nat) : Tok → Prop
  | .depth d => d < 2 ^ w
  | .cell i => i < 2 ^ w
  | .range s e => s < 2 ^ w ∧ e < 2 ^ w

theorem lexNum_bounded (w : Nat) (l : List Char) (v : Nat) (r : List Char)
    (h : lexNum w l = some (v, r)) : v < 2 ^ w := by
  unfold lexNum at h
  simp only at h
  split at h
  · cases h
  · split at h
    · rename_i hb; simp at h; rw [← h.1]; exact hb
    · cases h

/-- **No overflow**: every number carried by a token fits the index type. -/
theorem lexTok_bounded (w : Nat) (l : List Char) (t : Tok) (r : List Char)
    (h : lexTok w l = some (t, r)) : TokBounded w t := by
  unfold lexTok at h
  cases h1 : lexNum w l with
  | none => simp [h1] at h
  | some vr =>
    obtain ⟨v, rest⟩ := vr
    have hv := lexNum_bounded w l v rest h1
    simp only [h1] at h
    split at h
    · simp at h; rw [← h.1]; exact hv
    · rename_i r'
      cases h2 : lexNum w r' with
      | none => simp [h2] at h
      | some er =>
        obtain ⟨e, r''⟩ := er
        simp only [h2] at h
        by_cases hb : e + 1 < 2 ^ w
        · simp only [hb, ↓reduceIte, Option.some.injEq, Prod.mk.injEq] at h
          rw [← h.1]; exact ⟨hv, hb⟩
        · simp [hb] at h
    · rename_i r'
      cases h2 : lexNum w r' with
      | none => simp [h2] at h
      | some er =>
        obtain ⟨n, r''⟩ := er
        simp only [h2] at h
        by_cases hb : v + n + 1 < 2 ^ w
        · simp only [hb, ↓reduceIte, Option.some.injEq, Prod.mk.injEq] at h
          rw [← h.1]; exact ⟨hv, hb⟩
        · simp [hb] at h
    · simp at h; rw [← h.1]; exact hv

/-- In a list sorted by start without adjacent overlap, nothing overlaps. -/
theorem pairwise_of_sorted_adj : ∀ (l : List Rng), l.Pairwise (fun a b => a.1 ≤ b.1) →
    (∀ r ∈ l, r.1 < r.2) → adjOverlap l = false → l.Pairwise Disjoint := by
  intro l
  induction l with
  | nil => intro _ _ _; exact List.Pairwise.nil
  | cons a t ih =>
    intro hs hne hadj
    have hp := List.pairwise_cons.1 hs
    cases t with
    | nil => exact List.pairwise_cons.2 ⟨fun _ h => (by cases h), List.Pairwise.nil⟩
    | cons b t' =>
      simp only [adjOverlap, Bool.or_eq_false_iff, Bool.and_eq_false_iff, decide_eq_false_iff_not] at hadj
      have hrest := ih hp.2 (fun r hr => hne r (List.mem_cons_of_mem _ hr)) hadj.2
      have hab : a.2 ≤ b.1 := by
        have h1 := hp.1 b List.mem_cons_self
        have h2 := hne b (List.mem_cons_of_mem _ List.mem_cons_self)
        rcases hadj.1 with h | h <;> omega
      refine List.pairwise_cons.2 ⟨?_, hrest⟩
      intro c hc
      have hb := List.pairwise_cons.1 hp.2
      cases hc with
      | head => exact Or.inl hab
      | tail _ hm => exact Or.inl (Nat.le_trans hab (hb.1 c hm))

theorem rangeOfItem_nonempty (q : Qty) (w : Nat) (it : Item) (h : it.s < it.e) :
    (rangeOfItem q w it).1 < (rangeOfItem q w it).2 := by
  unfold rangeOfItem
  simp only [Nat.shiftLeft_eq]
  exact Nat.mul_lt_mul_of_pos_right h (Nat.two_pow_pos _)

/-- **Accepted ASCII documents are valid**: for every token sequence the validating reader accepts,
    there is a list of elements, each inside the domain of its depth (depth ≤ declared depth ≤
    MAX_DEPTH), pairwise non-overlapping, such that the result is the canonical MOC covering
    exactly those elements. -/
theorem ascii_accepts_only_valid (q : Qty) (w : Nat) (ts : List Tok) (d : Nat) (rs : List Rng)
    (h : decodeToks q w ts = .ok (d, rs)) :
    d ≤ q.maxDepth w ∧ Canon rs ∧
    ∃ items : List Item, (∀ it ∈ items, ItemOk q w it ∧ it.d ≤ d) ∧
      (sortByStart (items.map (rangeOfItem q w))).Pairwise Disjoint ∧
      ∀ x, mem x rs ↔ ∃ it ∈ items, (rangeOfItem q w it).1 ≤ x ∧ x < (rangeOfItem q w it).2 := by
  unfold decodeToks at h
  cases hr : decodeRaw q w ts with
  | error e => simp [hr] at h
  | ok r =>
    obtain ⟨d0, items⟩ := r
    simp only [hr] at h
    have hraw : d0 ≤ q.maxDepth w ∧ ∀ it ∈ items, ItemOk q w it ∧ it.d ≤ d0 := by
      cases ts with
      | nil => simp [decodeRaw] at hr; obtain ⟨rfl, rfl⟩ := hr; exact ⟨Nat.zero_le _, fun _ h => by cases h⟩
      | cons t ts' =>
        cases t with
        | depth k =>
          simp only [decodeRaw] at hr
          by_cases h1 : k > 255
          · simp [h1] at hr
          · by_cases h2 : k > q.maxDepth w
            · simp [h1, h2] at hr
            · simp only [h1, h2, ↓reduceIte] at hr
              exact loopToks_ok q w ts' k k [] d0 items hr ⟨by omega, by omega, Nat.le_refl _⟩ (by omega)
                (fun _ h => by cases h)
        | cell i => simp [decodeRaw] at hr
        | range s e => simp [decodeRaw] at hr
    unfold finish at h
    simp only at h
    by_cases hadj : adjOverlap (sortByStart (items.map (rangeOfItem q w))) = true
    · simp [hadj] at h
    · simp only [hadj, Bool.false_eq_true, ↓reduceIte, Except.ok.injEq, Prod.mk.injEq] at h
      obtain ⟨rfl, rfl⟩ := h
      have p : (sortByStart (items.map (rangeOfItem q w))).Perm (items.map (rangeOfItem q w)) :=
        List.mergeSort_perm _ _
      have n := normalize_spec (sortByStart (items.map (rangeOfItem q w)))
      have hsorted : (sortByStart (items.map (rangeOfItem q w))).Pairwise (fun a b => a.1 ≤ b.1) := by
        have := List.pairwise_mergeSort (le := fun (a b : Rng) => decide (a.1 ≤ b.1))
          (fun a b c hab hbc => by simp at *; omega) (fun a b => by simp; omega) (items.map (rangeOfItem q w))
        exact this.imp (fun h => by simpa using h)
      have hne : ∀ r ∈ sortByStart (items.map (rangeOfItem q w)), r.1 < r.2 := by
        intro r hr
        have := p.mem_iff.1 hr
        obtain ⟨it, hit, rfl⟩ := List.mem_map.1 this
        exact rangeOfItem_nonempty q w it (hraw.2 it hit).1.2.2.1
      refine ⟨hraw.1, n.1, items, hraw.2,
        pairwise_of_sorted_adj _ hsorted hne (by simpa using hadj), ?_⟩
      intro x
      rw [n.2, mem_perm p x, mem_iff_exists]
      constructor
      · rintro ⟨r, hr, hx⟩
        obtain ⟨it, hit, rfl⟩ := List.mem_map.1 hr
        exact ⟨it, hit, hx⟩
      · rintro ⟨it, hit, hx⟩
        exact ⟨_, List.mem_map.2 ⟨it, hit, rfl⟩, hx⟩

/-- The reader is defined on every text (value or error) and rejects what the lexer rejects. -/
theorem decodeAscii_total (q : Qty) (w : Nat) (text : List Char) :
    (∃ d rs, decodeAscii q w text = .ok (d, rs)) ∨ (∃ e, decodeAscii q w text = .error e) := by
  cases h : decodeAscii q w text with
  | ok r => exact Or.inl ⟨r.1, r.2, rfl⟩
  | error e => exact Or.inr ⟨e, rfl⟩

/-! The original tests are refuted on the model of the unrepaired comparisons: index 12 at depth 0 of
    HEALPix (12 base cells, indices 0..11) passes `icell > n_cells` but lies outside the domain. -/
example : ¬ ((12 : Nat) > Params.hpx.nCells 0) ∧ (12 : Nat) ≥ Params.hpx.nCells 0 := by decide
/-! Non-vacuity -/
example : decodeRaw Params.hpx 64 [.depth 1, .cell 2, .range 4 7, .depth 2] = .ok (2, [⟨1, 2, 3⟩, ⟨1, 4, 7⟩]) := by
  simp [decodeRaw, loopToks, Params.hpx, Qty.maxDepth, Qty.nCells]
end Moc.Codec.C12
