/-
  C15 — moc-set queries return exactly the matching identifiers.
  The query model IS the specification on covered sets (`msQuery`); the theorems show that the
  answers of its predicates are exactly "intersects" / "contains the region" and that the repaired
  conversion of a query region for MOCs stored on 32 bits (degrade to depth 13 first) is EXACT,
  whatever the depth and alignment of the region.
-/
import MocVerif.Lemmas.Query
import MocVerif.Lemmas.Degrade
import MocVerif.Model.MocSet

namespace Moc.C15

/-- Intersect mode answers "a common index exists"; included mode answers "region ⊆ MOC". -/
theorem query_predicates (m region : List Rng) (hm : Canon m) (hr : Canon region) :
    (intersects m region = true ↔ ∃ y, mem y m ∧ mem y region) ∧
    (containsAll m region = true ↔ ∀ y, mem y region → mem y m) :=
  ⟨intersects_iff m region hm hr, containsAll_iff m region hm hr⟩

/-- **Degrading the region to the storage depth is exact for intersection**: for every MOC aligned on
    cells of size `2^sh` (i.e. stored at a depth ≤ 13 when `sh = 32`) and EVERY region — smaller
    than a storage cell, strictly inside one, touching only the first or last cell of a range … -/
theorem degrade_exact_intersects (sh : Nat) (m region : List Rng) (hm : Canon m) (hr : Canon region)
    (ha : Aligned (2 ^ sh) m) :
    intersects m (degradedShift sh region) = intersects m region := by
  have sp := degradedShift_spec sh region hr
  have hcl := cellClosed_of_aligned (2 ^ sh) (Nat.pos_of_ne_zero (by simp)) m ha
  have h1 := intersects_iff m (degradedShift sh region) hm sp.1
  have h2 := intersects_iff m region hm hr
  have key : (∃ y, mem y m ∧ mem y (degradedShift sh region)) ↔ (∃ y, mem y m ∧ mem y region) := by
    constructor
    · rintro ⟨x, hxm, hxd⟩
      obtain ⟨y, hy, hxy⟩ := (sp.2 x).1 hxd
      exact ⟨y, hcl x y hxy hxm, hy⟩
    · rintro ⟨y, hym, hyr⟩
      exact ⟨y, hym, (sp.2 y).2 ⟨y, hyr, rfl⟩⟩
  rw [Bool.eq_iff_iff, h1, h2, key]

/-- … and for inclusion. -/
theorem degrade_exact_included (sh : Nat) (m region : List Rng) (hm : Canon m) (hr : Canon region)
    (ha : Aligned (2 ^ sh) m) :
    containsAll m (degradedShift sh region) = containsAll m region := by
  have sp := degradedShift_spec sh region hr
  have hcl := cellClosed_of_aligned (2 ^ sh) (Nat.pos_of_ne_zero (by simp)) m ha
  have h1 := containsAll_iff m (degradedShift sh region) hm sp.1
  have h2 := containsAll_iff m region hm hr
  have key : (∀ y, mem y (degradedShift sh region) → mem y m) ↔ (∀ y, mem y region → mem y m) := by
    constructor
    · intro h y hy
      exact h y ((sp.2 y).2 ⟨y, hy, rfl⟩)
    · intro h x hx
      obtain ⟨y, hy, hxy⟩ := (sp.2 x).1 hx
      exact hcl y x hxy.symm (h y hy)
  rw [Bool.eq_iff_iff, h1, h2, key]

/-- The degraded region is aligned on the storage cells, hence exactly representable on 32 bits
    (its bounds are multiples of `2^32`). -/
theorem degraded_region_aligned (sh : Nat) (region : List Rng) (hr : Canon region) :
    Aligned (2 ^ sh) (degradedShift sh region) := by
  have sp := degradedShift_spec sh region hr
  rw [aligned_iff_cellClosed _ (Nat.pos_of_ne_zero (by simp)) _ sp.1]
  intro x y hxy hx
  rw [sp.2] at hx ⊢
  obtain ⟨z, hz, hxz⟩ := hx
  exact ⟨z, hz, by omega⟩

/-- The defect of the original code, as a theorem: flooring both bounds of a region lying strictly
    inside one storage cell gives an EMPTY range, so a MOC covering that cell was missed. -/
theorem original_floor_counterexample :
    let cell := 2 ^ 32
    let region : Rng := (5 * cell + 7, 5 * cell + 9)          -- inside storage cell 5
    (region.1 >>> 32, region.2 >>> 32) = (5, 5) ∧              -- floored on 32 bits: empty range
    intersects [(5 * cell, 6 * cell)] [region] = true := by
  refine ⟨by decide, ?_⟩
  simp [intersects, intersectsLoop, lastEndD, startIdx]

/-! Non-vacuity -/
example : alignedB (2 ^ 32) [(5 * 2 ^ 32, 6 * 2 ^ 32)] = true ∧ Canon [(5 * 2 ^ 32 + 7, 5 * 2 ^ 32 + 9)] := by
  decide

end Moc.C15
