/-
  C15 — moc-set queries return exactly the matching identifiers.
  The query model IS the specification on covered sets (`msQuery`); the theorems show that the
  answers of its predicates are exactly "intersects" / "contains the region" and that the repaired
  conversion of a query region for MOCs stored on 32 bits (degrade to depth 13 first) is EXACT,
  whatever the depth and alignment of the region.
-/
import MocVerif.Lemmas.Query
import MocVerif.Lemmas.Degrade
import MocVerif.Model.MocSet
import MocVerif.Props.C06

namespace Moc.C15

/-- Intersect mode answers "a common index exists"; included mode answers "region ⊆ MOC". -/
theorem query_predicates (m region : List Rng) (hm : Canon m) (hr : Canon region) :
    (intersects m region = true ↔ ∃ y, mem y m ∧ mem y region) ∧
    (containsAll m region = true ↔ ∀ y, mem y region → mem y m) :=
  ⟨intersects_iff m region hm hr, containsAll_iff m region hm hr⟩

/-- **Degrading the region to the storage depth is exact for intersection**: for every MOC aligned on
    cells of size `2^sh` (i.e. stored at a depth ≤ 13 when `sh = 32`) and EVERY region — smaller
    than a storage cell, strictly inside one, touching only the first or last cell of a range … -/
theorem degrade_exact_intersects (sh : Nat) (m region : List Rng) (hm : Canon m) (hr : Canon region)
    (ha : Aligned (2 ^ sh) m) :
    intersects m (degradedShift sh region) = intersects m region := by
  have sp := degradedShift_spec sh region hr
  have hcl := cellClosed_of_aligned (2 ^ sh) (Nat.pos_of_ne_zero (by simp)) m ha
  have h1 := intersects_iff m (degradedShift sh region) hm sp.1
  have h2 := intersects_iff m region hm hr
  have key : (∃ y, mem y m ∧ mem y (degradedShift sh region)) ↔ (∃ y, mem y m ∧ mem y region) := by
    constructor
    · rintro ⟨x, hxm, hxd⟩
      obtain ⟨y, hy, hxy⟩ := (sp.2 x).1 hxd
      exact ⟨y, hcl x y hxy hxm, hy⟩
    · rintro ⟨y, hym, hyr⟩
      exact ⟨y, hym, (sp.2 y).2 ⟨y, hyr, rfl⟩⟩
  rw [Bool.eq_iff_iff, h1, h2, key]

/-- … and for inclusion. -/
theorem degrade_exact_included (sh : Nat) (m region : List Rng) (hm : Canon m) (hr : Canon region)
    (ha : Aligned (2 ^ sh) m) :
    containsAll m (degradedShift sh region) = containsAll m region := by
  have sp := degradedShift_spec sh region hr
  have hcl := cellClosed_of_aligned (2 ^ sh) (Nat.pos_of_ne_zero (by simp)) m ha
  have h1 := containsAll_iff m (degradedShift sh region) hm sp.1
  have h2 := containsAll_iff m region hm hr
  have key : (∀ y, mem y (degradedShift sh region) → mem y m) ↔ (∀ y, mem y region → mem y m) := by
    constructor
    · intro h y hy
      exact h y ((sp.2 y).2 ⟨y, hy, rfl⟩)
    · intro h x hx
      obtain ⟨y, hy, hxy⟩ := (sp.2 x).1 hx
      exact hcl y x hxy.symm (h y hy)
  rw [Bool.eq_iff_iff, h1, h2, key]

/-- The degraded region is aligned on the storage cells, hence exactly representable on 32 bits
    (its bounds are multiples of `2^32`). -/
theorem degraded_region_aligned (sh : Nat) (region : List Rng) (hr : Canon region) :
    Aligned (2 ^ sh) (degradedShift sh region) := by
  have sp := degradedShift_spec sh region hr
  rw [aligned_iff_cellClosed _ (Nat.pos_of_ne_zero (by simp)) _ sp.1]
  intro x y hxy hx
  rw [sp.2] at hx ⊢
  obtain ⟨z, hz, hxz⟩ := hx
  exact ⟨z, hz, by omega⟩

/-- The defect of the original code, as a theorem: flooring both bounds of a region lying strictly
    inside one storage cell gives an EMPTY range, so a MOC covering that cell was missed. -/
theorem original_floor_counterexample :
    let cell := 2 ^ 32
    let region : Rng := (5 * cell + 7, 5 * cell + 9)          -- inside storage cell 5
    (region.1 >>> 32, region.2 >>> 32) = (5, 5) ∧              -- floored on 32 bits: empty range
    intersects [(5 * cell, 6 * cell)] [region] = true := by
  refine ⟨by decide, ?_⟩
  simp [intersects, intersectsLoop, lastEndD, startIdx]

/-- `query` returns exactly the identifiers of the selected entries, in file order: the selection predicate
    is the one `union` uses. -/
theorem query_is_selection (s : MocSet) (region : List Rng) (inc dep : Bool) :
    msQuery s region inc dep = (s.entries.filter (msSelected region inc dep)).map (·.id) := rfl

/-- **Position query**: the selected MOCs are exactly the valid (or deprecated, when requested) ones that
    contain the position's deepest-level index. -/
theorem queryPos_sem (s : MocSet) (x : Nat) (dep : Bool) (hs : ∀ e ∈ s.entries, Canon e.ranges) (id : Nat) :
    id ∈ msQueryPos s x dep ↔
      ∃ e ∈ s.entries, e.id = id ∧ (e.status = 3 ∨ (dep = true ∧ e.status = 2)) ∧ mem x e.ranges := by
  unfold msQueryPos
  simp only [List.mem_map, List.mem_filter, Bool.and_eq_true, Bool.or_eq_true, beq_iff_eq]
  constructor
  · rintro ⟨e, ⟨he, hst, hc⟩, rfl⟩
    exact ⟨e, he, rfl, hst, (containsVal_iff e.ranges (hs e he) x).1 hc⟩
  · rintro ⟨e, he, rfl, hst, hm⟩
    exact ⟨e, ⟨he, hst, (containsVal_iff e.ranges (hs e he) x).2 hm⟩, rfl⟩

/-- **`union`** returns exactly the union of the selected MOCs at the requested output depth: canonical, and an
    index is covered iff its output-depth cell contains an index covered by a selected MOC. -/
theorem unionAt_sem (sh : Nat) (es : List MsEntry) (hs : ∀ e ∈ es, Canon e.ranges) :
    Canon (unionAt sh es) ∧
    ∀ x, mem x (unionAt sh es) ↔ ∃ e ∈ es, ∃ y, mem y e.ranges ∧ x / 2 ^ sh = y / 2 ^ sh := by
  unfold unionAt
  have n := normalize_spec ((es.flatMap (·.ranges)).map (degradeRange sh))
  refine ⟨n.1, fun x => ?_⟩
  rw [n.2, mem_iff_exists]
  have hc : 0 < 2 ^ sh := Nat.pos_of_ne_zero (by simp)
  constructor
  · rintro ⟨q, hq, hx⟩
    obtain ⟨r, hr, rfl⟩ := List.mem_map.1 hq
    obtain ⟨e, he, hre⟩ := List.mem_flatMap.1 hr
    rw [degradeRange_eq] at hx
    obtain ⟨y, h1, h2, h3⟩ := (mem_degraded_range (2 ^ sh) hc r.1 r.2 x (canon_nonempty (hs e he) r hre)).1 hx
    exact ⟨e, he, y, (mem_iff_exists y e.ranges).2 ⟨r, hre, h1, h2⟩, h3⟩
  · rintro ⟨e, he, y, hy, h3⟩
    obtain ⟨r, hre, h1, h2⟩ := (mem_iff_exists y e.ranges).1 hy
    refine ⟨degradeRange sh r, List.mem_map.2 ⟨r, List.mem_flatMap.2 ⟨e, he, hre⟩, rfl⟩, ?_⟩
    rw [degradeRange_eq]
    exact (mem_degraded_range (2 ^ sh) hc r.1 r.2 x (canon_nonempty (hs e he) r hre)).2 ⟨y, h1, h2, h3⟩

/-- … and it is what the tool's `RangeMocBuilder` computes from the ranges of the selected MOCs pushed one
    after the other, for every buffer capacity. -/
theorem unionAt_is_builder (sh cap : Nat) (es : List MsEntry) (hs : ∀ e ∈ es, Canon e.ranges) :
    unionAt sh es = fromMaxdepthRanges sh cap (es.flatMap (·.ranges)) := by
  unfold unionAt
  rw [C06.rangeBuilder_build]
  intro r hr
  obtain ⟨e, he, hre⟩ := List.mem_flatMap.1 hr
  exact canon_nonempty (hs e he) r hre

/-- `union … moc` / `cone`: the MOCs united are exactly the ones `query` reports. -/
theorem union_query_same_selection (s : MocSet) (region : List Rng) (inc dep : Bool) (sh : Nat) :
    msUnionQuery s region inc dep sh = unionAt sh (s.entries.filter (msSelected region inc dep)) ∧
    msQuery s region inc dep = (s.entries.filter (msSelected region inc dep)).map (·.id) := ⟨rfl, rfl⟩

/-! Non-vacuity -/
example : alignedB (2 ^ 32) [(5 * 2 ^ 32, 6 * 2 ^ 32)] = true ∧ Canon [(5 * 2 ^ 32 + 7, 5 * 2 ^ 32 + 9)] := by
  decide

end Moc.C15
