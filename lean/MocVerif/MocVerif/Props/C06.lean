/-
  C06 — builders and n-ary operators are insensitive to order, duplication and batching.
-/
import MocVerif.Lemmas.Builders

namespace Moc.C06

/-- **Fixed-depth cell builder** (`FixedDepthMocBuilder`, `from_fixed_depth_cells`): for EVERY sequence
    of cells and EVERY buffer capacity, the MOC built is the normal form of the union of the pushed
    cells.  The right-hand side mentions neither the arrival order, nor duplicates, nor `cap`. -/
theorem fixedDepth_build (sh cap : Nat) (cells : List Nat) :
    fromFixedDepthCells sh cap cells = normalize (cells.map fun c => (c <<< sh, (c + 1) <<< sh)) :=
  fromFixedDepthCells_eq sh cap cells

/-- Corollaries: permutation-, duplication- and capacity-invariance. -/
theorem build_perm (sh cap cap' : Nat) (a b : List Nat) (h : ∀ c, c ∈ a ↔ c ∈ b) :
    fromFixedDepthCells sh cap a = fromFixedDepthCells sh cap' b := by
  rw [fixedDepth_build, fixedDepth_build]
  have na := normalize_spec (a.map fun c => (c <<< sh, (c + 1) <<< sh))
  have nb := normalize_spec (b.map fun c => (c <<< sh, (c + 1) <<< sh))
  exact Canon.ext na.1 nb.1 (fun x => by rw [na.2, nb.2, mem_map_cellRange, mem_map_cellRange, h])

theorem build_dedup (sh cap : Nat) (a : List Nat) :
    fromFixedDepthCells sh cap (a ++ a) = fromFixedDepthCells sh cap a :=
  build_perm sh cap cap (a ++ a) a (fun c => by simp)

theorem build_cap_irrelevant (sh cap cap' : Nat) (a : List Nat) :
    fromFixedDepthCells sh cap a = fromFixedDepthCells sh cap' a :=
  build_perm sh cap cap' a a (fun _ => Iff.rfl)

/-- The result is canonical and covers exactly the pushed cells. -/
theorem build_sem (sh cap : Nat) (cells : List Nat) :
    Canon (fromFixedDepthCells sh cap cells) ∧
    ∀ x, mem x (fromFixedDepthCells sh cap cells) ↔ x / 2 ^ sh ∈ cells := by
  rw [fixedDepth_build]
  have n := normalize_spec (cells.map fun c => (c <<< sh, (c + 1) <<< sh))
  exact ⟨n.1, fun x => by rw [n.2, mem_map_cellRange]⟩

/-- **N-ary operators** (`kway_or/and/xor` and `_it` variants): for every list of canonical MOCs — of
    ANY length, so whatever the 4-by-4 grouping and its recursion do — the result is the left fold of
    the binary operator (empty list ↦ `(0, ∅)`, one element ↦ itself). -/
theorem kwayOr_eq_fold (l : List DMoc) (hl : ∀ m ∈ l, Canon m.2) : kway opOr l = foldOp opOr l :=
  kway_eq_fold opOr CanonM opOr_P opOr_assoc l hl
theorem kwayAnd_eq_fold (l : List DMoc) (hl : ∀ m ∈ l, Canon m.2) : kway opAnd l = foldOp opAnd l :=
  kway_eq_fold opAnd CanonM opAnd_P opAnd_assoc l hl
theorem kwayXor_eq_fold (l : List DMoc) (hl : ∀ m ∈ l, Canon m.2) : kway opXor l = foldOp opXor l :=
  kway_eq_fold opXor CanonM opXor_P opXor_assoc l hl

/-! Non-vacuity -/
example : ∀ m ∈ ([(2, [(0, 4)]), (1, [(8, 12)]), (3, [(2, 9)]), (0, []), (2, [(0, 16)])] : List DMoc), Canon m.2 := by
  intro m hm
  simp at hm
  rcases hm with rfl | rfl | rfl | rfl | rfl <;> decide
example : cellsToRanges 2 [0, 1, 2, 2, 5] = [(0, 12), (20, 24)] := by decide

end Moc.C06
