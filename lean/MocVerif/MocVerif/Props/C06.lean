/-
  C06 — builders and n-ary operators are insensitive to order, duplication and batching.
-/
import MocVerif.Lemmas.Builders
import MocVerif.Lemmas.RangeBuilder

namespace Moc.C06

/-- **Fixed-depth cell builder** (`FixedDepthMocBuilder`, `from_fixed_depth_cells`): for EVERY sequence
    of cells and EVERY buffer capacity, the MOC built is the normal form of the union of the pushed
    cells.  The right-hand side mentions neither the arrival order, nor duplicates, nor `cap`. -/
theorem fixedDepth_build (sh cap : Nat) (cells : List Nat) :
    fromFixedDepthCells sh cap cells = normalize (cells.map fun c => (c <<< sh, (c + 1) <<< sh)) :=
  fromFixedDepthCells_eq sh cap cells

/-- Corollaries: permutation-, duplication- and capacity-invariance. -/
theorem build_perm (sh cap cap' : Nat) (a b : List Nat) (h : ∀ c, c ∈ a ↔ c ∈ b) :
    fromFixedDepthCells sh cap a = fromFixedDepthCells sh cap' b := by
  rw [fixedDepth_build, fixedDepth_build]
  have na := normalize_spec (a.map fun c => (c <<< sh, (c + 1) <<< sh))
  have nb := normalize_spec (b.map fun c => (c <<< sh, (c + 1) <<< sh))
  exact Canon.ext na.1 nb.1 (fun x => by rw [na.2, nb.2, mem_map_cellRange, mem_map_cellRange, h])

theorem build_dedup (sh cap : Nat) (a : List Nat) :
    fromFixedDepthCells sh cap (a ++ a) = fromFixedDepthCells sh cap a :=
  build_perm sh cap cap (a ++ a) a (fun c => by simp)

theorem build_cap_irrelevant (sh cap cap' : Nat) (a : List Nat) :
    fromFixedDepthCells sh cap a = fromFixedDepthCells sh cap' a :=
  build_perm sh cap cap' a a (fun _ => Iff.rfl)

/-- The result is canonical and covers exactly the pushed cells. -/
theorem build_sem (sh cap : Nat) (cells : List Nat) :
    Canon (fromFixedDepthCells sh cap cells) ∧
    ∀ x, mem x (fromFixedDepthCells sh cap cells) ↔ x / 2 ^ sh ∈ cells := by
  rw [fixedDepth_build]
  have n := normalize_spec (cells.map fun c => (c <<< sh, (c + 1) <<< sh))
  exact ⟨n.1, fun x => by rw [n.2, mem_map_cellRange]⟩

/-- **Appending to an existing MOC** (`append_fixed_depth_cells`): same MOC as building the union from scratch,
    whatever the order, duplicates and capacity. -/
theorem append_sem (sh cap : Nat) (moc : List Rng) (hm : Canon moc) (cells : List Nat) :
    Canon (appendFixedDepthCells sh cap moc cells) ∧
    ∀ x, mem x (appendFixedDepthCells sh cap moc cells) ↔ mem x moc ∨ x / 2 ^ sh ∈ cells :=
  appendFixedDepthCells_spec sh cap moc hm cells

/-- … in particular it equals the union of the MOC with the MOC built from the cells alone. -/
theorem append_eq_union (sh cap cap' : Nat) (moc : List Rng) (hm : Canon moc) (cells : List Nat) :
    appendFixedDepthCells sh cap moc cells = union moc (fromFixedDepthCells sh cap' cells) := by
  have a := append_sem sh cap moc hm cells
  have b := build_sem sh cap' cells
  have u := union_spec moc _ hm b.1
  exact Canon.ext a.1 u.1 (fun x => by rw [a.2, u.2, b.2])

/-- **Range builder** (`RangeMocBuilder`, `from_maxdepth_ranges`, hence `from_cells` and the time /
    frequency range builders): for EVERY sequence of non-empty ranges and EVERY buffer capacity, the MOC
    built is the normal form of the union of the pushed ranges degraded to the builder depth. -/
theorem rangeBuilder_build (sh cap : Nat) (rs : List Rng) (hr : ∀ r ∈ rs, r.1 < r.2) :
    fromMaxdepthRanges sh cap rs = normalize (rs.map (degradeRange sh)) :=
  fromMaxdepthRanges_eq sh cap rs hr

/-- Canonical, and a point is covered iff it shares its depth-`d` cell with a point of a pushed range. -/
theorem rangeBuilder_sem (sh cap : Nat) (rs : List Rng) (hr : ∀ r ∈ rs, r.1 < r.2) :
    Canon (fromMaxdepthRanges sh cap rs) ∧
    ∀ x, mem x (fromMaxdepthRanges sh cap rs) ↔ ∃ r ∈ rs, ∃ y, r.1 ≤ y ∧ y < r.2 ∧ x / 2 ^ sh = y / 2 ^ sh := by
  rw [rangeBuilder_build sh cap rs hr]
  have n := normalize_spec (rs.map (degradeRange sh))
  refine ⟨n.1, fun x => ?_⟩
  rw [n.2, mem_iff_exists]
  have hc : 0 < 2 ^ sh := Nat.pos_of_ne_zero (by simp)
  constructor
  · rintro ⟨q, hq, hx⟩
    obtain ⟨r, hr', rfl⟩ := List.mem_map.1 hq
    rw [degradeRange_eq] at hx
    exact ⟨r, hr', (mem_degraded_range (2 ^ sh) hc r.1 r.2 x (hr r hr')).1 hx⟩
  · rintro ⟨r, hr', hy⟩
    refine ⟨degradeRange sh r, List.mem_map.2 ⟨r, hr', rfl⟩, ?_⟩
    rw [degradeRange_eq]
    exact (mem_degraded_range (2 ^ sh) hc r.1 r.2 x (hr r hr')).2 hy

/-- **Every input**, including empty ranges (`start >= end`, the empty set: a zero-duration observation, a
    zero-width band) — they contribute nothing whatever their alignment on the builder depth.  Before the
    repair (/repo "fix: RangeMocBuilder kept empty input ranges") an aligned empty range was kept as an empty
    range of the MOC and an unaligned one became a whole cell. -/
theorem rangeBuilder_sem_all (sh cap : Nat) (rs : List Rng) :
    Canon (fromMaxdepthRanges sh cap rs) ∧
    ∀ x, mem x (fromMaxdepthRanges sh cap rs) ↔ ∃ r ∈ rs, ∃ y, r.1 ≤ y ∧ y < r.2 ∧ x / 2 ^ sh = y / 2 ^ sh := by
  have e : fromMaxdepthRanges sh cap rs = fromMaxdepthRanges sh cap (rs.filter fun r => decide (r.1 < r.2)) := by
    rw [fromMaxdepthRanges_eq_all, fromMaxdepthRanges_eq_all, List.filter_filter]; simp
  have s := rangeBuilder_sem sh cap (rs.filter fun r => decide (r.1 < r.2))
    (fun r hr => by simpa using (List.mem_filter.1 hr).2)
  rw [e]
  refine ⟨s.1, fun x => ?_⟩
  rw [s.2]
  constructor
  · rintro ⟨r, hr, hy⟩; exact ⟨r, (List.mem_filter.1 hr).1, hy⟩
  · rintro ⟨r, hr, y, h1, h2, h3⟩
    exact ⟨r, List.mem_filter.2 ⟨hr, by simp; omega⟩, y, h1, h2, h3⟩

/-- Order-, duplication-, overlap- and capacity-invariance of the range builder: two sequences of ranges
    covering the same points give the same MOC, whatever the two capacities. -/
theorem rangeBuilder_perm (sh cap cap' : Nat) (a b : List Rng) (ha : ∀ r ∈ a, r.1 < r.2) (hb : ∀ r ∈ b, r.1 < r.2)
    (h : ∀ y, mem y a ↔ mem y b) : fromMaxdepthRanges sh cap a = fromMaxdepthRanges sh cap' b := by
  have sa := rangeBuilder_sem sh cap a ha
  have sb := rangeBuilder_sem sh cap' b hb
  refine Canon.ext sa.1 sb.1 (fun x => ?_)
  rw [sa.2, sb.2]
  constructor
  · rintro ⟨r, hr, y, h1, h2, h3⟩
    obtain ⟨q, hq, hy⟩ := (mem_iff_exists y b).1 ((h y).1 ((mem_iff_exists y a).2 ⟨r, hr, h1, h2⟩))
    exact ⟨q, hq, y, hy.1, hy.2, h3⟩
  · rintro ⟨r, hr, y, h1, h2, h3⟩
    obtain ⟨q, hq, hy⟩ := (mem_iff_exists y a).1 ((h y).2 ((mem_iff_exists y b).2 ⟨r, hr, h1, h2⟩))
    exact ⟨q, hq, y, hy.1, hy.2, h3⟩

/-- `from_cells`: (depth, cell) pairs are pushed as ranges; the result covers exactly the depth-`d` cells
    meeting one of the given cells. -/
theorem fromCells_sem (sh cap : Nat) (cells : List (Nat × Nat)) (x : Nat) :
    mem x (fromCells sh cap cells) ↔
      ∃ c ∈ cells, ∃ y, c.2 <<< c.1 ≤ y ∧ y < (c.2 + 1) <<< c.1 ∧ x / 2 ^ sh = y / 2 ^ sh := by
  unfold fromCells
  have hne : ∀ r ∈ cells.map (fun c => (c.2 <<< c.1, (c.2 + 1) <<< c.1)), r.1 < r.2 := by
    intro r hr
    obtain ⟨c, _, rfl⟩ := List.mem_map.1 hr
    exact shl_lt_shl c.1 c.2 (c.2 + 1) (Nat.lt_succ_self _)
  rw [(rangeBuilder_sem sh cap _ hne).2]
  constructor
  · rintro ⟨r, hr, hy⟩
    obtain ⟨c, hc, rfl⟩ := List.mem_map.1 hr
    exact ⟨c, hc, hy⟩
  · rintro ⟨c, hc, hy⟩
    exact ⟨_, List.mem_map.2 ⟨c, hc, rfl⟩, hy⟩

/-- **N-ary operators** (`kway_or/and/xor` and `_it` variants): for every list of canonical MOCs — of
    ANY length, so whatever the 4-by-4 grouping and its recursion do — the result is the left fold of
    the binary operator (empty list ↦ `(0, ∅)`, one element ↦ itself). -/
theorem kwayOr_eq_fold (l : List DMoc) (hl : ∀ m ∈ l, Canon m.2) : kway opOr l = foldOp opOr l :=
  kway_eq_fold opOr CanonM opOr_P opOr_assoc l hl
theorem kwayAnd_eq_fold (l : List DMoc) (hl : ∀ m ∈ l, Canon m.2) : kway opAnd l = foldOp opAnd l :=
  kway_eq_fold opAnd CanonM opAnd_P opAnd_assoc l hl
theorem kwayXor_eq_fold (l : List DMoc) (hl : ∀ m ∈ l, Canon m.2) : kway opXor l = foldOp opXor l :=
  kway_eq_fold opXor CanonM opXor_P opXor_assoc l hl

/-! Non-vacuity -/
example : ∀ m ∈ ([(2, [(0, 4)]), (1, [(8, 12)]), (3, [(2, 9)]), (0, []), (2, [(0, 16)])] : List DMoc), Canon m.2 := by
  intro m hm
  simp at hm
  rcases hm with rfl | rfl | rfl | rfl | rfl <;> decide
example : cellsToRanges 2 [0, 1, 2, 2, 5] = [(0, 12), (20, 24)] := by decide
example : ∀ r ∈ ([(9, 10), (1, 3), (2, 6), (30, 31)] : List Rng), r.1 < r.2 := by decide

end Moc.C06
