/-
  C11 — space-time MOC serialisation: the FITS v2 row encoding is inverted exactly.

  `fits_st_roundtrip`: for EVERY list of elements whose time part and space part are non-empty and
  whose space rows are not flagged (space indices below 2^(w-1): true of every HEALPix index), reading
  the rows written gives back exactly the same elements — whatever the number of elements, the number
  of ranges per part and the values of the time bounds (including bounds using the highest usable
  bits).  `fits_st_needs_space`: the hypothesis is necessary — an element with an empty space part is
  fused with the next one (proved counterexample), which is why the library never emits one.
  Also (session 5): the ST ASCII document at the CHARACTER level (`st_ascii_text_lex`,
  `st_ascii_text_roundtrip`) and the whole ST FITS file (`fits_st_file_roundtrip`: header cards, flagged rows,
  padding; file → rows → elements).
  Partial: the ST JSON reader (serde_json) and the pre-v2 ST FITS reader are exercised by direct round trips
  and by the model reader on the real (reduced) text.
-/
import MocVerif.Model.STCodec
import MocVerif.Model.STText
import MocVerif.Model.ST
import MocVerif.Props.C07
import MocVerif.Lemmas.TextST
import MocVerif.Lemmas.Fits
import MocVerif.Lemmas.FitsRead

namespace Moc.STCodec.C11
open Moc Moc.STCodec

def ElemOk (w : Nat) (e : Elem) : Prop :=
  e.1 ≠ [] ∧ e.2 ≠ [] ∧ ∀ r ∈ e.2, isT w r = false

theorem isT_setFlag (w : Nat) (r : Rng) : isT w (setFlag w r) = true := by
  simp [isT, setFlag]

theorem unflag_setFlag (w : Nat) (r : Rng) : unflag w (setFlag w r) = r := by
  simp [unflag, setFlag]

/-- Flagged rows while no space row has been read: they extend the time part. -/
theorem go_time (w : Nat) (ts : List Rng) (rest t : List Rng) :
    go w (ts.map (setFlag w) ++ rest) t [] = go w rest (ts.reverse ++ t) [] := by
  induction ts generalizing t with
  | nil => rfl
  | cons a ta ih =>
    simp only [List.map_cons, List.cons_append, go, isT_setFlag, ↓reduceIte, List.isEmpty_nil,
      unflag_setFlag]
    rw [ih]; simp

/-- Unflagged rows extend the space part. -/
theorem go_space (w : Nat) (sp : List Rng) (rest t s : List Rng) (h : ∀ r ∈ sp, isT w r = false) :
    go w (sp ++ rest) t s = go w rest t (sp.reverse ++ s) := by
  induction sp generalizing s with
  | nil => rfl
  | cons a sa ih =>
    have ha := h a List.mem_cons_self
    simp only [List.cons_append, go, ha, Bool.false_eq_true, ↓reduceIte]
    rw [ih _ (fun r hr => h r (List.mem_cons_of_mem _ hr))]; simp

theorem go_elems (w : Nat) (es : List Elem) (hes : ∀ e ∈ es, ElemOk w e) :
    ∀ (e : Elem), ElemOk w e → go w (e.2 ++ encodeST w es) e.1.reverse [] = e :: es := by
  induction es with
  | nil =>
    intro e he
    rw [go_space w e.2 _ _ _ he.2.2]
    have h2 := he.2.1
    simp [encodeST, go, h2]
  | cons e' es' ih =>
    intro e he
    rw [go_space w e.2 _ _ _ he.2.2]
    have he' := hes e' List.mem_cons_self
    obtain ⟨t1, s1⟩ := e'
    cases t1 with
    | nil => exact absurd rfl he'.1
    | cons a ta =>
      have hs : (e.2.reverse ++ []).isEmpty = false := by
        have h2 := he.2.1
        simp [h2]
      simp only [encodeST, encElem, List.map_cons, List.cons_append, go, isT_setFlag, ↓reduceIte, hs,
        Bool.false_eq_true, unflag_setFlag, List.append_assoc]
      rw [go_time w ta _ [a]]
      have := ih (fun x hx => hes x (List.mem_cons_of_mem _ hx)) (a :: ta, s1) he'
      simp only [List.reverse_cons] at this
      rw [this]; simp

/-- **FITS v2 ST rows round trip**, for every list of elements. -/
theorem fits_st_roundtrip (w : Nat) (es : List Elem) (hes : ∀ e ∈ es, ElemOk w e) :
    decodeST w (encodeST w es) = es := by
  cases es with
  | nil => simp [decodeST, encodeST, go]
  | cons e es' =>
    unfold decodeST
    simp only [encodeST, encElem, List.append_assoc]
    rw [go_time w e.1 _ []]
    simp only [List.append_nil]
    exact go_elems w es' (fun x hx => hes x (List.mem_cons_of_mem _ hx)) e (hes e List.mem_cons_self)

/-- The empty ST-MOC has no row and decodes to no element. -/
theorem fits_st_empty (w : Nat) : decodeST w (encodeST w []) = [] := by
  simp [decodeST, encodeST, go]

/-- The row count announced in the header is the total number of ranges. -/
theorem fits_st_rows (w : Nat) (es : List Elem) :
    (encodeST w es).length = (es.map fun e => e.1.length + e.2.length).sum := by
  induction es with
  | nil => rfl
  | cons e es ih => simp [encodeST, encElem, ih]; omega

/-- The hypothesis "non-empty space part" is necessary: two elements, the first without space rows,
    come back as ONE element. -/
theorem fits_st_needs_space :
    decodeST 64 (encodeST 64 [([(0, 1)], []), ([(2, 3)], [(0, 4)])]) = [([(0, 1), (2, 3)], [(0, 4)])] := by
  simp [decodeST, encodeST, encElem, go, isT, setFlag, unflag, flag]

/-! Non-vacuity: bounds using the highest usable bit. -/
example : ElemOk 64 ([(2 ^ 62, 2 ^ 62 + 5)], [(0, 4), (8, 12)]) := by
  refine ⟨by simp, by simp, ?_⟩
  intro r hr
  simp at hr
  rcases hr with rfl | rfl <;> simp [isT, flag]

/-! ### The whole ST FITS file -/
section FitsFile
open Moc.Fits Moc.Codec

/-- **The ST-MOC FITS file, end to end**: the file written for any list of well-formed elements — two
    header blocks (`MOCDIM = 'TIME.SPACE'`, both depths), one `(start, end)` row pair per range with
    the time ranges flagged, zero padding — is made of 2880-byte blocks, declares `NAXIS2` = twice the
    number of ranges, and the rows extracted from its `NAXIS1 × NAXIS2` data bytes are decoded by the
    reader's single pass to EXACTLY the elements written. -/
theorem fits_st_file_roundtrip (w d1 d2 : Nat) (es : List Elem) (hes : ∀ e ∈ es, ElemOk w e)
    (h1 : d1 ≤ 255) (h2 : d2 ≤ 255) (hw : w / 8 < 10 ^ 20) (hn : (encodeST w es).length <<< 1 < 10 ^ 20)
    (hfit : ∀ r ∈ encodeST w es, r.1 < 256 ^ (w / 8) ∧ r.2 < 256 ^ (w / 8)) :
    (stFile w d1 d2 (encodeST w es)).length % 2880 = 0 ∧
    (readStructure (stFile w d1 d2 (encodeST w es))).map (fun x => (x.1, x.2.1, decodeST w x.2.2))
      = some (w / 8, (encodeST w es).length <<< 1, es) := by
  have hwl : (encodeWords (encodeST w es)).length = (encodeST w es).length <<< 1 := by
    rw [encodeWords_length, Nat.shiftLeft_eq, Nat.pow_one, Nat.mul_comm]
  have hc : (stCards w d1 d2).length ≤ 27 := by simp [stCards]
  refine ⟨fileOf_blocks w _ _ (stCards_80 w d1 d2 h1 h2) hc hw (by rw [hwl]; exact hn), ?_⟩
  obtain ⟨hr, _⟩ := fileOf_words w (stCards w d1 d2) (encodeWords (encodeST w es)) (stCards_80 w d1 d2 h1 h2) hc hw
    (by rw [hwl]; exact hn) (by
      intro x hx
      obtain ⟨r, hr, h | h⟩ := mem_encodeWords _ x hx
      · rw [h]; exact (hfit r hr).1
      · rw [h]; exact (hfit r hr).2)
  unfold readStructure stFile
  rw [hr, hwl]
  simp only [Option.map_some, decodeWords_encodeWords, fits_st_roundtrip w es hes]

/-- **The header of the ST file is read back**: the values the reader extracts from the table header of the file
    written for an ST-MOC — row width, row count, `MOCDIM = 'TIME.SPACE'`, `ORDERING`, the time depth `MOCORD_T`,
    the space depth `MOCORD_S`, `TFORM1` — are the ones of the ST-MOC, whatever its two depths and number of rows. -/
theorem fits_st_file_header (w d1 d2 : Nat) (rows : List Rng) (h1 : d1 ≤ 255) (h2 : d2 ≤ 255)
    (hw : w / 8 < 10 ^ 20) (hn : rows.length <<< 1 < 10 ^ 20) :
    decodeHdrST ((((stFile w d1 d2 rows).drop 2880).take 2880).map Char.ofNat) =
      some (w / 8, rows.length <<< 1, ['T', 'I', 'M', 'E', '.', 'S', 'P', 'A', 'C', 'E'], ['R', 'A', 'N', 'G', 'E'],
            d1, d2, tform w) := by
  have hwl : (encodeWords rows).length = rows.length <<< 1 := by
    rw [encodeWords_length, Nat.shiftLeft_eq, Nat.pow_one, Nat.mul_comm]
  have hp := block_length _ primaryCards_80 (by decide)
  have ht80 := tableCardsOf_80 w (encodeWords rows).length (stCards w d1 d2) (stCards_80 w d1 d2 h1 h2) hw (by rw [hwl]; exact hn)
  have ht := block_length _ ht80 (tableCardsOf_count w (encodeWords rows).length (stCards w d1 d2) (by simp [stCards]))
  have hl1 : ((block primaryCards).map Char.toNat).length = 2880 := by simp only [List.length_map, hp]
  have hl2 : ((block (tableCardsOf w (encodeWords rows).length (stCards w d1 d2))).map Char.toNat).length = 2880 := by
    simp only [List.length_map, ht]
  have hb : (((stFile w d1 d2 rows).drop 2880).take 2880).map Char.ofNat
      = block (tableCardsOf w (encodeWords rows).length (stCards w d1 d2)) := by
    unfold stFile fileOf
    simp only []
    rw [List.map_append, List.append_assoc, List.append_assoc, List.drop_left' hl1, List.take_left' hl2, map_ofNat_toNat]
  rw [hb, hwl]
  exact decodeHdrST_written w d1 d2 (rows.length <<< 1) h1 h2 hw hn

/-- **`compute_n_ranges` is the number of row pairs of the ST FITS file**: the count the writer declares
    (`NAXIS2 = 2 × compute_n_ranges`) is the number of ranges it writes, for every ST-MOC. -/
theorem st_row_count (w : Nat) (m : List Elem) : (encodeST w m).length = Moc.nRangesST m := by
  induction m with
  | nil => rfl
  | cons e t ih =>
    simp only [encodeST, encElem, List.length_append, List.length_map, ih, Moc.nRangesST]

end FitsFile

/-! ### ASCII serialisation of ST-MOCs (token level) -/
section Text
open Moc.STText Moc.Codec

theorem normalize_nil : normalize ([] : List Rng) = [] := by
  have n := normalize_spec []
  cases h : normalize ([] : List Rng) with
  | nil => rfl
  | cons r t =>
    have c := n.1; rw [h] at c
    have := (n.2 r.1).1 (by rw [h]; exact Or.inl ⟨Nat.le_refl _, c.2.1⟩)
    cases this

/-- The depth-only part `d/` decodes to the empty MOC of depth `d`. -/
theorem decode_depth_only (q : Qty) (w d : Nat) (h : d ≤ q.maxDepth w ∧ d ≤ 255) :
    decodeToks q w [Tok.depth d] = .ok (d, []) := by
  have h1 : ¬ (d > 255) := by omega
  have h2 : ¬ (d > q.maxDepth w) := by omega
  simp only [decodeToks, decodeRaw, h1, h2, ↓reduceIte, loopToks, List.reverse_nil, finish, List.map_nil]
  have : Codec.sortByStart ([] : List Rng) = [] := by simp [Codec.sortByStart]
  rw [this]
  simp [adjOverlap, normalize_nil]

/-- **ST ASCII round trip**: for EVERY list of elements whose time part is a valid non-empty T-MOC of
    depth `d1` and whose space part is a valid non-empty S-MOC of depth `d2`, reading the token-level
    document the writer emits (every element with the two global depths, then the depth-only element
    `t d1/ s d2/`) gives back exactly `(d1, d2, elements)` — including the empty ST-MOC, for which only
    the depth-only element is written, and unoccupied deepest levels. Rests on the 1-D end-to-end
    theorem `ascii_roundtrip_moc` (C07) for each part. -/
theorem st_ascii_roundtrip (w d1 d2 : Nat) (elems : List STText.Elem)
    (h1 : d1 ≤ Params.time.maxDepth w ∧ d1 ≤ 255) (h2 : d2 ≤ Params.hpx.maxDepth w ∧ d2 ≤ 255)
    (hv : ∀ e ∈ elems, Valid Params.time w d1 e.1 ∧ Valid Params.hpx w d2 e.2 ∧ e.1 ≠ [] ∧ e.2 ≠ []) :
    decodeDoc w (encodeDoc w d1 d2 elems) = .ok (d1, d2, elems) := by
  have ht : Params.time.dim = 1 ∨ Params.time.dim = 2 := by decide
  have hh : Params.hpx.dim = 1 ∨ Params.hpx.dim = 2 := by decide
  unfold encodeDoc
  induction elems with
  | nil =>
    simp only [List.map_nil, List.nil_append, decodeDoc, decode_depth_only _ w d1 h1,
      decode_depth_only _ w d2 h2]
    simp
  | cons e t ih =>
    obtain ⟨v1, v2, n1, n2⟩ := hv e List.mem_cons_self
    have r1 := Moc.Codec.C07.ascii_roundtrip_moc Params.time ht w d1 h1.1 h1.2 e.1 v1
    have r2 := Moc.Codec.C07.ascii_roundtrip_moc Params.hpx hh w d2 h2.1 h2.2 e.2 v2
    have iht := ih (fun x hx => hv x (List.mem_cons_of_mem _ hx))
    simp only [List.map_cons, List.cons_append, decodeDoc, r1, r2, iht]
    have e1 : e.1.isEmpty = false := by cases h : e.1 <;> simp_all
    have e2 : e.2.isEmpty = false := by cases h : e.2 <;> simp_all
    simp [e1, e2]

/-! ### Character level -/

/-- The characters written for one element. -/
def pieceOf (w d1 d2 : Nat) (e : STText.Elem) : List Char :=
  encodeChars d1 (itemsOf Params.time w d1 e.1) ++ 's' :: encodeChars d2 (itemsOf Params.hpx w d2 e.2)

/-- The depth-only element (without the final newline). -/
def lastPiece (d1 d2 : Nat) : List Char := (showNat d1 ++ '/' :: ' ' :: 's' :: showNat d2) ++ ['/']

theorem encodeCharsST_eq (w d1 d2 : Nat) (elems : List STText.Elem) :
    encodeCharsST w d1 d2 elems
      = joinSep 't' (elems.map (pieceOf w d1 d2) ++ [lastPiece d1 d2]) ++ ['\n'] := by
  rw [joinSep_append_single]
  unfold encodeCharsST joinSep pieceOf lastPiece
  simp [List.map_map, Function.comp_def]

/-- What the lexer needs of an element: its numbers fit the index type. -/
def ElemFits (w d1 d2 : Nat) (e : STText.Elem) : Prop :=
  (∀ it ∈ itemsOf Params.time w d1 e.1, it.s < it.e ∧ it.e < 2 ^ w) ∧
  (∀ it ∈ itemsOf Params.hpx w d2 e.2, it.s < it.e ∧ it.e < 2 ^ w)

theorem go_pieces (w d1 d2 : Nat) (hd1 : d1 < 2 ^ w) (hd2 : d2 < 2 ^ w) :
    ∀ (elems : List STText.Elem), (∀ e ∈ elems, ElemFits w d1 d2 e) →
    decodeText.go w (elems.map (pieceOf w d1 d2) ++ [lastPiece d1 d2])
      = decodeDoc w (encodeDoc w d1 d2 elems) := by
  intro elems
  induction elems with
  | nil =>
    intro _
    have hs : splitOnce 's' (lastPiece d1 d2) = some (showNat d1 ++ ['/', ' '], showNat d2 ++ ['/']) := by
      have := splitOnce_append 's' (showNat d1 ++ ['/', ' ']) (showNat d2 ++ ['/']) (by
        intro c hc
        simp only [List.mem_append, List.mem_cons, List.not_mem_nil, or_false] at hc
        rcases hc with h | rfl | rfl
        · exact (showNat_plain d1 c h).2
        · decide
        · decide)
      simpa [lastPiece] using this
    have a1 := decodeAscii_depthOnly Params.time w d1 hd1 [' '] (fun c h => by
      simp only [List.mem_singleton] at h; subst h; decide)
    have a2 := decodeAscii_depthOnly Params.hpx w d2 hd2 [] (fun _ h => by cases h)
    simp only [List.map_nil, List.nil_append, decodeText.go, hs, encodeDoc, decodeDoc]
    have e1 : showNat d1 ++ ['/', ' '] = showNat d1 ++ '/' :: [' '] := rfl
    have e2 : showNat d2 ++ ['/'] = showNat d2 ++ '/' :: [] := rfl
    rw [e1, e2, a1, a2]
  | cons e t ih =>
    intro hf
    have hfe := hf e (by simp)
    have hs : splitOnce 's' (pieceOf w d1 d2 e)
        = some (encodeChars d1 (itemsOf Params.time w d1 e.1), encodeChars d2 (itemsOf Params.hpx w d2 e.2)) :=
      splitOnce_append 's' _ _ (fun c hc => (encodeChars_plain _ _ c hc).2)
    have a1 := Moc.Codec.C07.ascii_text_lex Params.time w d1 _ hd1 hfe.1
    have a2 := Moc.Codec.C07.ascii_text_lex Params.hpx w d2 _ hd2 hfe.2
    have iht := ih (fun x hx => hf x (by simp [hx]))
    simp only [List.map_cons, List.cons_append, decodeText.go, hs, a1, a2, iht, encodeDoc, decodeDoc]

/-- **The ST text reader inverts the ST text writer's layout, character by character**: trimming, the
    split on the `t` prefixes, the split of every element on its `s` prefix and the two 1-D lexers,
    applied to the characters written for any list of elements whose numbers fit the index type, give
    exactly the token-level reader applied to the token-level document. -/
theorem st_ascii_text_lex (w d1 d2 : Nat) (hd1 : d1 < 2 ^ w) (hd2 : d2 < 2 ^ w) (elems : List STText.Elem)
    (hf : ∀ e ∈ elems, ElemFits w d1 d2 e) :
    decodeText w (encodeCharsST w d1 d2 elems) = decodeDoc w (encodeDoc w d1 d2 elems) := by
  have hlast : lastPiece d1 d2 = (showNat d1 ++ '/' :: ' ' :: 's' :: showNat d2) ++ ['/'] := rfl
  unfold decodeText
  rw [encodeCharsST_eq, hlast, trimSpaces_pieces, ← hlast]
  have hsplit := splitOnChar_pieces 't' (elems.map (pieceOf w d1 d2) ++ [lastPiece d1 d2]) []
    (fun _ h => by cases h) (by
      intro q hq c hc
      simp only [List.mem_append, List.mem_map, List.mem_singleton] at hq
      rcases hq with ⟨e, _, rfl⟩ | rfl
      · unfold pieceOf at hc
        simp only [List.mem_append, List.mem_cons] at hc
        rcases hc with h | rfl | h
        · exact (encodeChars_plain _ _ c h).1
        · decide
        · exact (encodeChars_plain _ _ c h).1
      · unfold lastPiece at hc
        simp only [List.mem_append, List.mem_cons, List.not_mem_nil, or_false] at hc
        rcases hc with (h | rfl | rfl | rfl | h) | rfl
        · exact (showNat_plain d1 c h).1
        · decide
        · decide
        · decide
        · exact (showNat_plain d2 c h).1
        · decide)
  rw [List.nil_append] at hsplit
  simp only [hsplit]
  have hfilt : (([] : List Char) :: (elems.map (pieceOf w d1 d2) ++ [lastPiece d1 d2])).filter
      (fun p => !p.isEmpty) = elems.map (pieceOf w d1 d2) ++ [lastPiece d1 d2] := by
    rw [List.filter_cons_of_neg (by simp)]
    apply List.filter_eq_self.2
    intro p hp
    simp only [List.mem_append, List.mem_map, List.mem_singleton] at hp
    rcases hp with ⟨e, _, rfl⟩ | rfl
    · simp [pieceOf]
    · simp [lastPiece]
  rw [hfilt]
  exact go_pieces w d1 d2 hd1 hd2 elems hf

/-- **ST ASCII round trip at the character level**: for every list of valid non-empty elements on an
    index type whose cell numbers fit (`n_cells(d) < 2^w`, see `C07.fit_instances`), reading the
    characters the writer emits returns exactly `(d1, d2, elements)`. -/
theorem st_ascii_text_roundtrip (w d1 d2 : Nat) (elems : List STText.Elem)
    (h1 : d1 ≤ Params.time.maxDepth w ∧ d1 ≤ 255) (h2 : d2 ≤ Params.hpx.maxDepth w ∧ d2 ≤ 255)
    (hf1 : Params.time.nCells d1 < 2 ^ w ∧ d1 < 2 ^ w) (hf2 : Params.hpx.nCells d2 < 2 ^ w ∧ d2 < 2 ^ w)
    (hv : ∀ e ∈ elems, Valid Params.time w d1 e.1 ∧ Valid Params.hpx w d2 e.2 ∧ e.1 ≠ [] ∧ e.2 ≠ []) :
    decodeText w (encodeCharsST w d1 d2 elems) = .ok (d1, d2, elems) := by
  have ht : Params.time.dim = 1 ∨ Params.time.dim = 2 := by decide
  have hh : Params.hpx.dim = 1 ∨ Params.hpx.dim = 2 := by decide
  rw [st_ascii_text_lex w d1 d2 hf1.2 hf2.2 elems (fun e he => by
    obtain ⟨v1, v2, _, _⟩ := hv e he
    have o1 := Moc.Codec.C07.itemsOf_ok Params.time ht w d1 h1.1 h1.2 e.1 v1
    have o2 := Moc.Codec.C07.itemsOf_ok Params.hpx hh w d2 h2.1 h2.2 e.2 v2
    refine ⟨fun it hit => ?_, fun it hit => ?_⟩
    · have := o1 it hit
      have hm := Moc.Codec.C07.nCells_mono Params.time this.2
      exact ⟨this.1.2.2.1, by have := this.1.2.2.2; omega⟩
    · have := o2 it hit
      have hm := Moc.Codec.C07.nCells_mono Params.hpx this.2
      exact ⟨this.1.2.2.1, by have := this.1.2.2.2; omega⟩)]
  exact st_ascii_roundtrip w d1 d2 elems h1 h2 hv

/-- **ST JSON round trip** (token level: the JSON document is the same sequence of `(t, s)` parts
    written with single cells only, followed by the depth-only object). -/
theorem st_json_roundtrip (w d1 d2 : Nat) (elems : List STText.Elem)
    (h1 : d1 ≤ Params.time.maxDepth w ∧ d1 ≤ 255) (h2 : d2 ≤ Params.hpx.maxDepth w ∧ d2 ≤ 255)
    (hv : ∀ e ∈ elems, Valid Params.time w d1 e.1 ∧ Valid Params.hpx w d2 e.2 ∧ e.1 ≠ [] ∧ e.2 ≠ []) :
    decodeDoc w (encodeDocJson w d1 d2 elems) = .ok (d1, d2, elems) := by
  have ht : Params.time.dim = 1 ∨ Params.time.dim = 2 := by decide
  have hh : Params.hpx.dim = 1 ∨ Params.hpx.dim = 2 := by decide
  unfold encodeDocJson
  induction elems with
  | nil =>
    simp only [List.map_nil, List.nil_append, decodeDoc, decode_depth_only _ w d1 h1,
      decode_depth_only _ w d2 h2]
    simp
  | cons e t ih =>
    obtain ⟨v1, v2, n1, n2⟩ := hv e List.mem_cons_self
    have r1 := Moc.Codec.C07.json_roundtrip_moc Params.time ht w d1 h1.1 h1.2 e.1 v1
    have r2 := Moc.Codec.C07.json_roundtrip_moc Params.hpx hh w d2 h2.1 h2.2 e.2 v2
    have iht := ih (fun x hx => hv x (List.mem_cons_of_mem _ hx))
    simp only [List.map_cons, List.cons_append, decodeDoc, r1, r2, iht]
    have e1 : e.1.isEmpty = false := by cases h : e.1 <;> simp_all
    have e2 : e.2.isEmpty = false := by cases h : e.2 <;> simp_all
    simp [e1, e2]

end Text

end Moc.STCodec.C11
