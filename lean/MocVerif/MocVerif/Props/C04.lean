/-
  C04 — lazy operator pipelines equal eager evaluation; hints never change results.
-/
import MocVerif.Lemmas.Hints
import MocVerif.Lemmas.LastExact
import MocVerif.Lemmas.Query
import MocVerif.Model.Params

namespace Moc.C04

/-- **Programs.** For every operator tree over and / or / xor / minus / not / degrade, every
    assignment of valid leaves, and EVERY consistent hint configuration of the leaf sources
    (those that advertise `peek_last` / exact sizes and those that do not), the lazy iterator tree
    yields exactly the ranges and the depth of the eager evaluation, and the hints the tree itself
    advertises are consistent with what it yields. -/
theorem lazy_eq_eager (q : Qty) (w : Nat) (h0 : 0 < q.nCellsMax w) (e : Expr)
    (hl : e.LeavesOk q w) (hd : e.DepthsOk q w) :
    (evalL q w e).items = (evalE q w e).2 ∧ (evalL q w e).depth = (evalE q w e).1 ∧
    (evalL q w e).HintOkAll :=
  evalL_eq_evalE q w h0 e hl hd

/-- The executable judge run on the implementation's observed hints is the property's predicate. -/
theorem hintOkB_iff (s : Src) : s.hintOkB = true ↔ s.HintOk := by
  unfold Src.hintOkB Src.HintOk
  cases hlast : s.last with
  | none =>
    cases hhi : s.hi with
    | none => simp
    | some n => simp
  | some r =>
    cases hhi : s.hi with
    | none => simp [List.all_eq_true]
    | some n => simp [List.all_eq_true, and_assoc]

/-- Per-operator hint consistency (repaired `size_hint`s of or / xor / minus / not / check). -/
theorem and_hints (l r : Src) (hl : l.HintOkAll) (hr : r.HintOkAll) (cl : Canon l.items) (cr : Canon r.items) :
    (andSrc l r).HintOkAll := andSrc_hintOk l r hl hr cl cr
theorem or_hints (l r : Src) (hl : l.HintOkAll) (hr : r.HintOkAll) (cl : Canon l.items) (cr : Canon r.items) :
    (orSrc l r).HintOkAll := orSrc_hintOk l r hl hr cl cr
theorem xor_hints (l r : Src) (hl : l.HintOkAll) (hr : r.HintOkAll) (cl : Canon l.items) (cr : Canon r.items) :
    (xorSrc l r).HintOkAll := xorSrc_hintOk l r hl hr cl cr
theorem minus_hints (l r : Src) (hl : l.HintOkAll) (hr : r.HintOkAll) (cl : Canon l.items) (cr : Canon r.items) :
    (minusSrc l r).HintOkAll := minusSrc_hintOk l r hl hr cl cr
theorem not_hints (ub : Nat) (s : Src) (hs : s.HintOkAll) (cs : Canon s.items) (hb : BoundedBy ub s.items) :
    (notSrc ub s).HintOkAll := notSrc_hintOk ub s hs cs hb
theorem degrade_hints (sh nd : Nat) (s : Src) : (degradeSrc sh nd s).HintOkAll := degradeSrc_hintOk sh nd s
theorem check_hints (s : Src) (hs : s.HintOkAll) : (checkSrc s).HintOkAll ∧ (checkSrc s).items = s.items :=
  checkSrc_hintOk s hs

/-- **`peek_last` is exact** (the documented contract: "the last range of the iterator, or at least a range
    having the last range upper bound"): every node of every lazy operator tree whose leaves announce an exact
    last range (or none) announces an exact last range (or none) — in particular a node that announces one
    does yield ranges.  `xor` had copied the formula of `or` (the larger of the two ends), which is wrong
    whenever both operands end at the same index (/repo "fix: XorRangeIter::peek_last"). -/
theorem lazy_last_exact (q : Qty) (w : Nat) (h0 : 0 < q.nCellsMax w) (e : Expr)
    (hl : e.LeavesOk q w) (hd : e.DepthsOk q w) (hx : e.LeavesLastExact) : (evalL q w e).LastExact :=
  evalL_lastExact q w h0 e hl hd hx
theorem or_last_exact (l r : Src) (hl : l.HintOkAll) (hr : r.HintOkAll) (el : l.LastExact) (er : r.LastExact)
    (cl : Canon l.items) (cr : Canon r.items) : (orSrc l r).LastExact := orSrc_lastExact l r hl hr el er cl cr
theorem xor_last_exact (l r : Src) (hl : l.HintOkAll) (hr : r.HintOkAll) (el : l.LastExact) (er : r.LastExact)
    (cl : Canon l.items) (cr : Canon r.items) : (xorSrc l r).LastExact := xorSrc_lastExact l r hl hr el er cl cr
theorem check_convert_last_exact (sh md : Nat) (s : Src) (e : s.LastExact) :
    (checkSrc s).LastExact ∧ (convertSrc sh md s).LastExact :=
  ⟨checkSrc_lastExact s e, convertSrc_lastExact sh md s e⟩
/-- The executable judge of the exact-last contract is the predicate. -/
theorem lastExactB_iff (s : Src) : s.lastExactB true = true ↔ s.LastExact := lastExactB_strict_iff s
/-- What `xor([0..10], [5..10])` answered before the repair (ranges `[0..5]`, announced last range `0..10`) does
    not meet the contract; a source that meets it (non-vacuity). -/
example : ¬ (⟨0, [(0, 5)], some (0, 10), 0, none, []⟩ : Src).LastExact := by
  intro h
  obtain ⟨c, hc, he⟩ := h (0, 10) rfl
  simp at hc; subst hc; simp at he
example : (⟨0, [(0, 5), (7, 10)], some (2, 10), 0, none, []⟩ : Src).LastExact := by
  intro q hq; exact ⟨(7, 10), rfl, by cases hq; rfl⟩

/-- **`overlapped_by`** (the iterator behind `overlapped_by_iter`; repaired `size_hint`, /repo 7641c6f): it yields a sub-list
    of the left ranges, so — one left range being held by the iterator — the upper bound of the left source after its first
    `next()`, plus one, bounds what it yields, for every pair of canonical operands and every consistent left source
    (the former hint forwarded the bounds of the left source as they were: upper bound one too small, lower bound
    unjustified). -/
theorem overlapped_by_hint_sound (l r : Src) (hl : l.HintOkAll) (cl : Canon l.items) (cr : Canon r.items) :
    overlappedBy l.items r.items = l.items.filter (meetsB r.items) ∧
    ∀ n, l.afterNext.hi = some n → (overlappedBy l.items r.items).length ≤ n + 1 := by
  have e := Moc.overlappedBy_eq l.items r.items cl cr
  have b := l.afterNext_bounds hl
  rw [tail_length] at b
  refine ⟨e, fun n hn => ?_⟩
  have hlen : (overlappedBy l.items r.items).length ≤ l.items.length := by
    rw [e]; exact List.length_filter_le _ _
  have := b.2 n hn
  omega

/-- The serialiser's decision (`size_hint` min = max ⇒ stream with a pre-computed `NAXIS2`) is sound:
    whenever a consistent source advertises equal bounds, that number IS the number of ranges. -/
theorem exact_hint_is_length (s : Src) (hs : s.HintOk) (n : Nat) (h : s.lo = n ∧ s.hi = some n) :
    s.items.length = n := by
  have h1 := hs.2.1
  have h2 := hs.2.2 n h.2
  omega

/-! Non-vacuity -/
example : (⟨2, [(0, 4), (8, 12)], some (8, 12), 2, some 2, [(1, some 1), (0, some 0)]⟩ : Src).HintOkAll := by
  simp [Src.HintOkAll, Src.HintOk, laterOk]
example : (Expr.or (.leaf ⟨2, [(0, 2048)], none, 0, none, []⟩)
    (.not (.leaf ⟨2, [(0, 2048)], some (0, 2048), 1, some 1, []⟩))).LeavesOk Params.time 16 := by
  simp [Expr.LeavesOk, Src.HintOkAll, Src.HintOk, laterOk]
  exact (Moc.validB_iff _ _ _ _).1 (by decide)

end Moc.C04
