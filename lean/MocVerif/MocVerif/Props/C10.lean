/-
  C10 — space-time MOC algebra, folds and lookups follow point-set semantics.
-/
import MocVerif.Lemmas.ST
import MocVerif.Lemmas.Merge2D
import MocVerif.Lemmas.FlatNormal
import MocVerif.Lemmas.Regroup

namespace Moc.C10

/-- The three Boolean combinations the check evaluates at every grid point. -/
theorem union_point (a b : STMoc) (t s : Nat) : stPointOp 14 a b t s = true ↔ memST t s a ∨ memST t s b :=
  stPointOp_union a b t s
theorem inter_point (a b : STMoc) (t s : Nat) : stPointOp 8 a b t s = true ↔ memST t s a ∧ memST t s b :=
  stPointOp_inter a b t s
theorem diff_point (a b : STMoc) (t s : Nat) : stPointOp 4 a b t s = true ↔ memST t s a ∧ ¬ memST t s b :=
  stPointOp_diff a b t s

/-- Intersection has a product form. -/
theorem inter_spec (t s : Nat) (a b : STMoc)
    (ha : ∀ e ∈ a, Canon e.1 ∧ Canon e.2) (hb : ∀ e ∈ b, Canon e.1 ∧ Canon e.2) :
    memST t s (stInterSpec a b) ↔ memST t s a ∧ memST t s b := memST_inter t s a b ha hb

/-- **Time fold**: union of the space coverages of `A` at the instants of `T` (the code's
    "time range intersects T" reading is equivalent to the instant reading for a valid `T`). -/
theorem tfold_sem (tm : List Rng) (htm : Canon tm) (a : STMoc) (ha : ∀ e ∈ a, Canon e.1) (s : Nat) :
    tfoldB tm a s = true ↔ ∃ t, mem t tm ∧ memST t s a := tfoldB_iff tm htm a ha s

/-- **Space fold**: the instants at which `A`'s non-empty space coverage lies inside `S`. -/
theorem sfold_sem (sm : List Rng) (hsm : Canon sm) (a : STMoc) (ha : ∀ e ∈ a, Canon e.2) (t : Nat) :
    sfoldB sm a t = true ↔ ∃ e ∈ a, mem t e.1 ∧ e.2 ≠ [] ∧ ∀ y, mem y e.2 → mem y sm := sfoldB_iff sm hsm a ha t

/-- **Time fold as computed** (`project_on_second_dim`: filter the entries whose time range meets `T`, reduce
    their space coverages with `union`): the ranges returned are canonical and cover exactly the positions
    covered by an entry whose time range contains an instant of `T`. -/
theorem tfold_ranges (x : List Rng) (hx : Canon x) (flat : FlatST)
    (hf : ∀ e ∈ flat, e.1.1 < e.1.2 ∧ Canon e.2) :
    Canon (tfoldRanges x flat) ∧
    ∀ p, mem p (tfoldRanges x flat) ↔ ∃ e ∈ flat, (∃ t, e.1.1 ≤ t ∧ t < e.1.2 ∧ mem t x) ∧ mem p e.2 :=
  tfoldRanges_spec x hx flat hf

/-- The reduction is parallel (rayon): the result does not depend on the order in which the entries are
    combined. -/
theorem tfold_ranges_order_independent (x : List Rng) (hx : Canon x) (flat flat' : FlatST) (hp : flat.Perm flat')
    (hf : ∀ e ∈ flat, e.1.1 < e.1.2 ∧ Canon e.2) : tfoldRanges x flat = tfoldRanges x flat' :=
  tfoldRanges_perm x hx flat flat' hp hf

/-- **Space fold as computed** (`project_on_first_dim`: keep the time ranges of the entries whose space
    coverage lies inside `S`, `new_from_sorted`): canonical, and covers exactly the instants of those entries. -/
theorem sfold_ranges (y : List Rng) (hy : Canon y) (flat : FlatST) (hs : FlatSorted 0 flat)
    (hf : ∀ e ∈ flat, Canon e.2) :
    Canon (sfoldRanges y flat) ∧
    ∀ t, mem t (sfoldRanges y flat) ↔ ∃ e ∈ flat, (e.1.1 ≤ t ∧ t < e.1.2) ∧ ∀ p, mem p e.2 → mem p y :=
  sfoldRanges_spec y hy flat hs hf

example : FlatSorted 0 [((0, 5), [(0, 2)]), ((5, 10), [(4, 6)])] ∧ Canon [(0, 2)] ∧ Canon [(4, 6)] := by
  simp [FlatSorted, Canon, CanonFrom]

/-- **The flat algebra AS COMPUTED** (`Ranges2D::merge`, the sweep behind `TimeSpaceMoc::{union, intersection,
    difference}`, transliterated in `Model/Merge2D.lean` and tied to the code by exact agreement of the entries):
    for every pair of well-formed operands — time ranges non-empty, ordered, disjoint (touching allowed), canonical
    space coverages — the result covers exactly the pairs given by the point-wise operation … -/
theorem flat_algebra_sem (op : Merge2D.Op) (a b : FlatST) (ha : Merge2D.InOk 0 a) (hb : Merge2D.InOk 0 b) (t s : Nat) :
    memST t s (Merge2D.toST (Merge2D.merge2 op a b)) ↔
      op.sem (memST t s (Merge2D.toST a)) (memST t s (Merge2D.toST b)) := by
  rw [Merge2D.memST_toST, Merge2D.memST_toST, Merge2D.memST_toST]
  exact (Merge2D.merge2_spec op a b ha hb).2 t s

/-- … and is a VALID flat coverage: no zero-length time range, ranges ordered and disjoint, coverages non-empty
    and canonical, no two touching ranges with the same coverage — what the judge `validFlatB` accepts. -/
theorem flat_algebra_valid (op : Merge2D.Op) (a b : FlatST) (ha : Merge2D.InOk 0 a) (hb : Merge2D.InOk 0 b) :
    validFlatB (Merge2D.toST (Merge2D.merge2 op a b)) = true :=
  Merge2D.validFlatB_of_VF _ 0 none (Merge2D.merge2_spec op a b ha hb).1

/-- **The valid flat form is a normal form**: two valid flat coverages covering the same (instant, position)
    pairs are EQUAL as lists of entries — so the entries returned by the algebra are determined by the point
    sets of the operands. -/
theorem flat_normal_form (a b : FlatST) (ha : Merge2D.VF Canon 0 none a) (hb : Merge2D.VF Canon 0 none b)
    (h : ∀ t s, Merge2D.memFlat t s a ↔ Merge2D.memFlat t s b) : a = b :=
  Merge2D.VF.ext a b 0 none ha hb h

/-- Consequences, as equalities of the computed entries: union and intersection are commutative … -/
theorem flat_union_comm (a b : FlatST) (ha : Merge2D.InOk 0 a) (hb : Merge2D.InOk 0 b) :
    Merge2D.merge2 .union a b = Merge2D.merge2 .union b a := by
  have x := Merge2D.merge2_spec .union a b ha hb
  have y := Merge2D.merge2_spec .union b a hb ha
  refine Merge2D.VF.ext _ _ 0 none x.1 y.1 (fun t s => ?_)
  rw [x.2, y.2]
  simp only [Merge2D.Op.sem]
  exact Or.comm

theorem flat_inter_comm (a b : FlatST) (ha : Merge2D.InOk 0 a) (hb : Merge2D.InOk 0 b) :
    Merge2D.merge2 .inter a b = Merge2D.merge2 .inter b a := by
  have x := Merge2D.merge2_spec .inter a b ha hb
  have y := Merge2D.merge2_spec .inter b a hb ha
  refine Merge2D.VF.ext _ _ 0 none x.1 y.1 (fun t s => ?_)
  rw [x.2, y.2]
  simp only [Merge2D.Op.sem]
  exact And.comm

/-- … the union is associative (the intermediate results are valid, hence well-formed operands) … -/
theorem flat_union_assoc (a b c : FlatST) (ha : Merge2D.InOk 0 a) (hb : Merge2D.InOk 0 b) (hc : Merge2D.InOk 0 c) :
    Merge2D.merge2 .union (Merge2D.merge2 .union a b) c = Merge2D.merge2 .union a (Merge2D.merge2 .union b c) := by
  have ab := Merge2D.merge2_spec .union a b ha hb
  have bc := Merge2D.merge2_spec .union b c hb hc
  have x := Merge2D.merge2_spec .union _ c (Merge2D.InOk_of_VF _ 0 none ab.1) hc
  have y := Merge2D.merge2_spec .union a _ ha (Merge2D.InOk_of_VF _ 0 none bc.1)
  refine Merge2D.VF.ext _ _ 0 none x.1 y.1 (fun t s => ?_)
  rw [x.2, y.2, ab.2, bc.2]
  simp only [Merge2D.Op.sem]
  exact or_assoc

/-- … and a valid coverage united or intersected with itself, or deprived of nothing, is returned unchanged. -/
theorem flat_idempotent (a : FlatST) (ha : Merge2D.VF Canon 0 none a) :
    Merge2D.merge2 .union a a = a ∧ Merge2D.merge2 .inter a a = a ∧ Merge2D.merge2 .diff a [] = a := by
  have hi := Merge2D.InOk_of_VF a 0 none ha
  have u := Merge2D.merge2_spec .union a a hi hi
  have i := Merge2D.merge2_spec .inter a a hi hi
  have d := Merge2D.merge2_spec .diff a [] hi trivial
  refine ⟨Merge2D.VF.ext _ _ 0 none u.1 ha (fun t s => ?_), Merge2D.VF.ext _ _ 0 none i.1 ha (fun t s => ?_),
    Merge2D.VF.ext _ _ 0 none d.1 ha (fun t s => ?_)⟩
  · rw [u.2]; simp [Merge2D.Op.sem]
  · rw [i.2]; simp [Merge2D.Op.sem]
  · rw [d.2]
    simp only [Merge2D.Op.sem]
    constructor
    · exact fun h => h.1
    · intro h; exact ⟨h, fun ⟨e, he, _⟩ => by cases he⟩

/-- **From the flat form back to `RangeMOC2` elements** (`time_space_iter`, what the store and the command-line tool
    do after the flat algebra): consecutive entries of equal coverage are grouped; for every valid flat coverage the
    result is a VALID space-time MOC (canonical non-empty parts, elements in time order) covering the same pairs. -/
theorem time_space_iter_sem (g : FlatST) (hv : Merge2D.VF Canon 0 none g) :
    validSTB (Merge2D.regroup g) = true ∧ ∀ t s, memST t s (Merge2D.regroup g) ↔ Merge2D.memFlat t s g :=
  Merge2D.regroup_spec g hv

/-- Hence the whole chain used for `moc op inter | union | minus` on ST files and by the store: flat algebra, then
    regrouping, returns a valid ST-MOC with the point-wise semantics. -/
theorem st_algebra_chain (op : Merge2D.Op) (a b : FlatST) (ha : Merge2D.InOk 0 a) (hb : Merge2D.InOk 0 b) :
    validSTB (Merge2D.regroup (Merge2D.merge2 op a b)) = true ∧
    ∀ t s, memST t s (Merge2D.regroup (Merge2D.merge2 op a b)) ↔
      op.sem (Merge2D.memFlat t s a) (Merge2D.memFlat t s b) := by
  have m := Merge2D.merge2_spec op a b ha hb
  have r := Merge2D.regroup_spec _ m.1
  exact ⟨r.1, fun t s => by rw [r.2 t s, m.2 t s]⟩

example : Merge2D.InOk 0 [((0, 5), [(0, 2)]), ((5, 10), [(4, 6)])] := by
  simp [Merge2D.InOk, Canon, CanonFrom]

/-- **Lookup** with half-open time ranges: true exactly for covered pairs (total by construction). -/
theorem lookup_sem (t s : Nat) (a : STMoc) : memSTB t s a = true ↔ memST t s a := memSTB_iff t s a

/-- A probe on the boundary shared by two consecutive time ranges belongs to the SECOND range only. -/
theorem shared_boundary_example :
    memSTB 5 1 [([(0, 5)], [(0, 2)]), ([(5, 10)], [(4, 6)])] = false ∧
    memSTB 5 4 [([(0, 5)], [(0, 2)]), ([(5, 10)], [(4, 6)])] = true := by decide

/-- The judge of the flat results: what `validFlatB` rejects — a zero-length time range … -/
theorem zero_length_rejected : validFlatB [([(0, 5)], [(0, 2)]), ([(5, 5)], [(0, 4)]), ([(5, 10)], [(4, 6)])] = false := by
  decide
/-- … or touching ranges with identical space left unfused. -/
theorem unfused_rejected : validFlatB [([(0, 5)], [(0, 2)]), ([(5, 10)], [(0, 2)])] = false := by decide

end Moc.C10
