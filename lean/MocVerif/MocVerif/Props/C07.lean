/-
  C07 — 1-D MOC serialisation round-trips.

  Proved on the codec model (`Model/Codec.lean`):
  * ASCII: for EVERY list of in-domain, pairwise non-overlapping cell ranges and every `dmax`, the
    reader applied to what the writer emits accepts and returns `dmax` and exactly the covered set
    (`ascii_roundtrip`) — whatever the emission order of the elements, including an empty list (the
    bare `dmax/` token keeps the depth) and unoccupied deepest levels;
  * FITS range payload: big-endian words and (start, end) pairing are inverted exactly, the padding
    makes the byte count a multiple of 2880;
  * NUNIQ payload: code/decode identity (C05 theorems re-exported).
  * character level (session 5): decimal printing / lexing, so that reading the CHARACTERS written for any
    valid MOC returns `(depth, MOC)` (`ascii_text_lex`, `ascii_text_roundtrip_moc`);
  * the whole FITS file (session 5): header cards, data unit, padding — 2880-byte blocks, `NAXIS1 × NAXIS2`
    = the data written, which decode to the ranges (`fits_file_blocks`, `fits_file_structure`,
    `fits_nuniq_file`); constants extracted from the source (`fits_constants`).
  Partial: fold widths, `start+len` notation, the JSON reader (serde_json), the streaming ASCII variant and the
  FITS header READER beyond the two structural cards are exercised by the correspondence run on real bytes
  (the real reader against the model reader on folded / offset documents; direct round trips), not proved.
-/
import MocVerif.Lemmas.Codec
import MocVerif.Lemmas.Cells
import MocVerif.Lemmas.CodecMoc
import MocVerif.Lemmas.Text
import MocVerif.Lemmas.Fits
import MocVerif.Lemmas.FitsRead
import MocVerif.Props.C05

namespace Moc.Codec.C07
open Moc Moc.Codec

def Disjoint (a b : Rng) : Prop := a.2 ≤ b.1 ∨ b.2 ≤ a.1

theorem disjoint_symm {a b : Rng} (h : Disjoint a b) : Disjoint b a := h.symm

/-- Pairwise disjoint, non-empty ranges: no adjacent overlap in any order. -/
theorem adjOverlap_of_pairwise : ∀ (l : List Rng), l.Pairwise Disjoint → adjOverlap l = false := by
  intro l
  induction l with
  | nil => intro _; rfl
  | cons a t ih =>
    intro h
    cases t with
    | nil => rfl
    | cons b t' =>
      have hp := List.pairwise_cons.1 h
      have hab := hp.1 b List.mem_cons_self
      simp only [adjOverlap, ih hp.2, Bool.or_false]
      unfold Disjoint at hab
      rcases hab with h1 | h1
      · have : ¬ (b.1 < a.2) := by omega
        simp [this]
      · have : ¬ (a.1 < b.2) := by omega
        simp [this]

theorem mem_perm {l l' : List Rng} (p : l.Perm l') (x : Nat) : mem x l ↔ mem x l' := by
  rw [mem_iff_exists, mem_iff_exists]
  constructor
  · rintro ⟨r, hr, h⟩; exact ⟨r, p.mem_iff.1 hr, h⟩
  · rintro ⟨r, hr, h⟩; exact ⟨r, p.mem_iff.2 hr, h⟩

/-- What the reader returns after validation, for any list of items. -/
theorem finish_spec (q : Qty) (w d : Nat) (l : List Item)
    (hdis : (l.map (rangeOfItem q w)).Pairwise Disjoint) :
    finish q w (d, l) = .ok (d, normalize (l.map (rangeOfItem q w))) := by
  unfold finish
  have p : (sortByStart (l.map (rangeOfItem q w))).Perm (l.map (rangeOfItem q w)) :=
    List.mergeSort_perm _ _
  have hd : (sortByStart (l.map (rangeOfItem q w))).Pairwise Disjoint :=
    (p.pairwise_iff (fun h => disjoint_symm h)).2 hdis
  simp only [adjOverlap_of_pairwise _ hd, Bool.false_eq_true, ↓reduceIte]
  refine congrArg (fun r => Except.ok (d, r)) ?_
  have n1 := normalize_spec (sortByStart (l.map (rangeOfItem q w)))
  have n2 := normalize_spec (l.map (rangeOfItem q w))
  exact Canon.ext n1.1 n2.1 (fun x => by rw [n1.2, n2.2]; exact mem_perm p x)

/-- **ASCII round trip (token level)**: reading what the writer emits gives back the declared depth
    and a canonical MOC covering exactly the union of the elements — for every list of elements,
    every order, every `dmax`, every quantity and index width. -/
theorem ascii_roundtrip (q : Qty) (w dmax : Nat) (items : List Item)
    (hmax : dmax ≤ q.maxDepth w ∧ dmax ≤ 255) (hok : ∀ it ∈ items, ItemOk q w it ∧ it.d ≤ dmax)
    (hdis : (items.map (rangeOfItem q w)).Pairwise Disjoint) :
    decodeToks q w (encodeToks dmax items) = .ok (dmax, normalize (items.map (rangeOfItem q w))) := by
  unfold decodeToks encodeToks
  rw [decodeRaw_eq_loop q w _ (encodeFrom_head items dmax (dmax + 1) 0)]
  rw [loop_encodeFrom q w dmax items hmax (fun it h => (hok it h).1) (dmax + 1) 0 0 0 [] (by omega)
    (by omega) (fun h => by omega)]
  simp only [List.reverse_nil, List.nil_append]
  have pb : (bucketed items 0 (dmax + 1)).Perm items := by
    have := bucketed_perm items (dmax + 1) 0 (fun it h => by have := (hok it h).2; omega)
    have e : (items.filter fun it => decide (0 ≤ it.d)) = items := by
      apply List.filter_eq_self.2; intro it _; simp
    rw [e] at this; exact this
  have pm := pb.map (rangeOfItem q w)
  have hd' : ((bucketed items 0 (dmax + 1)).map (rangeOfItem q w)).Pairwise Disjoint :=
    (pm.pairwise_iff (fun h => disjoint_symm h)).2 hdis
  rw [finish_spec q w dmax _ hd']
  refine congrArg (fun r => Except.ok (dmax, r)) ?_
  have n1 := normalize_spec ((bucketed items 0 (dmax + 1)).map (rangeOfItem q w))
  have n2 := normalize_spec (items.map (rangeOfItem q w))
  exact Canon.ext n1.1 n2.1 (fun x => by rw [n1.2, n2.2]; exact mem_perm pm x)

theorem ordCR_mem (q : Qty) (w d : Nat) : ∀ (cs : List CellRange) (lo hi : Nat), OrdCR q w d lo hi cs →
    ∀ c ∈ cs, c.1 ≤ d ∧ c.2.1 < c.2.2 ∧ (rangeOfCellRange q w c).2 ≤ hi := by
  intro cs
  induction cs with
  | nil => intro _ _ _ c hc; cases hc
  | cons c0 t ih =>
    intro lo hi h c hc
    have hb := ordCR_lb q w d (c0 :: t) lo hi h c hc
    obtain ⟨h1, h2, _, h4⟩ := h
    cases hc with
    | head => exact ⟨h1, h2, hb.2⟩
    | tail _ hm => exact ih _ hi h4 c hm

/-- **ASCII round trip, end to end (token level)**: for EVERY valid MOC `M` of depth `d` — any
    quantity of dimension 1 or 2, any index width, empty and full-domain MOCs and unoccupied
    deepest levels included — the reader applied to what the writer emits for the cell-range view of
    `M` returns exactly `(d, M)`. -/
theorem ascii_roundtrip_moc (q : Qty) (hq : q.dim = 1 ∨ q.dim = 2) (w d : Nat)
    (hd : d ≤ q.maxDepth w) (hd255 : d ≤ 255) (l : List Rng) (hv : Valid q w d l) :
    decodeToks q w (encodeToks d (itemsOf q w d l)) = .ok (d, l) := by
  have hal := Moc.C05.aligned_of_valid q w d l hv
  have oc := ordCells_cellsOf q hq w d hd (q.nCellsMax w) l 0 hv.1 hal hv.2.1 (Nat.zero_le _)
  have ocr := ordCR_cellRangesOf q w d _ 0 _ oc
  have hmap : (itemsOf q w d l).map (rangeOfItem q w)
      = (cellRangesOf (cellsOf q w d l)).map (rangeOfCellRange q w) := by
    unfold itemsOf
    rw [List.map_map]
    apply List.map_congr_left
    intro c _
    rfl
  have hok : ∀ it ∈ itemsOf q w d l, ItemOk q w it ∧ it.d ≤ d := by
    intro it hit
    unfold itemsOf at hit
    obtain ⟨c, hc, rfl⟩ := List.mem_map.1 hit
    obtain ⟨m1, m2, m3⟩ := ordCR_mem q w d _ 0 _ ocr c hc
    refine ⟨⟨by simp only []; omega, by simp only []; omega, m2, ?_⟩, m1⟩
    exact le_nCells_of_shl_le q w c.1 c.2.2 (by omega) (by simpa [rangeOfCellRange] using m3)
  have hdis : ((itemsOf q w d l).map (rangeOfItem q w)).Pairwise Disjoint := by
    rw [hmap]; exact ordCR_pairwise q w d _ 0 _ ocr
  rw [ascii_roundtrip q w d _ ⟨hd, hd255⟩ hok hdis]
  refine congrArg (fun r => Except.ok (d, r)) ?_
  have n := normalize_spec ((itemsOf q w d l).map (rangeOfItem q w))
  refine Canon.ext n.1 hv.1 (fun x => ?_)
  rw [n.2, hmap, mem_cellRangesOf]
  exact Moc.C05.cells_cover q hq w d hd l hv x

/-- **JSON round trip, end to end (token level)**: the Aladin JSON document is the same token
    stream restricted to single cells (`"depth": [idx, …]` per depth, the deepest depth always
    present); for EVERY valid MOC the reader applied to the writer's tokens returns exactly `(d, M)`. -/
theorem json_roundtrip_moc (q : Qty) (hq : q.dim = 1 ∨ q.dim = 2) (w d : Nat)
    (hd : d ≤ q.maxDepth w) (hd255 : d ≤ 255) (l : List Rng) (hv : Valid q w d l) :
    decodeToks q w (encodeToks d (cellItemsOf q w d l)) = .ok (d, l) := by
  have hal := Moc.C05.aligned_of_valid q w d l hv
  have oc := ordCells_cellsOf q hq w d hd (q.nCellsMax w) l 0 hv.1 hal hv.2.1 (Nat.zero_le _)
  have ocr := ordCR_of_ordCells q w d _ 0 _ oc
  have hmap : (cellItemsOf q w d l).map (rangeOfItem q w)
      = ((cellsOf q w d l).map unitCR).map (rangeOfCellRange q w) := by
    unfold cellItemsOf
    rw [List.map_map, List.map_map]
    apply List.map_congr_left
    intro c _
    rfl
  have hok : ∀ it ∈ cellItemsOf q w d l, ItemOk q w it ∧ it.d ≤ d := by
    intro it hit
    unfold cellItemsOf at hit
    obtain ⟨c, hc, rfl⟩ := List.mem_map.1 hit
    obtain ⟨m1, m2, m3⟩ := ordCR_mem q w d _ 0 _ ocr (unitCR c) (List.mem_map.2 ⟨c, hc, rfl⟩)
    refine ⟨⟨by simp only [unitCR] at m1 ⊢; omega, by simp only [unitCR] at m1 ⊢; omega, by simp, ?_⟩, m1⟩
    exact le_nCells_of_shl_le q w c.1 (c.2 + 1) (by simp only [unitCR] at m1; omega)
      (by simpa [rangeOfCellRange, unitCR] using m3)
  have hdis : ((cellItemsOf q w d l).map (rangeOfItem q w)).Pairwise Disjoint := by
    rw [hmap]; exact ordCR_pairwise q w d _ 0 _ ocr
  rw [ascii_roundtrip q w d _ ⟨hd, hd255⟩ hok hdis]
  refine congrArg (fun r => Except.ok (d, r)) ?_
  have n := normalize_spec ((cellItemsOf q w d l).map (rangeOfItem q w))
  refine Canon.ext n.1 hv.1 (fun x => ?_)
  rw [n.2, hmap]
  have : ((cellsOf q w d l).map unitCR).map (rangeOfCellRange q w) = (cellsOf q w d l).map (rangeOfCell q w) := by
    rw [List.map_map]; rfl
  rw [this]
  exact Moc.C05.cells_cover q hq w d hd l hv x

/-! ### Character level: the text the writer emits, read by the lexer -/

theorem mem_encodeFrom (items : List Item) (dmax : Nat) (t : Tok) : ∀ (n d : Nat),
    t ∈ encodeFrom items dmax d n → (∃ d', t = .depth d' ∧ d' < d + n) ∨ ∃ it ∈ items, t = itemTok it := by
  intro n
  induction n with
  | zero => intro d h; simp [encodeFrom] at h
  | succ n ih =>
    intro d h
    simp only [encodeFrom, List.mem_append] at h
    cases h with
    | inl h =>
      by_cases hb : ((bucket items d).isEmpty && d != dmax) = true
      · simp [hb] at h
      · simp only [hb, Bool.false_eq_true, ↓reduceIte, List.mem_cons] at h
        cases h with
        | inl h => exact .inl ⟨d, h, by omega⟩
        | inr h =>
          obtain ⟨it, hit, rfl⟩ := List.mem_map.1 h
          exact .inr ⟨it, (mem_bucket.1 hit).1, rfl⟩
    | inr h =>
      cases ih (d + 1) h with
      | inl h => obtain ⟨d', e, hd⟩ := h; exact .inl ⟨d', e, by omega⟩
      | inr h => exact .inr h

/-- Every token the writer emits can be printed and read back on `w` bits. -/
theorem encodeToks_tokOk (w dmax : Nat) (items : List Item) (hd : dmax < 2 ^ w)
    (hit : ∀ it ∈ items, it.s < it.e ∧ it.e < 2 ^ w) : ∀ t ∈ encodeToks dmax items, TokOk w t := by
  intro t ht
  cases mem_encodeFrom items dmax t (dmax + 1) 0 ht with
  | inl h => obtain ⟨d', rfl, hd'⟩ := h; simp only [TokOk]; omega
  | inr h =>
    obtain ⟨it, hm, rfl⟩ := h
    have := hit it hm
    unfold itemTok
    split
    · simp only [TokOk]; omega
    · exact this

theorem depth_mem_encodeFrom (items : List Item) (dmax : Nat) : ∀ (n d : Nat), d ≤ dmax → dmax < d + n →
    Tok.depth dmax ∈ encodeFrom items dmax d n := by
  intro n
  induction n with
  | zero => intro d h1 h2; omega
  | succ n ih =>
    intro d h1 h2
    simp only [encodeFrom, List.mem_append]
    by_cases hd : d = dmax
    · subst hd
      left
      simp
    · right
      exact ih (d + 1) (by omega) (by omega)

theorem encodeToks_ne_nil (dmax : Nat) (items : List Item) : encodeToks dmax items ≠ [] := by
  intro h
  have := depth_mem_encodeFrom items dmax (dmax + 1) 0 (Nat.zero_le _) (by omega)
  unfold encodeToks at h
  rw [h] at this
  cases this

/-- **The lexer inverts the writer, character by character**: on the characters written for any list
    of non-empty cell ranges whose numbers fit the index type, the reader's lexer returns exactly the
    writer's token stream (decimal printing / parsing, separators, the trailing blank after a bare
    `dmax/`), so the text-level reader equals the token-level reader composed with the writer. -/
theorem ascii_text_lex (q : Qty) (w dmax : Nat) (items : List Item) (hd : dmax < 2 ^ w)
    (hit : ∀ it ∈ items, it.s < it.e ∧ it.e < 2 ^ w) :
    decodeAscii q w (encodeChars dmax items) = decodeToks q w (encodeToks dmax items) := by
  have hlex : ∀ tail : List Char, AllSpace tail →
      lexAll w ((showToks (encodeToks dmax items) ++ tail).length + 1)
        (showToks (encodeToks dmax items) ++ tail) = some (encodeToks dmax items) := by
    intro tail htail
    have := lexAll_showToks w (encodeToks dmax items) (encodeToks_ne_nil dmax items)
      (encodeToks_tokOk w dmax items hd hit) ((showToks (encodeToks dmax items) ++ tail).length + 1)
      (by have := showToks_length (encodeToks dmax items); simp only [List.length_append]; omega)
      [] tail (fun _ h => by cases h) htail
    simpa using this
  have hsplit : ∃ tail, AllSpace tail ∧
      encodeChars dmax items = showToks (encodeToks dmax items) ++ tail := by
    unfold encodeChars showToks
    simp only []
    split
    · exact ⟨[' '], fun c h => by simp only [List.mem_singleton] at h; subst h; decide, rfl⟩
    · exact ⟨[], (fun _ h => by cases h), (List.append_nil _).symm⟩
  obtain ⟨tail, ht, e⟩ := hsplit
  unfold decodeAscii
  rw [e, hlex tail ht]

/-- **ASCII round trip at the character level** (composition of `ascii_text_lex` with the token-level
    theorem): for every list of in-domain, pairwise non-overlapping cell ranges, every order and `dmax`. -/
theorem ascii_text_roundtrip (q : Qty) (w dmax : Nat) (items : List Item)
    (hmax : dmax ≤ q.maxDepth w ∧ dmax ≤ 255) (hok : ∀ it ∈ items, ItemOk q w it ∧ it.d ≤ dmax)
    (hdis : (items.map (rangeOfItem q w)).Pairwise Disjoint)
    (hw : dmax < 2 ^ w) (hfit : ∀ it ∈ items, it.e < 2 ^ w) :
    decodeAscii q w (encodeChars dmax items) = .ok (dmax, normalize (items.map (rangeOfItem q w))) := by
  rw [ascii_text_lex q w dmax items hw (fun it h => ⟨(hok it h).1.2.2.1, hfit it h⟩)]
  exact ascii_roundtrip q w dmax items hmax hok hdis

/-- What the writer is fed with for a valid MOC: in-domain cell ranges of depth at most `d`. -/
theorem itemsOf_ok (q : Qty) (hq : q.dim = 1 ∨ q.dim = 2) (w d : Nat)
    (hd : d ≤ q.maxDepth w) (hd255 : d ≤ 255) (l : List Rng) (hv : Valid q w d l) :
    ∀ it ∈ itemsOf q w d l, ItemOk q w it ∧ it.d ≤ d := by
  have hal := Moc.C05.aligned_of_valid q w d l hv
  have oc := ordCells_cellsOf q hq w d hd (q.nCellsMax w) l 0 hv.1 hal hv.2.1 (Nat.zero_le _)
  have ocr := ordCR_cellRangesOf q w d _ 0 _ oc
  intro it hit
  unfold itemsOf at hit
  obtain ⟨c, hc, rfl⟩ := List.mem_map.1 hit
  obtain ⟨m1, m2, m3⟩ := ordCR_mem q w d _ 0 _ ocr c hc
  refine ⟨⟨by simp only []; omega, by simp only []; omega, m2, ?_⟩, m1⟩
  exact le_nCells_of_shl_le q w c.1 c.2.2 (by omega) (by simpa [rangeOfCellRange] using m3)

theorem nCells_mono (q : Qty) {a b : Nat} (h : a ≤ b) : q.nCells a ≤ q.nCells b := by
  unfold Qty.nCells
  rw [Nat.shiftLeft_eq, Nat.shiftLeft_eq]
  exact Nat.mul_le_mul_left _ (Nat.pow_le_pow_right (by decide) (Nat.mul_le_mul_left _ h))

/-- **ASCII round trip, end to end, at the character level**: for EVERY valid MOC `M` of depth `d`
    whose cell numbers fit the index type (`n_cells(d) < 2^w`: true of the three quantities on
    u16 / u32 / u64, see the instances below), reading the characters the writer emits for `M`
    returns exactly `(d, M)`. -/
theorem ascii_text_roundtrip_moc (q : Qty) (hq : q.dim = 1 ∨ q.dim = 2) (w d : Nat)
    (hd : d ≤ q.maxDepth w) (hd255 : d ≤ 255) (hfit : q.nCells d < 2 ^ w) (hw : d < 2 ^ w)
    (l : List Rng) (hv : Valid q w d l) :
    decodeAscii q w (encodeChars d (itemsOf q w d l)) = .ok (d, l) := by
  have hok := itemsOf_ok q hq w d hd hd255 l hv
  rw [ascii_text_lex q w d _ hw (fun it h => by
    have := hok it h
    have hm := nCells_mono q this.2
    exact ⟨this.1.2.2.1, by have := this.1.2.2.2; omega⟩)]
  exact ascii_roundtrip_moc q hq w d hd hd255 l hv

theorem fit_of_max (q : Qty) (w : Nat) (h : q.nCells (q.maxDepth w) < 2 ^ w) :
    ∀ d ≤ q.maxDepth w, q.nCells d < 2 ^ w :=
  fun _ hd => Nat.lt_of_le_of_lt (nCells_mono q hd) h

/-- The index types of the library satisfy the fit hypothesis at every depth they support. -/
theorem fit_instances :
    (∀ d ≤ Params.hpx.maxDepth 16, Params.hpx.nCells d < 2 ^ 16) ∧
    (∀ d ≤ Params.hpx.maxDepth 32, Params.hpx.nCells d < 2 ^ 32) ∧
    (∀ d ≤ Params.hpx.maxDepth 64, Params.hpx.nCells d < 2 ^ 64) ∧
    (∀ d ≤ Params.time.maxDepth 16, Params.time.nCells d < 2 ^ 16) ∧
    (∀ d ≤ Params.time.maxDepth 32, Params.time.nCells d < 2 ^ 32) ∧
    (∀ d ≤ Params.time.maxDepth 64, Params.time.nCells d < 2 ^ 64) ∧
    (∀ d ≤ Params.freq.maxDepth 16, Params.freq.nCells d < 2 ^ 16) ∧
    (∀ d ≤ Params.freq.maxDepth 32, Params.freq.nCells d < 2 ^ 32) ∧
    (∀ d ≤ Params.freq.maxDepth 64, Params.freq.nCells d < 2 ^ 64) :=
  ⟨fit_of_max _ _ (by decide), fit_of_max _ _ (by decide), fit_of_max _ _ (by decide),
   fit_of_max _ _ (by decide), fit_of_max _ _ (by decide), fit_of_max _ _ (by decide),
   fit_of_max _ _ (by decide), fit_of_max _ _ (by decide), fit_of_max _ _ (by decide)⟩

/-- The empty MOC keeps its depth: the writer emits the bare `dmax/` token. -/
theorem ascii_roundtrip_empty (q : Qty) (w dmax : Nat) (hmax : dmax ≤ q.maxDepth w ∧ dmax ≤ 255) :
    decodeToks q w (encodeToks dmax []) = .ok (dmax, []) := by
  have := ascii_roundtrip q w dmax [] hmax (fun _ h => by cases h) List.Pairwise.nil
  have e : normalize ([] : List Rng) = [] := by
    have n := normalize_spec []
    cases h : normalize ([] : List Rng) with
    | nil => rfl
    | cons r t =>
      have c := n.1; rw [h] at c
      have := (n.2 r.1).1 (by rw [h]; exact Or.inl ⟨Nat.le_refl _, c.2.1⟩)
      cases this
  simpa [e] using this

/-! ### FITS payload -/

theorem toBE_length (n x : Nat) : (toBE n x).length = n := by
  induction n generalizing x with
  | zero => rfl
  | succ n ih => simp [toBE, ih]

theorem fromBE_append (a : List Nat) (b : Nat) : fromBE (a ++ [b]) = fromBE a * 256 + b := by
  simp [fromBE, List.foldl_append]

/-- Big-endian encoding on `n` bytes is inverted exactly for every value below `256^n`. -/
theorem be_roundtrip (n x : Nat) (h : x < 256 ^ n) : fromBE (toBE n x) = x := by
  induction n generalizing x with
  | zero => simp [toBE, fromBE] at *; omega
  | succ n ih =>
    simp only [toBE, fromBE_append]
    have : x / 256 < 256 ^ n := by
      rw [Nat.pow_succ] at h
      exact Nat.div_lt_of_lt_mul (by rw [Nat.mul_comm]; exact h)
    rw [ih _ this]
    have := Nat.div_add_mod x 256
    omega

/-- Every byte is a byte. -/
theorem toBE_bytes (n x : Nat) : ∀ b ∈ toBE n x, b < 256 := by
  induction n generalizing x with
  | zero => intro b h; cases h
  | succ n ih =>
    intro b h
    simp only [toBE, List.mem_append, List.mem_singleton] at h
    rcases h with h | h
    · exact ih _ b h
    · rw [h]; exact Nat.mod_lt _ (by decide)

/-- Rows are (start, end) pairs: pairing inverts flattening; the row count is the range count. -/
theorem words_roundtrip (rs : List Rng) : decodeWords (encodeWords rs) = rs := by
  induction rs with
  | nil => rfl
  | cons r t ih => simp [encodeWords, decodeWords, ih]

theorem words_length (rs : List Rng) : (encodeWords rs).length = 2 * rs.length := by
  induction rs with
  | nil => rfl
  | cons r t ih => simp [encodeWords, ih]; omega

/-- The padded data unit is a whole number of 2880-byte blocks and the padding is minimal. -/
theorem padding_spec (n : Nat) : (n + padding n) % 2880 = 0 ∧ padding n < 2880 := by
  unfold padding
  by_cases h : n % 2880 = 0
  · simp [h]
  · simp only [h, ↓reduceIte]
    have := Nat.mod_lt n (show 2880 > 0 by decide)
    have hd := Nat.div_add_mod n 2880
    constructor
    · have : n + (2880 - n % 2880) = 2880 * (n / 2880 + 1) := by omega
      rw [this]; exact Nat.mul_mod_right _ _
    · omega

/-! ### The whole FITS file (both header blocks, data unit, padding) -/
section FitsFile
open Moc.Fits

/-- The block and card sizes of the file model are the ones EXTRACTED from `src/deser/fits` by this run. -/
theorem fits_constants :
    Params.fitsBlock = 2880 ∧ Params.fitsCard = 80 ∧ Params.fitsPadTo = 2880 ∧
    (∀ cards, block cards = pad Params.fitsBlock cards.flatten) ∧ endCard.length = Params.fitsCard := by
  refine ⟨by decide, by decide, by decide, fun _ => rfl, endCard_length⟩

/-- **Emitted FITS is made of 2880-byte blocks**: the file written for any range MOC — two header
    blocks, the data unit, its zero padding — has a length that is a multiple of 2880. -/
theorem fits_file_blocks (q : Qty) (w depth : Nat) (rs : List Rng) (hd : depth ≤ 255)
    (hw : w / 8 < 10 ^ 20) (hn : rs.length <<< 1 < 10 ^ 20) :
    (rangeFile q w depth rs).length % 2880 = 0 := by
  have hwl : (encodeWords rs).length = rs.length <<< 1 := by
    rw [encodeWords_length, Nat.shiftLeft_eq, Nat.pow_one, Nat.mul_comm]
  exact fileOf_blocks w _ _ (mocCards_80 q w depth hd) (by have := mocCards_count q w depth; omega) hw (by rw [hwl]; exact hn)

/-- **Declared row width and row count equal the data actually written, and the data are read back**:
    the reader's unsigned-value parser applied to the `NAXIS1` and `NAXIS2` cards of the file gives
    the index width in bytes and twice the number of ranges; their product is exactly the number of
    data bytes written before the padding; and the `NAXIS1 × NAXIS2` bytes that follow the two
    header blocks decode (big-endian words, `(start, end)` pairs) to exactly the ranges of the MOC —
    for every quantity, index width, depth and list of ranges whose bounds fit the index type. -/
theorem fits_file_structure (q : Qty) (w depth : Nat) (rs : List Rng) (hd : depth ≤ 255)
    (hw : w / 8 < 10 ^ 20) (hn : rs.length <<< 1 < 10 ^ 20)
    (hfit : ∀ r ∈ rs, r.1 < 256 ^ (w / 8) ∧ r.2 < 256 ^ (w / 8)) :
    readStructure (rangeFile q w depth rs) = some (w / 8, rs.length <<< 1, rs) ∧
    (w / 8) * (rs.length <<< 1) = (dataUnit w rs).length := by
  have hwl : (encodeWords rs).length = rs.length <<< 1 := by
    rw [encodeWords_length, Nat.shiftLeft_eq, Nat.pow_one, Nat.mul_comm]
  obtain ⟨h1, h2⟩ := fileOf_words w (mocCards q w depth) (encodeWords rs) (mocCards_80 q w depth hd)
    (by have := mocCards_count q w depth; omega) hw (by rw [hwl]; exact hn) (by
      intro x hx
      obtain ⟨r, hr, h | h⟩ := mem_encodeWords rs x hx
      · rw [h]; exact (hfit r hr).1
      · rw [h]; exact (hfit r hr).2)
  refine ⟨?_, ?_⟩
  · unfold readStructure rangeFile
    rw [h1, hwl]
    simp only [decodeWords_encodeWords]
  · rw [← hwl]; exact h2

/-- **With the optional `MOCID` / `MOCTYPE` cards** (values of at most 68 characters: what fits a card): the file is
    still made of 2880-byte blocks, declares the row width and count of the data written, and its data bytes decode
    to exactly the ranges. -/
theorem fits_file_with_id (q : Qty) (w depth : Nat) (id ty : Option (List Char)) (rs : List Rng) (hd : depth ≤ 255)
    (hid : ∀ v, id = some v → v.length ≤ 68) (hty : ∀ v, ty = some v → v.length ≤ 68)
    (hw : w / 8 < 10 ^ 20) (hn : rs.length <<< 1 < 10 ^ 20)
    (hfit : ∀ r ∈ rs, r.1 < 256 ^ (w / 8) ∧ r.2 < 256 ^ (w / 8)) :
    (rangeFileWith q w depth id ty rs).length % 2880 = 0 ∧
    readStructure (rangeFileWith q w depth id ty rs) = some (w / 8, rs.length <<< 1, rs) := by
  have hwl : (encodeWords rs).length = rs.length <<< 1 := by
    rw [encodeWords_length, Nat.shiftLeft_eq, Nat.pow_one, Nat.mul_comm]
  have h80 := mocCardsWith_80 q w depth id ty hd hid hty
  have hc : (mocCardsWith q w depth id ty).length ≤ 27 := by have := mocCardsWith_count q w depth id ty; omega
  refine ⟨fileOf_blocks w _ _ h80 hc hw (by rw [hwl]; exact hn), ?_⟩
  obtain ⟨h1, _⟩ := fileOf_words w (mocCardsWith q w depth id ty) (encodeWords rs) h80 hc hw (by rw [hwl]; exact hn) (by
      intro x hx
      obtain ⟨r, hr, h | h⟩ := mem_encodeWords rs x hx
      · rw [h]; exact (hfit r hr).1
      · rw [h]; exact (hfit r hr).2)
  unfold readStructure rangeFileWith
  rw [h1, hwl]
  simp only [decodeWords_encodeWords]

/-- **The NUNIQ file**: 2880-byte blocks, `NAXIS2` = the number of cells, and the NUNIQ numbers are
    read back from the `NAXIS1 × NAXIS2` data bytes, for every list of numbers that fit the index type. -/
theorem fits_nuniq_file (w depth : Nat) (uniqs : List Nat) (hd : depth ≤ 255)
    (hw : w / 8 < 10 ^ 20) (hn : uniqs.length < 10 ^ 20) (hfit : ∀ x ∈ uniqs, x < 256 ^ (w / 8)) :
    (nuniqFile w depth uniqs).length % 2880 = 0 ∧
    readWords (nuniqFile w depth uniqs) = some (w / 8, uniqs.length, uniqs) :=
  ⟨fileOf_blocks w _ _ (nuniqCards_80 w depth hd) (by simp [nuniqCards]) hw hn,
   (fileOf_words w _ _ (nuniqCards_80 w depth hd) (by simp [nuniqCards]) hw hn hfit).1⟩

/-- The dimension name written in `MOCDIM` for each quantity. -/
def dimOf (q : Qty) : List Char :=
  if q.name == "HPX" then ['S', 'P', 'A', 'C', 'E'] else if q.name == "TIME" then ['T', 'I', 'M', 'E']
  else ['F', 'R', 'E', 'Q', 'U', 'E', 'N', 'C', 'Y']

/-- **The FITS file read back, header included**: for the three quantities, every index width, depth and list
    of ranges whose bounds fit the index type, the values the reader extracts from the table header of the file
    written — `NAXIS1`, `NAXIS2`, `MOCDIM`, `ORDERING`, the depth card of the dimension (`MOCORD_S|T|F`),
    `TFORM1` — are the ones of the MOC, and the `NAXIS1 × NAXIS2` data bytes decode to exactly its ranges:
    same quantity, same maximum depth, same set. -/
theorem fits_file_roundtrip (q : Qty) (hq : q = Params.hpx ∨ q = Params.time ∨ q = Params.freq) (w depth : Nat)
    (rs : List Rng) (hd : depth ≤ 255) (hw : w / 8 < 10 ^ 20) (hn : rs.length <<< 1 < 10 ^ 20)
    (hfit : ∀ r ∈ rs, r.1 < 256 ^ (w / 8) ∧ r.2 < 256 ^ (w / 8)) :
    decodeRangeFile (rangeFile q w depth rs) =
      some ({ naxis1 := w / 8, naxis2 := rs.length <<< 1, dim := dimOf q, ordering := ['R', 'A', 'N', 'G', 'E'],
              depth := depth, tform := tform w }, rs) := by
  obtain ⟨hb, hdata⟩ := rangeFile_parts q w depth rs hd hw hn
  have hh : decodeHdr (block (tableCards q w depth rs.length)) =
      some { naxis1 := w / 8, naxis2 := rs.length <<< 1, dim := dimOf q, ordering := ['R', 'A', 'N', 'G', 'E'],
             depth := depth, tform := tform w } := by
    rcases hq with rfl | rfl | rfl
    · exact decodeHdr_hpx _ w depth rs.length (by decide) hd hw hn
    · exact decodeHdr_time _ w depth rs.length (by decide) (by decide) hd hw hn
    · exact decodeHdr_freq _ w depth rs.length (by decide) (by decide) hd hw hn
  unfold decodeRangeFile
  rw [hb, hh]
  simp only [Option.bind_eq_bind, Option.bind_some, hdata]
  have hwl : (encodeWords rs).length = rs.length <<< 1 := by
    rw [encodeWords_length, Nat.shiftLeft_eq, Nat.pow_one, Nat.mul_comm]
  have hwords := wordsOf_flatMap (w / 8) (encodeWords rs) (by
    intro x hx
    obtain ⟨r, hr, h | h⟩ := mem_encodeWords rs x hx
    · rw [h]; exact (hfit r hr).1
    · rw [h]; exact (hfit r hr).2) []
  rw [List.append_nil, hwl] at hwords
  unfold dataUnit
  rw [hwords, decodeWords_encodeWords]
  rfl

/-- Non-vacuity: the hypotheses hold for an S-MOC on 16 bits. -/
example : readStructure (rangeFile Params.hpx 16 4 [(16, 96), (112, 128)]) = some (2, 4, [(16, 96), (112, 128)]) :=
  (fits_file_structure Params.hpx 16 4 [(16, 96), (112, 128)] (by decide) (by decide) (by decide)
    (by intro r hr; simp only [List.mem_cons, List.not_mem_nil, or_false] at hr; rcases hr with rfl | rfl <;> decide)).1

end FitsFile

/-- NUNIQ rows: decoding the code of a cell gives the cell back (all depths, all indices). -/
theorem nuniq_row_roundtrip (d i : Nat) (hi : i < 12 * 4 ^ d) : fromUniqHpx (uniqHpx d i) = (d, i) :=
  fromUniqHpx_uniqHpx d i hi

/-- NUNIQ column, whole file: decoding the codes of any list of in-domain cells gives the cells back
    (the reader then only re-sorts them in flat order; which cells they are is decided here). -/
theorem nuniq_column_roundtrip (cells : List Cell) (h : ∀ c ∈ cells, c.2 < 12 * 4 ^ c.1) :
    (cells.map fun c => uniqHpx c.1 c.2).map fromUniqHpx = cells := by
  induction cells with
  | nil => rfl
  | cons c t ih =>
    simp only [List.map_cons]
    rw [ih (fun x hx => h x (List.mem_cons_of_mem _ hx)),
      fromUniqHpx_uniqHpx c.1 c.2 (h c List.mem_cons_self)]

/-! Non-vacuity: a two-depth MOC with an unoccupied deepest level. -/
example : encodeToks 3 [⟨1, 2, 3⟩, ⟨2, 0, 5⟩] = [.depth 1, .cell 2, .depth 2, .range 0 5, .depth 3] := by decide

/-- **The NUNIQ file read back as cells**: the file written for the cell view of an S-MOC (one NUNIQ number per
    row) is made of 2880-byte blocks, declares one row per cell, and the numbers read from its
    `NAXIS1 × NAXIS2` data bytes decode (`from_uniq_hpx`) to exactly the cells — for every list of cells inside
    the HEALPix domain whose numbers fit the index type. -/
theorem fits_nuniq_file_cells (w depth : Nat) (cells : List Cell) (hd : depth ≤ 255) (hw : w / 8 < 10 ^ 20)
    (hn : cells.length < 10 ^ 20) (hdom : ∀ c ∈ cells, c.2 < 12 * 4 ^ c.1)
    (hfit : ∀ c ∈ cells, uniqHpx c.1 c.2 < 256 ^ (w / 8)) :
    (Moc.Fits.readWords (Moc.Fits.nuniqFile w depth (cells.map fun c => uniqHpx c.1 c.2))).map
      (fun x => (x.1, x.2.1, x.2.2.map fromUniqHpx)) = some (w / 8, cells.length, cells) := by
  have h := (fits_nuniq_file w depth (cells.map fun c => uniqHpx c.1 c.2) hd hw (by simpa using hn) (by
    intro x hx
    obtain ⟨c, hc, rfl⟩ := List.mem_map.1 hx
    exact hfit c hc)).2
  rw [h]
  simp only [Option.map_some, List.length_map, nuniq_column_roundtrip cells hdom]

end Moc.Codec.C07
