/-
  C07 — 1-D MOC serialisation round-trips.

  Proved on the codec model (`Model/Codec.lean`):
  * ASCII: for EVERY list of in-domain, pairwise non-overlapping cell ranges and every `dmax`, the
    reader applied to what the writer emits accepts and returns `dmax` and exactly the covered set
    (`ascii_roundtrip`) — whatever the emission order of the elements, including an empty list (the
    bare `dmax/` token keeps the depth) and unoccupied deepest levels;
  * FITS range payload: big-endian words and (start, end) pairing are inverted exactly, the padding
    makes the byte count a multiple of 2880;
  * NUNIQ payload: code/decode identity (C05 theorems re-exported).
  Partial: fold widths, `start+len` notation, JSON text, the streaming ASCII variant and the FITS
  header cards are exercised by the correspondence run on real bytes (direct round-trip checks), not
  modelled; the link "cells of the writer cover exactly M" is C05's cell view (correspondence-checked).
-/
import MocVerif.Lemmas.Codec
import MocVerif.Lemmas.Cells
import MocVerif.Lemmas.CodecMoc
import MocVerif.Props.C05

namespace Moc.Codec.C07
open Moc Moc.Codec

def Disjoint (a b : Rng) : Prop := a.2 ≤ b.1 ∨ b.2 ≤ a.1

theorem disjoint_symm {a b : Rng} (h : Disjoint a b) : Disjoint b a := h.symm

/-- Pairwise disjoint, non-empty ranges: no adjacent overlap in any order. -/
theorem adjOverlap_of_pairwise : ∀ (l : List Rng), l.Pairwise Disjoint → adjOverlap l = false := by
  intro l
  induction l with
  | nil => intro _; rfl
  | cons a t ih =>
    intro h
    cases t with
    | nil => rfl
    | cons b t' =>
      have hp := List.pairwise_cons.1 h
      have hab := hp.1 b List.mem_cons_self
      simp only [adjOverlap, ih hp.2, Bool.or_false]
      unfold Disjoint at hab
      rcases hab with h1 | h1
      · have : ¬ (b.1 < a.2) := by omega
        simp [this]
      · have : ¬ (a.1 < b.2) := by omega
        simp [this]

theorem mem_perm {l l' : List Rng} (p : l.Perm l') (x : Nat) : mem x l ↔ mem x l' := by
  rw [mem_iff_exists, mem_iff_exists]
  constructor
  · rintro ⟨r, hr, h⟩; exact ⟨r, p.mem_iff.1 hr, h⟩
  · rintro ⟨r, hr, h⟩; exact ⟨r, p.mem_iff.2 hr, h⟩

/-- What the reader returns after validation, for any list of items. -/
theorem finish_spec (q : Qty) (w d : Nat) (l : List Item)
    (hdis : (l.map (rangeOfItem q w)).Pairwise Disjoint) :
    finish q w (d, l) = .ok (d, normalize (l.map (rangeOfItem q w))) := by
  unfold finish
  have p : (sortByStart (l.map (rangeOfItem q w))).Perm (l.map (rangeOfItem q w)) :=
    List.mergeSort_perm _ _
  have hd : (sortByStart (l.map (rangeOfItem q w))).Pairwise Disjoint :=
    (p.pairwise_iff (fun h => disjoint_symm h)).2 hdis
  simp only [adjOverlap_of_pairwise _ hd, Bool.false_eq_true, ↓reduceIte]
  refine congrArg (fun r => Except.ok (d, r)) ?_
  have n1 := normalize_spec (sortByStart (l.map (rangeOfItem q w)))
  have n2 := normalize_spec (l.map (rangeOfItem q w))
  exact Canon.ext n1.1 n2.1 (fun x => by rw [n1.2, n2.2]; exact mem_perm p x)

/-- **ASCII round trip (token level)**: reading what the writer emits gives back the declared depth
    and a canonical MOC covering exactly the union of the elements — for every list of elements,
    every order, every `dmax`, every quantity and index width. -/
theorem ascii_roundtrip (q : Qty) (w dmax : Nat) (items : List Item)
    (hmax : dmax ≤ q.maxDepth w ∧ dmax ≤ 255) (hok : ∀ it ∈ items, ItemOk q w it ∧ it.d ≤ dmax)
    (hdis : (items.map (rangeOfItem q w)).Pairwise Disjoint) :
    decodeToks q w (encodeToks dmax items) = .ok (dmax, normalize (items.map (rangeOfItem q w))) := by
  unfold decodeToks encodeToks
  rw [decodeRaw_eq_loop q w _ (encodeFrom_head items dmax (dmax + 1) 0)]
  rw [loop_encodeFrom q w dmax items hmax (fun it h => (hok it h).1) (dmax + 1) 0 0 0 [] (by omega)
    (by omega) (fun h => by omega)]
  simp only [List.reverse_nil, List.nil_append]
  have pb : (bucketed items 0 (dmax + 1)).Perm items := by
    have := bucketed_perm items (dmax + 1) 0 (fun it h => by have := (hok it h).2; omega)
    have e : (items.filter fun it => decide (0 ≤ it.d)) = items := by
      apply List.filter_eq_self.2; intro it _; simp
    rw [e] at this; exact this
  have pm := pb.map (rangeOfItem q w)
  have hd' : ((bucketed items 0 (dmax + 1)).map (rangeOfItem q w)).Pairwise Disjoint :=
    (pm.pairwise_iff (fun h => disjoint_symm h)).2 hdis
  rw [finish_spec q w dmax _ hd']
  refine congrArg (fun r => Except.ok (dmax, r)) ?_
  have n1 := normalize_spec ((bucketed items 0 (dmax + 1)).map (rangeOfItem q w))
  have n2 := normalize_spec (items.map (rangeOfItem q w))
  exact Canon.ext n1.1 n2.1 (fun x => by rw [n1.2, n2.2]; exact mem_perm pm x)

theorem ordCR_mem (q : Qty) (w d : Nat) : ∀ (cs : List CellRange) (lo hi : Nat), OrdCR q w d lo hi cs →
    ∀ c ∈ cs, c.1 ≤ d ∧ c.2.1 < c.2.2 ∧ (rangeOfCellRange q w c).2 ≤ hi := by
  intro cs
  induction cs with
  | nil => intro _ _ _ c hc; cases hc
  | cons c0 t ih =>
    intro lo hi h c hc
    have hb := ordCR_lb q w d (c0 :: t) lo hi h c hc
    obtain ⟨h1, h2, _, h4⟩ := h
    cases hc with
    | head => exact ⟨h1, h2, hb.2⟩
    | tail _ hm => exact ih _ hi h4 c hm

/-- **ASCII round trip, end to end (token level)**: for EVERY valid MOC `M` of depth `d` — any
    quantity of dimension 1 or 2, any index width, empty and full-domain MOCs and unoccupied
    deepest levels included — the reader applied to what the writer emits for the cell-range view of
    `M` returns exactly `(d, M)`. -/
theorem ascii_roundtrip_moc (q : Qty) (hq : q.dim = 1 ∨ q.dim = 2) (w d : Nat)
    (hd : d ≤ q.maxDepth w) (hd255 : d ≤ 255) (l : List Rng) (hv : Valid q w d l) :
    decodeToks q w (encodeToks d (itemsOf q w d l)) = .ok (d, l) := by
  have hal := Moc.C05.aligned_of_valid q w d l hv
  have oc := ordCells_cellsOf q hq w d hd (q.nCellsMax w) l 0 hv.1 hal hv.2.1 (Nat.zero_le _)
  have ocr := ordCR_cellRangesOf q w d _ 0 _ oc
  have hmap : (itemsOf q w d l).map (rangeOfItem q w)
      = (cellRangesOf (cellsOf q w d l)).map (rangeOfCellRange q w) := by
    unfold itemsOf
    rw [List.map_map]
    apply List.map_congr_left
    intro c _
    rfl
  have hok : ∀ it ∈ itemsOf q w d l, ItemOk q w it ∧ it.d ≤ d := by
    intro it hit
    unfold itemsOf at hit
    obtain ⟨c, hc, rfl⟩ := List.mem_map.1 hit
    obtain ⟨m1, m2, m3⟩ := ordCR_mem q w d _ 0 _ ocr c hc
    refine ⟨⟨by simp only []; omega, by simp only []; omega, m2, ?_⟩, m1⟩
    exact le_nCells_of_shl_le q w c.1 c.2.2 (by omega) (by simpa [rangeOfCellRange] using m3)
  have hdis : ((itemsOf q w d l).map (rangeOfItem q w)).Pairwise Disjoint := by
    rw [hmap]; exact ordCR_pairwise q w d _ 0 _ ocr
  rw [ascii_roundtrip q w d _ ⟨hd, hd255⟩ hok hdis]
  refine congrArg (fun r => Except.ok (d, r)) ?_
  have n := normalize_spec ((itemsOf q w d l).map (rangeOfItem q w))
  refine Canon.ext n.1 hv.1 (fun x => ?_)
  rw [n.2, hmap, mem_cellRangesOf]
  exact Moc.C05.cells_cover q hq w d hd l hv x

/-- **JSON round trip, end to end (token level)**: the Aladin JSON document is the same token
    stream restricted to single cells (`"depth": [idx, …]` per depth, the deepest depth always
    present); for EVERY valid MOC the reader applied to the writer's tokens returns exactly `(d, M)`. -/
theorem json_roundtrip_moc (q : Qty) (hq : q.dim = 1 ∨ q.dim = 2) (w d : Nat)
    (hd : d ≤ q.maxDepth w) (hd255 : d ≤ 255) (l : List Rng) (hv : Valid q w d l) :
    decodeToks q w (encodeToks d (cellItemsOf q w d l)) = .ok (d, l) := by
  have hal := Moc.C05.aligned_of_valid q w d l hv
  have oc := ordCells_cellsOf q hq w d hd (q.nCellsMax w) l 0 hv.1 hal hv.2.1 (Nat.zero_le _)
  have ocr := ordCR_of_ordCells q w d _ 0 _ oc
  have hmap : (cellItemsOf q w d l).map (rangeOfItem q w)
      = ((cellsOf q w d l).map unitCR).map (rangeOfCellRange q w) := by
    unfold cellItemsOf
    rw [List.map_map, List.map_map]
    apply List.map_congr_left
    intro c _
    rfl
  have hok : ∀ it ∈ cellItemsOf q w d l, ItemOk q w it ∧ it.d ≤ d := by
    intro it hit
    unfold cellItemsOf at hit
    obtain ⟨c, hc, rfl⟩ := List.mem_map.1 hit
    obtain ⟨m1, m2, m3⟩ := ordCR_mem q w d _ 0 _ ocr (unitCR c) (List.mem_map.2 ⟨c, hc, rfl⟩)
    refine ⟨⟨by simp only [unitCR] at m1 ⊢; omega, by simp only [unitCR] at m1 ⊢; omega, by simp, ?_⟩, m1⟩
    exact le_nCells_of_shl_le q w c.1 (c.2 + 1) (by simp only [unitCR] at m1; omega)
      (by simpa [rangeOfCellRange, unitCR] using m3)
  have hdis : ((cellItemsOf q w d l).map (rangeOfItem q w)).Pairwise Disjoint := by
    rw [hmap]; exact ordCR_pairwise q w d _ 0 _ ocr
  rw [ascii_roundtrip q w d _ ⟨hd, hd255⟩ hok hdis]
  refine congrArg (fun r => Except.ok (d, r)) ?_
  have n := normalize_spec ((cellItemsOf q w d l).map (rangeOfItem q w))
  refine Canon.ext n.1 hv.1 (fun x => ?_)
  rw [n.2, hmap]
  have : ((cellsOf q w d l).map unitCR).map (rangeOfCellRange q w) = (cellsOf q w d l).map (rangeOfCell q w) := by
    rw [List.map_map]; rfl
  rw [this]
  exact Moc.C05.cells_cover q hq w d hd l hv x

/-- The empty MOC keeps its depth: the writer emits the bare `dmax/` token. -/
theorem ascii_roundtrip_empty (q : Qty) (w dmax : Nat) (hmax : dmax ≤ q.maxDepth w ∧ dmax ≤ 255) :
    decodeToks q w (encodeToks dmax []) = .ok (dmax, []) := by
  have := ascii_roundtrip q w dmax [] hmax (fun _ h => by cases h) List.Pairwise.nil
  have e : normalize ([] : List Rng) = [] := by
    have n := normalize_spec []
    cases h : normalize ([] : List Rng) with
    | nil => rfl
    | cons r t =>
      have c := n.1; rw [h] at c
      have := (n.2 r.1).1 (by rw [h]; exact Or.inl ⟨Nat.le_refl _, c.2.1⟩)
      cases this
  simpa [e] using this

/-! ### FITS payload -/

theorem toBE_length (n x : Nat) : (toBE n x).length = n := by
  induction n generalizing x with
  | zero => rfl
  | succ n ih => simp [toBE, ih]

theorem fromBE_append (a : List Nat) (b : Nat) : fromBE (a ++ [b]) = fromBE a * 256 + b := by
  simp [fromBE, List.foldl_append]

/-- Big-endian encoding on `n` bytes is inverted exactly for every value below `256^n`. -/
theorem be_roundtrip (n x : Nat) (h : x < 256 ^ n) : fromBE (toBE n x) = x := by
  induction n generalizing x with
  | zero => simp [toBE, fromBE] at *; omega
  | succ n ih =>
    simp only [toBE, fromBE_append]
    have : x / 256 < 256 ^ n := by
      rw [Nat.pow_succ] at h
      exact Nat.div_lt_of_lt_mul (by rw [Nat.mul_comm]; exact h)
    rw [ih _ this]
    have := Nat.div_add_mod x 256
    omega

/-- Every byte is a byte. -/
theorem toBE_bytes (n x : Nat) : ∀ b ∈ toBE n x, b < 256 := by
  induction n generalizing x with
  | zero => intro b h; cases h
  | succ n ih =>
    intro b h
    simp only [toBE, List.mem_append, List.mem_singleton] at h
    rcases h with h | h
    · exact ih _ b h
    · rw [h]; exact Nat.mod_lt _ (by decide)

/-- Rows are (start, end) pairs: pairing inverts flattening; the row count is the range count. -/
theorem words_roundtrip (rs : List Rng) : decodeWords (encodeWords rs) = rs := by
  induction rs with
  | nil => rfl
  | cons r t ih => simp [encodeWords, decodeWords, ih]

theorem words_length (rs : List Rng) : (encodeWords rs).length = 2 * rs.length := by
  induction rs with
  | nil => rfl
  | cons r t ih => simp [encodeWords, ih]; omega

/-- The padded data unit is a whole number of 2880-byte blocks and the padding is minimal. -/
theorem padding_spec (n : Nat) : (n + padding n) % 2880 = 0 ∧ padding n < 2880 := by
  unfold padding
  by_cases h : n % 2880 = 0
  · simp [h]
  · simp only [h, ↓reduceIte]
    have := Nat.mod_lt n (show 2880 > 0 by decide)
    have hd := Nat.div_add_mod n 2880
    constructor
    · have : n + (2880 - n % 2880) = 2880 * (n / 2880 + 1) := by omega
      rw [this]; exact Nat.mul_mod_right _ _
    · omega

/-- NUNIQ rows: decoding the code of a cell gives the cell back (all depths, all indices). -/
theorem nuniq_row_roundtrip (d i : Nat) (hi : i < 12 * 4 ^ d) : fromUniqHpx (uniqHpx d i) = (d, i) :=
  fromUniqHpx_uniqHpx d i hi

/-- NUNIQ column, whole file: decoding the codes of any list of in-domain cells gives the cells back
    (the reader then only re-sorts them in flat order; which cells they are is decided here). -/
theorem nuniq_column_roundtrip (cells : List Cell) (h : ∀ c ∈ cells, c.2 < 12 * 4 ^ c.1) :
    (cells.map fun c => uniqHpx c.1 c.2).map fromUniqHpx = cells := by
  induction cells with
  | nil => rfl
  | cons c t ih =>
    simp only [List.map_cons]
    rw [ih (fun x hx => h x (List.mem_cons_of_mem _ hx)),
      fromUniqHpx_uniqHpx c.1 c.2 (h c List.mem_cons_self)]

/-! Non-vacuity: a two-depth MOC with an unoccupied deepest level. -/
example : encodeToks 3 [⟨1, 2, 3⟩, ⟨2, 0, 5⟩] = [.depth 1, .cell 2, .depth 2, .range 0 5, .depth 3] := by decide

end Moc.Codec.C07
