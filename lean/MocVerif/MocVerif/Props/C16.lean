/-
  C16 — readers see a consistent file during and after an interrupted update.
-/
import MocVerif.Model.MocSetCrash
import MocVerif.Props.C14

namespace Moc.C16

/-- A well-formed file before the update: exactly the listed MOCs are indexed, ends are increasing up
    to the file length. -/
def WF (v : View) : Prop := v.listed = v.index.length ∧ ∀ i, i < v.index.length → nthD v.index i ≤ v.fileLen

theorem wf_consistent (v : View) (h : WF v) : Consistent v :=
  ⟨by rw [h.1]; exact Nat.le_refl _, fun i hi => h.2 i (by rw [← h.1]; exact hi)⟩

theorem getD_append_lt (l : List Nat) (x : Nat) : ∀ i, i < l.length → nthD (l ++ [x]) i = nthD l i := by
  induction l with
  | nil => intro i h; simp at h
  | cons a t ih =>
    intro i h
    cases i with
    | zero => rfl
    | succ j => simp only [List.cons_append, nthD]; exact ih j (by simpa using h)

theorem getD_append_eq (l : List Nat) (x : Nat) : nthD (l ++ [x]) l.length = x := by
  induction l with
  | nil => rfl
  | cons a t ih => simp only [List.cons_append, List.length_cons, nthD]; exact ih

/-- **Atomicity of `append` (repaired order)**: at EVERY boundary between two visible effects — and
    hence after a kill at that boundary — a reader sees a consistent file whose listing is either
    the listing before the update or the listing after it. -/
theorem append_atomic (v : View) (n : Nat) (h : WF v) (k : Nat) :
    let w := visible v ((appendEffs v n).take k)
    Consistent w ∧ (w.listed = v.listed ∨ w.listed = v.listed + 1) := by
  have hk : k = 0 ∨ k = 1 ∨ k = 2 ∨ 3 ≤ k := by omega
  rcases hk with rfl | rfl | rfl | hk
  · exact ⟨wf_consistent v h, Or.inl rfl⟩
  · refine ⟨⟨by simp [visible, appendEffs, applyEff, h.1], ?_⟩, Or.inl rfl⟩
    intro i hi
    simp [visible, appendEffs, applyEff] at hi ⊢
    have := h.2 i (by rw [← h.1]; exact hi); omega
  · refine ⟨⟨by simp [visible, appendEffs, applyEff, h.1], ?_⟩, Or.inl rfl⟩
    intro i hi
    simp [visible, appendEffs, applyEff] at hi ⊢
    rw [getD_append_lt _ _ _ (by rw [← h.1]; exact hi)]
    have := h.2 i (by rw [← h.1]; exact hi); omega
  · have ht : (appendEffs v n).take k = appendEffs v n := List.take_of_length_le (by simp [appendEffs]; omega)
    rw [ht]
    refine ⟨⟨by simp [visible, appendEffs, applyEff, h.1], ?_⟩, Or.inr rfl⟩
    intro i hi
    simp [visible, appendEffs, applyEff] at hi ⊢
    by_cases hlt : i < v.index.length
    · rw [getD_append_lt _ _ _ hlt]
      have := h.2 i hlt; omega
    · have : i = v.index.length := by rw [← h.1]; rw [← h.1] at hlt; omega
      rw [this, getD_append_eq]; exact Nat.le_refl _

/-- After the complete update the file is well formed again (so histories compose, and recovery —
    removing the stale lock — leaves a file on which the next update starts from a `WF` state). -/
theorem append_preserves_wf (v : View) (n : Nat) (h : WF v) : WF (visible v (appendEffs v n)) := by
  refine ⟨by simp [visible, appendEffs, applyEff, h.1], ?_⟩
  intro i hi
  simp [visible, appendEffs, applyEff] at hi ⊢
  by_cases hlt : i < v.index.length
  · rw [getD_append_lt _ _ _ hlt]; have := h.2 i hlt; omega
  · have : i = v.index.length := by omega
    rw [this, getD_append_eq]; exact Nat.le_refl _

/-- A killed append leaves at worst orphan bytes / an orphan index word, never a listed MOC with
    missing data: every prefix state is consistent, so a later append (which writes at the end
    offset recorded in the index, over the orphan bytes) starts from a consistent view. -/
theorem kill_leaves_consistent (v : View) (n : Nat) (h : WF v) (k : Nat) :
    Consistent (visible v ((appendEffs v n).take k)) := (append_atomic v n h k).1

/-- **The defect of the original order, as a theorem**: after the metadata store and before the data
    flush a reader LISTS a MOC whose bytes are beyond the end of the file. -/
theorem original_order_inconsistent :
    let v : View := { fileLen := 2048, index := [], listed := 0 }
    ¬ Consistent (visible v ((appendEffsOriginal v 16).take 2)) := by
  decide

/-! ### `chgstatus` and `purge` -/

theorem visibleStatuses_length (v : Statuses) (effs : List (Nat × Nat)) :
    (visibleStatuses v effs).length = v.length := by
  unfold visibleStatuses
  induction effs generalizing v with
  | nil => rfl
  | cons e t ih => simp only [List.foldl_cons]; rw [ih]; simp [applyStatus]

/-- **`chgstatus`, entry by entry**: at every boundary between two status stores (hence after a kill there) the
    number of entries is unchanged and every entry carries either its old status or the new one; nothing else
    is written, so every listed MOC keeps its complete data (`Consistent` is about index / data only). -/
theorem chg_prefix_old_or_new (st : Nat) (v : Statuses) (effs : List (Nat × Nat)) (hst : ∀ e ∈ effs, e.2 = st) (k : Nat) :
    (visibleStatuses v (effs.take k)).length = v.length ∧
    ∀ i : Nat, (visibleStatuses v (effs.take k))[i]? = v[i]? ∨ (visibleStatuses v (effs.take k))[i]? = some st := by
  refine ⟨visibleStatuses_length _ _, ?_⟩
  have gen : ∀ (l : List (Nat × Nat)) (w : Statuses), (∀ e ∈ l, e.2 = st) →
      (∀ i : Nat, w[i]? = v[i]? ∨ w[i]? = some st) →
      ∀ i : Nat, (visibleStatuses w l)[i]? = v[i]? ∨ (visibleStatuses w l)[i]? = some st := by
    intro l
    induction l with
    | nil => intro w _ hw; exact hw
    | cons e t ih =>
      intro w hl hw
      unfold visibleStatuses
      simp only [List.foldl_cons]
      apply ih (applyStatus w e) (fun x hx => hl x (List.mem_cons_of_mem _ hx))
      intro i
      unfold applyStatus
      rw [List.getElem?_set]
      split
      · split
        · right; rw [hl e List.mem_cons_self]
        · rename_i h1 h2
          left
          have : w[i]? = none := by simp; omega
          rcases hw i with h | h
          · rw [← h, this]
          · rw [this] at h; cases h
      · exact hw i
  exact gen (effs.take k) v (fun e he => hst e (List.mem_of_mem_take he)) (fun i => Or.inl rfl)

/-- **A `chgstatus` that changes ONE entry is atomic**: every prefix of its effects shows the state before or
    the state after. -/
theorem chg_single_atomic (v : Statuses) (effs : List (Nat × Nat)) (h1 : effs.length ≤ 1) (k : Nat) :
    visibleStatuses v (effs.take k) = v ∨ visibleStatuses v (effs.take k) = visibleStatuses v effs := by
  cases effs with
  | nil => left; simp [visibleStatuses]
  | cons e t =>
    have ht : t = [] := by
      cases t with
      | nil => rfl
      | cons _ _ => simp at h1
    subst ht
    cases k with
    | zero => left; simp [visibleStatuses]
    | succ j => right; simp

/-- **A `chgstatus` on several identifiers is NOT atomic** (the open finding): after the first of the two
    stores of `chgstatus deprecated 2,3` the statuses are neither those before nor those after the command. -/
theorem chg_multi_not_atomic :
    let v : Statuses := [1, 3, 3, 3]                                  -- ids 1 (removed), 2, 3, 4 (valid)
    let effs := chgEffs 2 [2, 3] [(1, 1), (2, 3), (3, 3), (4, 3)]
    effs = [(1, 2), (2, 2)] ∧
    visibleStatuses v (effs.take 1) = [1, 2, 3, 3] ∧
    visibleStatuses v (effs.take 1) ≠ v ∧ visibleStatuses v (effs.take 1) ≠ visibleStatuses v effs := by
  decide

/-- **`purge`** writes the compacted set under a temporary name and renames it over the set: a reader opening
    the set's name sees the old content at every boundary before the rename and the new one after it. -/
theorem purge_atomic {α : Type} (old new : α) (k : Nat) :
    purgeView old new (purgeEffs.take k) = old ∨ purgeView old new (purgeEffs.take k) = new := by
  unfold purgeView
  split
  · exact Or.inr rfl
  · exact Or.inl rfl

theorem purge_switch_at_rename {α : Type} (old new : α) :
    purgeView old new (purgeEffs.take 1) = old ∧ purgeView old new (purgeEffs.take 2) = new ∧
    purgeView old new purgeEffs = new := by
  refine ⟨?_, ?_, ?_⟩ <;> simp [purgeView, purgeEffs]

/-! Non-vacuity -/
example : WF { fileLen := 2064, index := [2064], listed := 1 } := by
  refine ⟨rfl, fun i hi => ?_⟩
  have : i = 0 := by simp at hi; omega
  subst this; decide

/-! ### The interrupted `append` at the level of the file's words and bytes -/
section File
open Moc.MsFile Moc.C14

/-- **A writer killed after `k` of the three stores of `append`** (data bytes, index word, metadata
    word — the repaired program order) leaves a file in which a reader decodes EXACTLY the moc-set
    before the command (`k ≤ 2`: the bytes and the index word beyond the last listed entry are never
    looked at) or EXACTLY the moc-set after it (`k ≥ 3`) — for every reachable file, every MOC and
    every kill point; in particular every listed MOC is read back intact. -/
theorem append_interrupted_file_view (f : File) (e : MsEntry) (k : Nat) (hf : FileWF f) (he : EntryOk e) :
    abs (fileAppendPrefix f e k) = if k ≥ 3 then (msAppend (abs f) e).1 else abs f := by
  obtain ⟨l, tail, hok, _, hb⟩ := hf
  have := appendPrefix_abs f.n128 l tail e k hok he
  rw [← hb] at this
  rw [this, abs_of_wf hok hb]

/-- The interrupted update can be run again (or any other command can follow): the file a kill
    leaves before the metadata store is read as the old moc-set, and its leftover bytes are
    overwritten by the next append (`file_append_refines` holds for any leftover `tail`). -/
theorem append_interrupted_then_retry (n : Nat) (l : List MsEntry) (tail : List Nat) (e : MsEntry)
    (hok : ∀ x ∈ l, EntryOk x) (hnd : NoDupLive { n128 := n, entries := l }) (he : EntryOk e) (hl : e.status > 1) :
    abs (fileAppend (build n (l.map itemOf) (entryBytes e ++ tail)) e).1
      = (msAppend { n128 := n, entries := l } e).1 := by
  have hwf : FileWF (build n (l.map itemOf) (entryBytes e ++ tail)) := ⟨l, _, hok, hnd, rfl⟩
  have := (file_append_refines _ e hwf he hl).1
  rw [this, abs_canon n l _ hok]

/-- **`chgstatus` interrupted, at the level of the file**: whatever the number `k` of in-place stores
    performed before the kill, the index words and the data bytes are untouched and every metadata
    word is the one before the command or the one after it.  (With several identifiers the words may
    be a MIX of old and new: the open finding `chg_multi_not_atomic`; with one store at most the file
    is wholly old or wholly new, `chg_single_atomic`.) -/
theorem chg_interrupted_file (f : File) (st : Nat) (ids : List Nat) (k : Nat) :
    (fileChgPrefix f st ids k).index = f.index ∧ (fileChgPrefix f st ids k).data = f.data ∧
    OldOrNew (fileChgPrefix f st ids k).mwords f.mwords (fileChg f st ids).1.mwords :=
  ⟨rfl, rfl, chgScanK_oldOrNew st f.mwords k ids.eraseDups⟩

end File

end Moc.C16
