/-
  C16 — readers see a consistent file during and after an interrupted update.
-/
import MocVerif.Model.MocSetCrash

namespace Moc.C16

/-- A well-formed file before the update: exactly the listed MOCs are indexed, ends are increasing up
    to the file length. -/
def WF (v : View) : Prop := v.listed = v.index.length ∧ ∀ i, i < v.index.length → nthD v.index i ≤ v.fileLen

theorem wf_consistent (v : View) (h : WF v) : Consistent v :=
  ⟨by rw [h.1]; exact Nat.le_refl _, fun i hi => h.2 i (by rw [← h.1]; exact hi)⟩

theorem getD_append_lt (l : List Nat) (x : Nat) : ∀ i, i < l.length → nthD (l ++ [x]) i = nthD l i := by
  induction l with
  | nil => intro i h; simp at h
  | cons a t ih =>
    intro i h
    cases i with
    | zero => rfl
    | succ j => simp only [List.cons_append, nthD]; exact ih j (by simpa using h)

theorem getD_append_eq (l : List Nat) (x : Nat) : nthD (l ++ [x]) l.length = x := by
  induction l with
  | nil => rfl
  | cons a t ih => simp only [List.cons_append, List.length_cons, nthD]; exact ih

/-- **Atomicity of `append` (repaired order)**: at EVERY boundary between two visible effects — and
    hence after a kill at that boundary — a reader sees a consistent file whose listing is either
    the listing before the update or the listing after it. -/
theorem append_atomic (v : View) (n : Nat) (h : WF v) (k : Nat) :
    let w := visible v ((appendEffs v n).take k)
    Consistent w ∧ (w.listed = v.listed ∨ w.listed = v.listed + 1) := by
  have hk : k = 0 ∨ k = 1 ∨ k = 2 ∨ 3 ≤ k := by omega
  rcases hk with rfl | rfl | rfl | hk
  · exact ⟨wf_consistent v h, Or.inl rfl⟩
  · refine ⟨⟨by simp [visible, appendEffs, applyEff, h.1], ?_⟩, Or.inl rfl⟩
    intro i hi
    simp [visible, appendEffs, applyEff] at hi ⊢
    have := h.2 i (by rw [← h.1]; exact hi); omega
  · refine ⟨⟨by simp [visible, appendEffs, applyEff, h.1], ?_⟩, Or.inl rfl⟩
    intro i hi
    simp [visible, appendEffs, applyEff] at hi ⊢
    rw [getD_append_lt _ _ _ (by rw [← h.1]; exact hi)]
    have := h.2 i (by rw [← h.1]; exact hi); omega
  · have ht : (appendEffs v n).take k = appendEffs v n := List.take_of_length_le (by simp [appendEffs]; omega)
    rw [ht]
    refine ⟨⟨by simp [visible, appendEffs, applyEff, h.1], ?_⟩, Or.inr rfl⟩
    intro i hi
    simp [visible, appendEffs, applyEff] at hi ⊢
    by_cases hlt : i < v.index.length
    · rw [getD_append_lt _ _ _ hlt]
      have := h.2 i hlt; omega
    · have : i = v.index.length := by rw [← h.1]; rw [← h.1] at hlt; omega
      rw [this, getD_append_eq]; exact Nat.le_refl _

/-- After the complete update the file is well formed again (so histories compose, and recovery —
    removing the stale lock — leaves a file on which the next update starts from a `WF` state). -/
theorem append_preserves_wf (v : View) (n : Nat) (h : WF v) : WF (visible v (appendEffs v n)) := by
  refine ⟨by simp [visible, appendEffs, applyEff, h.1], ?_⟩
  intro i hi
  simp [visible, appendEffs, applyEff] at hi ⊢
  by_cases hlt : i < v.index.length
  · rw [getD_append_lt _ _ _ hlt]; have := h.2 i hlt; omega
  · have : i = v.index.length := by omega
    rw [this, getD_append_eq]; exact Nat.le_refl _

/-- A killed append leaves at worst orphan bytes / an orphan index word, never a listed MOC with
    missing data: every prefix state is consistent, so a later append (which writes at the end
    offset recorded in the index, over the orphan bytes) starts from a consistent view. -/
theorem kill_leaves_consistent (v : View) (n : Nat) (h : WF v) (k : Nat) :
    Consistent (visible v ((appendEffs v n).take k)) := (append_atomic v n h k).1

/-- **The defect of the original order, as a theorem**: after the metadata store and before the data
    flush a reader LISTS a MOC whose bytes are beyond the end of the file. -/
theorem original_order_inconsistent :
    let v : View := { fileLen := 2048, index := [], listed := 0 }
    ¬ Consistent (visible v ((appendEffsOriginal v 16).take 2)) := by
  decide

/-! Non-vacuity -/
example : WF { fileLen := 2064, index := [2064], listed := 1 } := by
  refine ⟨rfl, fun i hi => ?_⟩
  have : i = 0 := by simp at hi; omega
  subst this; decide

end Moc.C16
