/-
  C18 — physical quantities map to MOC indices monotonically and invertibly.
  The constants are the ones extracted from `src/qty.rs` (`Model/Params.lean`): changing the exponent
  window or one of the two biases in the source breaks these proofs.
-/
import MocVerif.Lemmas.Cells
import MocVerif.Props.C06
import MocVerif.Model.Freq

namespace Moc.C18

theorem two52_pos : 0 < two52 := by unfold two52; exact Nat.pos_of_ne_zero (by simp)

/-- On accepted values the index is `bits − bias·2^52`. -/
theorem freqHash64_eq (b : Nat) (hv : freqValid b = true) :
    freqHash64 b + Params.freqBiasEnc * two52 = b := by
  unfold freqValid freqMinBits freqMaxBits at hv
  simp at hv
  unfold freqHash64
  have hm := Nat.div_add_mod b two52
  have hp := two52_pos
  have hge : Params.freqBiasEnc ≤ b / two52 := by
    have : Params.freqBiasEnc = Params.freqExpMin := by decide
    rw [this]
    exact (Nat.le_div_iff_mul_le hp).2 hv.1
  rw [Nat.sub_mul]
  have : Params.freqBiasEnc * two52 ≤ b / two52 * two52 := Nat.mul_le_mul_right _ hge
  rw [Nat.mul_comm two52] at hm
  omega

/-- **Strictly increasing** over the whole supported interval (64-bit indices). -/
theorem freq_strict_mono (b1 b2 : Nat) (h1 : freqValid b1 = true) (h2 : freqValid b2 = true) (h : b1 < b2) :
    freqHash64 b1 < freqHash64 b2 := by
  have e1 := freqHash64_eq b1 h1; have e2 := freqHash64_eq b2 h2; omega

/-- With 64-bit indices `freq2hash` accepts exactly the interval and never wraps: the index lies
    inside the frequency domain `[0, n_cells_max)`. -/
theorem freq_in_domain (b : Nat) (hv : freqValid b = true) : freqHash64 b < Params.freq.nCellsMax 64 := by
  have e := freqHash64_eq b hv
  unfold freqValid freqMaxBits at hv
  simp at hv
  have h2 := hv.2
  have hn : Params.freq.nCellsMax 64 = 256 * two52 := by decide
  have hmax : Params.freqExpMax * two52 = (Params.freqBiasEnc + 255) * two52 := by decide
  rw [hn]
  rw [hmax, Nat.add_mul] at h2
  have := two52_pos
  omega

/-- Values outside the interval are rejected. -/
theorem freq_rejects (w b : Nat) (hv : freqValid b = false) : freq2hash w b = none := by
  unfold freq2hash; simp [hv]

/-- **The inverse returns the original value bit-for-bit** (64-bit indices). -/
theorem freq_roundtrip (b : Nat) (hv : freqValid b = true) : hash2freq 64 (freqHash64 b) = some b := by
  have e := freqHash64_eq b hv
  have hd := freq_in_domain b hv
  have hn : Params.freq.nCellsMax 64 = 256 * two52 := by decide
  rw [hn] at hd
  have hp := two52_pos
  have hw : widen (64 - 64) (freqHash64 b) = freqHash64 b := by
    show freqHash64 b <<< 0 = freqHash64 b
    exact Nat.shiftLeft_zero
  unfold hash2freq
  rw [hw]
  simp only []
  have he : freqHash64 b / two52 ≤ 256 := by
    have := (Nat.div_lt_iff_lt_mul hp).2 hd; omega
  simp only [he, ↓reduceIte]
  refine congrArg some ?_
  have hm := Nat.div_add_mod (freqHash64 b) two52
  have hbias : Params.freqBiasDec = Params.freqBiasEnc := by decide
  rw [hbias, Nat.add_mul]
  rw [Nat.mul_comm two52] at hm
  omega

/-- Narrower index types: the map stays (weakly) monotone. -/
theorem freq_mono_narrow (w b1 b2 : Nat) (h1 : freqValid b1 = true) (h2 : freqValid b2 = true) (h : b1 ≤ b2) :
    ∃ x y, freq2hash w b1 = some x ∧ freq2hash w b2 = some y ∧ x ≤ y := by
  unfold freq2hash
  rw [if_pos h1, if_pos h2]
  refine ⟨_, _, rfl, rfl, ?_⟩
  unfold narrow
  rw [Nat.shiftRight_eq_div_pow, Nat.shiftRight_eq_div_pow]
  apply Nat.div_le_div_right
  have e1 := freqHash64_eq b1 h1; have e2 := freqHash64_eq b2 h2; omega

/-- **F-MOC from values**: contains exactly the depth-`d` cells containing the (accepted) values —
    for every list of values, order and buffer capacity (corollary of the C06 builder theorem). -/
theorem fmoc_contains_exactly (w sh cap : Nat) (bs : List Nat) (x : Nat) :
    mem x (fromFreqBits w sh cap bs) ↔ ∃ b ∈ bs, ∃ h, freq2hash w b = some h ∧ x / 2 ^ sh = h >>> sh := by
  unfold fromFreqBits
  rw [fromFixedDepthCells_eq]
  have n := normalize_spec ((bs.filterMap fun b => (freq2hash w b).map (· >>> sh)).map fun c => (c <<< sh, (c + 1) <<< sh))
  rw [n.2, mem_map_cellRange]
  simp only [List.mem_filterMap, Option.map_eq_some_iff]
  constructor
  · rintro ⟨b, hb, h, hh, e⟩; exact ⟨b, hb, h, hh, e.symm⟩
  · rintro ⟨b, hb, h, hh, e⟩; exact ⟨b, hb, h, hh, e.symm⟩

/-- **T-MOC from microsecond timestamps**: contains exactly the depth-`d` cells of those instants,
    for every index width. -/
theorem tmoc_contains_exactly (w sh cap : Nat) (ts : List Nat) (x : Nat) :
    mem x (fromMicrosec w sh cap ts) ↔ ∃ t ∈ ts, x / 2 ^ sh = (narrow (64 - w) t) >>> sh := by
  unfold fromMicrosec
  rw [fromFixedDepthCells_eq]
  have n := normalize_spec ((ts.map fun t => (narrow (64 - w) t) >>> sh).map fun c => (c <<< sh, (c + 1) <<< sh))
  rw [n.2, mem_map_cellRange]
  simp only [List.mem_map]
  constructor
  · rintro ⟨t, ht, e⟩; exact ⟨t, ht, e.symm⟩
  · rintro ⟨t, ht, e⟩; exact ⟨t, ht, e.symm⟩

/-- **T-MOC from microsecond ranges**: contains exactly the depth-`d` cells of the instants of the
    (non-empty, half-open) ranges, for every index width — in particular the instants of the last,
    partially covered, cell of the narrower type. -/
theorem tmoc_ranges_core (w sh cap : Nat) (rs : List Rng) (hr : ∀ r ∈ rs, r.1 < r.2) (x : Nat) :
    mem x (fromMaxdepthRanges sh cap (rs.map fun r => (narrow (64 - w) r.1, narrowUp (64 - w) r.2))) ↔
      ∃ r ∈ rs, ∃ t, r.1 ≤ t ∧ t < r.2 ∧ x / 2 ^ sh = (narrow (64 - w) t) >>> sh := by
  have hne : ∀ q ∈ rs.map (fun r => (narrow (64 - w) r.1, narrowUp (64 - w) r.2)), q.1 < q.2 := by
    intro q hq
    obtain ⟨r, hr', rfl⟩ := List.mem_map.1 hq
    have := (narrow_image (64 - w) r.1 r.2 (narrow (64 - w) r.1) (hr r hr')).2 ⟨r.1, Nat.le_refl _, hr r hr', rfl⟩
    exact this.2
  rw [(C06.rangeBuilder_sem sh cap _ hne).2]
  simp only [Nat.shiftRight_eq_div_pow]
  constructor
  · rintro ⟨q, hq, y, h1, h2, h3⟩
    obtain ⟨r, hr', rfl⟩ := List.mem_map.1 hq
    obtain ⟨t, ht1, ht2, rfl⟩ := (narrow_image (64 - w) r.1 r.2 y (hr r hr')).1 ⟨h1, h2⟩
    exact ⟨r, hr', t, ht1, ht2, h3⟩
  · rintro ⟨r, hr', t, ht1, ht2, h3⟩
    have := (narrow_image (64 - w) r.1 r.2 (narrow (64 - w) t) (hr r hr')).2 ⟨t, ht1, ht2, rfl⟩
    exact ⟨_, List.mem_map.2 ⟨r, hr', rfl⟩, narrow (64 - w) t, this.1, this.2, h3⟩

/-- **Every list of ranges, empty ones included** (`tmin = tmax`: no instant, hence no cell — whatever the
    alignment of the bound and the index width; /repo "fix: RangeMocBuilder kept empty input ranges"). -/
theorem tmoc_ranges_contains_exactly (w sh cap : Nat) (rs : List Rng) (x : Nat) :
    mem x (fromMicrosecRanges w sh cap rs) ↔
      ∃ r ∈ rs, ∃ t, r.1 ≤ t ∧ t < r.2 ∧ x / 2 ^ sh = (narrow (64 - w) t) >>> sh := by
  unfold fromMicrosecRanges
  rw [tmoc_ranges_core w sh cap _ (fun r h => by simpa using (List.mem_filter.1 h).2)]
  constructor
  · rintro ⟨r, hr, h⟩; exact ⟨r, (List.mem_filter.1 hr).1, h⟩
  · rintro ⟨r, hr, t, h1, h2, h3⟩
    exact ⟨r, List.mem_filter.2 ⟨hr, by simp; omega⟩, t, h1, h2, h3⟩

/-- **F-MOC from hertz ranges**: for accepted bounds `f1 < f2` (bit patterns `r.1 < r.2`) the MOC contains
    exactly the depth-`d` cells containing a value of `[f1, f2)`, for every index width. -/
theorem fmoc_ranges_core (w sh cap : Nat) (rs : List Rng)
    (hr : ∀ r ∈ rs, r.1 < r.2 ∧ freqValid r.1 = true ∧ freqValid r.2 = true) (x : Nat) :
    mem x (fromMaxdepthRanges sh cap (rs.filterMap (freqRangeIdx w))) ↔
      ∃ r ∈ rs, ∃ b, r.1 ≤ b ∧ b < r.2 ∧ ∃ h, freq2hash w b = some h ∧ x / 2 ^ sh = h >>> sh := by
  have hfm : rs.filterMap (freqRangeIdx w) =
      rs.map fun r => (narrow (64 - w) (freqHash64 r.1), narrowUp (64 - w) (freqHash64 r.2)) := by
    clear x
    induction rs with
    | nil => rfl
    | cons r t ih =>
      have h := hr r List.mem_cons_self
      have e : freqRangeIdx w r = some (narrow (64 - w) (freqHash64 r.1), narrowUp (64 - w) (freqHash64 r.2)) := by
        simp [freqRangeIdx, freq2hash, h.2.1, h.2.2]
      rw [List.filterMap_cons, e, List.map_cons, ih (fun q hq => hr q (List.mem_cons_of_mem _ hq))]
  rw [hfm]
  have hne : ∀ q ∈ rs.map (fun r => (narrow (64 - w) (freqHash64 r.1), narrowUp (64 - w) (freqHash64 r.2))), q.1 < q.2 := by
    intro q hq
    obtain ⟨r, hr', rfl⟩ := List.mem_map.1 hq
    have h := hr r hr'
    have hlt := freq_strict_mono r.1 r.2 h.2.1 h.2.2 h.1
    exact ((narrow_image (64 - w) _ _ (narrow (64 - w) (freqHash64 r.1)) hlt).2 ⟨_, Nat.le_refl _, hlt, rfl⟩).2
  rw [(C06.rangeBuilder_sem sh cap _ hne).2]
  simp only [Nat.shiftRight_eq_div_pow]
  -- validity is convex: every bit pattern between two accepted ones is accepted
  have hconv : ∀ r ∈ rs, ∀ b, r.1 ≤ b → b < r.2 → freqValid b = true := by
    intro r hr' b h1 h2
    have h := hr r hr'
    have v1 := h.2.1; have v2 := h.2.2
    unfold freqValid at *
    simp only [Bool.and_eq_true, decide_eq_true_eq] at *
    omega
  constructor
  · rintro ⟨q, hq, y, h1, h2, h3⟩
    obtain ⟨r, hr', rfl⟩ := List.mem_map.1 hq
    have h := hr r hr'
    have hlt := freq_strict_mono r.1 r.2 h.2.1 h.2.2 h.1
    obtain ⟨t, ht1, ht2, rfl⟩ := (narrow_image (64 - w) _ _ y hlt).1 ⟨h1, h2⟩
    -- `t` is the index of the bit pattern `t + bias·2^52`
    have e1 := freqHash64_eq r.1 h.2.1
    have e2 := freqHash64_eq r.2 h.2.2
    have hb1 : r.1 ≤ t + Params.freqBiasEnc * two52 := by omega
    have hb2 : t + Params.freqBiasEnc * two52 < r.2 := by omega
    have hv := hconv r hr' _ hb1 hb2
    have e3 := freqHash64_eq _ hv
    have : freqHash64 (t + Params.freqBiasEnc * two52) = t := by omega
    refine ⟨r, hr', t + Params.freqBiasEnc * two52, hb1, hb2, narrow (64 - w) t, ?_, h3⟩
    simp [freq2hash, hv, this]
  · rintro ⟨r, hr', b, hb1, hb2, hh, hfh, h3⟩
    have h := hr r hr'
    have hv := hconv r hr' b hb1 hb2
    have hlt := freq_strict_mono r.1 r.2 h.2.1 h.2.2 h.1
    simp only [freq2hash, hv, if_true, Option.some.injEq] at hfh
    subst hfh
    have e1 := freqHash64_eq r.1 h.2.1
    have e2 := freqHash64_eq r.2 h.2.2
    have e3 := freqHash64_eq b hv
    have := (narrow_image (64 - w) _ _ (narrow (64 - w) (freqHash64 b)) hlt).2 ⟨freqHash64 b, by omega, by omega, rfl⟩
    exact ⟨_, List.mem_map.2 ⟨r, hr', rfl⟩, _, this.1, this.2, h3⟩

/-- **Every list of accepted hertz ranges, empty ones included** (`f1 = f2`, or reversed bounds: no value, no
    cell). -/
theorem fmoc_ranges_contains_exactly (w sh cap : Nat) (rs : List Rng)
    (hr : ∀ r ∈ rs, freqValid r.1 = true ∧ freqValid r.2 = true) (x : Nat) :
    mem x (fromFreqRangeBits w sh cap rs) ↔
      ∃ r ∈ rs, ∃ b, r.1 ≤ b ∧ b < r.2 ∧ ∃ h, freq2hash w b = some h ∧ x / 2 ^ sh = h >>> sh := by
  unfold fromFreqRangeBits
  rw [fmoc_ranges_core w sh cap _ (fun r h => ⟨by simpa using (List.mem_filter.1 h).2, hr r (List.mem_filter.1 h).1⟩)]
  constructor
  · rintro ⟨r, hr', h⟩; exact ⟨r, (List.mem_filter.1 hr').1, h⟩
  · rintro ⟨r, hr', b, h1, h2, h3⟩
    exact ⟨r, List.mem_filter.2 ⟨hr', by simp; omega⟩, b, h1, h2, h3⟩

/-- A wider index type covers the same physical interval: widening an index and dropping the added
    bits gives the index back (hence the same microsecond / hash values are covered). -/
theorem widen_same_interval (k x : Nat) : narrow k (widen k x) = x := narrow_widen k x

/-- The inverse is the same affine map read backwards: on every index of the frequency domain
    (exponent part ≤ 256) `hash2freq` returns `h + bias·2^52`. -/
theorem hash2freq_eq (h : Nat) (hh : h / two52 ≤ 256) :
    hash2freq 64 h = some (h + Params.freqBiasDec * two52) := by
  have hw : widen (64 - 64) h = h := by
    show h <<< 0 = h
    exact Nat.shiftLeft_zero
  unfold hash2freq
  rw [hw]
  simp only [hh, ↓reduceIte]
  refine congrArg some ?_
  have hm := Nat.div_add_mod h two52
  rw [Nat.add_mul, Nat.mul_comm two52] at *
  omega

/-- **Back to hertz**: the hertz range of the depth-`d` cell containing an accepted value ENCLOSES
    the value — lower bound `≤` value `<` upper bound (as bit patterns, i.e. as doubles), for every
    shift `sh` (every depth), whenever the cell end is still an index of the domain. -/
theorem hz_range_encloses (b sh : Nat) (hv : freqValid b = true)
    (hend : ((freqHash64 b >>> sh) + 1) <<< sh / two52 ≤ 256) :
    ∃ lo hi, hash2freq 64 ((freqHash64 b >>> sh) <<< sh) = some lo ∧
      hash2freq 64 (((freqHash64 b >>> sh) + 1) <<< sh) = some hi ∧ lo ≤ b ∧ b < hi := by
  have e := freqHash64_eq b hv
  have hbias : Params.freqBiasDec = Params.freqBiasEnc := by decide
  have hp := Nat.two_pow_pos sh
  -- the cell of `h` at shift `sh`: start ≤ h < end
  have hlo : (freqHash64 b >>> sh) <<< sh ≤ freqHash64 b := by
    rw [Nat.shiftRight_eq_div_pow, Nat.shiftLeft_eq]; exact Nat.div_mul_le_self _ _
  have hhi : freqHash64 b < ((freqHash64 b >>> sh) + 1) <<< sh := by
    rw [Nat.shiftRight_eq_div_pow, Nat.shiftLeft_eq]
    have := Nat.lt_succ_self (freqHash64 b / 2 ^ sh)
    exact (Nat.div_lt_iff_lt_mul hp).1 this
  have hstart : (freqHash64 b >>> sh) <<< sh / two52 ≤ 256 := by
    have : (freqHash64 b >>> sh) <<< sh ≤ ((freqHash64 b >>> sh) + 1) <<< sh := by omega
    exact Nat.le_trans (Nat.div_le_div_right this) hend
  refine ⟨_, _, hash2freq_eq _ hstart, hash2freq_eq _ hend, ?_, ?_⟩
  · rw [hbias]; omega
  · rw [hbias]; omega

/-! Non-vacuity -/
example : freqValid (1000 * 2 ^ 52 + 12345) = true := by decide
example : freqValid (928 * 2 ^ 52) = false ∧ freqValid (1185 * 2 ^ 52) = false := by decide

end Moc.C18
