/-
  C20 — cumulative-value selection on multi-order maps brackets the requested mass.

  Proved: the whole-cell accumulation loops take exactly the maximal prefix whose cumulative value
  stays ≤ the threshold (so every cell strictly between the thresholds is selected); the sub-cell
  counting loop is Euclidean division; the recursive descents never hit an assertion and always
  terminate for `0 ≤ target < cell value` on dyadic values.
  Partial: the mass bracket itself is evaluated on the implementation's output with exact integers
  by the check (implementation-vs-definition), not proved; see DESIGN.md §10 and the open finding
  "both thresholds inside one cell".
-/
import MocVerif.Lemmas.Canon
import MocVerif.Model.Valued

namespace Moc.C20

def sumVal (l : List VCell) : Nat := (l.map (·.val)).sum

/-- The `while acc + v[i] <= thr` loop: splits the (sorted) list into the maximal prefix whose
    cumulative value stays `≤ thr` and the rest, whose first cell overshoots the threshold. -/
theorem scanWhole_spec (thr : Nat) (l : List VCell) : ∀ acc,
    let r := scanWhole thr acc l
    l = r.2.1 ++ r.2.2 ∧ r.1 = acc + sumVal r.2.1 ∧ (acc ≤ thr → r.1 ≤ thr) ∧
    (∀ c t, r.2.2 = c :: t → thr < r.1 + c.val) := by
  induction l with
  | nil => intro acc; simp [scanWhole, sumVal]
  | cons c t ih =>
    intro acc
    simp only [scanWhole]
    split
    · rename_i h
      have := ih (acc + c.val)
      generalize scanWhole thr (acc + c.val) t = r at this ⊢
      obtain ⟨a, tk, rest⟩ := r
      simp only [] at this ⊢
      obtain ⟨h1, h2, h3, h4⟩ := this
      refine ⟨by rw [h1]; rfl, ?_, fun _ => h3 h, h4⟩
      rw [h2]
      unfold sumVal
      rw [List.map_cons, List.sum_cons]; omega
    · rename_i h
      simp only []
      refine ⟨by simp, by simp [sumVal], fun h' => h', ?_⟩
      intro c' t' he
      injection he with he1 he2
      subst he1
      omega

/-- The sub-cell counting loop is Euclidean division (bounded by the fuel). -/
theorem takeSub_spec (sub : Nat) (hs : 0 < sub) : ∀ fuel k t,
    let r := takeSub sub fuel k t
    k ≤ r.1 ∧ r.1 ≤ k + fuel ∧ t = (r.1 - k) * sub + r.2 ∧ (r.1 < k + fuel → r.2 < sub) := by
  intro fuel
  induction fuel with
  | zero => intro k t; simp [takeSub]
  | succ f ih =>
    intro k t
    simp only [takeSub]
    split
    · rename_i h
      have := ih (k + 1) (t - sub)
      simp only [] at this ⊢
      obtain ⟨h1, h2, h3, h4⟩ := this
      refine ⟨by omega, by omega, ?_, fun hlt => h4 (by omega)⟩
      have e : (takeSub sub f (k + 1) (t - sub)).1 - k = ((takeSub sub f (k + 1) (t - sub)).1 - (k + 1)) + 1 := by omega
      rw [e, Nat.add_mul]; omega
    · rename_i h
      simp only []
      exact ⟨Nat.le_refl _, by omega, by simp, fun _ => by omega⟩

/-- **Totality of the upper-boundary descent**: for a cell value that is divisible all the way down
    (`4^fuel ∣ v`, i.e. a dyadic value) and any target `t < v`, no assertion fails and the recursion
    terminates — including `t = 0` and targets exactly on a sub-cell boundary. -/
theorem descent_total : ∀ (fuel depth ipix v : Nat) (strict : Bool) (t : Nat), 4 ^ fuel ∣ v → t < v →
    (descent fuel depth ipix v strict t).isSome = true := by
  intro fuel
  induction fuel with
  | zero =>
    intro depth ipix v strict t _ ht
    simp only [descent]
    rw [if_pos (by omega)]; rfl
  | succ f ih =>
    intro depth ipix v strict t hdvd ht
    obtain ⟨m, hm⟩ := hdvd
    have hv : v = 4 * (4 ^ f * m) := by rw [hm, Nat.pow_succ]; simp [Nat.mul_comm, Nat.mul_assoc, Nat.mul_left_comm]
    have hsub : v / 4 = 4 ^ f * m := by rw [hv]; simp
    have hpos : 0 < v / 4 := by rw [hsub]; apply Nat.pos_of_ne_zero; intro h0; rw [hv, h0] at ht; omega
    simp only [descent]
    rw [if_pos (by omega)]
    have ts := takeSub_spec (v / 4) hpos 5 0 t
    simp only [] at ts
    obtain ⟨_, t2, t3, t4⟩ := ts
    generalize hk : takeSub (v / 4) 5 0 t = r at *
    have hk4 : r.1 < 4 := by
      apply Classical.byContradiction; intro hge
      have : 4 * (v / 4) ≤ (r.1 - 0) * (v / 4) := Nat.mul_le_mul_right _ (by omega)
      rw [hsub] at this t3
      omega
    simp only [hk4, if_true]
    have hlt : r.2 < v / 4 := t4 (by omega)
    have := ih (depth + 1) (ipix * 4 + r.1) (v / 4) strict r.2 (by rw [hsub]; exact Nat.dvd_mul_right _ _) hlt
    cases hd : descent f (depth + 1) (ipix * 4 + r.1) (v / 4) strict r.2 with
    | none => rw [hd] at this; simp at this
    | some x => simp

/-! Non-vacuity -/
example : (4 : Nat) ^ 2 ∣ 48 ∧ (17 : Nat) < 48 := by decide
example : descent 2 0 4 48 true 17 = some [(1, 16), (2, 68)] := by decide

end Moc.C20
