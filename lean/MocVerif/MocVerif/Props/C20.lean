/-
  C20 — cumulative-value selection on multi-order maps brackets the requested mass.

  Proved: the whole-cell accumulation loops take exactly the maximal prefix whose cumulative value
  stays ≤ the threshold (so every cell strictly between the thresholds is selected); the sub-cell
  counting loop is Euclidean division; the recursive descents never hit an assertion and always
  terminate for `0 ≤ target < cell value` on dyadic values.
  `selection_mass_bracket`: for every dyadic map, every `from ≤ to ≤ total` and all 16 option
  combinations, the value enclosed by the selection differs from `to − from` by at most one boundary
  piece per threshold (never above in strict mode, never below in non-strict mode) — whenever the two
  thresholds are not strictly inside the same map cell; `both_thresholds_one_cell_counterexample`
  shows that this hypothesis is necessary (it is the open finding).  The enclosed value is defined
  on `selectWithMass`, proved to select exactly the cells of the model function tied to the code.
-/
import MocVerif.Lemmas.Canon
import MocVerif.Lemmas.SetOps
import MocVerif.Lemmas.Builders
import MocVerif.Lemmas.ValuedMass
import MocVerif.Lemmas.ValuedOrder

namespace Moc.C20
open Moc.Mass

/-- The accumulation loops (`while acc + v[i] <= thr`) take the maximal prefix of the sorted map whose
    cumulative value stays `≤ thr`: every cell strictly between the thresholds is selected. -/
theorem accumulation_loop_spec (thr : Nat) (l : List VCell) (acc : Nat) :
    let r := scanWhole thr acc l
    l = r.2.1 ++ r.2.2 ∧ r.1 = acc + sumVal r.2.1 ∧ (acc ≤ thr → r.1 ≤ thr) ∧
    (∀ c t, r.2.2 = c :: t → thr < r.1 + c.val) := scanWhole_spec thr l acc

/-- The sub-cell counting loop is Euclidean division (bounded by the fuel). -/
theorem subcell_loop_spec (sub : Nat) (hs : 0 < sub) (fuel k t : Nat) :
    let r := takeSub sub fuel k t
    k ≤ r.1 ∧ r.1 ≤ k + fuel ∧ t = (r.1 - k) * sub + r.2 ∧ (r.1 < k + fuel → r.2 < sub) :=
  takeSub_spec sub hs fuel k t

/-- **Totality of the upper-boundary descent**: for a cell value that is divisible all the way down
    (`4^fuel ∣ v`, i.e. a dyadic value) and any target `t < v`, no assertion fails and the recursion
    terminates — including `t = 0` and targets exactly on a sub-cell boundary. -/
theorem descent_total : ∀ (fuel depth ipix v : Nat) (strict : Bool) (t : Nat), 4 ^ fuel ∣ v → t < v →
    (descent fuel depth ipix v strict t).isSome = true := by
  intro fuel
  induction fuel with
  | zero =>
    intro depth ipix v strict t _ ht
    simp only [descent]
    rw [if_pos (by omega)]; split <;> rfl
  | succ f ih =>
    intro depth ipix v strict t hdvd ht
    obtain ⟨m, hm⟩ := hdvd
    have hv : v = 4 * (4 ^ f * m) := by rw [hm, Nat.pow_succ]; simp [Nat.mul_comm, Nat.mul_assoc, Nat.mul_left_comm]
    have hsub : v / 4 = 4 ^ f * m := by rw [hv]; simp
    have hpos : 0 < v / 4 := by rw [hsub]; apply Nat.pos_of_ne_zero; intro h0; rw [hv, h0] at ht; omega
    simp only [descent]
    rw [if_pos (by omega)]
    by_cases ht0 : t = 0
    · rw [if_pos ht0]; rfl
    rw [if_neg ht0]
    have ts := takeSub_spec (v / 4) hpos 5 0 t
    simp only [] at ts
    obtain ⟨_, t2, t3, t4⟩ := ts
    generalize hk : takeSub (v / 4) 5 0 t = r at *
    have hk4 : r.1 < 4 := by
      apply Classical.byContradiction; intro hge
      have : 4 * (v / 4) ≤ (r.1 - 0) * (v / 4) := Nat.mul_le_mul_right _ (by omega)
      rw [hsub] at this t3
      omega
    simp only [hk4, if_true]
    have hlt : r.2 < v / 4 := t4 (by omega)
    have := ih (depth + 1) (ipix * 4 + r.1) (v / 4) strict r.2 (by rw [hsub]; exact Nat.dvd_mul_right _ _) hlt
    cases hd : descent f (depth + 1) (ipix * 4 + r.1) (v / 4) strict r.2 with
    | none => rw [hd] at this; simp at this
    | some x => simp

/-! Non-vacuity -/
example : (4 : Nat) ^ 2 ∣ 48 ∧ (17 : Nat) < 48 := by decide
example : descent 2 0 4 48 true 17 = some [(1, 16), (2, 68)] := by decide



/-- **Enclosed value of the four descents** (dyadic cell value `v`, target `t < v`; one deepest piece
    is `v / 4^fuel`): upper boundary, both orders — strict: LESS than one piece below the target;
    non-strict: LESS than one piece above it (strict inequalities: a threshold lying exactly on a sub-cell boundary
    cuts nothing and is met exactly — repaired, /repo "fix: a threshold exactly on a sub-cell boundary …"; with the
    former code the difference could be a whole piece). -/
theorem upper_descents_mass (fuel depth ipix v : Nat) (strict rev : Bool) (t : Nat) (cs : List Cell)
    (hd : 4 ^ fuel ∣ v) (ht : t < v)
    (h : (if rev then descentR else descent) fuel depth ipix v strict t = some cs) :
    (strict = true → massOf v depth cs ≤ t ∧ t < massOf v depth cs + v / 4 ^ fuel) ∧
    (strict = false → t ≤ massOf v depth cs ∧ massOf v depth cs < t + v / 4 ^ fuel) := by
  cases rev with
  | true => exact (descentR_mass fuel depth ipix v strict t cs hd ht (by simpa using h)).2
  | false => exact (descent_mass fuel depth ipix v strict t cs hd ht (by simpa using h)).2

/-- Lower boundary, both orders: what is kept of the cell encloses `v − t` within one deepest piece
    (below in strict mode, above in non-strict mode). -/
theorem lower_descents_mass (fuel depth ipix v : Nat) (strict rev : Bool) (t : Nat) (cs : List Cell)
    (hd : 4 ^ fuel ∣ v) (ht : t < v)
    (h : (if rev then descentRRev else descentRev) fuel depth ipix v strict t = some cs) :
    (strict = true → massOf v depth cs + t ≤ v ∧ v < massOf v depth cs + t + v / 4 ^ fuel) ∧
    (strict = false → v ≤ massOf v depth cs + t ∧ massOf v depth cs + t < v + v / 4 ^ fuel) := by
  cases rev with
  | true => exact (descentRRev_mass fuel depth ipix v strict t cs hd ht (by simpa using h)).2
  | false => exact (descentRev_mass fuel depth ipix v strict t cs hd ht (by simpa using h)).2

/-- `selectWithMass` (the selection with the provenance of every piece) selects exactly the cells of
    the model function tied to the code by the correspondence. -/
theorem selection_cells (maxDepth : Nat) (cells : List VCell) (from_ to : Nat) (asc strict noSplit rev : Bool) :
    (selectWithMass maxDepth cells from_ to asc strict noSplit rev).map (·.1)
      = selectCells maxDepth cells from_ to asc strict noSplit rev :=
  selectWithMass_cells maxDepth cells from_ to asc strict noSplit rev

/-- The MOC returned (`HpxRanges::new_from` of the selected cells) is canonical and covers exactly the selected
    cells — so its footprint is inside the footprint of the map whenever the selected cells are. -/
theorem selection_moc (maxDepth : Nat) (cells : List VCell) (from_ to : Nat) (asc strict noSplit rev : Bool)
    (cs : List Cell) (m : List Rng)
    (hc : selectCells maxDepth cells from_ to asc strict noSplit rev = some cs)
    (hm : selectMoc maxDepth cells from_ to asc strict noSplit rev = some m) :
    Canon m ∧ ∀ x, mem x m ↔ ∃ c ∈ cs, c.2 <<< (2 * (29 - c.1)) ≤ x ∧ x < (c.2 + 1) <<< (2 * (29 - c.1)) := by
  unfold selectMoc at hm
  rw [hc] at hm
  simp only [Option.map_some, Option.some.injEq] at hm
  subst hm
  have sp := newFrom_spec (cs.map fun c => (c.2 <<< (2 * (29 - c.1)), (c.2 + 1) <<< (2 * (29 - c.1)))) (by
    intro r hr
    obtain ⟨c, _, rfl⟩ := List.mem_map.1 hr
    exact shl_lt_shl _ _ _ (Nat.lt_succ_self _))
  refine ⟨sp.1, fun x => ?_⟩
  rw [sp.2, mem_iff_exists]
  constructor
  · rintro ⟨r, hr, h⟩
    obtain ⟨c, hc', rfl⟩ := List.mem_map.1 hr
    exact ⟨c, hc', h⟩
  · rintro ⟨c, hc', h⟩
    exact ⟨_, List.mem_map.2 ⟨c, hc', rfl⟩, h⟩

/-- **Footprint**: the selection is made only of cells of the map or, when splitting is allowed, of their
    sub-cells (`SubCell d i c`: `c` is `(d, i)` or one of its descendants) — for every map, thresholds and options. -/
theorem selection_footprint (maxDepth : Nat) (cells : List VCell) (from_ to : Nat) (asc strict noSplit rev : Bool)
    (cs : List Cell) (h : selectCells maxDepth cells from_ to asc strict noSplit rev = some cs) :
    ∀ c ∈ cs, ∃ v ∈ cells, SubCell v.depth v.idx c := by
  rw [← selection_cells] at h
  cases hw : selectWithMass maxDepth cells from_ to asc strict noSplit rev with
  | none => rw [hw] at h; cases h
  | some r =>
    obtain ⟨cs', M, uLow, uHigh⟩ := r
    rw [hw] at h
    simp only [Option.map_some, Option.some.injEq] at h
    subst h
    exact selectWithMass_prov maxDepth cells from_ to asc strict noSplit rev cs' M uLow uHigh hw

/-- **The cells are taken in the requested density order** … -/
theorem scan_order (asc : Bool) (cells : List VCell) :
    (asc = true → (sortedOf asc cells).Pairwise (fun a b => a.dens ≤ b.dens)) ∧
    (asc = false → (sortedOf asc cells).Pairwise (fun a b => b.dens ≤ a.dens)) ∧
    (∀ y, y ∈ sortedOf asc cells ↔ y ∈ cells) :=
  ⟨(sortedOf_ordered asc cells).1, (sortedOf_ordered asc cells).2, (sortedOf_spec asc cells).1⟩

/-- … **and every cell lying between the two thresholds in that order is selected**: if the cumulative value
    before a non-null cell is at least `from` and the cumulative value after it at most `to`, the cell itself
    is in the selection, whatever the options. -/
theorem selection_contains_between (maxDepth : Nat) (cells : List VCell) (from_ to : Nat) (asc strict noSplit rev : Bool)
    (cs : List Cell) (h : selectCells maxDepth cells from_ to asc strict noSplit rev = some cs)
    (pre post : List VCell) (c : VCell) (hs : sortedOf asc cells = pre ++ c :: post)
    (h1 : from_ ≤ sumVal pre) (h2 : sumVal pre + c.val ≤ to) (h3 : 0 < c.val) :
    (c.depth, c.idx) ∈ cs := by
  rw [← selection_cells] at h
  cases hw : selectWithMass maxDepth cells from_ to asc strict noSplit rev with
  | none => rw [hw] at h; cases h
  | some r =>
    obtain ⟨cs', M, uLow, uHigh⟩ := r
    rw [hw] at h
    simp only [Option.map_some, Option.some.injEq] at h
    subst h
    exact selectWithMass_between maxDepth cells from_ to asc strict noSplit rev cs' M uLow uHigh hw pre post c hs h1 h2 h3

/-- **The selection brackets the requested mass**: for every map of dyadic values, every
    `from ≤ to ≤ total`, every order / strictness / splitting / descent option, whenever the two
    thresholds are not strictly inside the same map cell, the value `M` enclosed by the selection
    differs from `to − from` by LESS than one boundary piece per threshold (third conjunct: strict inequality; when no
    boundary cell is descended into, `uLow + uHigh = 0` and the first two conjuncts give equality) — never above the
    target in strict mode, never below it in non-strict mode.  (`uLow` / `uHigh` are the finest piece of the cell a
    threshold falls in, or that cell when splitting is off; a threshold lying exactly on a sub-cell boundary of a cell
    that is descended into cuts nothing: the harness judges that corner with the exact bound.) -/
theorem selection_mass_bracket (maxDepth : Nat) (cells : List VCell) (from_ to : Nat) (asc strict noSplit rev : Bool)
    (cs : List Cell) (M uLow uHigh : Nat)
    (h : selectWithMass maxDepth cells from_ to asc strict noSplit rev = some (cs, M, uLow, uHigh))
    (hdy : ∀ c ∈ cells, 4 ^ (maxDepthOf maxDepth cells - c.depth) ∣ c.val)
    (hft : from_ ≤ to) (htot : to ≤ sumVal cells) (hsame : NotSameCell cells from_ to asc) :
    (strict = true → M ≤ to - from_ ∧ to - from_ ≤ M + uLow + uHigh ∧ (to - from_ < M + uLow + uHigh ∨ uLow + uHigh = 0)) ∧
    (strict = false → to - from_ ≤ M ∧ M ≤ to - from_ + uLow + uHigh ∧ (M < to - from_ + uLow + uHigh ∨ uLow + uHigh = 0)) :=
  mass_bracket maxDepth cells from_ to asc strict noSplit rev cs M uLow uHigh h hdy hft htot hsame

/-- The hypothesis `NotSameCell` is necessary (this is the open finding): one cell of value 64 at
    depth 0, maximum depth 1, `from = 16`, `to = 32` (both strictly inside the cell), strict, split:
    the lower-boundary descent keeps the three upper quarters (48: everything above `from`) and the upper threshold
    is never looked at — in STRICT mode the selection encloses 48 for a target of 16. -/
theorem both_thresholds_one_cell_counterexample :
    selectWithMass 1 [⟨0, 0, 64, 64⟩] 16 32 false true false false = some ([(1, 1), (1, 2), (1, 3)], 48, 16, 0) ∧
    ¬ NotSameCell [⟨0, 0, 64, 64⟩] 16 32 false := by
  constructor
  · decide
  · intro h
    have := h ⟨0, 0, 64, 64⟩ [] (by decide) (by decide)
    revert this; decide

end Moc.C20
