/-
  C01 — 1-D MOC operators compute exactly the set-theoretic result.

  Property theorems only (helper lemmas live in `Lemmas/`).  Every theorem is about the executable
  definitions of `Model/Ranges.lean` / `Model/LazyOps.lean`, i.e. the very functions the native
  driver runs against the Rust implementation in the correspondence check.
-/
import MocVerif.Lemmas.Sweep

namespace Moc.C01

/-- `BorrowedRanges::union` (incl. its empty / concatenation / binary-search fast paths). -/
theorem union_sem (a b : List Rng) (ha : Canon a) (hb : Canon b) :
    Canon (union a b) ∧ ∀ x, mem x (union a b) ↔ mem x a ∨ mem x b :=
  union_spec a b ha hb

/-- `BorrowedRanges::intersection` (incl. quick rejection and binary-search start). -/
theorem intersection_sem (a b : List Rng) (ha : Canon a) (hb : Canon b) :
    Canon (intersection a b) ∧ ∀ x, mem x (intersection a b) ↔ mem x a ∧ mem x b :=
  intersection_spec a b ha hb

/-- `BorrowedRanges::merge(op)`: the generic edge sweep computes `op` pointwise, for every Boolean
    function with `op false false = false`. -/
theorem merge_sem (op : Bool → Bool → Bool) (hop : op false false = false) (a b : List Rng)
    (ha : Canon a) (hb : Canon b) :
    Canon (merge op a b) ∧ ∀ x, mem x (merge op a b) ↔ op (decide (mem x a)) (decide (mem x b)) = true :=
  merge_spec op hop a b ha hb

/-- `SNORanges::difference`. -/
theorem difference_sem (a b : List Rng) (ha : Canon a) (hb : Canon b) :
    Canon (difference a b) ∧ ∀ x, mem x (difference a b) ↔ mem x a ∧ ¬ mem x b :=
  difference_spec a b ha hb

/-- `complement_with_upper_bound`. -/
theorem complement_sem (ub : Nat) (a : List Rng) (hub : 0 < ub) (ha : Canon a) (hb : BoundedBy ub a) :
    Canon (complement ub a) ∧ ∀ x, mem x (complement ub a) ↔ x < ub ∧ ¬ mem x a :=
  complement_spec ub a hub ha hb

/-- `Ranges::new_from` on arbitrary (unsorted, overlapping, touching) non-empty ranges. -/
theorem newFrom_sem (l : List Rng) (hne : ∀ r ∈ l, r.1 < r.2) :
    Canon (newFrom l) ∧ ∀ x, mem x (newFrom l) ↔ mem x l :=
  newFrom_spec l hne

/-- The fast paths never matter: eager `intersection` is the plain two-pointer loop that the lazy
    `AndRangeIter` runs, eager `union` is the loop `OrRangeIter` runs. -/
theorem eager_eq_loops (a b : List Rng) (ha : Canon a) (hb : Canon b) :
    intersection a b = interLoop a b ∧ union a b = unionLoop a b :=
  ⟨intersection_eq_interLoop a b ha hb, union_eq_unionLoop a b ha hb⟩

/-- The "consequently" of the property: all routes to the same set give the same list. -/
theorem difference_eq_of_same_set (a b c : List Rng) (ha : Canon a) (hb : Canon b) (hc : Canon c)
    (h : ∀ x, mem x c ↔ mem x a ∧ ¬ mem x b) : difference a b = c :=
  Canon.ext (difference_sem a b ha hb).1 hc (fun x => by rw [(difference_sem a b ha hb).2, h])

/-! Non-vacuity: concrete non-trivial values meeting the hypotheses. -/
example : Canon [(0, 4), (8, 12)] ∧ Canon [(2, 9)] := by decide
example : union [(0, 4), (8, 12)] [(2, 9)] = [(0, 12)] := by
  simp [union, unionLoop, lastEndD, consumeWhileEndLe]
example : intersection [(0, 4), (8, 12)] [(2, 9)] = [(2, 4), (8, 9)] := by
  simp [intersection, interLoop, lastEndD, startIdx]
example : complement 12 [(0, 4), (8, 12)] = [(4, 8)] := by
  simp [complement, complFrom]

end Moc.C01
