/-
  C01 — 1-D MOC operators compute exactly the set-theoretic result.

  Property theorems only (helper lemmas live in `Lemmas/`).  Every theorem is about the executable
  definitions of `Model/Ranges.lean` / `Model/LazyOps.lean`, i.e. the very functions the native
  driver runs against the Rust implementation in the correspondence check.
-/
import MocVerif.Lemmas.Degrade

namespace Moc.C01

/-- `BorrowedRanges::union` (incl. its empty / concatenation / binary-search fast paths). -/
theorem union_sem (a b : List Rng) (ha : Canon a) (hb : Canon b) :
    Canon (union a b) ∧ ∀ x, mem x (union a b) ↔ mem x a ∨ mem x b :=
  union_spec a b ha hb

/-- `BorrowedRanges::intersection` (incl. quick rejection and binary-search start). -/
theorem intersection_sem (a b : List Rng) (ha : Canon a) (hb : Canon b) :
    Canon (intersection a b) ∧ ∀ x, mem x (intersection a b) ↔ mem x a ∧ mem x b :=
  intersection_spec a b ha hb

/-- `BorrowedRanges::merge(op)`: the generic edge sweep computes `op` pointwise, for every Boolean
    function with `op false false = false`. -/
theorem merge_sem (op : Bool → Bool → Bool) (hop : op false false = false) (a b : List Rng)
    (ha : Canon a) (hb : Canon b) :
    Canon (merge op a b) ∧ ∀ x, mem x (merge op a b) ↔ op (decide (mem x a)) (decide (mem x b)) = true :=
  merge_spec op hop a b ha hb

/-- `SNORanges::difference`. -/
theorem difference_sem (a b : List Rng) (ha : Canon a) (hb : Canon b) :
    Canon (difference a b) ∧ ∀ x, mem x (difference a b) ↔ mem x a ∧ ¬ mem x b :=
  difference_spec a b ha hb

/-- `complement_with_upper_bound`. -/
theorem complement_sem (ub : Nat) (a : List Rng) (hub : 0 < ub) (ha : Canon a) (hb : BoundedBy ub a) :
    Canon (complement ub a) ∧ ∀ x, mem x (complement ub a) ↔ x < ub ∧ ¬ mem x a :=
  complement_spec ub a hub ha hb

/-- `Ranges::new_from` on arbitrary (unsorted, overlapping, touching) non-empty ranges. -/
theorem newFrom_sem (l : List Rng) (hne : ∀ r ∈ l, r.1 < r.2) :
    Canon (newFrom l) ∧ ∀ x, mem x (newFrom l) ↔ mem x l :=
  newFrom_spec l hne

/-- The fast paths never matter: eager `intersection` is the plain two-pointer loop that the lazy
    `AndRangeIter` runs, eager `union` is the loop `OrRangeIter` runs. -/
theorem eager_eq_loops (a b : List Rng) (ha : Canon a) (hb : Canon b) :
    intersection a b = interLoop a b ∧ union a b = unionLoop a b :=
  ⟨intersection_eq_interLoop a b ha hb, union_eq_unionLoop a b ha hb⟩

/-- The "consequently" of the property: all routes to the same set give the same list. -/
theorem difference_eq_of_same_set (a b c : List Rng) (ha : Canon a) (hb : Canon b) (hc : Canon c)
    (h : ∀ x, mem x c ↔ mem x a ∧ ¬ mem x b) : difference a b = c :=
  Canon.ext (difference_sem a b ha hb).1 hc (fun x => by rw [(difference_sem a b ha hb).2, h])

/-- `MocRanges::degraded` / `RangeMOC::degraded`: the result covers exactly the cells of the target
    depth (size `2^s`, `s = shift_from_depth_max(new_depth)`) that contain a covered index. -/
theorem degraded_sem (s : Nat) (a : List Rng) (ha : Canon a) :
    Canon (degradedShift s a) ∧
    ∀ x, mem x (degradedShift s a) ↔ ∃ y, mem y a ∧ x / 2 ^ s = y / 2 ^ s :=
  degradedShift_spec s a ha

/-! #### lazy / streaming operators, for EVERY consistent hint configuration of the sources -/

/-- `and(l, r)`: whatever (consistent) `peek_last` hints the two sources advertise. -/
theorem lazy_and_sem (l r : Src) (hl : l.HintOk) (hr : r.HintOk) (cl : Canon l.items) (cr : Canon r.items) :
    (andSrc l r).depth = max l.depth r.depth ∧ Canon (andSrc l r).items ∧
    (andSrc l r).items = intersection l.items r.items ∧
    ∀ x, mem x (andSrc l r).items ↔ mem x l.items ∧ mem x r.items := by
  have e : (andSrc l r).items = interLoop l.items r.items := andItems_eq l r hl hr cl cr
  have sp := interLoop_spec l.items r.items 0 0 cl cr
  refine ⟨rfl, ?_, ?_, ?_⟩
  · rw [e]; exact sp.1
  · rw [e, intersection_eq_interLoop _ _ cl cr]
  · rw [e]; exact sp.2

/-- `or(l, r)` incl. the `DisjointRightFirst` concatenation strategy. -/
theorem lazy_or_sem (l r : Src) (hr : r.HintOk) (cl : Canon l.items) (cr : Canon r.items) :
    (orSrc l r).depth = max l.depth r.depth ∧ Canon (orSrc l r).items ∧
    (orSrc l r).items = union l.items r.items ∧
    ∀ x, mem x (orSrc l r).items ↔ mem x l.items ∨ mem x r.items := by
  have e : (orSrc l r).items = unionLoop l.items r.items := orItems_eq l r hr cl cr
  have sp := unionLoop_spec l.items r.items 0 0 cl cr
  refine ⟨rfl, ?_, ?_, ?_⟩
  · rw [e]; exact sp.1
  · rw [e, union_eq_unionLoop _ _ cl cr]
  · rw [e]; exact sp.2

/-- `xor(l, r)` (also `RangeMOC::xor`, which collects this iterator). -/
theorem lazy_xor_sem (l r : Src) (cl : Canon l.items) (cr : Canon r.items) :
    (xorSrc l r).depth = max l.depth r.depth ∧ Canon (xorSrc l r).items ∧
    ∀ x, mem x (xorSrc l r).items ↔ (mem x l.items ↔ ¬ mem x r.items) :=
  ⟨rfl, (xorLoop_spec l.items r.items 0 cl cr).1, (xorLoop_spec l.items r.items 0 cl cr).2⟩

/-- `minus(l, r)` (also `RangeMOC::minus`), for the repaired quick tests. -/
theorem lazy_minus_sem (l r : Src) (hl : l.HintOk) (hr : r.HintOk) (cl : Canon l.items) (cr : Canon r.items) :
    (minusSrc l r).depth = max l.depth r.depth ∧ Canon (minusSrc l r).items ∧
    (minusSrc l r).items = difference l.items r.items ∧
    ∀ x, mem x (minusSrc l r).items ↔ mem x l.items ∧ ¬ mem x r.items := by
  have e : (minusSrc l r).items = minusLoop l.items r.items := minusItems_eq l r hl hr cl cr
  have sp := minusLoop_spec l.items r.items 0 0 cl cr
  refine ⟨rfl, ?_, ?_, ?_⟩
  · rw [e]; exact sp.1
  · rw [e]
    exact Canon.ext sp.1 (difference_spec _ _ cl cr).1
      (fun x => by rw [sp.2, (difference_spec _ _ cl cr).2])
  · rw [e]; exact sp.2

/-- `not(s)` = complement in `[0, n_cells_max)`. -/
theorem lazy_not_sem (ub : Nat) (hub : 0 < ub) (s : Src) (cs : Canon s.items) (hb : BoundedBy ub s.items) :
    (notSrc ub s).depth = s.depth ∧ Canon (notSrc ub s).items ∧
    ∀ x, mem x (notSrc ub s).items ↔ x < ub ∧ ¬ mem x s.items := by
  have hi : (notSrc ub s).items = complement ub s.items := by unfold notSrc; split <;> rfl
  have hd : (notSrc ub s).depth = s.depth := by unfold notSrc; split <;> rfl
  rw [hi]
  exact ⟨hd, (complement_spec ub s.items hub cs hb).1, (complement_spec ub s.items hub cs hb).2⟩

/-- `degrade(s, new_depth)` with `new_depth < depth`: the stream equals the eager `degraded`. -/
theorem lazy_degrade_sem (sh nd : Nat) (s : Src) (cs : Canon s.items) (hnd : nd < s.depth) :
    (degradeSrc sh nd s).depth = nd ∧ (degradeSrc sh nd s).items = degradedShift sh s.items := by
  unfold degradeSrc
  rw [if_pos hnd]
  refine ⟨rfl, ?_⟩
  cases h : s.items with
  | nil => simp [degradedShift, mergeOverlapping]
  | cons r t => simp only []; rw [h] at cs; exact degradeFrom_head_eq sh r t 0 cs

/-- Bounds and cell alignment are preserved by every operator computing a pointwise Boolean
    combination `f` (with `¬ f False False`) — hence by and / or / xor / minus, eager or lazy. -/
theorem binary_valid (c ub : Nat) (hc : 0 < c) (a b o : List Rng) (f : Prop → Prop → Prop)
    (hf : ¬ f False False) (ha : Canon a) (hb : Canon b) (ho : Canon o)
    (hba : BoundedBy ub a) (hbb : BoundedBy ub b) (haa : Aligned c a) (hab : Aligned c b)
    (hsem : ∀ x, mem x o ↔ f (mem x a) (mem x b)) : BoundedBy ub o ∧ Aligned c o :=
  valid_of_sem c ub hc a b o f hf ha hb ho hba hbb haa hab hsem

/-! Non-vacuity: concrete non-trivial values meeting the hypotheses. -/
example : Canon [(0, 4), (8, 12)] ∧ Canon [(2, 9)] := by decide
example : union [(0, 4), (8, 12)] [(2, 9)] = [(0, 12)] := by
  simp [union, unionLoop, lastEndD, consumeWhileEndLe]
example : intersection [(0, 4), (8, 12)] [(2, 9)] = [(2, 4), (8, 9)] := by
  simp [intersection, interLoop, lastEndD, startIdx]
example : complement 12 [(0, 4), (8, 12)] = [(4, 8)] := by
  simp [complement, complFrom]
example : xorLoop [(0, 4), (8, 12)] [(2, 9)] = [(0, 2), (4, 8), (9, 12)] := by
  simp [xorLoop]
example : (⟨2, [(0, 4), (8, 12)], some (8, 12), 2, some 2, []⟩ : Src).HintOk := by
  simp [Src.HintOk]

end Moc.C01
