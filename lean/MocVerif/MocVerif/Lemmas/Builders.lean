/-
  C06 — builders: order, duplicates and buffer capacity do not matter.
-/
import MocVerif.Lemmas.Hints
import MocVerif.Model.Builders

namespace Moc

/-- Sorted (non-decreasing), all `≥ lo`. -/
def NonDecFrom (lo : Nat) : List Nat → Prop
  | [] => True
  | c :: t => lo ≤ c ∧ NonDecFrom c t

theorem NonDecFrom.mono {lo lo' : Nat} {l : List Nat} (h : NonDecFrom lo l) (hle : lo' ≤ lo) : NonDecFrom lo' l := by
  cases l with
  | nil => trivial
  | cons c t => exact ⟨Nat.le_trans hle h.1, h.2⟩

theorem shl_le_iff (sh a x : Nat) : a <<< sh ≤ x ↔ a ≤ x / 2 ^ sh := by
  rw [Nat.shiftLeft_eq, Nat.le_div_iff_mul_le (Nat.pos_of_ne_zero (by simp))]
theorem lt_shl_iff (sh b x : Nat) : x < b <<< sh ↔ x / 2 ^ sh < b := by
  rw [Nat.shiftLeft_eq, Nat.div_lt_iff_lt_mul (Nat.pos_of_ne_zero (by simp))]
theorem shl_lt_shl (sh a b : Nat) (h : a < b) : a <<< sh < b <<< sh := by
  rw [Nat.shiftLeft_eq, Nat.shiftLeft_eq]
  exact Nat.mul_lt_mul_of_pos_right h (Nat.pos_of_ne_zero (by simp))
theorem shl_le_shl (sh a b : Nat) (h : a ≤ b) : a <<< sh ≤ b <<< sh := by
  rw [Nat.shiftLeft_eq, Nat.shiftLeft_eq]; exact Nat.mul_le_mul_right _ h

/-- `buff_to_moc` on a sorted buffer (duplicates allowed). -/
theorem cellsToRangesFrom_spec (sh : Nat) (t : List Nat) : ∀ from_ to, from_ < to → NonDecFrom (to - 1) t →
    CanonFrom (from_ <<< sh) (cellsToRangesFrom sh from_ to t) ∧
    ∀ x, mem x (cellsToRangesFrom sh from_ to t) ↔
      (from_ ≤ x / 2 ^ sh ∧ x / 2 ^ sh < to) ∨ x / 2 ^ sh ∈ t := by
  induction t with
  | nil =>
    intro f to hft _
    simp only [cellsToRangesFrom]
    refine ⟨⟨Nat.le_refl _, shl_lt_shl sh f to hft, trivial⟩, fun x => ?_⟩
    simp [shl_le_iff, lt_shl_iff]
  | cons c t ih =>
    intro f to hft hs
    obtain ⟨h1, h2⟩ := hs
    simp only [cellsToRangesFrom]
    split
    · rename_i he
      have := ih f (to + 1) (by omega) (h2.mono (by omega))
      refine ⟨this.1, fun x => ?_⟩
      rw [this.2]
      generalize x / 2 ^ sh = k
      simp only [List.mem_cons]
      grind
    · split
      · rename_i hne hlt
        have := ih c (c + 1) (by omega) (h2.mono (by omega))
        refine ⟨⟨Nat.le_refl _, shl_lt_shl sh f to hft, this.1.mono ?_⟩, fun x => ?_⟩
        · have := shl_lt_shl sh to c hlt; simp only []; omega
        · simp only [mem_cons]
          rw [this.2]
          simp only [shl_le_iff, lt_shl_iff]
          generalize x / 2 ^ sh = k
          simp only [List.mem_cons]
          grind
      · rename_i hne hnlt
        have hc : c = to - 1 := by omega
        have := ih f to hft (h2.mono (by omega))
        refine ⟨this.1, fun x => ?_⟩
        rw [this.2]
        generalize x / 2 ^ sh = k
        simp only [List.mem_cons]
        grind

theorem cellsToRanges_spec (sh : Nat) (cells : List Nat) (hs : NonDecFrom 0 cells) :
    Canon (cellsToRanges sh cells) ∧ ∀ x, mem x (cellsToRanges sh cells) ↔ x / 2 ^ sh ∈ cells := by
  cases cells with
  | nil => simp [cellsToRanges, Canon]
  | cons c t =>
    have := cellsToRangesFrom_spec sh t c (c + 1) (by omega) (by simpa using hs.2)
    refine ⟨this.1.mono (Nat.zero_le _), fun x => ?_⟩
    simp only [cellsToRanges]
    rw [this.2]
    generalize x / 2 ^ sh = k
    simp only [List.mem_cons]
    grind

theorem insertNat_spec (x : Nat) (l : List Nat) : ∀ lo, NonDecFrom lo l → lo ≤ x →
    NonDecFrom lo (insertNat x l) ∧ ∀ y, y ∈ insertNat x l ↔ y = x ∨ y ∈ l := by
  induction l with
  | nil => intro lo _ h; simp [insertNat, NonDecFrom]; exact h
  | cons c t ih =>
    intro lo hs h
    simp only [insertNat]
    split
    · rename_i hle
      exact ⟨⟨h, hle, hs.2⟩, fun y => by simp⟩
    · rename_i hgt
      have := ih c hs.2 (by omega)
      exact ⟨⟨hs.1, this.1⟩, fun y => by simp [this.2]; constructor <;> (intro h'; rcases h' with h' | h' | h' <;> simp [h'])⟩

theorem sortNat_spec (l : List Nat) : NonDecFrom 0 (sortNat l) ∧ ∀ y, y ∈ sortNat l ↔ y ∈ l := by
  induction l with
  | nil => simp [sortNat, NonDecFrom]
  | cons x t ih =>
    have := insertNat_spec x (sortNat t) 0 ih.1 (Nat.zero_le _)
    exact ⟨this.1, fun y => by simp [sortNat, this.2, ih.2]⟩

/-- Builder invariant w.r.t. the MOC `base` the builder was started from and the list `pushed` of
    everything pushed so far. -/
structure FdInv (sh : Nat) (b : FdBuilder) (base : List Rng) (pushed : List Nat) : Prop where
  sortedOk : b.sorted = true → NonDecFrom 0 b.buff
  canon : Canon (b.moc.getD [])
  sem : ∀ x, (mem x (b.moc.getD []) ∨ x / 2 ^ sh ∈ b.buff) ↔ (mem x base ∨ x / 2 ^ sh ∈ pushed)

theorem FdInv.drain {sh : Nat} {b : FdBuilder} {base : List Rng} {pushed : List Nat} (h : FdInv sh b base pushed) :
    FdInv sh (b.drain sh) base pushed := by
  have hbuf : NonDecFrom 0 (if b.sorted then b.buff else sortNat b.buff) ∧
      ∀ y, y ∈ (if b.sorted then b.buff else sortNat b.buff) ↔ y ∈ b.buff := by
    by_cases hs : b.sorted = true
    · simp [hs]; exact h.sortedOk hs
    · simp [hs]; exact sortNat_spec b.buff
  have sp := cellsToRanges_spec sh _ hbuf.1
  have hc := h.canon
  have hsem := h.sem
  unfold FdBuilder.drain
  cases hm : b.moc with
  | none =>
    rw [hm] at hsem
    refine ⟨fun _ => trivial, sp.1, fun x => ?_⟩
    simp only [Option.getD_some]
    rw [sp.2, hbuf.2, ← hsem]; simp
  | some prev =>
    rw [hm] at hc hsem
    simp only [Option.getD_some] at hc hsem
    have un := union_spec prev _ hc sp.1
    refine ⟨fun _ => trivial, un.1, fun x => ?_⟩
    simp only [Option.getD_some]
    rw [un.2, sp.2, hbuf.2, ← hsem]; simp

theorem nonDec_last_ge (l : List Nat) : ∀ lo, NonDecFrom lo l → ∀ y, l.getLast? = some y → lo ≤ y := by
  induction l with
  | nil => intro lo _ y hy; simp at hy
  | cons a l' ih =>
    intro lo hs y hy
    cases l' with
    | nil => simp at hy; subst hy; exact hs.1
    | cons b l'' =>
      rw [List.getLast?_cons_cons] at hy
      exact Nat.le_trans hs.1 (ih a hs.2 y hy)

theorem nonDec_append (l : List Nat) : ∀ lo x, NonDecFrom lo l → (∀ y, l.getLast? = some y → y ≤ x) → lo ≤ x →
    NonDecFrom lo (l ++ [x]) := by
  induction l with
  | nil => intro lo x _ _ h; exact ⟨h, trivial⟩
  | cons c t ih =>
    intro lo x hs hl hlo
    refine ⟨hs.1, ?_⟩
    cases t with
    | nil => exact ⟨hl c (by simp), trivial⟩
    | cons d t' =>
      apply ih c x hs.2
      · intro y hy; apply hl; rw [List.getLast?_cons_cons]; exact hy
      · cases hgl : (d :: t').getLast? with
        | none => simp at hgl
        | some y =>
          have h1 := nonDec_last_ge (d :: t') c hs.2 y hgl
          have h3 := hl y (by rw [List.getLast?_cons_cons]; exact hgl)
          omega

theorem FdInv.push {sh cap : Nat} {b : FdBuilder} {base : List Rng} {pushed : List Nat} (h : FdInv sh b base pushed) (idx : Nat) :
    FdInv sh (b.push sh cap idx) base (pushed ++ [idx]) := by
  unfold FdBuilder.push
  cases hl : b.buff.getLast? with
  | some last =>
    simp only []
    have hlast_mem : last ∈ b.buff := List.mem_of_getLast? hl
    by_cases he : last = idx
    · rw [if_pos he]
      refine ⟨h.sortedOk, h.canon, fun x => ?_⟩
      simp only [List.mem_append, List.mem_singleton]
      rw [← or_assoc (a := mem x base), ← h.sem]
      constructor
      · exact Or.inl
      · rintro (h' | h')
        · exact h'
        · right; rw [h', ← he]; exact hlast_mem
    · rw [if_neg he]
      have inv' : FdInv sh { b with sorted := b.sorted && !(decide (last > idx)), buff := b.buff ++ [idx] } base (pushed ++ [idx]) := by
        refine ⟨?_, h.canon, fun x => ?_⟩
        · intro hs
          simp at hs
          exact nonDec_append b.buff 0 idx (h.sortedOk hs.1) (fun y hy => by rw [hl] at hy; injection hy with hy; omega) (Nat.zero_le _)
        · simp only [List.mem_append, List.mem_singleton]
          rw [← or_assoc (a := mem x base), ← h.sem]
          constructor
          · rintro (h' | h' | h')
            · exact Or.inl (Or.inl h')
            · exact Or.inl (Or.inr h')
            · exact Or.inr h'
          · rintro ((h' | h') | h')
            · exact Or.inl h'
            · exact Or.inr (Or.inl h')
            · exact Or.inr (Or.inr h')
      split
      · exact inv'.drain
      · exact inv'
  | none =>
    simp only []
    have hbe : b.buff = [] := by
      cases hb : b.buff with
      | nil => rfl
      | cons a t => rw [hb] at hl; simp at hl
    have inv' : FdInv sh { b with buff := b.buff ++ [idx] } base (pushed ++ [idx]) := by
      refine ⟨?_, h.canon, fun x => ?_⟩
      · intro _; rw [hbe]; exact ⟨Nat.zero_le _, trivial⟩
      · simp only [List.mem_append, List.mem_singleton]
        rw [← or_assoc (a := mem x base), ← h.sem]
        constructor
        · rintro (h' | h' | h')
          · exact Or.inl (Or.inl h')
          · exact Or.inl (Or.inr h')
          · exact Or.inr h'
        · rintro ((h' | h') | h')
          · exact Or.inl h'
          · exact Or.inr (Or.inl h')
          · exact Or.inr (Or.inr h')
    split
    · exact inv'.drain
    · exact inv'

theorem FdInv.foldl {sh cap : Nat} {base : List Rng} (cells : List Nat) : ∀ {b : FdBuilder} {pushed : List Nat}, FdInv sh b base pushed →
    FdInv sh (cells.foldl (FdBuilder.push sh cap) b) base (pushed ++ cells) := by
  induction cells with
  | nil => intro b pushed h; simpa using h
  | cons c t ih =>
    intro b pushed h
    have := ih (h.push (cap := cap) c)
    simpa [List.append_assoc] using this

/-- Set covered by the cells of depth-shift `sh`. -/
theorem mem_map_cellRange (sh : Nat) (cells : List Nat) (x : Nat) :
    mem x (cells.map fun c => (c <<< sh, (c + 1) <<< sh)) ↔ x / 2 ^ sh ∈ cells := by
  induction cells with
  | nil => simp
  | cons c t ih =>
    simp only [List.map, mem_cons, ih, shl_le_iff, lt_shl_iff, List.mem_cons]
    generalize x / 2 ^ sh = k
    constructor
    · rintro (h | h)
      · left; omega
      · exact Or.inr h
    · rintro (h | h)
      · left; omega
      · exact Or.inr h

/-- **Fixed-depth builder**: for every sequence of cells and every buffer capacity the result is the
    normal form of the union of the cells — a right-hand side that mentions neither the order of
    arrival, nor duplicates, nor the capacity. -/
theorem fromFixedDepthCells_eq (sh cap : Nat) (cells : List Nat) :
    fromFixedDepthCells sh cap cells = normalize (cells.map fun c => (c <<< sh, (c + 1) <<< sh)) := by
  have h0 : FdInv sh {} [] [] := ⟨fun _ => trivial, trivial, fun x => by simp⟩
  have hf := (FdInv.foldl (sh := sh) (cap := cap) cells h0).drain
  simp only [List.nil_append] at hf
  have ns := normalize_spec (cells.map fun c => (c <<< sh, (c + 1) <<< sh))
  unfold fromFixedDepthCells FdBuilder.intoMoc
  apply Canon.ext hf.canon ns.1
  intro x
  rw [ns.2, mem_map_cellRange]
  have := hf.sem x
  have hb : ((cells.foldl (FdBuilder.push sh cap) {}).drain sh).buff = [] := rfl
  rw [hb] at this
  simpa using this

/-- **`append_fixed_depth_cells`**: a builder started from an existing canonical MOC returns the union of
    that MOC with the pushed cells, for every order, duplication and capacity. -/
theorem appendFixedDepthCells_spec (sh cap : Nat) (moc : List Rng) (hm : Canon moc) (cells : List Nat) :
    Canon (appendFixedDepthCells sh cap moc cells) ∧
    ∀ x, mem x (appendFixedDepthCells sh cap moc cells) ↔ mem x moc ∨ x / 2 ^ sh ∈ cells := by
  have h0 : FdInv sh { moc := some moc } moc [] := ⟨fun _ => trivial, hm, fun x => by simp⟩
  have hf := (FdInv.foldl (sh := sh) (cap := cap) cells h0).drain
  simp only [List.nil_append] at hf
  unfold appendFixedDepthCells FdBuilder.intoMoc
  refine ⟨hf.canon, fun x => ?_⟩
  have := hf.sem x
  have hb : ((cells.foldl (FdBuilder.push sh cap) { moc := some moc }).drain sh).buff = [] := rfl
  rw [hb] at this
  simpa using this

end Moc

namespace Moc

/-! ### n-ary operators = left fold of the binary operator -/

/-- The specification: left fold (with the code's convention `(0, ∅)` for the empty list). -/
def foldOp (op : DMoc → DMoc → DMoc) : List DMoc → DMoc
  | [] => (0, [])
  | a :: t => t.foldl op a

section kway
variable (op : DMoc → DMoc → DMoc) (P : DMoc → Prop)
variable (hP : ∀ a b, P a → P b → P (op a b))
variable (hA : ∀ a b c, P a → P b → P c → op (op a b) c = op a (op b c))

include hP hA in
theorem foldl_group4 : ∀ (l : List DMoc) (acc : DMoc), P acc → (∀ m ∈ l, P m) →
    (group4 op l).foldl op acc = l.foldl op acc
  | a :: b :: c :: d :: t, acc, hacc, hl => by
    have pa := hl a (by simp); have pb := hl b (by simp); have pc := hl c (by simp); have pd := hl d (by simp)
    simp only [group4, List.foldl_cons]
    rw [foldl_group4 t _ (hP _ _ hacc (hP _ _ (hP _ _ pa pb) (hP _ _ pc pd))) (fun m hm => hl m (by simp [hm]))]
    congr 1
    rw [← hA acc (op a b) (op c d) hacc (hP _ _ pa pb) (hP _ _ pc pd),
      ← hA acc a b hacc pa pb,
      ← hA (op (op acc a) b) c d (hP _ _ (hP _ _ hacc pa) pb) pc pd]
  | [a, b, c], acc, hacc, hl => by
    have pa := hl a (by simp); have pb := hl b (by simp); have pc := hl c (by simp)
    simp only [group4, List.foldl_cons, List.foldl_nil]
    rw [← hA acc (op a b) c hacc (hP _ _ pa pb) pc, ← hA acc a b hacc pa pb]
  | [a, b], acc, hacc, hl => by
    have pa := hl a (by simp); have pb := hl b (by simp)
    simp only [group4, List.foldl_cons, List.foldl_nil]
    rw [← hA acc a b hacc pa pb]
  | [a], _, _, _ => by simp [group4]
  | [], _, _, _ => by simp [group4]

include hP in
theorem group4_P : ∀ (l : List DMoc), (∀ m ∈ l, P m) → ∀ m ∈ group4 op l, P m
  | a :: b :: c :: d :: t, hl => by
    have pa := hl a (by simp); have pb := hl b (by simp); have pc := hl c (by simp); have pd := hl d (by simp)
    intro m hm
    simp only [group4, List.mem_cons] at hm
    rcases hm with rfl | hm
    · exact hP _ _ (hP _ _ pa pb) (hP _ _ pc pd)
    · exact group4_P t (fun m hm => hl m (by simp [hm])) m hm
  | [a, b, c], hl => by
    intro m hm; simp [group4] at hm; subst hm
    exact hP _ _ (hP _ _ (hl a (by simp)) (hl b (by simp))) (hl c (by simp))
  | [a, b], hl => by
    intro m hm; simp [group4] at hm; subst hm
    exact hP _ _ (hl a (by simp)) (hl b (by simp))
  | [a], hl => by intro m hm; simp [group4] at hm; exact hl m (by simp [hm])
  | [], _ => by intro m hm; simp [group4] at hm

include hP hA in
theorem foldOp_group4 (a b c d : DMoc) (t : List DMoc) (hl : ∀ m ∈ a :: b :: c :: d :: t, P m) :
    foldOp op (group4 op (a :: b :: c :: d :: t)) = foldOp op (a :: b :: c :: d :: t) := by
  have pa := hl a (by simp); have pb := hl b (by simp); have pc := hl c (by simp); have pd := hl d (by simp)
  simp only [group4, foldOp, List.foldl_cons]
  rw [foldl_group4 op P hP hA t _ (hP _ _ (hP _ _ pa pb) (hP _ _ pc pd)) (fun m hm => hl m (by simp [hm]))]
  congr 1
  rw [← hA (op a b) c d (hP _ _ pa pb) pc pd]

include hP hA in
/-- **`kway_<op>` = left fold**, for every list length (the 4-by-4 grouping and its recursion are
    invisible), given an operator that is associative on a closed class `P` of values. -/
theorem kway_eq_fold (l : List DMoc) (hl : ∀ m ∈ l, P m) : kway op l = foldOp op l := by
  fun_induction kway op l with
  | case1 => rfl
  | case2 a => rfl
  | case3 a b => rfl
  | case4 a b c => rfl
  | case5 a b c d t ih =>
    rw [ih (group4_P op P hP _ hl), foldOp_group4 op P hP hA a b c d t hl]

end kway

/-- Values on which the n-ary operators are used: canonical ranges. -/
def CanonM (m : DMoc) : Prop := Canon m.2

theorem opOr_P (a b : DMoc) (ha : CanonM a) (hb : CanonM b) : CanonM (opOr a b) := (union_spec _ _ ha hb).1
theorem opAnd_P (a b : DMoc) (ha : CanonM a) (hb : CanonM b) : CanonM (opAnd a b) := (intersection_spec _ _ ha hb).1
theorem opXor_P (a b : DMoc) (ha : CanonM a) (hb : CanonM b) : CanonM (opXor a b) := (xorLoop_spec _ _ 0 ha hb).1

theorem opOr_assoc (a b c : DMoc) (ha : CanonM a) (hb : CanonM b) (hc : CanonM c) :
    opOr (opOr a b) c = opOr a (opOr b c) := by
  have ab := union_spec a.2 b.2 ha hb
  have bc := union_spec b.2 c.2 hb hc
  have l := union_spec _ c.2 ab.1 hc
  have r := union_spec a.2 _ ha bc.1
  unfold opOr
  congr 1
  · simp only []; omega
  · exact Canon.ext l.1 r.1 (fun x => by rw [l.2, r.2, ab.2, bc.2]; simp [or_assoc])

theorem opAnd_assoc (a b c : DMoc) (ha : CanonM a) (hb : CanonM b) (hc : CanonM c) :
    opAnd (opAnd a b) c = opAnd a (opAnd b c) := by
  have ab := intersection_spec a.2 b.2 ha hb
  have bc := intersection_spec b.2 c.2 hb hc
  have l := intersection_spec _ c.2 ab.1 hc
  have r := intersection_spec a.2 _ ha bc.1
  unfold opAnd
  congr 1
  · simp only []; omega
  · exact Canon.ext l.1 r.1 (fun x => by rw [l.2, r.2, ab.2, bc.2]; simp [and_assoc])

theorem opXor_assoc (a b c : DMoc) (ha : CanonM a) (hb : CanonM b) (hc : CanonM c) :
    opXor (opXor a b) c = opXor a (opXor b c) := by
  have ab := xorLoop_spec a.2 b.2 0 ha hb
  have bc := xorLoop_spec b.2 c.2 0 hb hc
  have l := xorLoop_spec _ c.2 0 ab.1 hc
  have r := xorLoop_spec a.2 _ 0 ha bc.1
  unfold opXor
  congr 1
  · simp only []; omega
  · exact Canon.ext l.1 r.1 (fun x => by
      rw [l.2, r.2, ab.2, bc.2]
      by_cases h1 : mem x a.2 <;> by_cases h2 : mem x b.2 <;> by_cases h3 : mem x c.2 <;> simp [h1, h2, h3])

end Moc
