/-
  From valid MOCs to the element lists the ASCII writer is fed with (C07 end to end):
  the cell ranges of a valid MOC are in-domain, ordered, pairwise disjoint and cover exactly the MOC.
-/
import MocVerif.Lemmas.CellView
import MocVerif.Lemmas.Codec

namespace Moc.Codec
open Moc

/-- Cells in increasing, non-overlapping order inside `[lo, hi]`, each of depth ≤ `d`. -/
def OrdCells (q : Qty) (w d : Nat) : Nat → Nat → List Cell → Prop
  | lo, hi, [] => lo ≤ hi
  | lo, hi, c :: t =>
    c.1 ≤ d ∧ lo ≤ (rangeOfCell q w c).1 ∧ (rangeOfCell q w c).1 < (rangeOfCell q w c).2 ∧
    OrdCells q w d (rangeOfCell q w c).2 hi t

theorem OrdCells.le {q : Qty} {w d : Nat} : ∀ {cs : List Cell} {lo hi : Nat}, OrdCells q w d lo hi cs → lo ≤ hi := by
  intro cs
  induction cs with
  | nil => intro lo hi h; exact h
  | cons c t ih => intro lo hi h; obtain ⟨_, h2, h3, h4⟩ := h; have := ih h4; omega

theorem ordCells_of_tiles (q : Qty) (w d : Nat) : ∀ (cs : List Cell) (s e : Nat), Tiles q w d s e cs →
    OrdCells q w d s e cs := by
  intro cs
  induction cs with
  | nil => intro s e h; simp only [Tiles] at h; simp only [OrdCells]; omega
  | cons c t ih =>
    intro s e h
    obtain ⟨s', h1, h2, h3, h4, h5⟩ := h
    refine ⟨h4, by rw [h1]; exact Nat.le_refl _, by rw [h1]; exact h2, ?_⟩
    rw [h1]; exact ih s' e h5

theorem ordCells_append (q : Qty) (w d : Nat) : ∀ (cs cs2 : List Cell) (lo hi lo2 hi2 : Nat),
    OrdCells q w d lo hi cs → OrdCells q w d lo2 hi2 cs2 → hi ≤ lo2 → OrdCells q w d lo hi2 (cs ++ cs2) := by
  intro cs
  induction cs with
  | nil =>
    intro cs2 lo hi lo2 hi2 h1 h2 hle
    simp only [OrdCells] at h1
    cases cs2 with
    | nil => simp only [List.append_nil, OrdCells] at h2 ⊢; omega
    | cons c t =>
      obtain ⟨a, b, c', e⟩ := h2
      exact ⟨a, by omega, c', e⟩
  | cons c t ih =>
    intro cs2 lo hi lo2 hi2 h1 h2 hle
    obtain ⟨a, b, c', e⟩ := h1
    exact ⟨a, b, c', ih cs2 _ hi lo2 hi2 e h2 hle⟩

/-- The cells of a canonical, aligned, bounded list of ranges are ordered inside `[lo, ub]`. -/
theorem ordCells_cellsOf (q : Qty) (hq : q.dim = 1 ∨ q.dim = 2) (w d : Nat) (hd : d ≤ q.maxDepth w) (ub : Nat) :
    ∀ (l : List Rng) (lo : Nat), CanonFrom lo l → Aligned (2 ^ q.shiftFromMax w d) l → BoundedBy ub l → lo ≤ ub →
      OrdCells q w d lo ub (cellsOf q w d l) := by
  intro l
  induction l with
  | nil => intro lo _ _ _ h; exact h
  | cons r t ih =>
    intro lo hc ha hb hlo
    obtain ⟨h1, h2, h3⟩ := hc
    have har := ha r List.mem_cons_self
    have hbr : r.2 ≤ ub := hb r List.mem_cons_self
    have ht := cellsOfRange_tiles q hq w d hd (r.2 - r.1) r.1 r.2 (Nat.le_refl _) (by omega) har.1 har.2
    have o1 := ordCells_of_tiles q w d _ _ _ ht
    have o2 := ih (r.2 + 1) h3 (fun x hx => ha x (List.mem_cons_of_mem _ hx))
      (fun x hx => hb x (List.mem_cons_of_mem _ hx))
    simp only [cellsOf, List.flatMap_cons]
    cases t with
    | nil =>
      simp only [List.flatMap_nil, List.append_nil]
      -- widen the upper bound from r.2 to ub and the lower bound from r.1 to lo
      have : OrdCells q w d r.1 ub (cellsOfRange q w d (r.2 - r.1) r.1 r.2) := by
        have := ordCells_append q w d _ [] r.1 r.2 r.2 ub o1 (by simp only [OrdCells]; exact hbr) (Nat.le_refl _)
        simpa using this
      cases hcs : cellsOfRange q w d (r.2 - r.1) r.1 r.2 with
      | nil => simp only [OrdCells]; exact hlo
      | cons c cs =>
        rw [hcs] at this
        obtain ⟨a, b, c', e⟩ := this
        exact ⟨a, by omega, c', e⟩
    | cons r2 t2 =>
      have hr2 : r.2 + 1 ≤ ub := by
        have := h3.1
        have := h3.2.1
        have : r2.2 ≤ ub := hb r2 (List.mem_cons_of_mem _ List.mem_cons_self)
        omega
      have o2' := o2 hr2
      have := ordCells_append q w d _ _ r.1 r.2 (r.2 + 1) ub o1 o2' (by omega)
      simp only [cellsOf] at this
      cases hcs : cellsOfRange q w d (r.2 - r.1) r.1 r.2 with
      | nil =>
        rw [hcs] at this
        simp only [List.nil_append] at this ⊢
        cases hrest : List.flatMap (fun r => cellsOfRange q w d (r.2 - r.1) r.1 r.2) (r2 :: t2) with
        | nil => simp only [OrdCells]; exact hlo
        | cons c cs =>
          rw [hrest] at this
          obtain ⟨a, b, c', e⟩ := this
          exact ⟨a, by omega, c', e⟩
      | cons c cs =>
        rw [hcs] at this
        simp only [List.cons_append] at this ⊢
        obtain ⟨a, b, c', e⟩ := this
        exact ⟨a, by omega, c', e⟩

/-- Cell ranges in increasing, non-overlapping order inside `[lo, hi]`. -/
def OrdCR (q : Qty) (w d : Nat) : Nat → Nat → List CellRange → Prop
  | lo, hi, [] => lo ≤ hi
  | lo, hi, c :: t =>
    c.1 ≤ d ∧ c.2.1 < c.2.2 ∧ lo ≤ (rangeOfCellRange q w c).1 ∧ OrdCR q w d (rangeOfCellRange q w c).2 hi t

theorem ordCR_cellRangesFrom (q : Qty) (w d : Nat) : ∀ (t : List Cell) (d0 i n lo hi : Nat),
    d0 ≤ d → 0 < n → lo ≤ i <<< q.shiftFromMax w d0 →
    OrdCells q w d ((i + n) <<< q.shiftFromMax w d0) hi t →
    OrdCR q w d lo hi (cellRangesFrom d0 i n t) := by
  intro t
  induction t with
  | nil =>
    intro d0 i n lo hi hd0 hn hlo h
    simp only [cellRangesFrom, OrdCR, rangeOfCellRange]
    simp only [OrdCells] at h
    exact ⟨hd0, (by show i < i + n; omega), hlo, h⟩
  | cons c t ih =>
    intro d0 i n lo hi hd0 hn hlo h
    obtain ⟨a, b, c', e⟩ := h
    simp only [cellRangesFrom]
    by_cases hc : c.1 = d0 ∧ i + n = c.2
    · simp only [hc, and_self, ↓reduceIte]
      apply ih d0 i (n + 1) lo hi hd0 (by omega) hlo
      have : (rangeOfCell q w c).2 = (i + (n + 1)) <<< q.shiftFromMax w d0 := by
        simp only [rangeOfCell]; rw [hc.1, ← hc.2]; rfl
      rw [← this]; exact e
    · simp only [hc, ↓reduceIte]
      refine ⟨hd0, (by show i < i + n; omega), hlo, ?_⟩
      simp only [rangeOfCellRange]
      apply ih c.1 c.2 1 _ hi a (by omega)
      · simpa [rangeOfCell] using b
      · simpa [rangeOfCell] using e

theorem ordCR_cellRangesOf (q : Qty) (w d : Nat) (cs : List Cell) (lo hi : Nat)
    (h : OrdCells q w d lo hi cs) : OrdCR q w d lo hi (cellRangesOf cs) := by
  cases cs with
  | nil => exact h
  | cons c t =>
    obtain ⟨a, b, c', e⟩ := h
    simp only [cellRangesOf]
    apply ordCR_cellRangesFrom q w d t c.1 c.2 1 lo hi a (by omega)
    · simpa [rangeOfCell] using b
    · simpa [rangeOfCell] using e

theorem OrdCR.le {q : Qty} {w d : Nat} : ∀ {cs : List CellRange} {lo hi : Nat}, OrdCR q w d lo hi cs → lo ≤ hi := by
  intro cs
  induction cs with
  | nil => intro lo hi h; exact h
  | cons c t ih =>
    intro lo hi h
    obtain ⟨_, h2, h3, h4⟩ := h
    have := ih h4
    have : (rangeOfCellRange q w c).1 ≤ (rangeOfCellRange q w c).2 := by
      simp only [rangeOfCellRange, Nat.shiftLeft_eq]; exact Nat.mul_le_mul_right _ (by omega)
    omega

def Disjoint' (a b : Rng) : Prop := a.2 ≤ b.1 ∨ b.2 ≤ a.1

/-- Ordered cell ranges: every later range starts at or after `lo`. -/
theorem ordCR_lb (q : Qty) (w d : Nat) : ∀ (cs : List CellRange) (lo hi : Nat), OrdCR q w d lo hi cs →
    ∀ c ∈ cs, lo ≤ (rangeOfCellRange q w c).1 ∧ (rangeOfCellRange q w c).2 ≤ hi := by
  intro cs
  induction cs with
  | nil => intro _ _ _ c hc; cases hc
  | cons c0 t ih =>
    intro lo hi h c hc
    obtain ⟨_, h2, h3, h4⟩ := h
    have hle := OrdCR.le h4
    have hw : (rangeOfCellRange q w c0).1 ≤ (rangeOfCellRange q w c0).2 := by
      simp only [rangeOfCellRange, Nat.shiftLeft_eq]; exact Nat.mul_le_mul_right _ (by omega)
    cases hc with
    | head => exact ⟨h3, hle⟩
    | tail _ hm => have := ih _ hi h4 c hm; exact ⟨by omega, this.2⟩

theorem ordCR_pairwise (q : Qty) (w d : Nat) : ∀ (cs : List CellRange) (lo hi : Nat), OrdCR q w d lo hi cs →
    (cs.map (rangeOfCellRange q w)).Pairwise Disjoint' := by
  intro cs
  induction cs with
  | nil => intro _ _ _; exact List.Pairwise.nil
  | cons c0 t ih =>
    intro lo hi h
    obtain ⟨_, h2, h3, h4⟩ := h
    simp only [List.map_cons]
    refine List.pairwise_cons.2 ⟨?_, ih _ hi h4⟩
    intro r hr
    obtain ⟨c, hc, rfl⟩ := List.mem_map.1 hr
    exact Or.inl (ordCR_lb q w d t _ hi h4 c hc).1

/-- An index `j` whose range ends inside the domain is at most `n_cells(depth)`. -/
theorem le_nCells_of_shl_le (q : Qty) (w dd j : Nat) (hdd : dd ≤ q.maxDepth w)
    (h : j <<< q.shiftFromMax w dd ≤ q.nCellsMax w) : j ≤ q.nCells dd := by
  unfold Qty.nCellsMax Qty.nCells Qty.shiftFromMax at *
  simp only [Nat.shiftLeft_eq] at *
  have e : q.dim * q.maxDepth w = q.dim * dd + q.dim * (q.maxDepth w - dd) := by
    rw [← Nat.mul_add]; congr 1; omega
  rw [e, Nat.pow_add, ← Nat.mul_assoc] at h
  exact Nat.le_of_mul_le_mul_right h (Nat.two_pow_pos _)

end Moc.Codec

namespace Moc.Codec
open Moc

/-- Cells seen as cell ranges of length one (what the JSON writer emits: cells only). -/
def unitCR (c : Cell) : CellRange := (c.1, c.2, c.2 + 1)

theorem rangeOfCellRange_unit (q : Qty) (w : Nat) (c : Cell) : rangeOfCellRange q w (unitCR c) = rangeOfCell q w c := rfl

theorem ordCR_of_ordCells (q : Qty) (w d : Nat) : ∀ (cs : List Cell) (lo hi : Nat), OrdCells q w d lo hi cs →
    OrdCR q w d lo hi (cs.map unitCR) := by
  intro cs
  induction cs with
  | nil => intro lo hi h; exact h
  | cons c t ih =>
    intro lo hi h
    obtain ⟨a, b, c', e⟩ := h
    refine ⟨a, by simp [unitCR], by rw [rangeOfCellRange_unit]; exact b, ?_⟩
    rw [rangeOfCellRange_unit]
    exact ih _ hi e

end Moc.Codec
