/-
  Lemmas for the codec model (C07, C12).
-/
import MocVerif.Model.Codec
import MocVerif.Lemmas.SetOps

namespace Moc.Codec
open Moc

/-- An item lies inside the domain of its depth. -/
def ItemOk (q : Qty) (w : Nat) (it : Item) : Prop :=
  it.d ≤ q.maxDepth w ∧ it.d ≤ 255 ∧ it.s < it.e ∧ it.e ≤ q.nCells it.d

/-- Depth-major rearrangement performed by the writer's buckets. -/
def bucketed (items : List Item) : Nat → Nat → List Item
  | _, 0 => []
  | d, n + 1 => bucket items d ++ bucketed items (d + 1) n

theorem mem_bucket {items : List Item} {d : Nat} {it : Item} :
    it ∈ bucket items d ↔ it ∈ items ∧ it.d = d := by
  simp [bucket, List.mem_filter]

theorem mem_bucketed {items : List Item} {it : Item} : ∀ (n d : Nat),
    it ∈ bucketed items d n ↔ it ∈ items ∧ d ≤ it.d ∧ it.d < d + n := by
  intro n
  induction n with
  | zero => intro d; simp [bucketed]; try (intro _ h; omega)
  | succ n ih =>
    intro d
    simp only [bucketed, List.mem_append, mem_bucket, ih (d + 1)]
    constructor
    · rintro (⟨h1, h2⟩ | ⟨h1, h2, h3⟩)
      · exact ⟨h1, by omega, by omega⟩
      · exact ⟨h1, by omega, by omega⟩
    · rintro ⟨h1, h2, h3⟩
      by_cases e : it.d = d
      · exact Or.inl ⟨h1, e⟩
      · exact Or.inr ⟨h1, by omega, by omega⟩

theorem bucketed_perm (items : List Item) : ∀ (n d : Nat), (∀ it ∈ items, it.d < d + n) →
    (bucketed items d n).Perm (items.filter fun it => decide (d ≤ it.d)) := by
  intro n
  induction n with
  | zero =>
    intro d h
    have : (items.filter fun it => decide (d ≤ it.d)) = [] := by
      apply List.filter_eq_nil_iff.2
      intro it hit; have := h it hit; simp; omega
    rw [this]; exact List.Perm.refl _
  | succ n ih =>
    intro d h
    have h' : ∀ it ∈ items, it.d < d + 1 + n := fun it hit => by have := h it hit; omega
    have p := List.filter_append_perm (fun it : Item => it.d == d) (items.filter fun it => decide (d ≤ it.d))
    have e1 : ((items.filter fun it => decide (d ≤ it.d)).filter fun it : Item => it.d == d) = bucket items d := by
      rw [List.filter_filter]; unfold bucket
      apply List.filter_congr
      intro it _
      by_cases e : it.d = d <;> simp [e]
    have e2 : ((items.filter fun it => decide (d ≤ it.d)).filter fun it : Item => !(it.d == d))
        = items.filter fun it => decide (d + 1 ≤ it.d) := by
      rw [List.filter_filter]
      apply List.filter_congr
      intro it _
      by_cases e : it.d = d
      · simp [e]
      · by_cases e2 : d ≤ it.d
        · have : d + 1 ≤ it.d := by omega
          simp [e, e2, this]
        · have : ¬ (d + 1 ≤ it.d) := by omega
          simp [e, e2, this]
    rw [e1, e2] at p
    exact (List.Perm.append_left _ (ih (d + 1) h')).trans p

/-- A bucket of in-domain items of depth `cur` is decoded back, element by element. -/
theorem loop_bucket (q : Qty) (w cur dm : Nat) (b : List Item) (rest : List Tok) (acc : List Item)
    (hb : ∀ it ∈ b, it.d = cur ∧ ItemOk q w it) :
    loopToks q w cur dm (b.map itemTok ++ rest) acc = loopToks q w cur dm rest (b.reverse ++ acc) := by
  induction b generalizing acc with
  | nil => simp
  | cons it t ih =>
    obtain ⟨hd, _, _, hse, hen⟩ := hb it List.mem_cons_self
    have ht := ih (it :: acc) (fun x hx => hb x (List.mem_cons_of_mem _ hx))
    simp only [List.map_cons, List.cons_append, List.reverse_cons, List.append_assoc]
    have hit : it = ⟨cur, it.s, it.e⟩ := by cases it; simp at hd; simp [hd]
    unfold itemTok
    by_cases he : it.e = it.s + 1
    · simp only [he, ↓reduceIte, loopToks]
      have : ¬ (it.s ≥ q.nCells cur) := by rw [← hd]; omega
      simp only [this, ↓reduceIte]
      rw [← he, ← hit]; exact ht
    · simp only [he, ↓reduceIte, loopToks]
      have : ¬ (it.e > q.nCells cur ∨ it.s ≥ it.e) := by rw [← hd]; omega
      simp only [this, ↓reduceIte]
      rw [← hit]; exact ht

theorem loop_encodeFrom (q : Qty) (w dmax : Nat) (items : List Item)
    (hmax : dmax ≤ q.maxDepth w ∧ dmax ≤ 255) (hok : ∀ it ∈ items, ItemOk q w it) :
    ∀ (n d cur dm : Nat) (acc : List Item), d + n = dmax + 1 → dm ≤ dmax → (n = 0 → dm = dmax) →
      loopToks q w cur dm (encodeFrom items dmax d n) acc
        = .ok (dmax, acc.reverse ++ bucketed items d n) := by
  intro n
  induction n with
  | zero =>
    intro d cur dm acc _ _ h0
    simp [encodeFrom, bucketed, loopToks, h0 rfl]
  | succ n ih =>
    intro d cur dm acc hdn hdm _
    have hd : d ≤ dmax := by omega
    simp only [encodeFrom, bucketed]
    have hb : ∀ it ∈ bucket items d, it.d = d ∧ ItemOk q w it :=
      fun it hit => ⟨(mem_bucket.1 hit).2, hok it (mem_bucket.1 hit).1⟩
    by_cases hemp : ((bucket items d).isEmpty && d != dmax) = true
    · simp only [hemp, ↓reduceIte, List.nil_append]
      have he : bucket items d = [] := by
        simp only [Bool.and_eq_true, List.isEmpty_iff] at hemp; exact hemp.1
      have hne : d ≠ dmax := by simp only [Bool.and_eq_true, bne_iff_ne] at hemp; exact hemp.2
      rw [he, List.nil_append]
      exact ih (d + 1) cur dm acc (by omega) hdm (fun h => by omega)
    · simp only [hemp]
      simp only [Bool.false_eq_true, ↓reduceIte, List.cons_append, loopToks]
      have h1 : ¬ (d > 255) := by omega
      have h2 : ¬ (d > q.maxDepth w) := by omega
      simp only [h1, h2, ↓reduceIte]
      rw [loop_bucket q w d (max dm d) (bucket items d) _ acc hb]
      rw [ih (d + 1) d (max dm d) _ (by omega) (by omega) (fun h => by omega)]
      simp [List.reverse_append]

theorem encodeFrom_head (items : List Item) (dmax : Nat) : ∀ (n d : Nat),
    encodeFrom items dmax d n = [] ∨ ∃ k r, encodeFrom items dmax d n = .depth k :: r := by
  intro n
  induction n with
  | zero => intro d; exact Or.inl rfl
  | succ n ih =>
    intro d
    simp only [encodeFrom]
    by_cases hemp : ((bucket items d).isEmpty && d != dmax) = true
    · simp only [hemp, ↓reduceIte, List.nil_append]; exact ih (d + 1)
    · simp only [hemp]; exact Or.inr ⟨d, _, rfl⟩

theorem decodeRaw_eq_loop (q : Qty) (w : Nat) (ts : List Tok)
    (h : ts = [] ∨ ∃ k r, ts = .depth k :: r) : decodeRaw q w ts = loopToks q w 0 0 ts [] := by
  rcases h with rfl | ⟨k, r, rfl⟩
  · rfl
  · simp only [decodeRaw, loopToks, Nat.zero_max]

/-- Items accepted by the validation loop lie inside the domain of their depth. -/
theorem loopToks_ok (q : Qty) (w : Nat) : ∀ (ts : List Tok) (cur dm : Nat) (acc : List Item) (d : Nat) (l : List Item),
    loopToks q w cur dm ts acc = .ok (d, l) → cur ≤ q.maxDepth w ∧ cur ≤ 255 ∧ cur ≤ dm → dm ≤ q.maxDepth w →
    (∀ it ∈ acc, ItemOk q w it ∧ it.d ≤ dm) →
    d ≤ q.maxDepth w ∧ ∀ it ∈ l, ItemOk q w it ∧ it.d ≤ d := by
  intro ts
  induction ts with
  | nil =>
    intro cur dm acc d l h _ hdm hacc
    simp only [loopToks, Except.ok.injEq, Prod.mk.injEq] at h
    obtain ⟨rfl, rfl⟩ := h
    exact ⟨hdm, fun it hit => hacc it (List.mem_reverse.1 hit)⟩
  | cons t ts ih =>
    intro cur dm acc d l h hcur hdm hacc
    cases t with
    | depth k =>
      simp only [loopToks] at h
      by_cases h1 : k > 255
      · simp [h1] at h
      · by_cases h2 : k > q.maxDepth w
        · simp [h1, h2] at h
        · simp only [h1, h2, ↓reduceIte] at h
          exact ih k (max dm k) acc d l h ⟨by omega, by omega, by omega⟩ (by omega)
            (fun it hit => ⟨(hacc it hit).1, by have := (hacc it hit).2; omega⟩)
    | cell i =>
      simp only [loopToks] at h
      by_cases h1 : i ≥ q.nCells cur
      · simp [h1] at h
      · simp only [h1, ↓reduceIte] at h
        refine ih cur dm _ d l h hcur hdm ?_
        intro it hit
        cases hit with
        | head => exact ⟨⟨hcur.1, hcur.2.1, by simp, by simp; omega⟩, hcur.2.2⟩
        | tail _ hm => exact hacc it hm
    | range s e =>
      simp only [loopToks] at h
      by_cases h1 : e > q.nCells cur ∨ s ≥ e
      · simp [h1] at h
      · simp only [h1, ↓reduceIte] at h
        refine ih cur dm _ d l h hcur hdm ?_
        intro it hit
        cases hit with
        | head => exact ⟨⟨hcur.1, hcur.2.1, by simp; omega, by simp; omega⟩, hcur.2.2⟩
        | tail _ hm => exact hacc it hm

end Moc.Codec
