/-
  C05 — the depth-by-depth NUNIQ iterator: soundness and completeness of one pass, exact cover of the
  whole iteration.
-/
import MocVerif.Model.UniqIter
import MocVerif.Lemmas.Sweep
import MocVerif.Lemmas.SetOps

namespace Moc.UniqIter
open Moc

/-! ### Rounding to a multiple of `2^k` -/

def up (k a : Nat) : Nat := ((a + (2 ^ k - 1)) >>> k) <<< k
def down (k a : Nat) : Nat := (a >>> k) <<< k

theorem down_spec (k a : Nat) : down k a ≤ a ∧ a < down k a + 2 ^ k ∧ 2 ^ k ∣ down k a := by
  unfold down
  rw [Nat.shiftRight_eq_div_pow, Nat.shiftLeft_eq]
  have hp := Nat.two_pow_pos k
  refine ⟨Nat.div_mul_le_self a (2 ^ k), ?_, Nat.dvd_mul_left _ _⟩
  have := Nat.lt_mul_div_succ a hp
  rw [Nat.mul_add, Nat.mul_one, Nat.mul_comm] at this
  exact this

theorem up_spec (k a : Nat) : a ≤ up k a ∧ up k a < a + 2 ^ k ∧ 2 ^ k ∣ up k a := by
  have h := down_spec k (a + (2 ^ k - 1))
  have hp := Nat.two_pow_pos k
  have e : up k a = down k (a + (2 ^ k - 1)) := rfl
  rw [e]
  refine ⟨by omega, by omega, h.2.2⟩

theorem le_down_of_dvd (k p e : Nat) (hp : 2 ^ k ∣ p) (h : p ≤ e) : p ≤ down k e := by
  obtain ⟨c, rfl⟩ := hp
  unfold down
  rw [Nat.shiftRight_eq_div_pow, Nat.shiftLeft_eq]
  have hpos := Nat.two_pow_pos k
  have : c ≤ e / 2 ^ k := (Nat.le_div_iff_mul_le hpos).2 (by rw [Nat.mul_comm]; exact h)
  calc 2 ^ k * c = c * 2 ^ k := Nat.mul_comm _ _
    _ ≤ e / 2 ^ k * 2 ^ k := Nat.mul_le_mul_right _ this

theorem up_le_of_dvd (k a p : Nat) (hp : 2 ^ k ∣ p) (h : a ≤ p) : up k a ≤ p := by
  have hpos := Nat.two_pow_pos k
  have h1 := up_spec k a
  -- `up k a` and `p` are multiples of `2^k`; `up k a < a + 2^k ≤ p + 2^k`
  obtain ⟨c, hc⟩ := hp
  obtain ⟨u, hu⟩ := h1.2.2
  have : u < c + 1 := by
    apply Nat.lt_of_mul_lt_mul_left (a := 2 ^ k)
    rw [Nat.mul_add, Nat.mul_one, ← hu, ← hc]
    omega
  have : u ≤ c := by omega
  rw [hu, hc]
  exact Nat.mul_le_mul_left _ this

theorem pass_cons (k : Nat) (r : Rng) (t : List Rng) :
    pass k (r :: t) = if down k r.2 > up k r.1 then (up k r.1, down k r.2) :: pass k t else pass k t := rfl

/-- **One pass is sound**: every emitted range is a non-empty aligned part of one of the ranges. -/
theorem pass_sound (k : Nat) : ∀ (rs : List Rng) (b : Rng), b ∈ pass k rs →
    ∃ r ∈ rs, r.1 ≤ b.1 ∧ b.1 < b.2 ∧ b.2 ≤ r.2 ∧ 2 ^ k ∣ b.1 ∧ 2 ^ k ∣ b.2 := by
  intro rs
  induction rs with
  | nil => intro b hb; cases hb
  | cons r t ih =>
    intro b hb
    rw [pass_cons] at hb
    split at hb
    · rename_i hgt
      cases hb with
      | head => exact ⟨r, by simp, (up_spec k r.1).1, hgt, (down_spec k r.2).1, (up_spec k r.1).2.2, (down_spec k r.2).2.2⟩
      | tail _ hm =>
        obtain ⟨r', hr', h⟩ := ih b hm
        exact ⟨r', by simp [hr'], h⟩
    · obtain ⟨r', hr', h⟩ := ih b hb
      exact ⟨r', by simp [hr'], h⟩

/-- **One pass is complete**: every aligned cell of `2^k` indices lying inside a range lies inside
    the range emitted for it. -/
theorem pass_complete (k : Nat) : ∀ (rs : List Rng) (r : Rng), r ∈ rs → ∀ p, 2 ^ k ∣ p → r.1 ≤ p → p + 2 ^ k ≤ r.2 →
    ∃ b ∈ pass k rs, b.1 ≤ p ∧ p + 2 ^ k ≤ b.2 := by
  intro rs
  induction rs with
  | nil => intro r hr; cases hr
  | cons r0 t ih =>
    intro r hr p hp h1 h2
    rw [pass_cons]
    cases hr with
    | head =>
      have hu := up_le_of_dvd k r0.1 p hp h1
      have hd := le_down_of_dvd k (p + 2 ^ k) r0.2 (Nat.dvd_add hp (Nat.dvd_refl _)) h2
      have hpos := Nat.two_pow_pos k
      have hgt : down k r0.2 > up k r0.1 := by omega
      rw [if_pos hgt]
      exact ⟨(up k r0.1, down k r0.2), List.mem_cons_self, hu, hd⟩
    | tail _ hm =>
      obtain ⟨b, hb, h⟩ := ih r hm p hp h1 h2
      split
      · exact ⟨b, by simp [hb], h⟩
      · exact ⟨b, hb, h⟩

theorem pass_zero (rs : List Rng) (h : ∀ r ∈ rs, r.1 < r.2) : pass 0 rs = rs := by
  induction rs with
  | nil => rfl
  | cons r t ih =>
    have hr := h r (by simp)
    rw [pass_cons]
    have e1 : up 0 r.1 = r.1 := by simp [up]
    have e2 : down 0 r.2 = r.2 := by simp [down]
    rw [e1, e2, if_pos hr, ih (fun x hx => h x (by simp [hx]))]

theorem mem_pass (k : Nat) (rs : List Rng) (x : Nat) (h : mem x (pass k rs)) : mem x rs := by
  rw [mem_iff_exists] at h ⊢
  obtain ⟨b, hb, h1, h2⟩ := h
  obtain ⟨r, hr, g1, _, g3, _, _⟩ := pass_sound k rs b hb
  exact ⟨r, hr, by omega, by omega⟩

theorem canon_nonempty : ∀ (l : List Rng) (lo : Nat), CanonFrom lo l → ∀ r ∈ l, r.1 < r.2 := by
  intro l
  induction l with
  | nil => intro _ _ r hr; cases hr
  | cons a t ih =>
    intro lo h r hr
    cases hr with
    | head => exact h.2.1
    | tail _ hm => exact ih _ h.2.2 r hm

/-- **The whole iteration covers exactly the MOC**: an index is covered iff it lies in one of the
    emitted aligned ranges. -/
theorem run_cover (g : Nat) : ∀ (J : Nat) (rs : List Rng), Canon rs →
    ∀ x, mem x rs ↔ ∃ e ∈ run g J rs, e.2.1 ≤ x ∧ x < e.2.2 := by
  intro J
  induction J with
  | zero =>
    intro rs hc x
    rw [run, pass_zero rs (canon_nonempty rs 0 hc), mem_iff_exists]
    constructor
    · rintro ⟨r, hr, h⟩
      exact ⟨(0, r), List.mem_map.2 ⟨r, hr, rfl⟩, h⟩
    · rintro ⟨e, he, h⟩
      obtain ⟨r, hr, rfl⟩ := List.mem_map.1 he
      exact ⟨r, hr, h⟩
  | succ j ih =>
    intro rs hc x
    rw [run]
    have hn := normalize_spec (pass (g * (j + 1)) rs)
    have hd := difference_spec rs (normalize (pass (g * (j + 1)) rs)) hc hn.1
    have ihx := ih _ hd.1 x
    constructor
    · intro hx
      by_cases hb : mem x (pass (g * (j + 1)) rs)
      · rw [mem_iff_exists] at hb
        obtain ⟨b, hb, h⟩ := hb
        exact ⟨(j + 1, b), List.mem_append.2 (.inl (List.mem_map.2 ⟨b, hb, rfl⟩)), h⟩
      · have : mem x (difference rs (normalize (pass (g * (j + 1)) rs))) := (hd.2 x).2 ⟨hx, fun h => hb ((hn.2 x).1 h)⟩
        obtain ⟨e, he, h⟩ := ihx.1 this
        exact ⟨e, List.mem_append.2 (.inr he), h⟩
    · rintro ⟨e, he, h⟩
      rcases List.mem_append.1 he with he | he
      · obtain ⟨b, hb, rfl⟩ := List.mem_map.1 he
        exact mem_pass _ rs x ((mem_iff_exists x _).2 ⟨b, hb, h⟩)
      · exact ((hd.2 x).1 (ihx.2 ⟨e, he, h⟩)).1

/-! ### Maximality -/

/-- The aligned cell of `2^k` indices starting at `p` lies inside `S`. -/
def BlockIn (k p : Nat) (S : List Rng) : Prop := ∀ x, p ≤ x → x < p + 2 ^ k → mem x S

/-- `S` contains no aligned cell of `2^k` indices. -/
def NoBlk (k : Nat) (S : List Rng) : Prop := ∀ p, 2 ^ k ∣ p → ¬ BlockIn k p S

theorem run_level_le (g : Nat) : ∀ (j : Nat) (R : List Rng) (e : Nat × Rng), e ∈ run g j R → e.1 ≤ j := by
  intro j
  induction j with
  | zero =>
    intro R e he
    rw [run] at he
    obtain ⟨b, _, rfl⟩ := List.mem_map.1 he
    exact Nat.le_refl _
  | succ j ih =>
    intro R e he
    rw [run] at he
    rcases List.mem_append.1 he with he | he
    · obtain ⟨b, _, rfl⟩ := List.mem_map.1 he
      exact Nat.le_refl _
    · exact Nat.le_succ_of_le (ih _ e he)

/-- Points of a canonical list on both sides of a hole cannot be joined by a covered interval: an
    interval of covered indices lies inside ONE range. -/
theorem interval_in_range : ∀ (l : List Rng) (lo : Nat), CanonFrom lo l → ∀ p q, p < q →
    (∀ x, p ≤ x → x < q → mem x l) → ∃ r ∈ l, r.1 ≤ p ∧ q ≤ r.2 := by
  intro l
  induction l with
  | nil => intro _ _ p q hpq h; exact absurd (h p (Nat.le_refl _) hpq) (by simp [mem])
  | cons r0 t ih =>
    intro lo hc p q hpq h
    obtain ⟨h1, h2, h3⟩ := hc
    by_cases hp : p < r0.2
    · -- `p` is in the first range (it is covered and everything in the tail is beyond `r0.2`)
      have hp0 : r0.1 ≤ p := by
        have := h p (Nat.le_refl _) hpq
        simp only [mem] at this
        rcases this with hh | hh
        · exact hh.1
        · have := h3.lb hh; omega
      refine ⟨r0, by simp, hp0, ?_⟩
      -- `q ≤ r0.2`, else `r0.2` itself would be covered
      apply Classical.byContradiction
      intro hq
      have := h r0.2 (by omega) (by omega)
      simp only [mem] at this
      rcases this with hh | hh
      · omega
      · have := h3.lb hh; omega
    · -- everything is in the tail
      have : ∀ x, p ≤ x → x < q → mem x t := by
        intro x hx1 hx2
        have := h x hx1 hx2
        simp only [mem] at this
        rcases this with hh | hh
        · omega
        · exact hh
      obtain ⟨r, hr, hh⟩ := ih _ h3 p q hpq this
      exact ⟨r, by simp [hr], hh⟩

/-- **After a pass no cell of that size is left**: the remaining ranges contain no aligned cell of
    `2^k` indices. -/
theorem noBlk_after_pass (k : Nat) (R : List Rng) (hc : Canon R) :
    NoBlk k (difference R (normalize (pass k R))) := by
  intro p hp hblk
  have hn := normalize_spec (pass k R)
  have hd := difference_spec R (normalize (pass k R)) hc hn.1
  have hpos := Nat.two_pow_pos k
  -- the cell lies inside `R`, hence inside one range of `R`
  have hin : ∀ x, p ≤ x → x < p + 2 ^ k → mem x R := fun x h1 h2 => ((hd.2 x).1 (hblk x h1 h2)).1
  obtain ⟨r, hr, hr1, hr2⟩ := interval_in_range R 0 hc p (p + 2 ^ k) (by omega) hin
  obtain ⟨b, hb, hb1, hb2⟩ := pass_complete k R r hr p hp hr1 hr2
  -- so `p` was removed
  have : mem p (normalize (pass k R)) := (hn.2 p).2 ((mem_iff_exists p _).2 ⟨b, hb, hb1, by omega⟩)
  exact ((hd.2 p).1 (hblk p (Nat.le_refl _) (by omega))).2 this

/-- Aligned cells nest: a cell of `2^a` indices and a cell of `2^b` indices (`2^a ∣ 2^b`) that share
    an index — the smaller one lies inside the larger one. -/
theorem block_nest (a b p q x : Nat) (hab : a ≤ b) (hp : 2 ^ a ∣ p) (hq : 2 ^ b ∣ q)
    (hx1 : p ≤ x ∧ x < p + 2 ^ a) (hx2 : q ≤ x ∧ x < q + 2 ^ b) : q ≤ p ∧ p + 2 ^ a ≤ q + 2 ^ b := by
  have hdv : 2 ^ a ∣ 2 ^ b := Nat.pow_dvd_pow 2 hab
  have hpa := Nat.two_pow_pos a
  -- `q` and `q + 2^b` are multiples of `2^a`
  have hq' : 2 ^ a ∣ q := Nat.dvd_trans hdv hq
  have hqe : 2 ^ a ∣ q + 2 ^ b := Nat.dvd_add hq' hdv
  obtain ⟨cp, hcp⟩ := hp
  obtain ⟨cq, hcq⟩ := hq'
  obtain ⟨ce, hce⟩ := hqe
  constructor
  · -- q ≤ x < p + 2^a, both multiples: q < p + 2^a → q ≤ p
    have : cq < cp + 1 := by
      apply Nat.lt_of_mul_lt_mul_left (a := 2 ^ a)
      rw [Nat.mul_add, Nat.mul_one, ← hcp, ← hcq]; omega
    rw [hcp, hcq]; exact Nat.mul_le_mul_left _ (by omega)
  · -- p ≤ x < q + 2^b → p < q + 2^b → p + 2^a ≤ q + 2^b
    have : cp < ce := by
      apply Nat.lt_of_mul_lt_mul_left (a := 2 ^ a)
      rw [← hcp, ← hce]; omega
    rw [hce, hcp, ← Nat.mul_succ]; exact Nat.mul_le_mul_left _ this

/-- What a pass removes is a union of aligned cells: the cell of `2^k` indices around a removed index
    is removed entirely. -/
theorem removed_block (k : Nat) (R : List Rng) (x : Nat) (hx : mem x (pass k R)) :
    ∀ y, down k x ≤ y → y < down k x + 2 ^ k → mem y (pass k R) := by
  rw [mem_iff_exists] at hx
  obtain ⟨b, hb, hb1, hb2⟩ := hx
  obtain ⟨r, _, _, _, _, d1, d2⟩ := pass_sound k R b hb
  intro y hy1 hy2
  have hds := down_spec k x
  have h1 : b.1 ≤ down k x := le_down_of_dvd k b.1 x d1 hb1
  have h2 : down k x + 2 ^ k ≤ b.2 := by
    -- `down k x + 2^k` is the first multiple above `x`, `b.2` is a multiple above `x`
    obtain ⟨c, hc⟩ := d2
    obtain ⟨u, hu⟩ := hds.2.2
    have : u < c := by
      apply Nat.lt_of_mul_lt_mul_left (a := 2 ^ k)
      rw [← hu, ← hc]; omega
    rw [hc, hu, ← Nat.mul_succ]; exact Nat.mul_le_mul_left _ this
  exact (mem_iff_exists y _).2 ⟨b, hb, by omega, by omega⟩

/-- Transfer of maximality across one stage: a cell of level ≤ `j + 1` that meets a range emitted
    later and is not inside the remaining set is not inside the set before the pass either. -/
theorem transfer (g j : Nat) (R : List Rng) (hc : Canon R) (i : Nat) (hi : i + 1 ≤ j + 1) (p y : Nat)
    (hp : 2 ^ (g * (i + 1)) ∣ p) (hy : p ≤ y ∧ y < p + 2 ^ (g * (i + 1)))
    (hyin : mem y (difference R (normalize (pass (g * (j + 1)) R))))
    (hnot : ¬ BlockIn (g * (i + 1)) p (difference R (normalize (pass (g * (j + 1)) R)))) :
    ¬ BlockIn (g * (i + 1)) p R := by
  intro hall
  apply hnot
  intro x hx1 hx2
  have hn := normalize_spec (pass (g * (j + 1)) R)
  have hd := difference_spec R (normalize (pass (g * (j + 1)) R)) hc hn.1
  refine (hd.2 x).2 ⟨hall x hx1 hx2, ?_⟩
  intro hxb
  -- `x` was removed with its whole level-(j+1) cell, which contains the cell at `p`, hence `y`
  have hxb' := (hn.2 x).1 hxb
  have hblk := removed_block (g * (j + 1)) R x hxb'
  have hds := down_spec (g * (j + 1)) x
  have hnest := block_nest (g * (i + 1)) (g * (j + 1)) p (down (g * (j + 1)) x) x (Nat.mul_le_mul_left g hi)
    hp hds.2.2 ⟨hx1, hx2⟩ ⟨hds.1, hds.2.1⟩
  have hyb := hblk y (by omega) (by omega)
  exact ((hd.2 y).1 hyin).2 ((hn.2 y).2 hyb)

/-- Maximality inside a sub-iteration whose input has no cell one level above its first level. -/
theorem run_maximal_aux (g : Nat) : ∀ (j : Nat) (R : List Rng), Canon R → NoBlk (g * (j + 1)) R →
    ∀ e ∈ run g j R, ∀ p y, 2 ^ (g * (e.1 + 1)) ∣ p → p ≤ y ∧ y < p + 2 ^ (g * (e.1 + 1)) →
      e.2.1 ≤ y ∧ y < e.2.2 → ¬ BlockIn (g * (e.1 + 1)) p R := by
  intro j
  induction j with
  | zero =>
    intro R _ hno e he p y hp _ _
    rw [run] at he
    obtain ⟨b, _, rfl⟩ := List.mem_map.1 he
    exact hno p hp
  | succ j ih =>
    intro R hc hno e he p y hp hy hye
    rw [run] at he
    rcases List.mem_append.1 he with he | he
    · obtain ⟨b, _, rfl⟩ := List.mem_map.1 he
      exact hno p hp
    · have hn := normalize_spec (pass (g * (j + 1)) R)
      have hd := difference_spec R (normalize (pass (g * (j + 1)) R)) hc hn.1
      have hlev := run_level_le g j _ e he
      have hyin : mem y (difference R (normalize (pass (g * (j + 1)) R))) :=
        (run_cover g j _ hd.1 y).2 ⟨e, he, hye⟩
      have := ih _ hd.1 (noBlk_after_pass (g * (j + 1)) R hc) e he p y hp hy hye
      exact transfer g j R hc e.1 (by omega) p y hp hy hyin this

/-- **Every cell the iterator emits below the top level is maximal**: for a canonical `M`, whatever
    range `(level, [c1, c2))` is emitted with `level < J`, no cell one level up that meets it lies
    inside `M` — so the NUNIQ view never holds four siblings whose parent is in the MOC. -/
theorem run_maximal (g J : Nat) (M : List Rng) (hc : Canon M) :
    ∀ e ∈ run g J M, e.1 < J → ∀ p y, 2 ^ (g * (e.1 + 1)) ∣ p → p ≤ y ∧ y < p + 2 ^ (g * (e.1 + 1)) →
      e.2.1 ≤ y ∧ y < e.2.2 → ¬ BlockIn (g * (e.1 + 1)) p M := by
  cases J with
  | zero => intro e _ h; omega
  | succ j =>
    intro e he hlt p y hp hy hye
    rw [run] at he
    rcases List.mem_append.1 he with he | he
    · obtain ⟨b, _, rfl⟩ := List.mem_map.1 he
      simp only [] at hlt; omega
    · have hn := normalize_spec (pass (g * (j + 1)) M)
      have hd := difference_spec M (normalize (pass (g * (j + 1)) M)) hc hn.1
      have hyin : mem y (difference M (normalize (pass (g * (j + 1)) M))) :=
        (run_cover g j _ hd.1 y).2 ⟨e, he, hye⟩
      have := run_maximal_aux g j _ hd.1 (noBlk_after_pass (g * (j + 1)) M hc) e he p y hp hy hye
      exact transfer g j M hc e.1 (by have := run_level_le g j _ e he; omega) p y hp hy hyin this

/-- Every emitted range is a non-empty union of whole cells of its level. -/
theorem run_aligned (g : Nat) : ∀ (j : Nat) (R : List Rng) (e : Nat × Rng), e ∈ run g j R →
    e.2.1 < e.2.2 ∧ 2 ^ (g * e.1) ∣ e.2.1 ∧ 2 ^ (g * e.1) ∣ e.2.2 := by
  intro j
  induction j with
  | zero =>
    intro R e he
    rw [run] at he
    obtain ⟨b, hb, rfl⟩ := List.mem_map.1 he
    obtain ⟨_, _, _, h2, _, h4, h5⟩ := pass_sound 0 R b hb
    exact ⟨h2, by simpa using h4, by simpa using h5⟩
  | succ j ih =>
    intro R e he
    rw [run] at he
    rcases List.mem_append.1 he with he | he
    · obtain ⟨b, hb, rfl⟩ := List.mem_map.1 he
      obtain ⟨_, _, _, h2, _, h4, h5⟩ := pass_sound (g * (j + 1)) R b hb
      exact ⟨h2, h4, h5⟩
    · exact ih _ e he

end Moc.UniqIter
