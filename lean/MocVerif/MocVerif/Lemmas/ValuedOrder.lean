/-
  C20 — provenance of the selected cells (sub-cells of map cells), density order of the scan, and
  "every cell lying between the thresholds is selected".
-/
import MocVerif.Lemmas.ValuedMass

namespace Moc
open Moc.C20 (sumVal scanWhole_spec)

/-- `c` is the cell `(d0, i0)` or one of its descendants. -/
def SubCell (d0 i0 : Nat) (c : Cell) : Prop := d0 ≤ c.1 ∧ c.2 / 4 ^ (c.1 - d0) = i0

theorem SubCell.self (d i : Nat) : SubCell d i (d, i) := by simp [SubCell]

theorem SubCell.child (d i k : Nat) (hk : k < 4) : SubCell d i (d + 1, i * 4 + k) := by
  refine ⟨by simp, ?_⟩
  have : d + 1 - d = 1 := by omega
  simp only [this, Nat.pow_one]
  omega

theorem SubCell.trans {d i k : Nat} (hk : k < 4) {c : Cell} (h : SubCell (d + 1) (i * 4 + k) c) : SubCell d i c := by
  obtain ⟨h1, h2⟩ := h
  refine ⟨by omega, ?_⟩
  have e : c.1 - d = (c.1 - (d + 1)) + 1 := by omega
  rw [e, Nat.pow_succ, ← Nat.div_div_eq_div_mul, h2]
  omega

theorem descent_sub : ∀ (fuel depth ipix v : Nat) (strict : Bool) (t : Nat) (cs : List Cell),
    descent fuel depth ipix v strict t = some cs → ∀ c ∈ cs, SubCell depth ipix c := by
  intro fuel
  induction fuel with
  | zero =>
    intro depth ipix v strict t cs h c hc
    simp only [descent] at h
    split at h
    · by_cases ht0 : t = 0
      · rw [if_pos ht0] at h; injection h with h; subst h; cases hc
      rw [if_neg ht0] at h
      injection h with h; subst h
      split at hc
      · simp at hc; rw [hc]; exact SubCell.self _ _
      · cases hc
    · cases h
  | succ f ih =>
    intro depth ipix v strict t cs h c hc
    simp only [descent] at h
    split at h
    · by_cases ht0 : t = 0
      · rw [if_pos ht0] at h; injection h with h; subst h; cases hc
      rw [if_neg ht0] at h
      generalize takeSub (v / 4) 5 0 t = r at h
      obtain ⟨k, t'⟩ := r
      simp only [] at h
      split at h
      · rename_i hk
        cases hd : descent f (depth + 1) (ipix * 4 + k) (v / 4) strict t' with
        | none => rw [hd] at h; cases h
        | some rest =>
          rw [hd] at h
          simp only [Option.map_some, Option.some.injEq] at h
          subst h
          rcases List.mem_append.1 hc with hc | hc
          · obtain ⟨i, hi, rfl⟩ := List.mem_map.1 hc
            exact SubCell.child _ _ _ (by have := List.mem_range.1 hi; omega)
          · exact SubCell.trans hk (ih _ _ _ _ _ _ hd c hc)
      · cases h
    · cases h

theorem descentR_sub : ∀ (fuel depth ipix v : Nat) (strict : Bool) (t : Nat) (cs : List Cell),
    descentR fuel depth ipix v strict t = some cs → ∀ c ∈ cs, SubCell depth ipix c := by
  intro fuel
  induction fuel with
  | zero =>
    intro depth ipix v strict t cs h c hc
    simp only [descentR] at h
    split at h
    · by_cases ht0 : t = 0
      · rw [if_pos ht0] at h; injection h with h; subst h; cases hc
      rw [if_neg ht0] at h
      injection h with h; subst h
      split at hc
      · simp at hc; rw [hc]; exact SubCell.self _ _
      · cases hc
    · cases h
  | succ f ih =>
    intro depth ipix v strict t cs h c hc
    simp only [descentR] at h
    split at h
    · by_cases ht0 : t = 0
      · rw [if_pos ht0] at h; injection h with h; subst h; cases hc
      rw [if_neg ht0] at h
      generalize takeSub (v / 4) 5 0 t = r at h
      obtain ⟨k, t'⟩ := r
      simp only [] at h
      split at h
      · rename_i hk
        cases hd : descentR f (depth + 1) (ipix * 4 + (3 - k)) (v / 4) strict t' with
        | none => rw [hd] at h; cases h
        | some rest =>
          rw [hd] at h
          simp only [Option.map_some, Option.some.injEq] at h
          subst h
          rcases List.mem_append.1 hc with hc | hc
          · obtain ⟨i, hi, rfl⟩ := List.mem_map.1 hc
            exact SubCell.child _ _ _ (by have := List.mem_range.1 hi; omega)
          · exact SubCell.trans (by omega) (ih _ _ _ _ _ _ hd c hc)
      · cases h
    · cases h

theorem descentRev_sub : ∀ (fuel depth ipix v : Nat) (strict : Bool) (t : Nat) (cs : List Cell),
    descentRev fuel depth ipix v strict t = some cs → ∀ c ∈ cs, SubCell depth ipix c := by
  intro fuel
  induction fuel with
  | zero =>
    intro depth ipix v strict t cs h c hc
    simp only [descentRev] at h
    split at h
    · by_cases ht0 : t = 0
      · rw [if_pos ht0] at h; injection h with h; subst h; simp at hc; rw [hc]; exact SubCell.self _ _
      rw [if_neg ht0] at h
      injection h with h; subst h
      split at hc
      · simp at hc; rw [hc]; exact SubCell.self _ _
      · cases hc
    · cases h
  | succ f ih =>
    intro depth ipix v strict t cs h c hc
    simp only [descentRev] at h
    split at h
    · by_cases ht0 : t = 0
      · rw [if_pos ht0] at h; injection h with h; subst h; simp at hc; rw [hc]; exact SubCell.self _ _
      rw [if_neg ht0] at h
      generalize takeSub (v / 4) 5 0 t = r at h
      obtain ⟨k, t'⟩ := r
      simp only [] at h
      split at h
      · rename_i hk
        cases hd : descentRev f (depth + 1) (ipix * 4 + k) (v / 4) strict t' with
        | none => rw [hd] at h; cases h
        | some rest =>
          rw [hd] at h
          simp only [Option.map_some, Option.some.injEq] at h
          subst h
          rcases List.mem_append.1 hc with hc | hc
          · exact SubCell.trans hk (ih _ _ _ _ _ _ hd c hc)
          · obtain ⟨i, hi, rfl⟩ := List.mem_map.1 hc
            have := List.mem_range.1 hi
            have e : ipix * 4 + k + 1 + i = ipix * 4 + (k + 1 + i) := by omega
            rw [e]
            exact SubCell.child _ _ _ (by omega)
      · cases h
    · cases h

theorem descentRRev_sub : ∀ (fuel depth ipix v : Nat) (strict : Bool) (t : Nat) (cs : List Cell),
    descentRRev fuel depth ipix v strict t = some cs → ∀ c ∈ cs, SubCell depth ipix c := by
  intro fuel
  induction fuel with
  | zero =>
    intro depth ipix v strict t cs h c hc
    simp only [descentRRev] at h
    split at h
    · by_cases ht0 : t = 0
      · rw [if_pos ht0] at h; injection h with h; subst h; simp at hc; rw [hc]; exact SubCell.self _ _
      rw [if_neg ht0] at h
      injection h with h; subst h
      split at hc
      · simp at hc; rw [hc]; exact SubCell.self _ _
      · cases hc
    · cases h
  | succ f ih =>
    intro depth ipix v strict t cs h c hc
    simp only [descentRRev] at h
    split at h
    · by_cases ht0 : t = 0
      · rw [if_pos ht0] at h; injection h with h; subst h; simp at hc; rw [hc]; exact SubCell.self _ _
      rw [if_neg ht0] at h
      generalize takeSub (v / 4) 5 0 t = r at h
      obtain ⟨k, t'⟩ := r
      simp only [] at h
      split at h
      · rename_i hk
        cases hd : descentRRev f (depth + 1) (ipix * 4 + (3 - k)) (v / 4) strict t' with
        | none => rw [hd] at h; cases h
        | some rest =>
          rw [hd] at h
          simp only [Option.map_some, Option.some.injEq] at h
          subst h
          rcases List.mem_append.1 hc with hc | hc
          · exact SubCell.trans (by omega) (ih _ _ _ _ _ _ hd c hc)
          · obtain ⟨i, hi, rfl⟩ := List.mem_map.1 hc
            have := List.mem_range.1 hi
            exact SubCell.child _ _ _ (by omega)
      · cases h
    · cases h

end Moc

namespace Moc
open Moc.C20 (sumVal scanWhole_spec)
open Moc.Mass

/-! ### provenance through the two stages -/

theorem lowStage_prov (md : Nat) (sorted : List VCell) (from_ : Nat) (strict noSplit rev : Bool)
    (accL : Nat) (lowCells : List Cell) (restA : List VCell) (mLow uLow : Nat)
    (h : lowStage md sorted from_ strict noSplit rev = some (accL, lowCells, restA, mLow, uLow)) :
    (∀ c ∈ lowCells, ∃ v ∈ sorted, SubCell v.depth v.idx c) ∧ (∀ v ∈ restA, v ∈ sorted) := by
  have sp := scanWhole_spec from_ sorted 0
  simp only [] at sp
  unfold lowStage at h
  generalize hr : scanWhole from_ 0 sorted = r at *
  obtain ⟨acc, tk, rest⟩ := r
  simp only [] at h sp
  obtain ⟨hsplit, -, -, -⟩ := sp
  have hrest : ∀ v ∈ rest, v ∈ sorted := fun v hv => by rw [hsplit]; exact List.mem_append_right _ hv
  cases rest with
  | nil =>
    simp only [Option.some.injEq, Prod.mk.injEq] at h
    obtain ⟨-, rfl, rfl, -, -⟩ := h
    exact ⟨fun c hc => (by cases hc), fun v hv => (by cases hv)⟩
  | cons b rest' =>
    simp only [] at h
    have hb : b ∈ sorted := hrest b List.mem_cons_self
    have hr' : ∀ v ∈ rest', v ∈ sorted := fun v hv => hrest v (List.mem_cons_of_mem _ hv)
    split at h
    · split at h
      · simp only [Option.some.injEq, Prod.mk.injEq] at h
        obtain ⟨-, rfl, rfl, -, -⟩ := h
        refine ⟨fun c hc => ?_, hr'⟩
        split at hc
        · cases hc
        · simp at hc; rw [hc]; exact ⟨b, hb, SubCell.self _ _⟩
      · cases hd : (if rev = true then descentRRev else descentRev) (md - b.depth) b.depth b.idx b.val strict (from_ - acc) with
        | none => rw [hd] at h; cases h
        | some cs =>
          rw [hd] at h
          simp only [Option.map_some, Option.some.injEq, Prod.mk.injEq] at h
          obtain ⟨-, rfl, rfl, -, -⟩ := h
          refine ⟨fun c hc => ⟨b, hb, ?_⟩, hr'⟩
          cases rev with
          | true => exact descentRRev_sub _ _ _ _ _ _ _ (by simpa using hd) c hc
          | false => exact descentRev_sub _ _ _ _ _ _ _ (by simpa using hd) c hc
    · simp only [Option.some.injEq, Prod.mk.injEq] at h
      obtain ⟨-, rfl, rfl, -, -⟩ := h
      exact ⟨fun c hc => (by cases hc), hrest⟩

theorem highStage_prov (md to : Nat) (strict noSplit rev : Bool)
    (accL : Nat) (lowCells : List Cell) (restA : List VCell) (mLow uLow : Nat)
    (cs : List Cell) (M uLow' uHigh : Nat)
    (h : highStage md to strict noSplit rev (accL, lowCells, restA, mLow, uLow) = some (cs, M, uLow', uHigh)) :
    ∀ c ∈ cs, c ∈ lowCells ∨ ∃ v ∈ restA, SubCell v.depth v.idx c := by
  have sp := scanWhole_spec to restA accL
  simp only [] at sp
  unfold highStage at h
  simp only [] at h
  generalize hr : scanWhole to accL restA = r at *
  obtain ⟨acc2, whole, rest2⟩ := r
  simp only [] at h sp
  obtain ⟨hsplit, -, -, -⟩ := sp
  have hwhole : ∀ c ∈ whole.map (fun c => (c.depth, c.idx)), ∃ v ∈ restA, SubCell v.depth v.idx c := by
    intro c hc
    obtain ⟨v, hv, rfl⟩ := List.mem_map.1 hc
    exact ⟨v, by rw [hsplit]; exact List.mem_append_left _ hv, SubCell.self _ _⟩
  have base : ∀ c ∈ lowCells ++ whole.map (fun c => (c.depth, c.idx)),
      c ∈ lowCells ∨ ∃ v ∈ restA, SubCell v.depth v.idx c := by
    intro c hc
    rcases List.mem_append.1 hc with hc | hc
    · exact Or.inl hc
    · exact Or.inr (hwhole c hc)
  cases rest2 with
  | nil =>
    simp only [Option.some.injEq, Prod.mk.injEq] at h
    obtain ⟨rfl, -, -, -⟩ := h
    exact base
  | cons b t =>
    simp only [] at h
    have hb : b ∈ restA := by rw [hsplit]; exact List.mem_append_right _ List.mem_cons_self
    split at h
    · split at h
      · simp only [Option.some.injEq, Prod.mk.injEq] at h
        obtain ⟨rfl, -, -, -⟩ := h
        intro c hc
        rcases List.mem_append.1 hc with hc | hc
        · exact base c hc
        · split at hc
          · cases hc
          · simp at hc; rw [hc]; exact Or.inr ⟨b, hb, SubCell.self _ _⟩
      · cases hd : (if rev = true then descentR else descent) (md - b.depth) b.depth b.idx b.val strict (to - acc2) with
        | none => rw [hd] at h; cases h
        | some ds =>
          rw [hd] at h
          simp only [Option.map_some, Option.some.injEq, Prod.mk.injEq] at h
          obtain ⟨rfl, -, -, -⟩ := h
          intro c hc
          rcases List.mem_append.1 hc with hc | hc
          · exact base c hc
          · refine Or.inr ⟨b, hb, ?_⟩
            cases rev with
            | true => exact descentR_sub _ _ _ _ _ _ _ (by simpa using hd) c hc
            | false => exact descent_sub _ _ _ _ _ _ _ (by simpa using hd) c hc
    · simp only [Option.some.injEq, Prod.mk.injEq] at h
      obtain ⟨rfl, -, -, -⟩ := h
      exact base

/-- **Footprint**: every selected cell is a cell of the map or one of its descendants. -/
theorem selectWithMass_prov (maxDepth : Nat) (cells : List VCell) (from_ to : Nat) (asc strict noSplit rev : Bool)
    (cs : List Cell) (M uLow uHigh : Nat)
    (h : selectWithMass maxDepth cells from_ to asc strict noSplit rev = some (cs, M, uLow, uHigh)) :
    ∀ c ∈ cs, ∃ v ∈ cells, SubCell v.depth v.idx c := by
  unfold selectWithMass at h
  cases hl : lowStage (maxDepthOf maxDepth cells) (sortedOf asc cells) from_ strict noSplit rev with
  | none => rw [hl] at h; cases h
  | some st =>
    obtain ⟨accL, lowCells, restA, mLow, uLow0⟩ := st
    rw [hl] at h
    simp only [Option.bind_some] at h
    have lp := lowStage_prov _ _ _ _ _ _ _ _ _ _ _ hl
    have hp := highStage_prov _ _ _ _ _ _ _ _ _ _ _ _ _ _ h
    have ss := (sortedOf_spec asc cells).1
    intro c hc
    rcases hp c hc with hc' | ⟨v, hv, hs⟩
    · obtain ⟨v, hv, hs⟩ := lp.1 c hc'
      exact ⟨v, (ss v).1 hv, hs⟩
    · exact ⟨v, (ss v).1 (lp.2 v hv), hs⟩

end Moc

namespace Moc
open Moc.C20 (sumVal scanWhole_spec)
open Moc.Mass

/-! ### every cell lying between the thresholds is selected -/

theorem sumVal_nil : sumVal [] = 0 := rfl

/-- The accumulation loop goes through a prefix whose cumulative value stays below the threshold. -/
theorem scanWhole_prefix (thr : Nat) (l : List VCell) : ∀ (a2 : List VCell) (acc : Nat), acc + sumVal a2 ≤ thr →
    scanWhole thr acc (a2 ++ l) =
      ((scanWhole thr (acc + sumVal a2) l).1, a2 ++ (scanWhole thr (acc + sumVal a2) l).2.1,
       (scanWhole thr (acc + sumVal a2) l).2.2) := by
  intro a2
  induction a2 with
  | nil => intro acc _; simp [sumVal_nil]
  | cons x t ih =>
    intro acc h
    rw [sumVal_cons] at h
    simp only [List.cons_append, scanWhole]
    rw [if_pos (by omega), ih (acc + x.val) (by omega)]
    simp only [sumVal_cons, List.cons_append]
    have : acc + x.val + sumVal t = acc + (x.val + sumVal t) := by omega
    rw [this]

theorem lowStage_between (md : Nat) (sorted : List VCell) (from_ : Nat) (strict noSplit rev : Bool)
    (accL : Nat) (lowCells : List Cell) (restA : List VCell) (mLow uLow : Nat)
    (h : lowStage md sorted from_ strict noSplit rev = some (accL, lowCells, restA, mLow, uLow))
    (pre post : List VCell) (c : VCell) (hs : sorted = pre ++ c :: post)
    (h1 : from_ ≤ sumVal pre) (h3 : 0 < c.val) :
    ∃ a2, restA = a2 ++ c :: post ∧ accL + sumVal a2 = sumVal pre := by
  have sp := scanWhole_spec from_ sorted 0
  simp only [] at sp
  unfold lowStage at h
  generalize hr : scanWhole from_ 0 sorted = r at *
  obtain ⟨acc, tk, rest⟩ := r
  simp only [] at h sp
  obtain ⟨hsplit, hacc, hle, hover⟩ := sp
  have hle' : acc ≤ from_ := hle (Nat.zero_le _)
  simp only [Nat.zero_add] at hacc
  -- `tk` is a prefix of `pre`
  have hdec : ∃ a', pre = tk ++ a' ∧ rest = a' ++ c :: post := by
    have e : tk ++ rest = pre ++ c :: post := by rw [← hsplit, hs]
    rcases List.append_eq_append_iff.1 e with ⟨a', e1, e2⟩ | ⟨c', e1, e2⟩
    · exact ⟨a', e1, e2⟩
    · cases c' with
      | nil => exact ⟨[], by simpa using e1.symm, by simpa using e2.symm⟩
      | cons x c'' =>
        exfalso
        simp only [List.cons_append, List.cons.injEq] at e2
        obtain ⟨rfl, -⟩ := e2
        have : sumVal tk = sumVal pre + (c.val + sumVal c'') := by rw [e1, sumVal_append, sumVal_cons]
        omega
  obtain ⟨a', hp, hrst⟩ := hdec
  have hsp : sumVal pre = acc + sumVal a' := by rw [hp, sumVal_append, hacc]
  cases rest with
  | nil => exfalso; cases a' <;> simp at hrst
  | cons b rest' =>
    simp only [] at h
    split at h
    · rename_i hlt
      -- the boundary cell is consumed; it is not `c`
      cases a' with
      | nil => exfalso; rw [sumVal_nil] at hsp; omega
      | cons x a'' =>
        simp only [List.cons_append, List.cons.injEq] at hrst
        obtain ⟨rfl, hrst⟩ := hrst
        have hfin : ∃ a2, rest' = a2 ++ c :: post ∧ acc + b.val + sumVal a2 = sumVal pre :=
          ⟨a'', hrst, by rw [hsp, sumVal_cons]; omega⟩
        split at h
        · simp only [Option.some.injEq, Prod.mk.injEq] at h
          obtain ⟨rfl, -, rfl, -, -⟩ := h
          exact hfin
        · cases hd : (if rev = true then descentRRev else descentRev) (md - b.depth) b.depth b.idx b.val strict (from_ - acc) with
          | none => rw [hd] at h; cases h
          | some cs =>
            rw [hd] at h
            simp only [Option.map_some, Option.some.injEq, Prod.mk.injEq] at h
            obtain ⟨rfl, -, rfl, -, -⟩ := h
            exact hfin
    · simp only [Option.some.injEq, Prod.mk.injEq] at h
      obtain ⟨rfl, -, rfl, -, -⟩ := h
      exact ⟨a', hrst, hsp.symm⟩

theorem highStage_between (md to : Nat) (strict noSplit rev : Bool)
    (accL : Nat) (lowCells : List Cell) (restA : List VCell) (mLow uLow : Nat)
    (cs : List Cell) (M uLow' uHigh : Nat)
    (h : highStage md to strict noSplit rev (accL, lowCells, restA, mLow, uLow) = some (cs, M, uLow', uHigh))
    (a2 post : List VCell) (c : VCell) (hr : restA = a2 ++ c :: post) (h2 : accL + sumVal a2 + c.val ≤ to) :
    (c.depth, c.idx) ∈ cs := by
  unfold highStage at h
  simp only [] at h
  have hscan : (scanWhole to accL restA).2.1 = (a2 ++ [c]) ++ (scanWhole to (accL + sumVal (a2 ++ [c])) post).2.1 := by
    have e : restA = (a2 ++ [c]) ++ post := by rw [hr]; simp
    rw [e, scanWhole_prefix to post (a2 ++ [c]) accL (by rw [sumVal_append, sumVal_cons, sumVal_nil]; omega)]
  generalize hsw : scanWhole to accL restA = r at *
  obtain ⟨acc2, whole, rest2⟩ := r
  simp only [] at h hscan
  have hc : (c.depth, c.idx) ∈ lowCells ++ whole.map (fun c => (c.depth, c.idx)) := by
    apply List.mem_append_right
    rw [hscan]
    exact List.mem_map.2 ⟨c, by simp, rfl⟩
  cases rest2 with
  | nil =>
    simp only [Option.some.injEq, Prod.mk.injEq] at h
    obtain ⟨rfl, -, -, -⟩ := h
    exact hc
  | cons b t =>
    simp only [] at h
    split at h
    · split at h
      · simp only [Option.some.injEq, Prod.mk.injEq] at h
        obtain ⟨rfl, -, -, -⟩ := h
        exact List.mem_append_left _ hc
      · cases hd : (if rev = true then descentR else descent) (md - b.depth) b.depth b.idx b.val strict (to - acc2) with
        | none => rw [hd] at h; cases h
        | some ds =>
          rw [hd] at h
          simp only [Option.map_some, Option.some.injEq, Prod.mk.injEq] at h
          obtain ⟨rfl, -, -, -⟩ := h
          exact List.mem_append_left _ hc
    · simp only [Option.some.injEq, Prod.mk.injEq] at h
      obtain ⟨rfl, -, -, -⟩ := h
      exact hc

/-- **Every cell lying between the two thresholds is selected**: if, in the scan order, the cumulative value
    before a (non-null) cell is at least `from` and the cumulative value after it at most `to`, the cell is
    part of the selection. -/
theorem selectWithMass_between (maxDepth : Nat) (cells : List VCell) (from_ to : Nat) (asc strict noSplit rev : Bool)
    (cs : List Cell) (M uLow uHigh : Nat)
    (h : selectWithMass maxDepth cells from_ to asc strict noSplit rev = some (cs, M, uLow, uHigh))
    (pre post : List VCell) (c : VCell) (hs : sortedOf asc cells = pre ++ c :: post)
    (h1 : from_ ≤ sumVal pre) (h2 : sumVal pre + c.val ≤ to) (h3 : 0 < c.val) :
    (c.depth, c.idx) ∈ cs := by
  unfold selectWithMass at h
  cases hl : lowStage (maxDepthOf maxDepth cells) (sortedOf asc cells) from_ strict noSplit rev with
  | none => rw [hl] at h; cases h
  | some st =>
    obtain ⟨accL, lowCells, restA, mLow, uLow0⟩ := st
    rw [hl] at h
    simp only [Option.bind_some] at h
    obtain ⟨a2, hr, hsum⟩ := lowStage_between _ _ _ _ _ _ _ _ _ _ _ hl pre post c hs h1 h3
    exact highStage_between _ _ _ _ _ _ _ _ _ _ _ _ _ _ h a2 post c hr (by omega)

/-! ### the scan order is the requested density order -/

theorem insertStable_sorted_asc (x : VCell) : ∀ (l : List VCell),
    l.Pairwise (fun a b => a.dens ≤ b.dens) →
    (insertStable (fun y x => decide (y.dens > x.dens)) x l).Pairwise (fun a b => a.dens ≤ b.dens) := by
  intro l
  induction l with
  | nil => intro _; simp [insertStable]
  | cons y t ih =>
    intro hp
    rw [List.pairwise_cons] at hp
    simp only [insertStable]
    split
    · rename_i hgt
      simp only [decide_eq_true_eq] at hgt
      rw [List.pairwise_cons]
      refine ⟨fun z hz => ?_, List.pairwise_cons.2 hp⟩
      cases hz with
      | head => omega
      | tail _ hm => have := hp.1 z hm; omega
    · rename_i hle
      simp only [decide_eq_true_eq, Nat.not_lt] at hle
      rw [List.pairwise_cons]
      refine ⟨fun z hz => ?_, ih hp.2⟩
      rcases (mem_insertStable _ x z t).1 hz with rfl | hm
      · exact hle
      · exact hp.1 z hm

theorem insertStable_sorted_desc (x : VCell) : ∀ (l : List VCell),
    l.Pairwise (fun a b => b.dens ≤ a.dens) →
    (insertStable (fun y x => decide (y.dens < x.dens)) x l).Pairwise (fun a b => b.dens ≤ a.dens) := by
  intro l
  induction l with
  | nil => intro _; simp [insertStable]
  | cons y t ih =>
    intro hp
    rw [List.pairwise_cons] at hp
    simp only [insertStable]
    split
    · rename_i hgt
      simp only [decide_eq_true_eq] at hgt
      rw [List.pairwise_cons]
      refine ⟨fun z hz => ?_, List.pairwise_cons.2 hp⟩
      cases hz with
      | head => omega
      | tail _ hm => have := hp.1 z hm; omega
    · rename_i hle
      simp only [decide_eq_true_eq, Nat.not_lt] at hle
      rw [List.pairwise_cons]
      refine ⟨fun z hz => ?_, ih hp.2⟩
      rcases (mem_insertStable _ x z t).1 hz with rfl | hm
      · exact hle
      · exact hp.1 z hm

/-- The cells are scanned in the requested density order (ascending: non-decreasing density keys;
    descending: non-increasing). -/
theorem sortedOf_ordered (asc : Bool) (cells : List VCell) :
    (asc = true → (sortedOf asc cells).Pairwise (fun a b => a.dens ≤ b.dens)) ∧
    (asc = false → (sortedOf asc cells).Pairwise (fun a b => b.dens ≤ a.dens)) := by
  unfold sortedOf sortStable
  constructor
  · intro ha
    simp only [ha, if_true]
    have : ∀ (l acc : List VCell), acc.Pairwise (fun a b => a.dens ≤ b.dens) →
        (l.foldl (fun acc x => insertStable (fun y x => decide (y.dens > x.dens)) x acc) acc).Pairwise (fun a b => a.dens ≤ b.dens) := by
      intro l
      induction l with
      | nil => intro acc h; exact h
      | cons x t ih => intro acc h; exact ih _ (insertStable_sorted_asc x acc h)
    exact this cells [] List.Pairwise.nil
  · intro ha
    simp only [ha, Bool.false_eq_true, if_false]
    have : ∀ (l acc : List VCell), acc.Pairwise (fun a b => b.dens ≤ a.dens) →
        (l.foldl (fun acc x => insertStable (fun y x => decide (y.dens < x.dens)) x acc) acc).Pairwise (fun a b => b.dens ≤ a.dens) := by
      intro l
      induction l with
      | nil => intro acc h; exact h
      | cons x t ih => intro acc h; exact ih _ (insertStable_sorted_desc x acc h)
    exact this cells [] List.Pairwise.nil

end Moc
