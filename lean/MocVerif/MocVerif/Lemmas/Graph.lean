/-
  Lemmas for the adjacency-parametrised morphology (C17 space part).
-/
import MocVerif.Model.Graph

namespace Moc.Graph

theorem mem_ins (x y : Nat) : ∀ (l : List Nat), y ∈ ins x l ↔ y = x ∨ y ∈ l := by
  intro l
  induction l with
  | nil => simp [ins]
  | cons z t ih =>
    simp only [ins]
    by_cases h1 : x < z
    · simp [h1]
    · by_cases h2 : x = z
      · subst h2; simp [h1]
      · simp only [h1, h2, ↓reduceIte, List.mem_cons, ih]
        constructor
        · rintro (h | h | h)
          · exact Or.inr (Or.inl h)
          · exact Or.inl h
          · exact Or.inr (Or.inr h)
        · rintro (h | h | h)
          · exact Or.inr (Or.inl h)
          · exact Or.inl h
          · exact Or.inr (Or.inr h)

theorem mem_norm (y : Nat) : ∀ (l : List Nat), y ∈ norm l ↔ y ∈ l := by
  intro l
  induction l with
  | nil => simp [norm]
  | cons x t ih =>
    have : norm (x :: t) = ins x (norm t) := rfl
    rw [this, mem_ins, ih]; simp

/-- **expanded**: exactly the cells equal or adjacent to a cell of `s`. -/
theorem mem_expanded (g : Adj) (s : List Nat) (x : Nat) :
    x ∈ expanded g s ↔ x ∈ s ∨ ∃ c ∈ s, x ∈ nbrs g c := by
  unfold expanded
  rw [mem_norm]
  simp only [List.mem_append, List.mem_flatMap]

/-- **contracted** (`s ⊆ univ`): the cells of `s` that are not adjacent FROM a cell outside `s`
    (`x ∈ nbrs c` with `c ∈ univ \ s`); for a symmetric adjacency: none of whose neighbours is
    outside `s`. -/
theorem mem_contracted (g : Adj) (univ s : List Nat) (hs : ∀ x ∈ s, x ∈ univ) (x : Nat) :
    x ∈ contracted g univ s ↔ x ∈ s ∧ ∀ c ∈ univ, c ∉ s → x ∉ nbrs g c := by
  unfold contracted
  rw [mem_norm]
  simp only [List.mem_filter, Bool.not_eq_eq_eq_not, Bool.not_true, List.contains_eq_mem,
    decide_eq_false_iff_not, mem_expanded, decide_eq_true_eq, not_or, not_and, not_exists]
  constructor
  · rintro ⟨hu, h1, h2⟩
    have hx : x ∈ s := by
      by_cases h : x ∈ s
      · exact h
      · exact absurd hu (fun hu' => h1 hu' h |> False.elim)
    refine ⟨hx, fun c hc hcs hn => ?_⟩
    exact h2 c ⟨hc, hcs⟩ hn
  · rintro ⟨hx, h⟩
    refine ⟨hs x hx, fun _ hns => absurd hx hns, fun c hc hn => ?_⟩
    exact h c hc.1 hc.2 hn

/-- The external border is disjoint from `s` and made of cells adjacent to `s`. -/
theorem mem_extBorder (g : Adj) (s : List Nat) (x : Nat) :
    x ∈ extBorder g s ↔ x ∉ s ∧ ∃ c ∈ s, x ∈ nbrs g c := by
  unfold extBorder
  rw [mem_norm]
  simp only [List.mem_filter, mem_expanded, Bool.not_eq_eq_eq_not, Bool.not_true, List.contains_eq_mem,
    decide_eq_false_iff_not]
  constructor
  · rintro ⟨h1 | h1, h2⟩
    · exact absurd h1 h2
    · exact ⟨h2, h1⟩
  · rintro ⟨h1, h2⟩; exact ⟨Or.inr h2, h1⟩

/-- The internal border: cells of `s` that are not in the contraction. -/
theorem mem_intBorder (g : Adj) (univ s : List Nat) (x : Nat) :
    x ∈ intBorder g univ s ↔ x ∈ s ∧ x ∉ contracted g univ s := by
  unfold intBorder
  rw [mem_norm]
  simp only [List.mem_filter, Bool.not_eq_eq_eq_not, Bool.not_true, List.contains_eq_mem,
    decide_eq_false_iff_not]

/-! ### flood fill -/

/-- `R` is closed in `s`: a neighbour, inside `s`, of a cell of `R` is in `R`. -/
def Closed (g : Adj) (s R : List Nat) : Prop := ∀ x ∈ R, ∀ n ∈ nbrs g x, n ∈ s → n ∈ R

/-- `x` is reachable from the set `src` by a path of adjacent cells. -/
inductive Reach (g : Adj) (src : List Nat) : Nat → Prop
  | base {x : Nat} : x ∈ src → Reach g src x
  | step {x n : Nat} : Reach g src x → n ∈ nbrs g x → Reach g src n

theorem mem_frontier (g : Adj) (rest cur : List Nat) (n : Nat) :
    n ∈ frontier g rest cur ↔ n ∈ rest ∧ ∃ c ∈ cur, n ∈ nbrs g c := by
  unfold frontier
  simp only [List.mem_filter, List.any_eq_true, List.contains_eq_mem, decide_eq_true_eq]

/-- Main invariant of the flood fill. `s` = `cur ∪ rest`; everything in `cur` is reachable from the
    seeds; with enough fuel the result is closed in `s`, contains `cur`, is inside `s` and reachable. -/
theorem closure_spec (g : Adj) (s src : List Nat) : ∀ (k : Nat) (rest cur : List Nat),
    rest.length ≤ k →
    (∀ n, n ∈ s ↔ n ∈ cur ∨ n ∈ rest) →
    (∀ x ∈ cur, Reach g src x) →
    Closed g s (closure g k rest cur) ∧
    (∀ x ∈ cur, x ∈ closure g k rest cur) ∧
    (∀ x ∈ closure g k rest cur, x ∈ s) ∧
    (∀ x ∈ closure g k rest cur, Reach g src x) := by
  intro k
  induction k with
  | zero =>
    intro rest cur hk hs hr
    have : rest = [] := List.eq_nil_of_length_eq_zero (by omega)
    subst this
    simp only [closure]
    refine ⟨?_, fun x hx => hx, fun x hx => (hs x).2 (Or.inl hx), hr⟩
    intro x _ n _ hn
    rcases (hs n).1 hn with h | h
    · exact h
    · cases h
  | succ k ih =>
    intro rest cur hk hs hr
    simp only [closure]
    cases hf : frontier g rest cur with
    | nil =>
      simp only []
      refine ⟨?_, fun x hx => hx, fun x hx => (hs x).2 (Or.inl hx), hr⟩
      intro x hx n hn hns
      rcases (hs n).1 hns with h | h
      · exact h
      · have : n ∈ frontier g rest cur := (mem_frontier g rest cur n).2 ⟨h, x, hx, hn⟩
        rw [hf] at this; cases this
    | cons f fs =>
      simp only []
      have hfmem : ∀ n, n ∈ f :: fs ↔ n ∈ rest ∧ ∃ c ∈ cur, n ∈ nbrs g c := by
        intro n; rw [← hf]; exact mem_frontier g rest cur n
      have hlen : (rest.filter fun n => !(f :: fs).contains n).length ≤ k := by
        have hlt : (rest.filter fun n => !(f :: fs).contains n).length < rest.length := by
          apply List.length_filter_lt_length_iff_exists.2
          refine ⟨f, ((hfmem f).1 List.mem_cons_self).1, ?_⟩
          simp
        omega
      have hs' : ∀ n, n ∈ s ↔ n ∈ cur ++ (f :: fs) ∨ n ∈ rest.filter fun n => !(f :: fs).contains n := by
        intro n
        rw [hs n]
        simp only [List.mem_append, List.mem_filter, Bool.not_eq_eq_eq_not, Bool.not_true,
          List.contains_eq_mem, decide_eq_false_iff_not]
        constructor
        · rintro (h | h)
          · exact Or.inl (Or.inl h)
          · by_cases hin : n ∈ f :: fs
            · exact Or.inl (Or.inr hin)
            · exact Or.inr ⟨h, hin⟩
        · rintro ((h | h) | h)
          · exact Or.inl h
          · exact Or.inr ((hfmem n).1 h).1
          · exact Or.inr h.1
      have hr' : ∀ x ∈ cur ++ (f :: fs), Reach g src x := by
        intro x hx
        rcases List.mem_append.1 hx with h | h
        · exact hr x h
        · obtain ⟨_, c, hc, hn⟩ := (hfmem x).1 h
          exact Reach.step (hr c hc) hn
      obtain ⟨c1, c2, c3, c4⟩ := ih _ _ hlen hs' hr'
      exact ⟨c1, fun x hx => c2 x (List.mem_append.2 (Or.inl hx)), c3, c4⟩

/-- **Connected component**: for `c ∈ s`, `componentOf g s c` contains `c`, lies inside `s`, is
    closed in `s` (no cell of `s` outside it is adjacent from it) and every cell of it is reachable
    from `c`. -/
theorem componentOf_spec (g : Adj) (s : List Nat) (c : Nat) (hc : c ∈ s) :
    c ∈ componentOf g s c ∧ (∀ x ∈ componentOf g s c, x ∈ s) ∧ Closed g s (componentOf g s c) ∧
    ∀ x ∈ componentOf g s c, Reach g [c] x := by
  unfold componentOf
  have hlen : (s.filter fun x => x != c).length ≤ s.length := List.length_filter_le _ _
  have hs : ∀ n, n ∈ s ↔ n ∈ [c] ∨ n ∈ s.filter fun x => x != c := by
    intro n
    simp only [List.mem_singleton, List.mem_filter, bne_iff_ne, ne_eq]
    constructor
    · intro h
      by_cases e : n = c
      · exact Or.inl e
      · exact Or.inr ⟨h, e⟩
    · rintro (h | h)
      · rw [h]; exact hc
      · exact h.1
  obtain ⟨c1, c2, c3, c4⟩ := closure_spec g s [c] s.length _ [c] hlen hs
    (fun x hx => Reach.base hx)
  exact ⟨c2 c List.mem_cons_self, c3, c1, c4⟩

/-- What a correct partition into components is, stated recursively: the first component is the
    component of some cell of `s` (contains it, inside `s`, closed in `s`, connected to it), and the
    rest is a correct partition of the remaining cells. -/
inductive IsSplit (g : Adj) : List Nat → List (List Nat) → Prop
  | nil : IsSplit g [] []
  | cons {s comp : List Nat} {rest : List (List Nat)} {c : Nat} :
      c ∈ s → c ∈ comp → (∀ x ∈ comp, x ∈ s) → Closed g s comp → (∀ x ∈ comp, Reach g [c] x) →
      IsSplit g (s.filter fun x => !comp.contains x) rest → IsSplit g s (comp :: rest)

theorem split_spec (g : Adj) : ∀ (k : Nat) (s : List Nat), s.length ≤ k → IsSplit g s (split g k s) := by
  intro k
  induction k with
  | zero =>
    intro s hk
    have : s = [] := List.eq_nil_of_length_eq_zero (by omega)
    subst this
    exact IsSplit.nil
  | succ k ih =>
    intro s hk
    cases s with
    | nil => exact IsSplit.nil
    | cons c t =>
      simp only [split]
      obtain ⟨h1, h2, h3, h4⟩ := componentOf_spec g (c :: t) c List.mem_cons_self
      have hlt : ((c :: t).filter fun x => !(componentOf g (c :: t) c).contains x).length < (c :: t).length := by
        apply List.length_filter_lt_length_iff_exists.2
        exact ⟨c, List.mem_cons_self, by simpa using h1⟩
      have hrec := ih ((c :: t).filter fun x => !(componentOf g (c :: t) c).contains x)
        (by simp only [List.length_cons] at hlt hk; omega)
      -- the component is emitted in sorted form: same members
      have hn : ∀ x, x ∈ norm (componentOf g (c :: t) c) ↔ x ∈ componentOf g (c :: t) c := fun x => mem_norm x _
      have hfilter : ((c :: t).filter fun x => !(norm (componentOf g (c :: t) c)).contains x)
          = (c :: t).filter fun x => !(componentOf g (c :: t) c).contains x := by
        apply List.filter_congr
        intro x _
        have := hn x
        by_cases hx : x ∈ componentOf g (c :: t) c
        · simp [hx, this.2 hx]
        · have : x ∉ norm (componentOf g (c :: t) c) := fun h => hx (this.1 h)
          simp [hx, this]
      refine IsSplit.cons (c := c) List.mem_cons_self ((hn c).2 h1) (fun x hx => h2 x ((hn x).1 hx)) ?_
        (fun x hx => h4 x ((hn x).1 hx)) ?_
      · intro x hx n hnb hns
        exact (hn n).2 (h3 x ((hn x).1 hx) n hnb hns)
      · rw [hfilter]; exact hrec

/-- Consequences of `IsSplit`: the components cover `s`. -/
theorem IsSplit.cover {g : Adj} : ∀ {s : List Nat} {comps : List (List Nat)}, IsSplit g s comps →
    ∀ x, x ∈ s ↔ ∃ comp ∈ comps, x ∈ comp := by
  intro s comps h
  induction h with
  | nil => intro x; simp
  | @cons s comp rest c _ _ hsub _ _ _ ih =>
    intro x
    constructor
    · intro hx
      by_cases hc : x ∈ comp
      · exact ⟨comp, List.mem_cons_self, hc⟩
      · have : x ∈ s.filter fun y => !comp.contains y := by
          simp only [List.mem_filter, Bool.not_eq_eq_eq_not, Bool.not_true, List.contains_eq_mem,
            decide_eq_false_iff_not]
          exact ⟨hx, hc⟩
        obtain ⟨cp, hcp, hxc⟩ := (ih x).1 this
        exact ⟨cp, List.mem_cons_of_mem _ hcp, hxc⟩
    · rintro ⟨cp, hcp, hxc⟩
      cases hcp with
      | head => exact hsub x hxc
      | tail _ hm =>
        have := (ih x).2 ⟨cp, hm, hxc⟩
        exact (List.mem_filter.1 this).1

/-- The components are pairwise disjoint, and no cell of a component is adjacent TO a cell of a
    later one (for a symmetric adjacency: no two components are adjacent). -/
theorem IsSplit.separated {g : Adj} : ∀ {s : List Nat} {comps : List (List Nat)}, IsSplit g s comps →
    comps.Pairwise fun a b => (∀ x ∈ a, x ∉ b) ∧ ∀ x ∈ a, ∀ n ∈ nbrs g x, n ∉ b := by
  intro s comps h
  induction h with
  | nil => exact List.Pairwise.nil
  | @cons s comp rest c _ _ hsub hcl _ hrest ih =>
    refine List.pairwise_cons.2 ⟨?_, ih⟩
    intro b hb
    have hbsub : ∀ y ∈ b, y ∈ s ∧ y ∉ comp := by
      intro y hy
      have := (hrest.cover y).2 ⟨b, hb, hy⟩
      simp only [List.mem_filter, Bool.not_eq_eq_eq_not, Bool.not_true, List.contains_eq_mem,
        decide_eq_false_iff_not] at this
      exact this
    refine ⟨fun x hx hxb => (hbsub x hxb).2 hx, fun x hx n hn hnb => ?_⟩
    exact (hbsub n hnb).2 (hcl x hx n hn (hbsub n hnb).1)

end Moc.Graph
