/-
  Mass (enclosed value) of the pieces selected by the recursive descents of the cumulative selection (C20).
-/
import MocVerif.Model.Valued
import MocVerif.Lemmas.ValuedLoops

namespace Moc.Mass
open Moc

/-- Value of a piece `c` (a descendant, at depth `c.1`, of a map cell of value `v` and depth `d0`). -/
def pieceVal (v d0 : Nat) (c : Cell) : Nat := v / 4 ^ (c.1 - d0)
def massOf (v d0 : Nat) (cs : List Cell) : Nat := (cs.map (pieceVal v d0)).sum

theorem piece_pos {fuel v : Nat} (h : 4 ^ fuel ∣ v) (hv : 0 < v) : 0 < v / 4 ^ fuel :=
  Nat.div_pos (Nat.le_of_dvd hv h) (Nat.pow_pos (by decide))

theorem massOf_append (v d0 : Nat) (a b : List Cell) : massOf v d0 (a ++ b) = massOf v d0 a + massOf v d0 b := by
  simp [massOf, List.map_append, List.sum_append]

/-- `k` direct children: `k` quarters. -/
theorem massOf_children (v d0 k : Nat) (f : Nat → Nat) :
    massOf v d0 ((List.range k).map fun i => (d0 + 1, f i)) = k * (v / 4) := by
  induction k with
  | zero => simp [massOf]
  | succ k ih =>
    rw [List.range_succ, List.map_append, massOf_append, ih]
    simp [massOf, pieceVal, Nat.succ_mul]

/-- Pieces below a child are valued the same from the parent and from the child. -/
theorem massOf_shift (v d0 : Nat) (cs : List Cell) (h : ∀ c ∈ cs, d0 + 1 ≤ c.1) :
    massOf v d0 cs = massOf (v / 4) (d0 + 1) cs := by
  induction cs with
  | nil => rfl
  | cons c t ih =>
    have hc := h c List.mem_cons_self
    have e : pieceVal v d0 c = pieceVal (v / 4) (d0 + 1) c := by
      unfold pieceVal
      have : c.1 - d0 = (c.1 - (d0 + 1)) + 1 := by omega
      rw [this, Nat.pow_succ, Nat.mul_comm, ← Nat.div_div_eq_div_mul]
    simp only [massOf, List.map_cons, List.sum_cons] at ih ⊢
    rw [e, ih (fun x hx => h x (List.mem_cons_of_mem _ hx))]

theorem div4_pow (v f : Nat) : v / 4 / 4 ^ f = v / 4 ^ (f + 1) := by
  rw [Nat.div_div_eq_div_mul, Nat.pow_succ, Nat.mul_comm]

/-- Common arithmetic of one descent level (dyadic value, target below the value). -/
theorem level_facts (f v t : Nat) (hdvd : 4 ^ (f + 1) ∣ v) (ht : t < v) :
    0 < v / 4 ∧ 4 ^ f ∣ v / 4 ∧
    (takeSub (v / 4) 5 0 t).1 < 4 ∧ (takeSub (v / 4) 5 0 t).2 < v / 4 ∧
    t = (takeSub (v / 4) 5 0 t).1 * (v / 4) + (takeSub (v / 4) 5 0 t).2 ∧ v = 4 * (v / 4) := by
  obtain ⟨m, hm⟩ := hdvd
  have hv : v = 4 * (4 ^ f * m) := by
    rw [hm, Nat.pow_succ]; simp [Nat.mul_comm, Nat.mul_assoc, Nat.mul_left_comm]
  have hsub : v / 4 = 4 ^ f * m := by rw [hv]; simp
  have hpos : 0 < v / 4 := by
    rw [hsub]; apply Nat.pos_of_ne_zero; intro h0; rw [hv, h0] at ht; omega
  have ts := Moc.C20.takeSub_spec (v / 4) hpos 5 0 t
  simp only [] at ts
  obtain ⟨_, _, t3, t4⟩ := ts
  have hk4 : (takeSub (v / 4) 5 0 t).1 < 4 := by
    apply Classical.byContradiction; intro hge
    have : 4 * (v / 4) ≤ ((takeSub (v / 4) 5 0 t).1 - 0) * (v / 4) := Nat.mul_le_mul_right _ (by omega)
    rw [hsub] at this t3
    omega
  refine ⟨hpos, by rw [hsub]; exact Nat.dvd_mul_right _ _, hk4, t4 (by omega), by simpa using t3, by omega⟩

/-- **Upper-boundary descent (direct order)**: the pieces selected below a cell of dyadic value `v`
    for a target `t < v` are descendants of the cell and enclose, in strict mode, at most `t` and
    more than `t` minus one deepest piece; in non-strict mode at least `t` and at most `t` plus one
    deepest piece. -/
theorem descent_mass : ∀ (fuel depth ipix v : Nat) (strict : Bool) (t : Nat) (cs : List Cell),
    4 ^ fuel ∣ v → t < v → descent fuel depth ipix v strict t = some cs →
    (∀ c ∈ cs, depth ≤ c.1) ∧
    (strict = true → massOf v depth cs ≤ t ∧ t < massOf v depth cs + v / 4 ^ fuel) ∧
    (strict = false → t ≤ massOf v depth cs ∧ massOf v depth cs < t + v / 4 ^ fuel) := by
  intro fuel
  induction fuel with
  | zero =>
    intro depth ipix v strict t cs hdvd ht h
    simp only [descent] at h
    rw [if_pos (by omega)] at h
    by_cases ht0 : t = 0
    · rw [if_pos ht0] at h
      injection h with h; subst h; subst ht0
      have hp := piece_pos hdvd (by omega : 0 < v)
      exact ⟨(by intro c hc; cases hc), fun _ => ⟨(by simp [massOf]), (by simpa [massOf] using hp)⟩,
        fun _ => ⟨(by simp [massOf]), (by simpa [massOf] using hp)⟩⟩
    rw [if_neg ht0] at h
    have hne : ¬ (v = t) := by omega
    cases strict with
    | true =>
      simp [hne] at h; subst h
      simp [massOf]; omega
    | false =>
      simp [hne] at h; subst h
      simp [massOf, pieceVal]; omega
  | succ f ih =>
    intro depth ipix v strict t cs hdvd ht h
    obtain ⟨hpos, hdvd', hk4, hlt, hsplit, hv4⟩ := level_facts f v t hdvd ht
    simp only [descent] at h
    rw [if_pos (by omega)] at h
    by_cases ht0 : t = 0
    · rw [if_pos ht0] at h
      injection h with h; subst h; subst ht0
      have hp := piece_pos hdvd (by omega : 0 < v)
      exact ⟨(by intro c hc; cases hc), fun _ => ⟨(by simp [massOf]), (by simpa [massOf] using hp)⟩,
        fun _ => ⟨(by simp [massOf]), (by simpa [massOf] using hp)⟩⟩
    rw [if_neg ht0] at h
    generalize hk : takeSub (v / 4) 5 0 t = r at *
    simp only [hk4, if_true] at h
    cases hd : descent f (depth + 1) (ipix * 4 + r.1) (v / 4) strict r.2 with
    | none => rw [hd] at h; simp at h
    | some rest =>
      rw [hd] at h
      simp only [Option.map_some, Option.some.injEq] at h
      subst h
      obtain ⟨i1, i2, i3⟩ := ih (depth + 1) (ipix * 4 + r.1) (v / 4) strict r.2 rest hdvd' hlt hd
      have hshift := massOf_shift v depth rest i1
      have hm : massOf v depth (((List.range r.1).map fun i => (depth + 1, ipix * 4 + i)) ++ rest)
          = r.1 * (v / 4) + massOf (v / 4) (depth + 1) rest := by
        rw [massOf_append, massOf_children v depth r.1 (fun i => ipix * 4 + i), hshift]
      refine ⟨?_, ?_, ?_⟩
      · intro c hc
        rcases List.mem_append.1 hc with h1 | h1
        · obtain ⟨i, _, rfl⟩ := List.mem_map.1 h1; simp
        · have := i1 c h1; omega
      · intro hs
        obtain ⟨a, b⟩ := i2 hs
        rw [hm, ← div4_pow]
        omega
      · intro hs
        obtain ⟨a, b⟩ := i3 hs
        rw [hm, ← div4_pow]
        omega

/-- **Upper-boundary descent (reverse order)**: the pieces selected below a cell of dyadic value `v`
    for a target `t < v` are descendants of the cell and enclose, in strict mode, at most `t` and
    more than `t` minus one deepest piece; in non-strict mode at least `t` and at most `t` plus one
    deepest piece. -/
theorem descentR_mass : ∀ (fuel depth ipix v : Nat) (strict : Bool) (t : Nat) (cs : List Cell),
    4 ^ fuel ∣ v → t < v → descentR fuel depth ipix v strict t = some cs →
    (∀ c ∈ cs, depth ≤ c.1) ∧
    (strict = true → massOf v depth cs ≤ t ∧ t < massOf v depth cs + v / 4 ^ fuel) ∧
    (strict = false → t ≤ massOf v depth cs ∧ massOf v depth cs < t + v / 4 ^ fuel) := by
  intro fuel
  induction fuel with
  | zero =>
    intro depth ipix v strict t cs hdvd ht h
    simp only [descentR] at h
    rw [if_pos (by omega)] at h
    by_cases ht0 : t = 0
    · rw [if_pos ht0] at h
      injection h with h; subst h; subst ht0
      have hp := piece_pos hdvd (by omega : 0 < v)
      exact ⟨(by intro c hc; cases hc), fun _ => ⟨(by simp [massOf]), (by simpa [massOf] using hp)⟩,
        fun _ => ⟨(by simp [massOf]), (by simpa [massOf] using hp)⟩⟩
    rw [if_neg ht0] at h
    have hne : ¬ (v = t) := by omega
    cases strict with
    | true =>
      simp [hne] at h; subst h
      simp [massOf]; omega
    | false =>
      simp [hne] at h; subst h
      simp [massOf, pieceVal]; omega
  | succ f ih =>
    intro depth ipix v strict t cs hdvd ht h
    obtain ⟨hpos, hdvd', hk4, hlt, hsplit, hv4⟩ := level_facts f v t hdvd ht
    simp only [descentR] at h
    rw [if_pos (by omega)] at h
    by_cases ht0 : t = 0
    · rw [if_pos ht0] at h
      injection h with h; subst h; subst ht0
      have hp := piece_pos hdvd (by omega : 0 < v)
      exact ⟨(by intro c hc; cases hc), fun _ => ⟨(by simp [massOf]), (by simpa [massOf] using hp)⟩,
        fun _ => ⟨(by simp [massOf]), (by simpa [massOf] using hp)⟩⟩
    rw [if_neg ht0] at h
    generalize hk : takeSub (v / 4) 5 0 t = r at *
    simp only [hk4, if_true] at h
    cases hd : descentR f (depth + 1) (ipix * 4 + (3 - r.1)) (v / 4) strict r.2 with
    | none => rw [hd] at h; simp at h
    | some rest =>
      rw [hd] at h
      simp only [Option.map_some, Option.some.injEq] at h
      subst h
      obtain ⟨i1, i2, i3⟩ := ih (depth + 1) (ipix * 4 + (3 - r.1)) (v / 4) strict r.2 rest hdvd' hlt hd
      have hshift := massOf_shift v depth rest i1
      have hm : massOf v depth (((List.range r.1).map fun i => (depth + 1, ipix * 4 + (3 - i))) ++ rest)
          = r.1 * (v / 4) + massOf (v / 4) (depth + 1) rest := by
        rw [massOf_append, massOf_children v depth r.1 (fun i => ipix * 4 + (3 - i)), hshift]
      refine ⟨?_, ?_, ?_⟩
      · intro c hc
        rcases List.mem_append.1 hc with h1 | h1
        · obtain ⟨i, _, rfl⟩ := List.mem_map.1 h1; simp
        · have := i1 c h1; omega
      · intro hs
        obtain ⟨a, b⟩ := i2 hs
        rw [hm, ← div4_pow]
        omega
      · intro hs
        obtain ⟨a, b⟩ := i3 hs
        rw [hm, ← div4_pow]
        omega


/-- **Lower-boundary descent (`recursive_descent_rev`)**: the pieces selected below a cell of dyadic
    value `v`, once a target `t < v` has been reached, enclose in strict mode at most `v − t` and at
    least `v − t` minus one deepest piece; in non-strict mode at least `v − t` and at most `v − t` plus
    one deepest piece. -/
theorem descentRev_mass : ∀ (fuel depth ipix v : Nat) (strict : Bool) (t : Nat) (cs : List Cell),
    4 ^ fuel ∣ v → t < v → descentRev fuel depth ipix v strict t = some cs →
    (∀ c ∈ cs, depth ≤ c.1) ∧
    (strict = true → massOf v depth cs + t ≤ v ∧ v < massOf v depth cs + t + v / 4 ^ fuel) ∧
    (strict = false → v ≤ massOf v depth cs + t ∧ massOf v depth cs + t < v + v / 4 ^ fuel) := by
  intro fuel
  induction fuel with
  | zero =>
    intro depth ipix v strict t cs hdvd ht h
    simp only [descentRev] at h
    rw [if_pos (by omega)] at h
    by_cases ht0 : t = 0
    · rw [if_pos ht0] at h
      injection h with h; subst h; subst ht0
      have hm : massOf v depth [(depth, ipix)] = v := by simp [massOf, pieceVal]
      have hp := piece_pos hdvd (by omega : 0 < v)
      exact ⟨(by intro c hc; simp at hc; subst hc; exact Nat.le_refl _),
        fun _ => ⟨(by rw [hm]; exact Nat.le_refl _), (by rw [hm]; omega)⟩,
        fun _ => ⟨(by rw [hm]; exact Nat.le_refl _), (by rw [hm]; omega)⟩⟩
    rw [if_neg ht0] at h
    have hne : v ≠ t := by omega
    cases strict with
    | true =>
      simp [hne] at h; subst h
      simp [massOf]; omega
    | false =>
      simp [hne] at h; subst h
      simp [massOf, pieceVal]; omega
  | succ f ih =>
    intro depth ipix v strict t cs hdvd ht h
    obtain ⟨hpos, hdvd', hk4, hlt, hsplit, hv4⟩ := level_facts f v t hdvd ht
    simp only [descentRev] at h
    rw [if_pos (by omega)] at h
    by_cases ht0 : t = 0
    · rw [if_pos ht0] at h
      injection h with h; subst h; subst ht0
      have hm : massOf v depth [(depth, ipix)] = v := by simp [massOf, pieceVal]
      have hp := piece_pos hdvd (by omega : 0 < v)
      exact ⟨(by intro c hc; simp at hc; subst hc; exact Nat.le_refl _),
        fun _ => ⟨(by rw [hm]; exact Nat.le_refl _), (by rw [hm]; omega)⟩,
        fun _ => ⟨(by rw [hm]; exact Nat.le_refl _), (by rw [hm]; omega)⟩⟩
    rw [if_neg ht0] at h
    generalize hk : takeSub (v / 4) 5 0 t = r at *
    simp only [hk4, if_true] at h
    cases hd : descentRev f (depth + 1) (ipix * 4 + r.1) (v / 4) strict r.2 with
    | none => rw [hd] at h; simp at h
    | some rest =>
      rw [hd] at h
      simp only [Option.map_some, Option.some.injEq] at h
      subst h
      obtain ⟨i1, i2, i3⟩ := ih (depth + 1) (ipix * 4 + r.1) (v / 4) strict r.2 rest hdvd' hlt hd
      have hshift := massOf_shift v depth rest i1
      have hm : massOf v depth (rest ++ ((List.range (3 - r.1)).map fun i => (depth + 1, ipix * 4 + r.1 + 1 + i)))
          = massOf (v / 4) (depth + 1) rest + (3 - r.1) * (v / 4) := by
        rw [massOf_append, massOf_children v depth (3 - r.1) (fun i => ipix * 4 + r.1 + 1 + i), hshift]
      have h3 : (3 - r.1) * (v / 4) + r.1 * (v / 4) = 3 * (v / 4) := by
        rw [← Nat.add_mul]; congr 1; omega
      refine ⟨?_, ?_, ?_⟩
      · intro c hc
        rcases List.mem_append.1 hc with h1 | h1
        · have := i1 c h1; omega
        · obtain ⟨i, _, rfl⟩ := List.mem_map.1 h1; simp
      · intro hs
        obtain ⟨a, b⟩ := i2 hs
        rw [hm, ← div4_pow]
        omega
      · intro hs
        obtain ⟨a, b⟩ := i3 hs
        rw [hm, ← div4_pow]
        omega

/-- **Lower-boundary descent, reverse order** (`reverse_recursive_descent_rev`, repaired: reversed at every level):
    same enclosed value. -/
theorem descentRRev_mass : ∀ (fuel depth ipix v : Nat) (strict : Bool) (t : Nat) (cs : List Cell),
    4 ^ fuel ∣ v → t < v → descentRRev fuel depth ipix v strict t = some cs →
    (∀ c ∈ cs, depth ≤ c.1) ∧
    (strict = true → massOf v depth cs + t ≤ v ∧ v < massOf v depth cs + t + v / 4 ^ fuel) ∧
    (strict = false → v ≤ massOf v depth cs + t ∧ massOf v depth cs + t < v + v / 4 ^ fuel) := by
  intro fuel
  induction fuel with
  | zero =>
    intro depth ipix v strict t cs hdvd ht h
    simp only [descentRRev] at h
    rw [if_pos (by omega)] at h
    by_cases ht0 : t = 0
    · rw [if_pos ht0] at h
      injection h with h; subst h; subst ht0
      have hm : massOf v depth [(depth, ipix)] = v := by simp [massOf, pieceVal]
      have hp := piece_pos hdvd (by omega : 0 < v)
      exact ⟨(by intro c hc; simp at hc; subst hc; exact Nat.le_refl _),
        fun _ => ⟨(by rw [hm]; exact Nat.le_refl _), (by rw [hm]; omega)⟩,
        fun _ => ⟨(by rw [hm]; exact Nat.le_refl _), (by rw [hm]; omega)⟩⟩
    rw [if_neg ht0] at h
    have hne : v ≠ t := by omega
    cases strict with
    | true =>
      simp [hne] at h; subst h
      simp [massOf]; omega
    | false =>
      simp [hne] at h; subst h
      simp [massOf, pieceVal]; omega
  | succ f ih =>
    intro depth ipix v strict t cs hdvd ht h
    obtain ⟨hpos, hdvd', hk4, hlt, hsplit, hv4⟩ := level_facts f v t hdvd ht
    simp only [descentRRev] at h
    rw [if_pos (by omega)] at h
    by_cases ht0 : t = 0
    · rw [if_pos ht0] at h
      injection h with h; subst h; subst ht0
      have hm : massOf v depth [(depth, ipix)] = v := by simp [massOf, pieceVal]
      have hp := piece_pos hdvd (by omega : 0 < v)
      exact ⟨(by intro c hc; simp at hc; subst hc; exact Nat.le_refl _),
        fun _ => ⟨(by rw [hm]; exact Nat.le_refl _), (by rw [hm]; omega)⟩,
        fun _ => ⟨(by rw [hm]; exact Nat.le_refl _), (by rw [hm]; omega)⟩⟩
    rw [if_neg ht0] at h
    generalize hk : takeSub (v / 4) 5 0 t = r at *
    simp only [hk4, if_true] at h
    cases hd : descentRRev f (depth + 1) (ipix * 4 + (3 - r.1)) (v / 4) strict r.2 with
    | none => rw [hd] at h; simp at h
    | some rest =>
      rw [hd] at h
      simp only [Option.map_some, Option.some.injEq] at h
      subst h
      obtain ⟨i1, i2, i3⟩ := ih (depth + 1) (ipix * 4 + (3 - r.1)) (v / 4) strict r.2 rest hdvd' hlt hd
      have hshift := massOf_shift v depth rest i1
      have hm : massOf v depth (rest ++ ((List.range (3 - r.1)).map fun i => (depth + 1, ipix * 4 + (3 - r.1 - 1 - i))))
          = massOf (v / 4) (depth + 1) rest + (3 - r.1) * (v / 4) := by
        rw [massOf_append, massOf_children v depth (3 - r.1) (fun i => ipix * 4 + (3 - r.1 - 1 - i)), hshift]
      have h3 : (3 - r.1) * (v / 4) + r.1 * (v / 4) = 3 * (v / 4) := by
        rw [← Nat.add_mul]; congr 1; omega
      refine ⟨?_, ?_, ?_⟩
      · intro c hc
        rcases List.mem_append.1 hc with h1 | h1
        · have := i1 c h1; omega
        · obtain ⟨i, _, rfl⟩ := List.mem_map.1 h1; simp
      · intro hs
        obtain ⟨a, b⟩ := i2 hs
        rw [hm, ← div4_pow]
        omega
      · intro hs
        obtain ⟨a, b⟩ := i3 hs
        rw [hm, ← div4_pow]
        omega

/-! ### The whole selection, with the provenance of every piece -/

def deepest (maxDepth : Nat) (c : VCell) : Nat := c.val / 4 ^ (maxDepth - c.depth)

def sortedOf (asc : Bool) (cells : List VCell) : List VCell :=
  if asc then sortStable (fun y x => decide (y.dens > x.dens)) cells
  else sortStable (fun y x => decide (y.dens < x.dens)) cells

def maxDepthOf (maxDepth : Nat) (cells : List VCell) : Nat :=
  max maxDepth (cells.foldl (fun m c => max m c.depth) 0)

/-- Lower threshold: `(acc after the boundary, selected pieces, remaining cells, their value, one
    boundary piece)`. -/
def lowStage (md : Nat) (sorted : List VCell) (from_ : Nat) (strict noSplit rev : Bool) :
    Option (Nat × List Cell × List VCell × Nat × Nat) :=
  let (acc, _, rest) := scanWhole from_ 0 sorted
  match rest with
  | c :: rest' =>
    if acc < from_ then
      if noSplit then some (acc + c.val, (if strict then [] else [(c.depth, c.idx)]), rest',
        (if strict then 0 else c.val), c.val)
      else
        ((if rev then descentRRev else descentRev) (md - c.depth) c.depth c.idx c.val strict (from_ - acc)).map
          fun cs => (acc + c.val, cs, rest', massOf c.val c.depth cs, deepest md c)
    else some (acc, [], rest, 0, 0)
  | [] => some (acc, [], [], 0, 0)

/-- Upper threshold, from the state left by the lower one. -/
def highStage (md to : Nat) (strict noSplit rev : Bool) (st : Nat × List Cell × List VCell × Nat × Nat) :
    Option (List Cell × Nat × Nat × Nat) :=
  let (acc, lowCells, rest, mLow, uLow) := st
  let (acc2, whole, rest2) := scanWhole to acc rest
  let wholeCells := whole.map fun c => (c.depth, c.idx)
  let mWhole := acc2 - acc
  match rest2 with
  | c :: _ =>
    if acc2 < to then
      if noSplit then some (lowCells ++ wholeCells ++ (if strict then [] else [(c.depth, c.idx)]),
        mLow + mWhole + (if strict then 0 else c.val), uLow, c.val)
      else
        ((if rev then descentR else descent) (md - c.depth) c.depth c.idx c.val strict (to - acc2)).map
          fun cs => (lowCells ++ wholeCells ++ cs, mLow + mWhole + massOf c.val c.depth cs, uLow, deepest md c)
    else some (lowCells ++ wholeCells, mLow + mWhole, uLow, 0)
  | [] => some (lowCells ++ wholeCells, mLow + mWhole, uLow, 0)

/-- `selectCells` with, in addition, the value enclosed by the selection (`M`) and the values `uLow`,
    `uHigh` of one boundary piece at each threshold (the boundary cell itself when splitting is off,
    one of its deepest sub-cells when it is on, `0` when the threshold falls between two cells). -/
def selectWithMass (maxDepth : Nat) (cells : List VCell) (from_ to : Nat) (asc strict noSplit rev : Bool) :
    Option (List Cell × Nat × Nat × Nat) :=
  (lowStage (maxDepthOf maxDepth cells) (sortedOf asc cells) from_ strict noSplit rev).bind
    (highStage (maxDepthOf maxDepth cells) to strict noSplit rev)

macro "leaf" : tactic =>
  `(tactic| first | rfl | (simp only [Option.map_map]; rfl) | (simp only [Option.map_some, Option.map_none]; rfl))

/-- The cells are exactly those of the model function tied to the code. -/
theorem selectWithMass_cells (maxDepth : Nat) (cells : List VCell) (from_ to : Nat) (asc strict noSplit rev : Bool) :
    (selectWithMass maxDepth cells from_ to asc strict noSplit rev).map (·.1)
      = selectCells maxDepth cells from_ to asc strict noSplit rev := by
  unfold selectWithMass selectCells lowStage highStage sortedOf maxDepthOf
  simp only []
  generalize scanWhole from_ 0 _ = r1
  obtain ⟨acc, tk, rest⟩ := r1
  simp only []
  cases rest with
  | nil =>
    simp only [Option.bind_some]
    generalize scanWhole to acc [] = r2
    obtain ⟨acc2, whole, rest2⟩ := r2
    cases rest2 <;> simp only [] <;> (repeat' split) <;> leaf
  | cons c rest' =>
    simp only []
    split
    · split
      · simp only [Option.bind_some]
        generalize scanWhole to (acc + c.val) rest' = r2
        obtain ⟨acc2, whole, rest2⟩ := r2
        cases rest2 <;> simp only [] <;> (repeat' split) <;> leaf
      · generalize (if rev = true then descentRRev else descentRev) _ c.depth c.idx c.val strict (from_ - acc) = dl
        cases dl with
        | none => rfl
        | some cs =>
          simp only [Option.map_some, Option.bind_some]
          generalize scanWhole to (acc + c.val) rest' = r2
          obtain ⟨acc2, whole, rest2⟩ := r2
          cases rest2 <;> simp only [] <;> (repeat' split) <;> leaf
    · simp only [Option.bind_some]
      generalize scanWhole to acc (c :: rest') = r2
      obtain ⟨acc2, whole, rest2⟩ := r2
      cases rest2 <;> simp only [] <;> (repeat' split) <;> leaf

open Moc.C20 (sumVal scanWhole_spec)

theorem sumVal_cons (c : VCell) (t : List VCell) : sumVal (c :: t) = c.val + sumVal t := by
  simp [sumVal]

theorem sumVal_append (a b : List VCell) : sumVal (a ++ b) = sumVal a + sumVal b := by
  simp [sumVal, List.map_append, List.sum_append]

theorem lowStage_spec (md : Nat) (sorted : List VCell) (from_ to : Nat) (strict noSplit rev : Bool)
    (accL : Nat) (lowCells : List Cell) (restA : List VCell) (mLow uLow : Nat)
    (h : lowStage md sorted from_ strict noSplit rev = some (accL, lowCells, restA, mLow, uLow))
    (hdy : ∀ c ∈ sorted, 4 ^ (md - c.depth) ∣ c.val)
    (hsame : ∀ c rest', (scanWhole from_ 0 sorted).2.2 = c :: rest' → (scanWhole from_ 0 sorted).1 < from_ →
      (scanWhole from_ 0 sorted).1 + c.val ≤ to)
    (hft : from_ ≤ to) (htot : to ≤ sumVal sorted) :
    from_ ≤ accL ∧ accL ≤ to ∧ accL + sumVal restA = sumVal sorted ∧ (∀ c ∈ restA, c ∈ sorted) ∧
    (strict = true → mLow ≤ accL - from_ ∧ accL - from_ ≤ mLow + uLow ∧ (accL - from_ < mLow + uLow ∨ uLow = 0)) ∧
    (strict = false → accL - from_ ≤ mLow ∧ mLow ≤ accL - from_ + uLow ∧ (mLow < accL - from_ + uLow ∨ uLow = 0)) := by
  have sp := scanWhole_spec from_ sorted 0
  simp only [] at sp
  unfold lowStage at h
  generalize hr : scanWhole from_ 0 sorted = r at *
  obtain ⟨acc, tk, rest⟩ := r
  simp only [] at sp h hsame
  obtain ⟨s1, s2, s3, s4⟩ := sp
  have hacc : acc ≤ from_ := s3 (Nat.zero_le _)
  have htotal : sumVal sorted = acc + sumVal rest := by rw [s1, sumVal_append]; omega
  cases rest with
  | nil =>
    simp only [Option.some.injEq, Prod.mk.injEq] at h
    obtain ⟨rfl, _, rfl, rfl, rfl⟩ := h
    have : sumVal ([] : List VCell) = 0 := rfl
    rw [this] at htotal
    refine ⟨by omega, by omega, by rw [htotal]; rfl, (fun c hc => (by cases hc)), (fun _ => by omega), (fun _ => by omega)⟩
  | cons c rest' =>
    have hover := s4 c rest' rfl
    have hmem : ∀ x ∈ c :: rest', x ∈ sorted := by
      intro x hx; rw [s1]; exact List.mem_append.2 (Or.inr hx)
    rw [sumVal_cons] at htotal
    simp only [] at h
    by_cases hb : acc < from_
    · simp only [hb, ↓reduceIte] at h
      have hle := hsame c rest' rfl hb
      by_cases hn : noSplit = true
      · simp only [hn, ↓reduceIte, Option.some.injEq, Prod.mk.injEq] at h
        obtain ⟨rfl, _, rfl, rfl, rfl⟩ := h
        refine ⟨by omega, hle, by omega, fun x hx => hmem x (List.mem_cons_of_mem _ hx), ?_, ?_⟩
        · intro hs; simp only [hs, ↓reduceIte]; omega
        · intro hs; simp only [hs, Bool.false_eq_true, ↓reduceIte]; omega
      · simp only [hn, Bool.false_eq_true, ↓reduceIte] at h
        have hdvd := hdy c (hmem c List.mem_cons_self)
        have ht : from_ - acc < c.val := by omega
        cases hd : (if rev = true then descentRRev else descentRev) (md - c.depth) c.depth c.idx c.val strict (from_ - acc) with
        | none => rw [hd] at h; simp at h
        | some cs =>
          rw [hd] at h
          simp only [Option.map_some, Option.some.injEq, Prod.mk.injEq] at h
          obtain ⟨rfl, _, rfl, rfl, rfl⟩ := h
          have hm : (strict = true → massOf c.val c.depth cs + (from_ - acc) ≤ c.val ∧
                c.val < massOf c.val c.depth cs + (from_ - acc) + c.val / 4 ^ (md - c.depth)) ∧
              (strict = false → c.val ≤ massOf c.val c.depth cs + (from_ - acc) ∧
                massOf c.val c.depth cs + (from_ - acc) < c.val + c.val / 4 ^ (md - c.depth)) := by
            by_cases hrev : rev = true
            · simp only [hrev, ↓reduceIte] at hd
              exact (descentRRev_mass _ _ _ _ _ _ _ hdvd ht hd).2
            · simp only [hrev, Bool.false_eq_true, ↓reduceIte] at hd
              exact (descentRev_mass _ _ _ _ _ _ _ hdvd ht hd).2
          refine ⟨by omega, hle, by omega, fun x hx => hmem x (List.mem_cons_of_mem _ hx), ?_, ?_⟩
          · intro hs; obtain ⟨a, b⟩ := hm.1 hs; unfold deepest; omega
          · intro hs; obtain ⟨a, b⟩ := hm.2 hs; unfold deepest; omega
    · simp only [hb, ↓reduceIte, Option.some.injEq, Prod.mk.injEq] at h
      obtain ⟨rfl, _, rfl, rfl, rfl⟩ := h
      refine ⟨by omega, by omega, by rw [sumVal_cons]; omega, hmem, fun _ => by omega, fun _ => by omega⟩

theorem highStage_spec (md to : Nat) (strict noSplit rev : Bool)
    (accL : Nat) (lowCells : List Cell) (restA : List VCell) (mLow uLow : Nat)
    (cs : List Cell) (M uLow' uHigh total : Nat)
    (h : highStage md to strict noSplit rev (accL, lowCells, restA, mLow, uLow) = some (cs, M, uLow', uHigh))
    (hdy : ∀ c ∈ restA, 4 ^ (md - c.depth) ∣ c.val)
    (hle : accL ≤ to) (hsum : accL + sumVal restA = total) (htot : to ≤ total) :
    uLow' = uLow ∧
    (strict = true → M ≤ mLow + (to - accL) ∧ mLow + (to - accL) ≤ M + uHigh ∧ (mLow + (to - accL) < M + uHigh ∨ uHigh = 0)) ∧
    (strict = false → mLow + (to - accL) ≤ M ∧ M ≤ mLow + (to - accL) + uHigh ∧ (M < mLow + (to - accL) + uHigh ∨ uHigh = 0)) := by
  have sp := scanWhole_spec to restA accL
  simp only [] at sp
  unfold highStage at h
  simp only [] at h
  generalize hr : scanWhole to accL restA = r at *
  obtain ⟨acc2, whole, rest2⟩ := r
  simp only [] at sp h
  obtain ⟨s1, s2, s3, s4⟩ := sp
  have hacc2 : acc2 ≤ to := s3 hle
  cases rest2 with
  | nil =>
    simp only [Option.some.injEq, Prod.mk.injEq] at h
    obtain ⟨_, rfl, rfl, rfl⟩ := h
    have : acc2 = total := by
      rw [← hsum, s2, s1]; simp [sumVal_append, sumVal]
    refine ⟨rfl, fun _ => by omega, fun _ => by omega⟩
  | cons c2 t2 =>
    have hover := s4 c2 t2 rfl
    have hmem : c2 ∈ restA := by rw [s1]; exact List.mem_append.2 (Or.inr List.mem_cons_self)
    simp only [] at h
    by_cases hb : acc2 < to
    · simp only [hb, ↓reduceIte] at h
      by_cases hn : noSplit = true
      · simp only [hn, ↓reduceIte, Option.some.injEq, Prod.mk.injEq] at h
        obtain ⟨_, rfl, rfl, rfl⟩ := h
        refine ⟨rfl, ?_, ?_⟩
        · intro hs; simp only [hs, ↓reduceIte]; omega
        · intro hs; simp only [hs, Bool.false_eq_true, ↓reduceIte]; omega
      · simp only [hn, Bool.false_eq_true, ↓reduceIte] at h
        have hdvd := hdy c2 hmem
        have ht : to - acc2 < c2.val := by omega
        cases hd : (if rev = true then descentR else descent) (md - c2.depth) c2.depth c2.idx c2.val strict (to - acc2) with
        | none => rw [hd] at h; simp at h
        | some hs' =>
          rw [hd] at h
          simp only [Option.map_some, Option.some.injEq, Prod.mk.injEq] at h
          obtain ⟨_, rfl, rfl, rfl⟩ := h
          have hm : (strict = true → massOf c2.val c2.depth hs' ≤ to - acc2 ∧
                to - acc2 < massOf c2.val c2.depth hs' + c2.val / 4 ^ (md - c2.depth)) ∧
              (strict = false → to - acc2 ≤ massOf c2.val c2.depth hs' ∧
                massOf c2.val c2.depth hs' < to - acc2 + c2.val / 4 ^ (md - c2.depth)) := by
            by_cases hrev : rev = true
            · simp only [hrev, ↓reduceIte] at hd
              exact (descentR_mass _ _ _ _ _ _ _ hdvd ht hd).2
            · simp only [hrev, Bool.false_eq_true, ↓reduceIte] at hd
              exact (descent_mass _ _ _ _ _ _ _ hdvd ht hd).2
          refine ⟨rfl, ?_, ?_⟩
          · intro hs; obtain ⟨a, b⟩ := hm.1 hs; unfold deepest; omega
          · intro hs; obtain ⟨a, b⟩ := hm.2 hs; unfold deepest; omega
    · simp only [hb, ↓reduceIte, Option.some.injEq, Prod.mk.injEq] at h
      obtain ⟨_, rfl, rfl, rfl⟩ := h
      refine ⟨rfl, fun _ => by omega, fun _ => by omega⟩

theorem mem_insertStable (after : VCell → VCell → Bool) (x y : VCell) : ∀ (l : List VCell),
    y ∈ insertStable after x l ↔ y = x ∨ y ∈ l := by
  intro l
  induction l with
  | nil => simp [insertStable]
  | cons z t ih =>
    simp only [insertStable]
    split
    · simp
    · simp only [List.mem_cons, ih]
      constructor
      · rintro (h | h | h)
        · exact Or.inr (Or.inl h)
        · exact Or.inl h
        · exact Or.inr (Or.inr h)
      · rintro (h | h | h)
        · exact Or.inr (Or.inl h)
        · exact Or.inl h
        · exact Or.inr (Or.inr h)

theorem sumVal_insertStable (after : VCell → VCell → Bool) (x : VCell) : ∀ (l : List VCell),
    sumVal (insertStable after x l) = x.val + sumVal l := by
  intro l
  induction l with
  | nil => simp [insertStable, sumVal]
  | cons z t ih =>
    simp only [insertStable]
    split
    · simp [sumVal]
    · rw [sumVal_cons, ih, sumVal_cons]; omega

theorem sortStable_spec (after : VCell → VCell → Bool) (l : List VCell) :
    (∀ y, y ∈ sortStable after l ↔ y ∈ l) ∧ sumVal (sortStable after l) = sumVal l := by
  unfold sortStable
  have gen : ∀ (l acc : List VCell),
      (∀ y, y ∈ l.foldl (fun acc x => insertStable after x acc) acc ↔ y ∈ acc ∨ y ∈ l) ∧
      sumVal (l.foldl (fun acc x => insertStable after x acc) acc) = sumVal acc + sumVal l := by
    intro l
    induction l with
    | nil => intro acc; simp [sumVal]
    | cons x t ih =>
      intro acc
      obtain ⟨i1, i2⟩ := ih (insertStable after x acc)
      simp only [List.foldl_cons]
      refine ⟨fun y => ?_, ?_⟩
      · rw [i1 y, mem_insertStable]
        simp only [List.mem_cons]
        constructor
        · rintro ((h | h) | h)
          · exact Or.inr (Or.inl h)
          · exact Or.inl h
          · exact Or.inr (Or.inr h)
        · rintro (h | h | h)
          · exact Or.inl (Or.inr h)
          · exact Or.inl (Or.inl h)
          · exact Or.inr h
      · rw [i2, sumVal_insertStable, sumVal_cons]; omega
  obtain ⟨g1, g2⟩ := gen l []
  exact ⟨fun y => by rw [g1 y]; simp, by rw [g2]; simp [sumVal]⟩

theorem sortedOf_spec (asc : Bool) (cells : List VCell) :
    (∀ y, y ∈ sortedOf asc cells ↔ y ∈ cells) ∧ sumVal (sortedOf asc cells) = sumVal cells := by
  unfold sortedOf
  split <;> exact sortStable_spec _ _

/-- The two thresholds are not strictly inside the SAME map cell (the configuration recorded as
    the open finding C20-both-thresholds-one-cell): the cell containing `from`, if any, ends at or
    before `to`. -/
def NotSameCell (cells : List VCell) (from_ to : Nat) (asc : Bool) : Prop :=
  ∀ c rest', (scanWhole from_ 0 (sortedOf asc cells)).2.2 = c :: rest' →
    (scanWhole from_ 0 (sortedOf asc cells)).1 < from_ → (scanWhole from_ 0 (sortedOf asc cells)).1 + c.val ≤ to

/-- **Mass bracket of the cumulative selection.** -/
theorem mass_bracket (maxDepth : Nat) (cells : List VCell) (from_ to : Nat) (asc strict noSplit rev : Bool)
    (cs : List Cell) (M uLow uHigh : Nat)
    (h : selectWithMass maxDepth cells from_ to asc strict noSplit rev = some (cs, M, uLow, uHigh))
    (hdy : ∀ c ∈ cells, 4 ^ (maxDepthOf maxDepth cells - c.depth) ∣ c.val)
    (hft : from_ ≤ to) (htot : to ≤ sumVal cells) (hsame : NotSameCell cells from_ to asc) :
    (strict = true → M ≤ to - from_ ∧ to - from_ ≤ M + uLow + uHigh ∧ (to - from_ < M + uLow + uHigh ∨ uLow + uHigh = 0)) ∧
    (strict = false → to - from_ ≤ M ∧ M ≤ to - from_ + uLow + uHigh ∧ (M < to - from_ + uLow + uHigh ∨ uLow + uHigh = 0)) := by
  obtain ⟨sm, ss⟩ := sortedOf_spec asc cells
  unfold selectWithMass at h
  cases hl : lowStage (maxDepthOf maxDepth cells) (sortedOf asc cells) from_ strict noSplit rev with
  | none => rw [hl] at h; simp at h
  | some st =>
    obtain ⟨accL, lowCells, restA, mLow, uLow0⟩ := st
    rw [hl] at h
    simp only [Option.bind_some] at h
    have hdy' : ∀ c ∈ sortedOf asc cells, 4 ^ (maxDepthOf maxDepth cells - c.depth) ∣ c.val :=
      fun c hc => hdy c ((sm c).1 hc)
    obtain ⟨l1, l2, l3, l4, l5, l6⟩ := lowStage_spec _ _ from_ to strict noSplit rev accL lowCells restA mLow uLow0 hl
      hdy' hsame hft (by rw [ss]; exact htot)
    obtain ⟨h1, h2, h3⟩ := highStage_spec _ to strict noSplit rev accL lowCells restA mLow uLow0 cs M uLow uHigh
      (sumVal (sortedOf asc cells)) h (fun c hc => hdy' c (l4 c hc)) l2 l3 (by rw [ss]; exact htot)
    subst h1
    refine ⟨fun hs => ?_, fun hs => ?_⟩
    · obtain ⟨a, b, b'⟩ := l5 hs; obtain ⟨c, d, d'⟩ := h2 hs; omega
    · obtain ⟨a, b, b'⟩ := l6 hs; obtain ⟨c, d, d'⟩ := h3 hs; omega

end Moc.Mass
