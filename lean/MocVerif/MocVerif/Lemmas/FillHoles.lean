/-
  C17 — hole filling: the sort by decreasing size is a stable permutation, the components left alone are
  the largest ones, the result is the MOC plus whole components of its complement.
-/
import MocVerif.Model.FillHoles
import MocVerif.Lemmas.Graph

namespace Moc.Graph

theorem mem_insBySize (c x : List Nat) : ∀ (l : List (List Nat)), x ∈ insBySize c l ↔ x = c ∨ x ∈ l := by
  intro l
  induction l with
  | nil => simp [insBySize]
  | cons d t ih =>
    simp only [insBySize]
    split
    · simp
    · simp only [List.mem_cons, ih]
      constructor
      · rintro (h | h | h)
        · exact .inr (.inl h)
        · exact .inl h
        · exact .inr (.inr h)
      · rintro (h | h | h)
        · exact .inr (.inl h)
        · exact .inl h
        · exact .inr (.inr h)

theorem mem_sortBySize (x : List Nat) : ∀ (cs : List (List Nat)), x ∈ sortBySize cs ↔ x ∈ cs := by
  intro cs
  induction cs with
  | nil => simp [sortBySize]
  | cons c t ih =>
    have : sortBySize (c :: t) = insBySize c (sortBySize t) := rfl
    rw [this, mem_insBySize, ih]
    simp

theorem length_insBySize (c : List Nat) : ∀ (l : List (List Nat)), (insBySize c l).length = l.length + 1 := by
  intro l
  induction l with
  | nil => rfl
  | cons d t ih =>
    simp only [insBySize]
    split <;> simp [ih]

theorem length_sortBySize : ∀ (cs : List (List Nat)), (sortBySize cs).length = cs.length := by
  intro cs
  induction cs with
  | nil => rfl
  | cons c t ih =>
    have : sortBySize (c :: t) = insBySize c (sortBySize t) := rfl
    rw [this, length_insBySize, ih]; rfl

/-- Sizes never increase along the list. -/
def Desc : List (List Nat) → Prop
  | [] => True
  | a :: t => (∀ b ∈ t, b.length ≤ a.length) ∧ Desc t

theorem desc_insBySize (c : List Nat) : ∀ (l : List (List Nat)), Desc l → Desc (insBySize c l) := by
  intro l
  induction l with
  | nil => intro _; exact ⟨(fun _ h => by cases h), trivial⟩
  | cons d t ih =>
    intro h
    simp only [insBySize]
    split
    · rename_i hlt
      refine ⟨?_, h⟩
      intro b hb
      cases hb with
      | head => omega
      | tail _ hm => have := h.1 b hm; omega
    · rename_i hge
      refine ⟨?_, ih h.2⟩
      intro b hb
      rcases (mem_insBySize c b t).1 hb with rfl | hb
      · omega
      · exact h.1 b hb

theorem desc_sortBySize : ∀ (cs : List (List Nat)), Desc (sortBySize cs) := by
  intro cs
  induction cs with
  | nil => trivial
  | cons c t ih => exact desc_insBySize c _ ih

/-- In a list sorted by decreasing size, everything after position `k` is at most as large as everything before. -/
theorem desc_take_drop : ∀ (l : List (List Nat)) (k : Nat), Desc l →
    ∀ a ∈ l.take k, ∀ b ∈ l.drop k, b.length ≤ a.length := by
  intro l
  induction l with
  | nil => intro k _ a ha; simp at ha
  | cons c t ih =>
    intro k h a ha b hb
    cases k with
    | zero => simp at ha
    | succ k =>
      simp only [List.take_succ_cons, List.drop_succ_cons] at ha hb
      cases ha with
      | head => exact h.1 b (List.mem_of_mem_drop hb)
      | tail _ hm => exact ih k h.2 a hm b hb

theorem mem_fillHoles (g : Adj) (univ s : List Nat) (n x : Nat) :
    x ∈ fillHoles g univ s n ↔ x ∈ s ∨ ∃ comp ∈ (holesSorted g univ s).drop (1 + n), x ∈ comp := by
  unfold fillHoles
  rw [mem_norm, List.mem_append, List.mem_flatten]

end Moc.Graph
