/-
  Lemmas about the slab / store model (C13).
-/
import MocVerif.Model.Store

namespace Moc.Store

/-- The free list: starting at `k`, following the `vacant` links, one visits exactly `ks` and ends at
    `slots.length`. -/
inductive Chain (slots : List Slot) : Nat → List Nat → Prop
  | done : Chain slots slots.length []
  | step {k n : Nat} {ks : List Nat} :
      slots[k]? = some (.vacant n) → Chain slots n ks → Chain slots k (k :: ks)

/-- Slab invariant: the free list is well formed and visits no slot twice; every occupied slot has
    a counter in `1..=255` (a `u8` that never reaches 0 while the slot is occupied). -/
def Inv (s : St) : Prop :=
  (∃ ks, Chain s.slots s.next ks ∧ ks.Nodup) ∧
  (∀ i c v, lookup s i = some (c, v) → 1 ≤ c ∧ c ≤ 255)

theorem chain_vacant {slots : List Slot} {k : Nat} {ks : List Nat} (h : Chain slots k ks) :
    ∀ j ∈ ks, ∃ n, slots[j]? = some (.vacant n) := by
  induction h with
  | done => intro j hj; cases hj
  | step hk _ ih =>
    intro j hj
    cases hj with
    | head => exact ⟨_, hk⟩
    | tail _ h => exact ih j h

theorem chain_set {slots : List Slot} {k : Nat} {ks : List Nat} (h : Chain slots k ks)
    (i : Nat) (x : Slot) (hi : i ∉ ks) : Chain (slots.set i x) k ks := by
  induction h with
  | done =>
    have : Chain (slots.set i x) (slots.set i x).length [] := Chain.done
    simpa using this
  | @step k n ks hk _ ih =>
    have hne : i ≠ k := fun e => hi (e ▸ List.mem_cons_self)
    refine Chain.step (n := n) ?_ (ih (fun hm => hi (List.mem_cons_of_mem _ hm)))
    rw [List.getElem?_set_ne hne]; exact hk

theorem chain_inv {slots : List Slot} {k : Nat} {ks : List Nat} (h : Chain slots k ks) :
    (k = slots.length ∧ ks = []) ∨
    ∃ n ks', slots[k]? = some (.vacant n) ∧ ks = k :: ks' ∧ Chain slots n ks' := by
  cases h with
  | done => exact Or.inl ⟨rfl, rfl⟩
  | step hk ht => exact Or.inr ⟨_, _, hk, rfl, ht⟩

theorem lookup_some_lt {s : St} {i c : Nat} {v : Val} (h : lookup s i = some (c, v)) :
    i < s.slots.length ∧ s.slots[i]? = some (.occ c v) := by
  unfold lookup at h
  split at h
  · rename_i c' v' heq
    simp at h
    obtain ⟨rfl, rfl⟩ := h
    exact ⟨(List.getElem?_eq_some_iff.1 heq).1, heq⟩
  · cases h

theorem lookup_of_occ {s : St} {i c : Nat} {v : Val} (h : s.slots[i]? = some (.occ c v)) :
    lookup s i = some (c, v) := by
  unfold lookup; rw [h]

theorem lookup_of_vacant {s : St} {i n : Nat} (h : s.slots[i]? = some (.vacant n)) :
    lookup s i = none := by
  unfold lookup; rw [h]

theorem lookup_of_none {s : St} {i : Nat} (h : s.slots[i]? = none) : lookup s i = none := by
  unfold lookup; rw [h]

/-- A live index is not on the free list. -/
theorem live_not_free {s : St} {k : Nat} {ks : List Nat} (hc : Chain s.slots k ks)
    {i c : Nat} {v : Val} (h : lookup s i = some (c, v)) : i ∉ ks := by
  intro hm
  obtain ⟨n, hn⟩ := chain_vacant hc i hm
  rw [(lookup_some_lt h).2] at hn
  cases hn

/-- Writing an occupied entry at a valid position: point-wise effect on `lookup`. -/
theorem lookup_set_occ (s : St) (i c : Nat) (v : Val) (nx : Nat) (hi : i < s.slots.length) (j : Nat) :
    lookup { slots := s.slots.set i (.occ c v), next := nx } j
      = if j = i then some (c, v) else lookup s j := by
  unfold lookup
  by_cases h : j = i
  · subst h; simp [hi]
  · simp only [h, ↓reduceIte]
    rw [List.getElem?_set_ne (Ne.symm h)]

theorem lookup_set_vacant (s : St) (i n : Nat) (nx : Nat) (hi : i < s.slots.length) (j : Nat) :
    lookup { slots := s.slots.set i (.vacant n), next := nx } j
      = if j = i then none else lookup s j := by
  unfold lookup
  by_cases h : j = i
  · subst h; simp [hi]
  · simp only [h, ↓reduceIte]
    rw [List.getElem?_set_ne (Ne.symm h)]

/-- `insert`: the key handed out is not live, afterwards it holds `(1, v)`, nothing else changes,
    and the invariant is preserved. -/
theorem insert_spec (s : St) (v : Val) (hinv : Inv s) :
    lookup s (insert s v).2 = none ∧
    (∀ j, lookup (insert s v).1 j = if j = (insert s v).2 then some (1, v) else lookup s j) ∧
    Inv (insert s v).1 := by
  obtain ⟨⟨ks, hch, hnd⟩, hcnt⟩ := hinv
  unfold insert
  by_cases hk : s.next = s.slots.length
  · simp only [hk, ↓reduceIte]
    have hnone : s.slots[s.slots.length]? = none := by simp
    have hl : ∀ j, lookup { slots := s.slots ++ [Slot.occ 1 v], next := s.slots.length + 1 } j
        = if j = s.slots.length then some (1, v) else lookup s j := by
      intro j
      unfold lookup
      by_cases hj : j = s.slots.length
      · subst hj; simp
      · simp only [hj, ↓reduceIte]
        by_cases hlt : j < s.slots.length
        · rw [List.getElem?_append_left hlt]
        · have : s.slots.length < j := by omega
          have h1 : (s.slots ++ [Slot.occ 1 v])[j]? = none := by
            apply List.getElem?_eq_none; simp; omega
          have h2 : s.slots[j]? = none := by apply List.getElem?_eq_none; omega
          rw [h1, h2]
    refine ⟨lookup_of_none hnone, hl, ⟨[], ?_, List.nodup_nil⟩, ?_⟩
    · have : Chain (s.slots ++ [Slot.occ 1 v]) (s.slots ++ [Slot.occ 1 v]).length [] := Chain.done
      simpa using this
    · intro i c w h
      rw [hl] at h
      by_cases hi : i = s.slots.length
      · simp [hi] at h; omega
      · simp only [hi, ↓reduceIte] at h; exact hcnt i c w h
  · simp only [hk, ↓reduceIte]
    rcases chain_inv hch with ⟨e, _⟩ | ⟨n, ks', hvac, rfl, htail⟩
    · exact absurd e hk
    · simp only [hvac]
      have hlt : s.next < s.slots.length := (List.getElem?_eq_some_iff.1 hvac).1
      have hnotin : s.next ∉ ks' := (List.nodup_cons.1 hnd).1
      have hl := lookup_set_occ s s.next 1 v n hlt
      refine ⟨lookup_of_vacant hvac, hl, ⟨ks', chain_set htail _ _ hnotin, (List.nodup_cons.1 hnd).2⟩, ?_⟩
      intro i c w h
      rw [hl] at h
      by_cases hi : i = s.next
      · simp [hi] at h; omega
      · simp only [hi, ↓reduceIte] at h; exact hcnt i c w h

/-- Overwriting the counter of a live entry preserves the invariant. -/
theorem inv_set_count (s : St) (i c c' : Nat) (v : Val) (hinv : Inv s) (h : lookup s i = some (c, v))
    (hc : 1 ≤ c' ∧ c' ≤ 255) : Inv { s with slots := s.slots.set i (.occ c' v) } := by
  obtain ⟨⟨ks, hch, hnd⟩, hcnt⟩ := hinv
  have hlt := (lookup_some_lt h).1
  refine ⟨⟨ks, chain_set hch _ _ (live_not_free hch h), hnd⟩, ?_⟩
  intro j d w hj
  have := lookup_set_occ s i c' v s.next hlt j
  rw [this] at hj
  by_cases e : j = i
  · simp [e] at hj; omega
  · simp only [e, ↓reduceIte] at hj; exact hcnt j d w hj

theorem inv_remove (s : St) (i c : Nat) (v : Val) (hinv : Inv s) (h : lookup s i = some (c, v)) :
    Inv (remove s i) := by
  obtain ⟨⟨ks, hch, hnd⟩, hcnt⟩ := hinv
  have hlt := (lookup_some_lt h).1
  have hnotin := live_not_free hch h
  unfold remove
  refine ⟨⟨i :: ks, Chain.step (n := s.next) ?_ (chain_set hch _ _ hnotin), List.nodup_cons.2 ⟨hnotin, hnd⟩⟩, ?_⟩
  · simp [hlt]
  · intro j d w hj
    have := lookup_set_vacant s i s.next i hlt j
    rw [this] at hj
    by_cases e : j = i
    · simp [e] at hj
    · simp only [e, ↓reduceIte] at hj; exact hcnt j d w hj

theorem step_op {s : St} {c : Call} (h : isOp c = true) :
    step s c = match readPhase s c with
      | .ok v => ((insert s v).1, .idx (insert s v).2)
      | .error e => (s, .err e) := by
  cases c <;> simp [isOp] at h <;> rfl

theorem valuesF_congr (f g : Nat → Option Val) (is : List Nat) (h : ∀ i ∈ is, f i = g i) :
    valuesF f is = valuesF g is := by
  induction is with
  | nil => rfl
  | cons i is ih =>
    unfold valuesF
    rw [h i List.mem_cons_self, ih (fun j hj => h j (List.mem_cons_of_mem _ hj))]

/-- The read phase depends on the store only through the values of the operands. -/
theorem readPhaseF_congr (f g : Nat → Option Val) (c : Call) (h : ∀ i ∈ operands c, f i = g i) :
    readPhaseF f c = readPhaseF g c := by
  cases c with
  | op1 fn i => simp only [readPhaseF]; rw [h i (by simp [operands])]
  | op2 fn i j =>
    simp only [readPhaseF]
    rw [h i (by simp [operands]), h j (by simp [operands])]
  | opn fn is => simp only [readPhaseF]; rw [valuesF_congr f g is (fun i hi => h i (by simpa [operands] using hi))]
  | _ => rfl

theorem valuesF_some_live (f : Nat → Option Val) (is : List Nat) (vs : List Val)
    (h : valuesF f is = some vs) : ∀ i ∈ is, (f i).isSome = true := by
  induction is generalizing vs with
  | nil => intro i hi; cases hi
  | cons i is ih =>
    unfold valuesF at h
    intro j hj
    cases hfi : f i with
    | none => simp [hfi] at h
    | some v =>
      cases hvs : valuesF f is with
      | none => simp [hfi, hvs] at h
      | some ws =>
        cases hj with
        | head => simp [hfi]
        | tail _ hm => exact ih ws hvs j hm

/-- A successful read phase means every operand is live. -/
theorem readPhaseF_ok_live (f : Nat → Option Val) (c : Call) (v : Val) (hop : isOp c = true)
    (h : readPhaseF f c = .ok v) : ∀ i ∈ operands c, (f i).isSome = true := by
  cases c with
  | op1 fn i =>
    simp only [readPhaseF] at h
    intro k hk
    simp [operands] at hk; subst hk
    cases hfi : f k with
    | none => simp [hfi] at h
    | some _ => rfl
  | op2 fn i j =>
    simp only [readPhaseF] at h
    intro k hk
    simp [operands] at hk
    cases hfi : f i with
    | none => simp [hfi] at h
    | some a =>
      cases hfj : f j with
      | none => simp [hfi, hfj] at h
      | some b => rcases hk with rfl | rfl <;> simp [hfi, hfj]
  | opn fn is =>
    simp only [readPhaseF] at h
    cases hvs : valuesF f is with
    | none => simp [hvs] at h
    | some vs => exact valuesF_some_live f is vs hvs
  | _ => simp [isOp] at hop

end Moc.Store
