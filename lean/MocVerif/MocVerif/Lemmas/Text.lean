/-
  Character-level lemmas for the ASCII codec (C07, C11, C12): decimal printing is inverted by the
  lexer's number parser, and the lexer run on the concatenated token texts returns the tokens.
-/
import MocVerif.Model.Codec

namespace Moc.Codec
open Moc

/-! ### Digits -/

theorem digitOf_spec : ∀ k, k < 10 →
    isDigit (digitOf k) = true ∧ (digitOf k).toNat - '0'.toNat = k ∧ isSpace (digitOf k) = false := by
  intro k hk
  match k, hk with
  | 0, _ => decide | 1, _ => decide | 2, _ => decide | 3, _ => decide | 4, _ => decide
  | 5, _ => decide | 6, _ => decide | 7, _ => decide | 8, _ => decide | 9, _ => decide

/-- A decimal digit character. -/
def IsDig (c : Char) : Prop := ∃ k, k < 10 ∧ c = digitOf k

theorem IsDig.isDigit {c : Char} (h : IsDig c) : isDigit c = true := by
  obtain ⟨k, hk, rfl⟩ := h; exact (digitOf_spec k hk).1

theorem IsDig.notSpace {c : Char} (h : IsDig c) : isSpace c = false := by
  obtain ⟨k, hk, rfl⟩ := h; exact (digitOf_spec k hk).2.2

theorem showNat_digits (n : Nat) : ∀ c ∈ showNat n, IsDig c := by
  induction n using Nat.strongRecOn with
  | _ n ih =>
    rw [showNat]
    split
    · intro c hc
      simp only [List.mem_singleton] at hc
      exact ⟨n, by omega, hc⟩
    · intro c hc
      simp only [List.mem_append, List.mem_singleton] at hc
      cases hc with
      | inl h => exact ih (n / 10) (by omega) c h
      | inr h => exact ⟨n % 10, by omega, h⟩

theorem showNat_ne_nil (n : Nat) : showNat n ≠ [] := by
  rw [showNat]; split <;> simp

/-- The first character of a printed number is a digit. -/
theorem showNat_head (n : Nat) : ∃ c t, showNat n = c :: t ∧ IsDig c := by
  cases h : showNat n with
  | nil => exact absurd h (showNat_ne_nil n)
  | cons c t => exact ⟨c, t, rfl, showNat_digits n c (by rw [h]; simp)⟩

theorem digitsVal_append (ds : List Char) (c : Char) :
    digitsVal (ds ++ [c]) = digitsVal ds * 10 + (c.toNat - '0'.toNat) := by
  simp [digitsVal, List.foldl_append]

/-- **Printing then reading a number is the identity.** -/
theorem digitsVal_showNat (n : Nat) : digitsVal (showNat n) = n := by
  induction n using Nat.strongRecOn with
  | _ n ih =>
    rw [showNat]
    split
    · rename_i h
      have := (digitOf_spec n h).2.1
      simp only [digitsVal, List.foldl_cons, List.foldl_nil]
      omega
    · rw [digitsVal_append, ih (n / 10) (by omega), (digitOf_spec (n % 10) (by omega)).2.1]
      omega

theorem takeDigits_append (ds : List Char) (hd : ∀ c ∈ ds, IsDig c) (c : Char) (rest : List Char)
    (hc : isDigit c = false) : takeDigits (ds ++ c :: rest) = (ds, c :: rest) := by
  induction ds with
  | nil => simp [takeDigits, hc]
  | cons d t ih =>
    have hd1 : isDigit d = true := (hd d (by simp)).isDigit
    have := ih (fun c h => hd c (by simp [h]))
    simp only [List.cons_append, takeDigits, hd1, ↓reduceIte, this]

/-- The number lexer on a printed number followed by a non-digit. -/
theorem lexNum_showNat (w n : Nat) (hn : n < 2 ^ w) (c : Char) (rest : List Char)
    (hc : isDigit c = false) : lexNum w (showNat n ++ c :: rest) = some (n, c :: rest) := by
  unfold lexNum
  rw [takeDigits_append _ (showNat_digits n) c rest hc]
  have : (showNat n).isEmpty = false := by
    cases h : showNat n with
    | nil => exact absurd h (showNat_ne_nil n)
    | cons _ _ => rfl
  simp only [this, Bool.false_eq_true, ↓reduceIte, digitsVal_showNat, hn]

/-! ### Tokens -/

/-- What the lexer can print and read back on `w` bits. -/
def TokOk (w : Nat) : Tok → Prop
  | .depth d => d < 2 ^ w
  | .cell i => i < 2 ^ w
  | .range s e => s < e ∧ e < 2 ^ w

/-- The separator left in the input after a token. -/
def tokSep : Tok → List Char
  | .depth _ => []
  | _ => [' ']

theorem lexTok_show (w : Nat) (t : Tok) (ht : TokOk w t) (X : List Char) :
    lexTok w (showTokC t ++ X) = some (t, tokSep t ++ X) := by
  cases t with
  | depth d =>
    simp only [showTokC, List.append_assoc, List.cons_append, List.nil_append, lexTok, tokSep]
    rw [lexNum_showNat w d ht '/' X (by decide)]
    rfl
  | cell i =>
    simp only [showTokC, List.append_assoc, List.cons_append, List.nil_append, lexTok, tokSep]
    rw [lexNum_showNat w i ht ' ' X (by decide)]
    rfl
  | range s e =>
    obtain ⟨h1, h2⟩ := ht
    simp only [showTokC, List.append_assoc, List.cons_append, List.nil_append, lexTok, tokSep]
    rw [lexNum_showNat w s (by omega) '-' _ (by decide)]
    simp only []
    rw [lexNum_showNat w (e - 1) (by omega) ' ' X (by decide)]
    have : e - 1 + 1 = e := by omega
    simp only [this, h2, ↓reduceIte]

theorem showTokC_head (t : Tok) : ∃ c r, showTokC t = c :: r ∧ IsDig c := by
  cases t with
  | depth d => obtain ⟨c, r, h, hc⟩ := showNat_head d; exact ⟨c, r ++ ['/'], by simp [showTokC, h], hc⟩
  | cell i => obtain ⟨c, r, h, hc⟩ := showNat_head i; exact ⟨c, r ++ [' '], by simp [showTokC, h], hc⟩
  | range s e =>
    obtain ⟨c, r, h, hc⟩ := showNat_head s
    exact ⟨c, r ++ '-' :: (showNat (e - 1) ++ [' ']), by simp [showTokC, h], hc⟩

/-! ### White space -/

def AllSpace (l : List Char) : Prop := ∀ c ∈ l, isSpace c = true

theorem dropSpaces_allSpace (sp : List Char) (h : AllSpace sp) (l : List Char) :
    dropSpaces (sp ++ l) = dropSpaces l := by
  induction sp with
  | nil => rfl
  | cons c t ih =>
    have hc : isSpace c = true := h c (by simp)
    simp only [List.cons_append, dropSpaces, hc, ↓reduceIte]
    exact ih (fun c h' => h c (by simp [h']))

theorem dropSpaces_nonspace (c : Char) (l : List Char) (h : isSpace c = false) :
    dropSpaces (c :: l) = c :: l := by
  simp [dropSpaces, h]

theorem dropSpaces_only (sp : List Char) (h : AllSpace sp) : dropSpaces sp = [] := by
  have := dropSpaces_allSpace sp h []
  simpa [dropSpaces] using this

theorem allSpace_tokSep (t : Tok) : AllSpace (tokSep t) := by
  cases t <;> simp [tokSep, AllSpace] <;> decide

/-- Concatenated token texts. -/
def showToks (ts : List Tok) : List Char := (ts.map showTokC).flatten

theorem showToks_cons (t : Tok) (ts : List Tok) : showToks (t :: ts) = showTokC t ++ showToks ts := by
  simp [showToks]

theorem showToks_head (t : Tok) (ts : List Tok) (X : List Char) :
    ∃ c r, showToks (t :: ts) ++ X = c :: r ∧ IsDig c := by
  obtain ⟨c, r, h, hc⟩ := showTokC_head t
  exact ⟨c, r ++ showToks ts ++ X, by simp [showToks_cons, h], hc⟩

/-- **The lexer inverts the writer's tokenisation**: for every non-empty list of printable tokens,
    whatever white space precedes and follows, with enough fuel. -/
theorem lexAll_showToks (w : Nat) : ∀ (ts : List Tok), ts ≠ [] → (∀ t ∈ ts, TokOk w t) →
    ∀ (fuel : Nat), ts.length ≤ fuel → ∀ (sp tail : List Char), AllSpace sp → AllSpace tail →
    lexAll w fuel (sp ++ (showToks ts ++ tail)) = some ts := by
  intro ts
  induction ts with
  | nil => intro h; exact absurd rfl h
  | cons t ts ih =>
    intro _ hok fuel hf sp tail hsp htail
    cases fuel with
    | zero => simp at hf
    | succ fuel =>
      have hf' : ts.length ≤ fuel := by simp only [List.length_cons] at hf; omega
      obtain ⟨c, r, hcr, hc⟩ := showToks_head t ts tail
      have e1 : dropSpaces (sp ++ (showToks (t :: ts) ++ tail)) = showTokC t ++ (showToks ts ++ tail) := by
        rw [dropSpaces_allSpace sp hsp, hcr, dropSpaces_nonspace c r hc.notSpace, ← hcr, showToks_cons,
          List.append_assoc]
      unfold lexAll
      rw [e1, lexTok_show w t (hok t (by simp)) _]
      simp only []
      cases ts with
      | nil =>
        have : dropSpaces (tokSep t ++ (showToks [] ++ tail)) = [] := by
          simp only [showToks, List.map_nil, List.flatten_nil, List.nil_append]
          rw [dropSpaces_allSpace _ (allSpace_tokSep t)]
          exact dropSpaces_only tail htail
        simp [this]
      | cons t2 ts2 =>
        obtain ⟨c2, r2, hcr2, hc2⟩ := showToks_head t2 ts2 tail
        have : dropSpaces (tokSep t ++ (showToks (t2 :: ts2) ++ tail)) = c2 :: r2 := by
          rw [dropSpaces_allSpace _ (allSpace_tokSep t), hcr2, dropSpaces_nonspace c2 r2 hc2.notSpace]
        rw [this]
        simp only [List.isEmpty_cons, Bool.false_eq_true, ↓reduceIte]
        rw [ih (by simp) (fun t' h' => hok t' (by simp [h'])) fuel hf' (tokSep t) tail (allSpace_tokSep t) htail]

theorem showTokC_length (t : Tok) : 1 ≤ (showTokC t).length := by
  cases t <;> simp [showTokC] <;> omega

theorem showToks_length (ts : List Tok) : ts.length ≤ (showToks ts).length := by
  induction ts with
  | nil => simp
  | cons t ts ih =>
    rw [showToks_cons]
    have := showTokC_length t
    simp only [List.length_cons, List.length_append]
    omega

end Moc.Codec
