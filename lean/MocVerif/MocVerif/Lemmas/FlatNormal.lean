/-
  C09 / C10 — the valid flat form of a space-time coverage is a NORMAL form: two valid flat coverages
  covering the same (instant, position) pairs are equal.
-/
import MocVerif.Lemmas.Merge2D

namespace Moc.Merge2D
open Moc

theorem canon_witness {lo : Nat} {S : Space} (h : CanonFrom lo S) (hne : S ≠ []) : ∃ s, mem s S := by
  cases S with
  | nil => exact absurd rfl hne
  | cons r t => exact ⟨r.1, Or.inl ⟨Nat.le_refl _, h.2.1⟩⟩

/-- Entries of a valid flat coverage start at or after `pe`. -/
theorem VF.starts {P : Space → Prop} : ∀ {g : FlatST} {pe : Nat} {ps : Option Space}, VF P pe ps g →
    ∀ e ∈ g, pe ≤ e.1.1 := by
  intro g
  induction g with
  | nil => intro pe ps _ e he; cases he
  | cons x r ih =>
    intro pe ps h e he
    obtain ⟨h1, h2, _, _, _, h6⟩ := h
    cases he with
    | head => exact h1
    | tail _ hm => have := ih h6 e hm; omega

theorem memFlat_cons (t s : Nat) (x : Rng × Space) (r : FlatST) :
    memFlat t s (x :: r) ↔ (x.1.1 ≤ t ∧ t < x.1.2 ∧ mem s x.2) ∨ memFlat t s r := by
  rw [show (x :: r) = [x] ++ r from rfl, memFlat_append, memFlat_single]

/-- **Normal form**: two valid flat coverages with the same point set are equal. -/
theorem VF.ext : ∀ (a b : FlatST) (pe : Nat) (ps : Option Space), VF Canon pe ps a → VF Canon pe ps b →
    (∀ t s, memFlat t s a ↔ memFlat t s b) → a = b := by
  intro a
  induction a with
  | nil =>
    intro b pe ps _ hb h
    cases b with
    | nil => rfl
    | cons f r =>
      exfalso
      obtain ⟨_, f2, f3, f4, _, _⟩ := hb
      obtain ⟨s0, hs0⟩ := canon_witness f4 f3
      have := (h f.1.1 s0).2 ((memFlat_cons _ _ _ _).2 (Or.inl ⟨Nat.le_refl _, f2, hs0⟩))
      obtain ⟨e, he, _⟩ := this
      cases he
  | cons e ra ih =>
    intro b pe ps ha hb h
    cases b with
    | nil =>
      exfalso
      obtain ⟨_, e2, e3, e4, _, _⟩ := ha
      obtain ⟨s0, hs0⟩ := canon_witness e4 e3
      have := (h e.1.1 s0).1 ((memFlat_cons _ _ _ _).2 (Or.inl ⟨Nat.le_refl _, e2, hs0⟩))
      obtain ⟨x, hx, _⟩ := this
      cases hx
    | cons f rb =>
      obtain ⟨e1, e2, e3, e4, e5, e6⟩ := ha
      obtain ⟨f1, f2, f3, f4, f5, f6⟩ := hb
      have sa := VF.starts e6
      have sb := VF.starts f6
      -- only the head covers an instant before its end
      have ha_head : ∀ t s, t < e.1.2 → (memFlat t s (e :: ra) ↔ e.1.1 ≤ t ∧ mem s e.2) := by
        intro t s ht
        rw [memFlat_cons]
        constructor
        · rintro (⟨a1, _, a3⟩ | ⟨x, hx, x1, _, _⟩)
          · exact ⟨a1, a3⟩
          · have := sa x hx; omega
        · rintro ⟨a1, a3⟩; exact Or.inl ⟨a1, ht, a3⟩
      have hb_head : ∀ t s, t < f.1.2 → (memFlat t s (f :: rb) ↔ f.1.1 ≤ t ∧ mem s f.2) := by
        intro t s ht
        rw [memFlat_cons]
        constructor
        · rintro (⟨a1, _, a3⟩ | ⟨x, hx, x1, _, _⟩)
          · exact ⟨a1, a3⟩
          · have := sb x hx; omega
        · rintro ⟨a1, a3⟩; exact Or.inl ⟨a1, ht, a3⟩
      obtain ⟨se, hse⟩ := canon_witness e4 e3
      obtain ⟨sf, hsf⟩ := canon_witness f4 f3
      -- same start
      have hstart : e.1.1 = f.1.1 := by
        have h1 : f.1.1 ≤ e.1.1 := by
          have := (h e.1.1 se).1 ((ha_head _ _ e2).2 ⟨Nat.le_refl _, hse⟩)
          rw [memFlat_cons] at this
          rcases this with ⟨a1, _, _⟩ | ⟨x, hx, x1, _, _⟩
          · exact a1
          · have := sb x hx; omega
        have h2 : e.1.1 ≤ f.1.1 := by
          have := (h f.1.1 sf).2 ((hb_head _ _ f2).2 ⟨Nat.le_refl _, hsf⟩)
          rw [memFlat_cons] at this
          rcases this with ⟨a1, _, _⟩ | ⟨x, hx, x1, _, _⟩
          · exact a1
          · have := sa x hx; omega
        omega
      -- same coverage
      have hspace : e.2 = f.2 := by
        apply Canon.ext e4 f4
        intro s
        have k1 := ha_head e.1.1 s e2
        have k2 := hb_head f.1.1 s f2
        rw [hstart] at k1
        have := h f.1.1 s
        rw [k1, k2] at this
        simpa using this
      -- same end
      have hend_le : ∀ (x y : Rng × Space) (rx ry : FlatST), x.1.1 = y.1.1 → x.2 = y.2 → x.1.1 < x.1.2 → y.1.1 < y.1.2 →
          Canon x.2 → x.2 ≠ [] → VF Canon x.1.2 (some x.2) rx → (∀ z ∈ ry, y.1.2 ≤ z.1.1) →
          (∀ t s, memFlat t s (x :: rx) ↔ memFlat t s (y :: ry)) → ¬ x.1.2 < y.1.2 := by
        intro x y rx ry hst hsp hx hy hcx hnx hvx hry hxy hlt
        obtain ⟨s0, hs0⟩ := canon_witness hcx hnx
        -- `y` covers the instant `x.1.2`; in `x :: rx` only the next entry can, and it then has the same coverage
        have hcov : ∀ s, memFlat x.1.2 s (x :: rx) ↔ mem s y.2 := by
          intro s
          rw [hxy, memFlat_cons]
          constructor
          · rintro (⟨_, _, a3⟩ | ⟨z, hz, z1, _, _⟩)
            · exact a3
            · have := hry z hz; omega
          · intro hm; exact Or.inl ⟨by omega, hlt, hm⟩
        cases rx with
        | nil =>
          have := (hcov s0).2 (by rw [← hsp]; exact hs0)
          rw [memFlat_cons] at this
          rcases this with ⟨_, a2, _⟩ | ⟨z, hz, _⟩
          · omega
          · cases hz
        | cons g rg =>
          obtain ⟨g1, g2, g3, g4, g5, g6⟩ := hvx
          have sg := VF.starts g6
          have hg_cov : ∀ s, memFlat x.1.2 s (x :: g :: rg) ↔ (g.1.1 ≤ x.1.2 ∧ mem s g.2) := by
            intro s
            rw [memFlat_cons, memFlat_cons]
            constructor
            · rintro (⟨_, a2, _⟩ | ⟨a1, _, a3⟩ | ⟨z, hz, z1, _, _⟩)
              · omega
              · exact ⟨a1, a3⟩
              · have := sg z hz; omega
            · rintro ⟨a1, a3⟩
              exact Or.inr (Or.inl ⟨a1, by omega, a3⟩)
          have htouch : g.1.1 = x.1.2 := by
            have := (hg_cov s0).1 ((hcov s0).2 (by rw [← hsp]; exact hs0))
            omega
          have hsame : g.2 = x.2 := by
            apply Canon.ext g4 hcx
            intro s
            have k := hg_cov s
            rw [hcov s, ← hsp] at k
            constructor
            · intro hm; exact k.2 ⟨by omega, hm⟩
            · intro hm; exact (k.1 hm).2
          exact g5 ⟨htouch.symm, by rw [hsame]⟩
      have hend : e.1.2 = f.1.2 := by
        have n1 := hend_le e f ra rb hstart hspace e2 f2 e4 e3 e6 sb h
        have n2 := hend_le f e rb ra hstart.symm hspace.symm f2 e2 f4 f3 f6 sa (fun t s => (h t s).symm)
        omega
      have hef : e = f := by
        obtain ⟨⟨e11, e12⟩, e2'⟩ := e
        obtain ⟨⟨f11, f12⟩, f2'⟩ := f
        simp only [] at hstart hspace hend
        subst hstart hspace hend
        rfl
      subst hef
      congr 1
      apply ih rb e.1.2 (some e.2) e6 f6
      intro t s
      have := h t s
      rw [memFlat_cons, memFlat_cons] at this
      constructor
      · intro hm
        obtain ⟨x, hx, x1, x2, x3⟩ := hm
        have hge := sa x hx
        rcases this.1 (Or.inr ⟨x, hx, x1, x2, x3⟩) with ⟨_, a2, _⟩ | h'
        · omega
        · exact h'
      · intro hm
        obtain ⟨x, hx, x1, x2, x3⟩ := hm
        have hge := sb x hx
        rcases this.2 (Or.inr ⟨x, hx, x1, x2, x3⟩) with ⟨_, a2, _⟩ | h'
        · omega
        · exact h'

end Moc.Merge2D

namespace Moc.Merge2D
open Moc

theorem InOk_of_VF : ∀ (g : FlatST) (pe : Nat) (ps : Option Space), VF Canon pe ps g → InOk pe g := by
  intro g
  induction g with
  | nil => intro _ _ _; trivial
  | cons e r ih =>
    intro pe ps h
    obtain ⟨h1, h2, _, h4, _, h6⟩ := h
    exact ⟨h1, h2, h4, ih e.1.2 (some e.2) h6⟩

end Moc.Merge2D
