/-
  Degradation: `MocRanges::degraded` and the lazy `DegradeRangeIter`.
-/
import MocVerif.Lemmas.Valid

namespace Moc

theorem floorTo_eq (s x : Nat) : floorTo s x = x / 2 ^ s * 2 ^ s := by
  simp [floorTo, Nat.shiftRight_eq_div_pow, Nat.shiftLeft_eq]

theorem ceilTo_eq (s x : Nat) : ceilTo s x = (x + (2 ^ s - 1)) / 2 ^ s * 2 ^ s := by
  simp [ceilTo, Nat.shiftRight_eq_div_pow, Nat.shiftLeft_eq]

/-- Round down / up to a multiple of `c`. -/
def fl (c x : Nat) : Nat := x / c * c
def ce (c x : Nat) : Nat := (x + (c - 1)) / c * c

theorem fl_le (c x : Nat) : fl c x ≤ x := Nat.div_mul_le_self x c

theorem le_ce (c x : Nat) (hc : 0 < c) : x ≤ ce c x := by
  unfold ce
  have h := Nat.lt_div_mul_add (a := x + (c - 1)) hc
  omega

theorem ce_add_div (c x : Nat) (hc : 0 < c) (hx : 0 < x) : (x + (c - 1)) / c = (x - 1) / c + 1 := by
  have : x + (c - 1) = (x - 1) + c := by omega
  rw [this, Nat.add_div_right _ hc]

/-- A point is in the degraded range iff it shares its cell with a point of the range. -/
theorem mem_degraded_range (c : Nat) (hc : 0 < c) (a b x : Nat) (hab : a < b) :
    (fl c a ≤ x ∧ x < ce c b) ↔ ∃ y, a ≤ y ∧ y < b ∧ x / c = y / c := by
  unfold fl ce
  rw [ce_add_div c b hc (by omega)]
  constructor
  · rintro ⟨h1, h2⟩
    have k1 : a / c ≤ x / c := (Nat.le_div_iff_mul_le hc).2 h1
    have k2 : x / c < (b - 1) / c + 1 := (Nat.div_lt_iff_lt_mul hc).2 h2
    by_cases hk : x / c = a / c
    · exact ⟨a, Nat.le_refl _, hab, hk⟩
    · refine ⟨x / c * c, ?_, ?_, ?_⟩
      · have : a / c + 1 ≤ x / c := by omega
        have h3 := Nat.mul_le_mul_right c this
        have h4 := Nat.lt_div_mul_add (a := a) hc
        rw [Nat.add_mul] at h3
        omega
      · have : x / c ≤ (b - 1) / c := by omega
        have h3 := Nat.mul_le_mul_right c this
        have h4 := Nat.div_mul_le_self (b - 1) c
        omega
      · rw [Nat.mul_div_cancel _ hc]
  · rintro ⟨y, h1, h2, h3⟩
    constructor
    · have : a / c ≤ y / c := Nat.div_le_div_right h1
      have h4 := Nat.mul_le_mul_right c this
      have h5 : y / c * c ≤ x := by rw [← h3]; exact Nat.div_mul_le_self x c
      omega
    · have : y / c ≤ (b - 1) / c := Nat.div_le_div_right (by omega)
      have h4 : x < (x / c + 1) * c := by
        have := Nat.lt_div_mul_add (a := x) hc
        rw [Nat.add_mul]; omega
      rw [h3] at h4
      have h5 := Nat.mul_le_mul_right c (Nat.add_le_add_right this 1)
      omega

theorem fl_mono (c : Nat) {x y : Nat} (h : x ≤ y) : fl c x ≤ fl c y :=
  Nat.mul_le_mul_right c (Nat.div_le_div_right h)

theorem ce_mono (c : Nat) {x y : Nat} (h : x ≤ y) : ce c x ≤ ce c y :=
  Nat.mul_le_mul_right c (Nat.div_le_div_right (by omega))

theorem degradeRange_eq (s : Nat) (r : Rng) : degradeRange s r = (fl (2 ^ s) r.1, ce (2 ^ s) r.2) := by
  simp [degradeRange, floorTo_eq, ceilTo_eq, fl, ce]

/-- The degraded list is sorted by start with non-empty ranges, and covers the degraded ranges. -/
theorem map_degrade_sorted (s : Nat) (l : List Rng) : ∀ lo, CanonFrom lo l →
    SortedFrom (fl (2 ^ s) lo) (l.map (degradeRange s)) := by
  induction l with
  | nil => intro lo _; trivial
  | cons r t ih =>
    intro lo h
    obtain ⟨h1, h2, h3⟩ := h
    have hc : 0 < 2 ^ s := Nat.pos_of_ne_zero (by simp)
    simp only [List.map, degradeRange_eq]
    refine ⟨fl_mono _ h1, ?_, ?_⟩
    · have := fl_le (2 ^ s) r.1
      have := le_ce (2 ^ s) r.2 hc
      simp; omega
    · have := ih (r.2 + 1) h3
      apply this.mono
      exact fl_mono _ (by omega)

theorem mem_map_degrade (s : Nat) (l : List Rng) (x : Nat) : ∀ lo, CanonFrom lo l →
    (mem x (l.map (degradeRange s)) ↔ ∃ y, mem y l ∧ x / 2 ^ s = y / 2 ^ s) := by
  induction l with
  | nil => intro lo _; simp
  | cons r t ih =>
    intro lo h
    obtain ⟨h1, h2, h3⟩ := h
    have hc : 0 < 2 ^ s := Nat.pos_of_ne_zero (by simp)
    simp only [List.map, mem_cons, degradeRange_eq]
    rw [ih (r.2 + 1) h3, mem_degraded_range (2 ^ s) hc r.1 r.2 x h2]
    constructor
    · rintro (⟨y, hy1, hy2, hy3⟩ | ⟨y, hy1, hy2⟩)
      · exact ⟨y, Or.inl ⟨hy1, hy2⟩, hy3⟩
      · exact ⟨y, Or.inr hy1, hy2⟩
    · rintro ⟨y, (⟨hy1, hy2⟩ | hy1), hy3⟩
      · exact Or.inl ⟨y, hy1, hy2, hy3⟩
      · exact Or.inr ⟨y, hy1, hy3⟩

/-- `MocRanges::degraded`: canonical, and covers exactly the cells (of size `2^s`) that meet the MOC. -/
theorem degradedShift_spec (s : Nat) (l : List Rng) (hl : Canon l) :
    Canon (degradedShift s l) ∧
    ∀ x, mem x (degradedShift s l) ↔ ∃ y, mem y l ∧ x / 2 ^ s = y / 2 ^ s := by
  have hs := map_degrade_sorted s l 0 hl
  have hm := mergeOverlapping_spec _ (hs.mono (Nat.zero_le _))
  exact ⟨hm.1, fun x => by rw [degradedShift, hm.2, mem_map_degrade s l x 0 hl]⟩

/-- The lazy iterator's loop (`cr.end = nr.end`, no `max`) coincides with the eager fuse on sorted
    degraded ranges because degraded ends are monotone. -/
theorem degradeFrom_eq (s : Nat) (t : List Rng) : ∀ (cur : Rng) (e : Nat), cur.2 = ce (2 ^ s) e →
    CanonFrom (e + 1) t →
    degradeFrom s cur t = mergeOvFrom cur (t.map (degradeRange s)) := by
  induction t with
  | nil => intro cur e _ _; rfl
  | cons n t ih =>
    intro cur e he hc
    obtain ⟨h1, h2, h3⟩ := hc
    simp only [degradeFrom, List.map, mergeOvFrom]
    have hmono : cur.2 ≤ (degradeRange s n).2 := by
      rw [degradeRange_eq, he]; exact ce_mono _ (by omega)
    by_cases hq : (degradeRange s n).1 > cur.2
    · have : ¬ (degradeRange s n).1 ≤ cur.2 := by omega
      rw [if_pos hq, if_neg this]
      congr 1
      exact ih _ n.2 (by rw [degradeRange_eq]) h3
    · have : (degradeRange s n).1 ≤ cur.2 := by omega
      rw [if_neg hq, if_pos this]
      have hmax : max (degradeRange s n).2 cur.2 = (degradeRange s n).2 := by omega
      rw [hmax]
      exact ih _ n.2 (by rw [degradeRange_eq]) h3

/-- `degrade(it, new_depth)` (case `new_depth < depth`) streams exactly `degraded`. -/
theorem degradeFrom_head_eq (s : Nat) (r : Rng) (t : List Rng) (lo : Nat) (h : CanonFrom lo (r :: t)) :
    degradeFrom s (degradeRange s r) t = degradedShift s (r :: t) := by
  rw [degradedShift, List.map, mergeOverlapping]
  exact degradeFrom_eq s t _ r.2 (by rw [degradeRange_eq]) h.2.2

end Moc
