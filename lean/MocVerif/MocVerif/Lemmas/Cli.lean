/-
  Lemmas for the CLI model (C19): scaling a MOC to a wider index type.
-/
import MocVerif.Model.Cli
import MocVerif.Lemmas.Canon

namespace Moc.Cli
open Moc

def scale (k : Nat) (rs : List Rng) : List Rng := rs.map fun r => (r.1 <<< k, r.2 <<< k)

theorem shl_le (k a b : Nat) : a <<< k ≤ b <<< k ↔ a ≤ b := by
  simp only [Nat.shiftLeft_eq]
  exact Nat.mul_le_mul_right_iff (Nat.two_pow_pos k)

theorem shl_lt (k a b : Nat) : a <<< k < b <<< k ↔ a < b := by
  simp only [Nat.shiftLeft_eq]
  exact Nat.mul_lt_mul_right (Nat.two_pow_pos k)

/-- Membership after scaling: `x` is covered iff the cell of `x` at the old resolution was. -/
theorem mem_scale (k : Nat) (rs : List Rng) (x : Nat) : mem x (scale k rs) ↔ mem (x / 2 ^ k) rs := by
  induction rs with
  | nil => simp [scale, mem]
  | cons r t ih =>
    have ih' : mem x (List.map (fun r => (r.1 <<< k, r.2 <<< k)) t) ↔ mem (x / 2 ^ k) t := ih
    simp only [scale, List.map_cons, mem, ih']
    have hp := Nat.two_pow_pos k
    have h1 : r.1 <<< k ≤ x ↔ r.1 ≤ x / 2 ^ k := by
      rw [Nat.shiftLeft_eq]; exact (Nat.le_div_iff_mul_le hp).symm
    have h2 : x < r.2 <<< k ↔ x / 2 ^ k < r.2 := by
      rw [Nat.shiftLeft_eq]; exact (Nat.div_lt_iff_lt_mul hp).symm
    rw [h1, h2]

theorem canonFrom_scale (k : Nat) : ∀ (rs : List Rng) (lo : Nat), CanonFrom lo rs → CanonFrom (lo <<< k) (scale k rs) := by
  intro rs
  induction rs with
  | nil => intro lo _; trivial
  | cons r t ih =>
    intro lo h
    obtain ⟨h1, h2, h3⟩ := h
    refine ⟨(shl_le k _ _).2 h1, (shl_lt k _ _).2 h2, ?_⟩
    have := ih (r.2 + 1) h3
    refine CanonFrom.mono this ?_
    show r.2 <<< k + 1 ≤ (r.2 + 1) <<< k
    simp only [Nat.shiftLeft_eq, Nat.add_mul, Nat.one_mul]
    have := Nat.two_pow_pos k
    omega

theorem canon_scale (k : Nat) (rs : List Rng) (h : Canon rs) : Canon (scale k rs) := by
  have := canonFrom_scale k rs 0 h
  simpa [Canon] using this

theorem laterOk_map (f : Rng → Rng) : ∀ (later : List (Nat × Option Nat)) (items : List Rng),
    laterOk items later → laterOk (items.map f) later := by
  intro later
  induction later with
  | nil => intro _ _; trivial
  | cons h t ih =>
    intro items hl
    obtain ⟨h1, h2, h3⟩ := hl
    refine ⟨by simpa using h1, fun n hn => by simpa using h2 n hn, ?_⟩
    have := ih items.tail h3
    simpa [List.map_tail] using this

/-- `ConvertIterator` forwards consistent hints. -/
theorem convertSrc_hintOkAll (k md : Nat) (s : Src) (hs : s.HintOkAll) : (convertSrc k md s).HintOkAll := by
  obtain ⟨⟨hl, hlo, hhi⟩, hlater⟩ := hs
  refine ⟨⟨?_, by simpa [convertSrc] using hlo, fun n hn => by simpa [convertSrc] using hhi n hn⟩,
    laterOk_map _ s.later s.items hlater⟩
  intro r hr
  simp only [convertSrc, Option.map_eq_some_iff] at hr
  obtain ⟨r0, hr0, rfl⟩ := hr
  obtain ⟨a, b⟩ := hl r0 hr0
  refine ⟨(shl_lt k _ _).2 a, ?_⟩
  intro c hc
  simp only [convertSrc, List.mem_map] at hc
  obtain ⟨c0, hc0, rfl⟩ := hc
  exact (shl_le k _ _).2 (b c0 hc0)

theorem convertSrc_items (k md : Nat) (s : Src) : (convertSrc k md s).items = scale k s.items := rfl

/-- What `promote` does: same stream when the widths agree, scaled stream otherwise; hints stay
    consistent, the list stays canonical, membership is membership of the coarser index. -/
theorem promote_spec (q : Qty) (wf wt : Nat) (s : Src) (hw : wf ≤ wt) (hs : s.HintOkAll) (cs : Canon s.items) :
    (promote q wf wt s).HintOkAll ∧ Canon (promote q wf wt s).items ∧
    ∀ x, mem x (promote q wf wt s).items ↔ mem (x / 2 ^ (wt - wf)) s.items := by
  unfold promote
  by_cases h : wf = wt
  · subst h
    simp only [↓reduceIte, Nat.sub_self, Nat.pow_zero, Nat.div_one]
    exact ⟨hs, cs, fun _ => trivial⟩
  · simp only [h, ↓reduceIte]
    exact ⟨convertSrc_hintOkAll _ _ s hs, canon_scale _ _ cs, fun x => mem_scale _ _ x⟩

end Moc.Cli

namespace Moc.Cli
open Moc

theorem shl_shl (a m k : Nat) : (a <<< m) <<< k = a <<< (m + k) := by
  simp only [Nat.shiftLeft_eq, Nat.pow_add, Nat.mul_assoc]

/-- Scaling a MOC valid for a `wf`-bit index type gives a MOC valid for the wider `wt`-bit type, when
    the two deepest levels differ by exactly the width difference (true of the three quantities for
    16 / 32 / 64 bits: `promotion_table`). -/
theorem valid_scale (q : Qty) (wf wt d : Nat) (rs : List Rng) (hd : d ≤ q.maxDepth wf)
    (hk : q.dim * q.maxDepth wt = q.dim * q.maxDepth wf + (wt - wf))
    (hv : Valid q wf d rs) : Valid q wt d (scale (wt - wf) rs) := by
  obtain ⟨hc, hb, ha⟩ := hv
  have hmd : q.maxDepth wf ≤ q.maxDepth wt ∨ q.dim = 0 := by
    by_cases h0 : q.dim = 0
    · exact Or.inr h0
    · left
      have : q.dim * q.maxDepth wf ≤ q.dim * q.maxDepth wt := by omega
      exact Nat.le_of_mul_le_mul_left this (Nat.pos_of_ne_zero h0)
  refine ⟨canon_scale _ _ hc, ?_, ?_⟩
  · intro r hr
    obtain ⟨r0, hr0, rfl⟩ := List.mem_map.1 hr
    have := hb r0 hr0
    show r0.2 <<< (wt - wf) ≤ q.nCellsMax wt
    unfold Qty.nCellsMax at *
    rw [hk, ← shl_shl]
    exact (shl_le _ _ _).2 this
  · intro r hr
    obtain ⟨r0, hr0, rfl⟩ := List.mem_map.1 hr
    obtain ⟨a1, a2⟩ := ha r0 hr0
    have hcs : q.cellSize wt d = q.cellSize wf d <<< (wt - wf) := by
      unfold Qty.cellSize Qty.shiftFromMax
      rw [shl_shl]
      congr 1
      rcases hmd with h | h
      · have e1 : q.dim * (q.maxDepth wt - d) = q.dim * q.maxDepth wt - q.dim * d := Nat.mul_sub q.dim _ _
        have e2 : q.dim * (q.maxDepth wf - d) = q.dim * q.maxDepth wf - q.dim * d := Nat.mul_sub q.dim _ _
        have e3 : q.dim * d ≤ q.dim * q.maxDepth wf := Nat.mul_le_mul_left _ hd
        omega
      · rw [h] at hk ⊢; simp at hk ⊢; omega
    show q.cellSize wt d ∣ r0.1 <<< (wt - wf) ∧ q.cellSize wt d ∣ r0.2 <<< (wt - wf)
    rw [hcs]
    simp only [Nat.shiftLeft_eq]
    exact ⟨Nat.mul_dvd_mul_right a1 _, Nat.mul_dvd_mul_right a2 _⟩

end Moc.Cli
