/-
  Lemmas for the FITS file model (C07): card and block lengths, card extraction, the unsigned value
  of a card, the data unit.
-/
import MocVerif.Model.Fits
import MocVerif.Lemmas.Text

namespace Moc.Fits
open Moc Moc.Codec

theorem pad_length (n : Nat) (cs : List Char) (h : cs.length ≤ n) : (pad n cs).length = n := by
  simp [pad]; omega

/-- Number of decimal digits. -/
theorem showNat_length (k : Nat) : ∀ n, n < 10 ^ (k + 1) → (showNat n).length ≤ k + 1 := by
  induction k with
  | zero =>
    intro n hn
    rw [showNat]
    have : n < 10 := by simpa using hn
    simp [this]
  | succ k ih =>
    intro n hn
    rw [showNat]
    split
    · simp
    · have : n / 10 < 10 ^ (k + 1) := by
        rw [Nat.pow_succ] at hn
        exact Nat.div_lt_of_lt_mul (by rw [Nat.mul_comm]; exact hn)
      have := ih (n / 10) this
      simp only [List.length_append, List.length_singleton]
      omega

theorem cardFixed_length (kw v : List Char) (hk : kw.length = 8) (hv : v.length ≤ 20) :
    (cardFixed kw v).length = 80 := by
  unfold cardFixed
  apply pad_length
  simp only [List.length_append, List.length_cons, List.length_replicate, hk]
  omega

theorem cardFree_length (kw v : List Char) (hk : kw.length = 8) (hv : v.length ≤ 70) :
    (cardFree kw v).length = 80 := by
  unfold cardFree
  apply pad_length
  simp only [List.length_append, List.length_cons, hk]
  omega

theorem endCard_length : endCard.length = 80 := by
  unfold endCard
  exact pad_length 80 _ (by simp)

/-- All cards have 80 characters. -/
abbrev Cards80 (cards : List (List Char)) : Prop := ∀ c ∈ cards, c.length = 80

theorem flatten_length80 (cards : List (List Char)) (h : Cards80 cards) : cards.flatten.length = 80 * cards.length := by
  induction cards with
  | nil => rfl
  | cons c t ih =>
    have hc : c.length = 80 := h c (by simp)
    have := ih (fun x hx => h x (by simp [hx]))
    simp only [List.flatten_cons, List.length_append, List.length_cons, hc, this]
    omega

theorem block_length (cards : List (List Char)) (h : Cards80 cards) (hn : cards.length ≤ 36) :
    (block cards).length = 2880 := by
  unfold block
  apply pad_length
  rw [flatten_length80 cards h]
  omega

/-- Card `i` of a block (followed by anything) is the `i`-th card written. -/
theorem getCard_flatten (cards : List (List Char)) (h : Cards80 cards) (rest : List Char) :
    ∀ (i : Nat) (c : List Char), cards[i]? = some c → getCard (cards.flatten ++ rest) i = c := by
  induction cards with
  | nil => intro i c hc; simp at hc
  | cons c0 t ih =>
    intro i c hc
    have h0 : c0.length = 80 := h c0 (by simp)
    cases i with
    | zero =>
      simp only [List.getElem?_cons_zero, Option.some.injEq] at hc
      subst hc
      unfold getCard
      simp only [Nat.mul_zero, List.drop_zero, List.flatten_cons, List.append_assoc]
      rw [← h0, List.take_left]
    | succ i =>
      simp only [List.getElem?_cons_succ] at hc
      have := ih (fun x hx => h x (by simp [hx])) i c hc
      unfold getCard at this ⊢
      simp only [List.flatten_cons, List.append_assoc]
      have e : 80 * (i + 1) = c0.length + 80 * i := by omega
      rw [e, List.drop_append]
      simp only [Nat.add_sub_cancel_left]
      rw [List.drop_of_length_le (by omega), List.nil_append]
      exact this

theorem getCard_block (cards : List (List Char)) (h : Cards80 cards) (rest : List Char) (i : Nat) (c : List Char)
    (hc : cards[i]? = some c) : getCard (block cards ++ rest) i = c := by
  unfold block pad
  rw [List.append_assoc]
  exact getCard_flatten cards h _ i c hc

/-- A card of the second block of a two-block header. -/
theorem getCard_second (A B : List Char) (hA : A.length = 2880) (j : Nat) :
    getCard (A ++ B) (36 + j) = getCard B j := by
  unfold getCard
  have e : 80 * (36 + j) = A.length + 80 * j := by omega
  rw [e, List.drop_append]
  simp only [Nat.add_sub_cancel_left]
  rw [List.drop_of_length_le (by omega), List.nil_append]

theorem dropSpaces_replicate (k : Nat) (l : List Char) : dropSpaces (List.replicate k ' ' ++ l) = dropSpaces l := by
  apply dropSpaces_allSpace
  intro c hc
  rw [List.mem_replicate] at hc
  rw [hc.2]; decide

/-- **The unsigned value written in a mandatory card is read back** (`parse_uint_val` on
    `write_uint_mandatory_keyword_record`). -/
theorem readUint_cardFixed (kw : List Char) (n : Nat) (hk : kw.length = 8) (hv : (showNat n).length ≤ 20) :
    readUint (cardFixed kw (showNat n)) = some n := by
  unfold readUint cardFixed pad
  have e : (kw ++ '=' :: ' ' :: (List.replicate (20 - (showNat n).length) ' ' ++ showNat n) ++
      List.replicate (80 - (kw ++ '=' :: ' ' :: (List.replicate (20 - (showNat n).length) ' ' ++ showNat n)).length) ' ').drop 10
      = List.replicate (20 - (showNat n).length) ' ' ++ (showNat n ++ List.replicate 50 ' ') := by
    have hl : (kw ++ '=' :: ' ' :: (List.replicate (20 - (showNat n).length) ' ' ++ showNat n)).length = 30 := by
      simp only [List.length_append, List.length_cons, List.length_replicate, hk]; omega
    rw [hl]
    have h10 : (10 : Nat) = kw.length + 2 := by omega
    rw [List.append_assoc, h10, ← List.drop_drop, List.drop_left]
    simp only [List.cons_append, List.drop_succ_cons, List.drop_zero, List.append_assoc]
  simp only []
  rw [e, dropSpaces_replicate]
  obtain ⟨c, t, hct, hc⟩ := showNat_head n
  have hd : dropSpaces (showNat n ++ List.replicate 50 ' ') = showNat n ++ List.replicate 50 ' ' := by
    rw [hct, List.cons_append]
    exact dropSpaces_nonspace c _ hc.notSpace
  rw [hd]
  have : List.replicate 50 ' ' = ' ' :: List.replicate 49 ' ' := rfl
  rw [this, takeDigits_append _ (showNat_digits n) ' ' _ (by decide)]
  have hne : (showNat n).isEmpty = false := by rw [hct]; rfl
  simp only [hne, Bool.false_eq_true, ↓reduceIte, digitsVal_showNat]

/-! ### The data unit -/

theorem toBE_len (k x : Nat) : (toBE k x).length = k := by
  induction k generalizing x with
  | zero => rfl
  | succ k ih => simp [toBE, ih]

theorem fromBE_snoc (a : List Nat) (b : Nat) : fromBE (a ++ [b]) = fromBE a * 256 + b := by
  simp [fromBE, List.foldl_append]

theorem fromBE_toBE (k x : Nat) (h : x < 256 ^ k) : fromBE (toBE k x) = x := by
  induction k generalizing x with
  | zero => simp at h; simp [toBE, fromBE, h]
  | succ k ih =>
    have : x / 256 < 256 ^ k := by
      rw [Nat.pow_succ] at h
      exact Nat.div_lt_of_lt_mul (by rw [Nat.mul_comm]; exact h)
    rw [toBE, fromBE_snoc, ih _ this]
    omega

theorem flatMap_toBE_length (k : Nat) (ws : List Nat) : (ws.flatMap (toBE k)).length = k * ws.length := by
  induction ws with
  | nil => simp
  | cons x t ih => simp [List.flatMap_cons, toBE_len, ih, Nat.mul_add]; omega

theorem wordsOf_flatMap (k : Nat) (ws : List Nat) (h : ∀ x ∈ ws, x < 256 ^ k) (rest : List Nat) :
    wordsOf k ws.length (ws.flatMap (toBE k) ++ rest) = ws := by
  induction ws with
  | nil => rfl
  | cons x t ih =>
    have hx := h x (by simp)
    simp only [List.flatMap_cons, List.length_cons, wordsOf, List.append_assoc]
    rw [List.take_left' (toBE_len k x), List.drop_left' (toBE_len k x), fromBE_toBE k x hx,
      ih (fun y hy => h y (by simp [hy]))]

theorem encodeWords_length (rs : List Rng) : (encodeWords rs).length = 2 * rs.length := by
  induction rs with
  | nil => rfl
  | cons r t ih => simp [encodeWords, ih]; omega

theorem decodeWords_encodeWords (rs : List Rng) : decodeWords (encodeWords rs) = rs := by
  induction rs with
  | nil => rfl
  | cons r t ih => simp [encodeWords, decodeWords, ih]

theorem mem_encodeWords (rs : List Rng) (x : Nat) (hx : x ∈ encodeWords rs) : ∃ r ∈ rs, x = r.1 ∨ x = r.2 := by
  induction rs with
  | nil => simp [encodeWords] at hx
  | cons r t ih =>
    simp only [encodeWords, List.mem_cons] at hx
    rcases hx with rfl | rfl | hx
    · exact ⟨r, by simp, .inl rfl⟩
    · exact ⟨r, by simp, .inr rfl⟩
    · obtain ⟨r', hr', h'⟩ := ih hx
      exact ⟨r', by simp [hr'], h'⟩

theorem dataUnit_length (w : Nat) (rs : List Rng) : (dataUnit w rs).length = (w / 8) * (2 * rs.length) := by
  unfold dataUnit
  rw [flatMap_toBE_length, encodeWords_length]

theorem map_ofNat_toNat (l : List Char) : (l.map Char.toNat).map Char.ofNat = l := by
  induction l with
  | nil => rfl
  | cons c t ih => simp [ih, Char.ofNat_toNat]

/-! ### The cards of a range-MOC file -/

theorem cards80_cons {c : List Char} {t : List (List Char)} (hc : c.length = 80) (ht : Cards80 t) : Cards80 (c :: t) := by
  intro x hx
  simp only [List.mem_cons] at hx
  rcases hx with rfl | hx
  · exact hc
  · exact ht x hx

theorem cards80_append {a b : List (List Char)} (ha : Cards80 a) (hb : Cards80 b) : Cards80 (a ++ b) := by
  intro x hx
  simp only [List.mem_append] at hx
  rcases hx with hx | hx
  · exact ha x hx
  · exact hb x hx

theorem cards80_nil : Cards80 [] := fun _ h => by cases h

theorem primaryCards_80 : Cards80 primaryCards := by decide

theorem tform_length (w : Nat) : (tform w).length = 2 := by
  unfold tform
  split
  · rfl
  · split
    · rfl
    · split <;> rfl

theorem mocCards_80 (q : Qty) (w depth : Nat) (hd : depth ≤ 255) : Cards80 (mocCards q w depth) := by
  have hsn : (showNat depth).length ≤ 3 := showNat_length 2 depth (by omega)
  have hord : ∀ kw : List Char, kw.length = 8 → (cardFree kw (showNat depth)).length = 80 :=
    fun kw hk => cardFree_length kw _ hk (by omega)
  have htf : (cardFree ['T', 'F', 'O', 'R', 'M', '1', ' ', ' '] (quoted (tform w))).length = 80 :=
    cardFree_length _ _ rfl (by simp [quoted, tform_length])
  unfold mocCards
  simp only []
  apply cards80_append
  · refine cards80_cons (by decide) (cards80_cons ?_ (cards80_cons (by decide) cards80_nil))
    split
    · decide
    · split <;> decide
  · split
    · exact cards80_cons (by decide) (cards80_cons (by decide) (cards80_cons (hord _ rfl)
        (cards80_cons htf (cards80_cons (by decide) cards80_nil))))
    · split
      · exact cards80_cons (by decide) (cards80_cons (by decide) (cards80_cons (hord _ rfl)
          (cards80_cons htf (cards80_cons (by decide) cards80_nil))))
      · exact cards80_cons (by decide) (cards80_cons htf (cards80_cons (by decide)
          (cards80_cons (hord _ rfl) cards80_nil)))

theorem mocCards_count (q : Qty) (w depth : Nat) : (mocCards q w depth).length ≤ 8 := by
  unfold mocCards
  simp only [List.length_append, List.length_cons, List.length_nil]
  split
  · simp
  · split <;> simp

theorem tableCardsOf_80 (w nRows : Nat) (moc : List (List Char)) (hm : Cards80 moc)
    (hw : w / 8 < 10 ^ 20) (hn : nRows < 10 ^ 20) : Cards80 (tableCardsOf w nRows moc) := by
  unfold tableCardsOf
  apply cards80_append
  · apply cards80_append
    · exact cards80_cons (by decide) (cards80_cons (by decide) (cards80_cons (by decide)
        (cards80_cons (cardFixed_length _ _ rfl (showNat_length 19 _ hw))
        (cards80_cons (cardFixed_length _ _ rfl (showNat_length 19 _ hn))
        (cards80_cons (by decide) (cards80_cons (by decide) (cards80_cons (by decide) cards80_nil)))))))
    · exact hm
  · exact cards80_cons endCard_length cards80_nil

theorem tableCardsOf_count (w nRows : Nat) (moc : List (List Char)) (hm : moc.length ≤ 27) :
    (tableCardsOf w nRows moc).length ≤ 36 := by
  unfold tableCardsOf
  simp only [List.length_append, List.length_cons, List.length_nil]
  omega

theorem tableCardsOf_naxis (w nRows : Nat) (moc : List (List Char)) :
    (tableCardsOf w nRows moc)[3]? = some (cardFixed ['N', 'A', 'X', 'I', 'S', '1', ' ', ' '] (showNat (w / 8))) ∧
    (tableCardsOf w nRows moc)[4]? = some (cardFixed ['N', 'A', 'X', 'I', 'S', '2', ' ', ' '] (showNat nRows)) := by
  unfold tableCardsOf
  constructor <;> simp

/-- **2880-byte blocks**, for any MOC cards and any rows. -/
theorem fileOf_blocks (w : Nat) (moc : List (List Char)) (words : List Nat) (hm : Cards80 moc) (hc : moc.length ≤ 27)
    (hw : w / 8 < 10 ^ 20) (hn : words.length < 10 ^ 20) : (fileOf w moc words).length % 2880 = 0 := by
  unfold fileOf
  simp only [List.length_append, List.length_map, List.length_replicate,
    block_length _ primaryCards_80 (by decide),
    block_length _ (tableCardsOf_80 w words.length moc hm hw hn) (tableCardsOf_count w words.length moc hc)]
  have : ((words.flatMap (toBE (w / 8))).length + padding (words.flatMap (toBE (w / 8))).length) % 2880 = 0 := by
    unfold padding
    split
    · omega
    · rename_i h
      have := Nat.mod_lt (words.flatMap (toBE (w / 8))).length (show 2880 > 0 by decide)
      have e := Nat.div_add_mod (words.flatMap (toBE (w / 8))).length 2880
      omega
  omega

/-- **Declared row width / row count = data written, and the rows are read back**: `NAXIS1`,
    `NAXIS2` parsed from the file are the word size and the number of words; the `NAXIS1 × NAXIS2`
    bytes after the two header blocks split into exactly the words written. -/
theorem fileOf_words (w : Nat) (moc : List (List Char)) (words : List Nat) (hm : Cards80 moc) (hc : moc.length ≤ 27)
    (hw : w / 8 < 10 ^ 20) (hn : words.length < 10 ^ 20) (hfit : ∀ x ∈ words, x < 256 ^ (w / 8)) :
    readWords (fileOf w moc words) = some (w / 8, words.length, words) ∧
    (w / 8) * words.length = (words.flatMap (toBE (w / 8))).length := by
  have hp := block_length _ primaryCards_80 (by decide)
  have ht80 := tableCardsOf_80 w words.length moc hm hw hn
  have ht := block_length _ ht80 (tableCardsOf_count w words.length moc hc)
  have hlen : (words.flatMap (toBE (w / 8))).length = (w / 8) * words.length := flatMap_toBE_length _ _
  refine ⟨?_, hlen.symm⟩
  have hl : ((block primaryCards ++ block (tableCardsOf w words.length moc)).map Char.toNat).length = 5760 := by
    simp only [List.length_map, List.length_append, hp, ht]
  have hhdr : ((fileOf w moc words).take 5760).map Char.ofNat
      = block primaryCards ++ block (tableCardsOf w words.length moc) := by
    unfold fileOf
    simp only []
    rw [List.append_assoc, ← hl, List.take_left, map_ofNat_toNat]
  have hdata : ((fileOf w moc words).drop 5760).take ((w / 8) * words.length) = words.flatMap (toBE (w / 8)) := by
    unfold fileOf
    simp only []
    rw [List.append_assoc, ← hl, List.drop_left, ← hlen, List.take_left]
  obtain ⟨n1, n2⟩ := tableCardsOf_naxis w words.length moc
  have c39 : getCard (block primaryCards ++ block (tableCardsOf w words.length moc)) 39
      = cardFixed ['N', 'A', 'X', 'I', 'S', '1', ' ', ' '] (showNat (w / 8)) := by
    have := getCard_second (block primaryCards) (block (tableCardsOf w words.length moc)) hp 3
    rw [show 36 + 3 = 39 from rfl] at this
    rw [this]
    have h2 := getCard_block _ ht80 [] 3 _ n1
    rwa [List.append_nil] at h2
  have c40 : getCard (block primaryCards ++ block (tableCardsOf w words.length moc)) 40
      = cardFixed ['N', 'A', 'X', 'I', 'S', '2', ' ', ' '] (showNat words.length) := by
    have := getCard_second (block primaryCards) (block (tableCardsOf w words.length moc)) hp 4
    rw [show 36 + 4 = 40 from rfl] at this
    rw [this]
    have h2 := getCard_block _ ht80 [] 4 _ n2
    rwa [List.append_nil] at h2
  unfold readWords
  simp only []
  rw [hhdr, c39, c40, readUint_cardFixed _ _ rfl (showNat_length 19 _ hw),
    readUint_cardFixed _ _ rfl (showNat_length 19 _ hn)]
  simp only [hdata]
  have hwords := wordsOf_flatMap (w / 8) words hfit []
  rw [List.append_nil] at hwords
  rw [hwords]

theorem stCards_80 (w d1 d2 : Nat) (h1 : d1 ≤ 255) (h2 : d2 ≤ 255) : Cards80 (stCards w d1 d2) := by
  have hs1 : (showNat d1).length ≤ 3 := showNat_length 2 d1 (by omega)
  have hs2 : (showNat d2).length ≤ 3 := showNat_length 2 d2 (by omega)
  have htf : (cardFree ['T', 'F', 'O', 'R', 'M', '1', ' ', ' '] (quoted (tform w))).length = 80 :=
    cardFree_length _ _ rfl (by simp [quoted, tform_length])
  unfold stCards
  exact cards80_cons (by decide) (cards80_cons (by decide) (cards80_cons (by decide) (cards80_cons (by decide)
    (cards80_cons (by decide) (cards80_cons (by decide)
    (cards80_cons (cardFree_length _ _ rfl (by omega)) (cards80_cons (cardFree_length _ _ rfl (by omega))
    (cards80_cons htf cards80_nil))))))))

theorem nuniqCards_80 (w depth : Nat) (hd : depth ≤ 255) : Cards80 (nuniqCards w depth) := by
  have hs : (showNat depth).length ≤ 3 := showNat_length 2 depth (by omega)
  have htf : (cardFree ['T', 'F', 'O', 'R', 'M', '1', ' ', ' '] (quoted (tform w))).length = 80 :=
    cardFree_length _ _ rfl (by simp [quoted, tform_length])
  unfold nuniqCards
  exact cards80_cons (by decide) (cards80_cons (by decide) (cards80_cons (by decide) (cards80_cons (by decide)
    (cards80_cons (by decide)
    (cards80_cons (cardFree_length _ _ rfl (by omega)) (cards80_cons (cardFree_length _ _ rfl (by omega))
    (cards80_cons htf (cards80_cons (by decide) cards80_nil))))))))

theorem quoted_length (v : List Char) : (quoted v).length = v.length + 2 := by simp [quoted]

theorem optCard_80 (kw : List Char) (hk : kw.length = 8) (o : Option (List Char)) (ho : ∀ v, o = some v → v.length ≤ 68) :
    Cards80 (optCard kw o) := by
  cases o with
  | none => exact cards80_nil
  | some v =>
    exact cards80_cons (cardFree_length _ _ hk (by rw [quoted_length]; have := ho v rfl; omega)) cards80_nil

theorem optCard_count (kw : List Char) (o : Option (List Char)) : (optCard kw o).length ≤ 1 := by
  cases o <;> simp [optCard]

theorem mocCardsWith_80 (q : Qty) (w depth : Nat) (id ty : Option (List Char)) (hd : depth ≤ 255)
    (hid : ∀ v, id = some v → v.length ≤ 68) (hty : ∀ v, ty = some v → v.length ≤ 68) :
    Cards80 (mocCardsWith q w depth id ty) := by
  have hsn : (showNat depth).length ≤ 3 := showNat_length 2 depth (by omega)
  have hord : ∀ kw : List Char, kw.length = 8 → (cardFree kw (showNat depth)).length = 80 :=
    fun kw hk => cardFree_length kw _ hk (by omega)
  have htf : (cardFree ['T', 'F', 'O', 'R', 'M', '1', ' ', ' '] (quoted (tform w))).length = 80 :=
    cardFree_length _ _ rfl (by simp [quoted, tform_length])
  have hidc := optCard_80 ['M', 'O', 'C', 'I', 'D', ' ', ' ', ' '] rfl id hid
  have htyc := optCard_80 ['M', 'O', 'C', 'T', 'Y', 'P', 'E', ' '] rfl ty hty
  unfold mocCardsWith
  simp only []
  apply cards80_append
  · refine cards80_cons (by decide) (cards80_cons ?_ (cards80_cons (by decide) cards80_nil))
    split
    · decide
    · split <;> decide
  · split
    · exact cards80_append (cards80_append (cards80_append (cards80_append (cards80_cons (by decide) cards80_nil) hidc)
        (cards80_cons (by decide) cards80_nil)) htyc)
        (cards80_cons (hord _ rfl) (cards80_cons htf (cards80_cons (by decide) cards80_nil)))
    · split
      · exact cards80_append (cards80_append (cards80_append (cards80_append (cards80_cons (by decide) cards80_nil) hidc)
          (cards80_cons (by decide) cards80_nil)) htyc)
          (cards80_cons (hord _ rfl) (cards80_cons htf (cards80_cons (by decide) cards80_nil)))
      · exact cards80_append (cards80_append (cards80_append hidc (cards80_cons (by decide) cards80_nil)) htyc)
          (cards80_cons htf (cards80_cons (by decide) (cards80_cons (hord _ rfl) cards80_nil)))

theorem mocCardsWith_count (q : Qty) (w depth : Nat) (id ty : Option (List Char)) :
    (mocCardsWith q w depth id ty).length ≤ 10 := by
  have h1 := optCard_count ['M', 'O', 'C', 'I', 'D', ' ', ' ', ' '] id
  have h2 := optCard_count ['M', 'O', 'C', 'T', 'Y', 'P', 'E', ' '] ty
  unfold mocCardsWith
  simp only [List.length_append, List.length_cons, List.length_nil]
  split
  · simp only [List.length_append, List.length_cons, List.length_nil]; omega
  · split <;> (simp only [List.length_append, List.length_cons, List.length_nil]; omega)

end Moc.Fits
