import MocVerif.Lemmas.Builders
import MocVerif.Lemmas.Query
import MocVerif.Model.Cells

namespace Moc

theorem narrow_widen (k x : Nat) : narrow k (widen k x) = x := by
  simp [narrow, widen, Nat.shiftLeft_shiftRight]

theorem four_shl (d : Nat) : 4 <<< (2 * d) = 2 ^ (2 * d + 2) := by
  rw [Nat.shiftLeft_eq, Nat.pow_succ, Nat.pow_succ]; omega

/-- NUNIQ decoding inverts encoding for EVERY depth and every in-range index. -/
theorem fromUniqHpx_uniqHpx (d i : Nat) (hi : i < 12 * 4 ^ d) : fromUniqHpx (uniqHpx d i) = (d, i) := by
  have h4 : (4 : Nat) ^ d = 2 ^ (2 * d) := by rw [Nat.pow_mul]
  have hs := four_shl d
  have hpow : 2 ^ (2 * d + 2) = 4 * 2 ^ (2 * d) := by rw [Nat.pow_succ, Nat.pow_succ]; omega
  have hu_lo : 2 ^ (2 * d + 2) ≤ uniqHpx d i := by unfold uniqHpx; omega
  have hu_hi : uniqHpx d i < 2 ^ (2 * d + 4) := by
    unfold uniqHpx
    have : 2 ^ (2 * d + 4) = 16 * 2 ^ (2 * d) := by
      rw [Nat.pow_succ, Nat.pow_succ, Nat.pow_succ, Nat.pow_succ]; omega
    omega
  have hne : uniqHpx d i ≠ 0 := by
    have : 0 < 2 ^ (2 * d + 2) := Nat.pos_of_ne_zero (by simp)
    omega
  have l1 : 2 * d + 2 ≤ Nat.log2 (uniqHpx d i) := (Nat.le_log2 hne).2 hu_lo
  have l2 : Nat.log2 (uniqHpx d i) < 2 * d + 4 := (Nat.log2_lt hne).2 hu_hi
  have hd : (Nat.log2 (uniqHpx d i) - 2) >>> 1 = d := by
    rw [Nat.shiftRight_eq_div_pow]; omega
  unfold fromUniqHpx
  simp only [hd]
  unfold uniqHpx
  simp

/-- … and encoding inverts decoding on the image (`u ≥ 4`): NUNIQ is a bijection. -/
theorem uniqHpx_fromUniqHpx (u : Nat) (hu : 4 ≤ u) : uniqHpx (fromUniqHpx u).1 (fromUniqHpx u).2 = u := by
  have hne : u ≠ 0 := by omega
  unfold fromUniqHpx uniqHpx
  simp only []
  have hlog : 2 ≤ Nat.log2 u := (Nat.le_log2 hne).2 (by simpa using hu)
  have key : 4 <<< (2 * ((Nat.log2 u - 2) >>> 1)) ≤ u := by
    rw [four_shl, Nat.shiftRight_eq_div_pow]
    have : 2 * ((Nat.log2 u - 2) / 2 ^ 1) + 2 ≤ Nat.log2 u := by omega
    exact Nat.le_trans (Nat.pow_le_pow_right (by omega) this) (Nat.log2_self_le hne)
  omega

/-- NUNIQ order = (depth, idx) lexicographic order. -/
theorem uniqHpx_lt_of_depth_lt (d d' i i' : Nat) (hi : i < 12 * 4 ^ d) (hd : d < d') :
    uniqHpx d i < uniqHpx d' i' := by
  have h4 : (4 : Nat) ^ d = 2 ^ (2 * d) := by rw [Nat.pow_mul]
  unfold uniqHpx
  rw [four_shl, four_shl]
  have h1 : 2 ^ (2 * d + 4) ≤ 2 ^ (2 * d' + 2) := Nat.pow_le_pow_right (by omega) (by omega)
  have : 2 ^ (2 * d + 4) = 16 * 2 ^ (2 * d) := by
    rw [Nat.pow_succ, Nat.pow_succ, Nat.pow_succ, Nat.pow_succ]; omega
  have : 2 ^ (2 * d + 2) = 4 * 2 ^ (2 * d) := by rw [Nat.pow_succ, Nat.pow_succ]; omega
  omega

theorem uniqHpx_lt_of_idx_lt (d i i' : Nat) (h : i < i') : uniqHpx d i < uniqHpx d i' := by
  unfold uniqHpx; omega

/-- `trailing_zeros` of `odd · 2^s`. -/
theorem tzAux_odd_shl (s : Nat) : ∀ fuel m, s < fuel → tzAux fuel ((2 * m + 1) <<< s) = s := by
  induction s with
  | zero =>
    intro fuel m hf
    cases fuel with
    | zero => omega
    | succ f => simp [tzAux]
  | succ s ih =>
    intro fuel m hf
    cases fuel with
    | zero => omega
    | succ f =>
      have e : (2 * m + 1) <<< (s + 1) = 2 * ((2 * m + 1) <<< s) := by
        rw [Nat.shiftLeft_succ]
      simp only [tzAux]
      rw [e]
      have h1 : ¬ (2 * ((2 * m + 1) <<< s)) % 2 = 1 := by omega
      rw [if_neg h1]
      have h2 : 2 * ((2 * m + 1) <<< s) / 2 = (2 * m + 1) <<< s := by omega
      rw [h2, ih f m (by omega)]; omega

theorem or_one_shl (i : Nat) : (i <<< 1) ||| 1 = 2 * i + 1 := by
  rw [Nat.shiftLeft_eq]
  have := or_one_of_even (i * 2 ^ 1) (by omega)
  rw [this]; omega

/-- z-order uniq decoding inverts encoding, for every depth `d ≤ MAX_DEPTH` and index. -/
theorem fromZuniq_toZuniq (q : Qty) (w d i : Nat) (hdim : 0 < q.dim) (hd : d ≤ q.maxDepth w)
    (hw : q.shiftFromMax w d < w) : fromZuniq q w (toZuniq q w d i) = (d, i) := by
  unfold toZuniq fromZuniq
  rw [or_one_shl]
  have hz : (2 * i + 1) <<< q.shiftFromMax w d ≠ 0 := by
    rw [Nat.shiftLeft_eq]
    exact Nat.mul_ne_zero (by omega) (by simp)
  have htz : tz w ((2 * i + 1) <<< q.shiftFromMax w d) = q.shiftFromMax w d := by
    unfold tz; rw [if_neg hz]; exact tzAux_odd_shl _ w i hw
  simp only [htz]
  congr 1
  · unfold Qty.shiftFromMax
    rw [Nat.mul_div_cancel_left _ hdim]; omega
  · rw [Nat.shiftRight_add, Nat.shiftLeft_shiftRight, Nat.shiftRight_eq_div_pow]; omega

end Moc

namespace Moc

theorem tzAux_dvd (fuel : Nat) : ∀ n, 2 ^ tzAux fuel n ∣ n := by
  induction fuel with
  | zero => intro n; simp [tzAux]
  | succ f ih =>
    intro n
    simp only [tzAux]
    split
    · simp
    · rename_i h
      obtain ⟨k, hk⟩ := ih (n / 2)
      refine ⟨k, ?_⟩
      have h2 : n = 2 * (n / 2) := by omega
      rw [Nat.add_comm, Nat.pow_succ, Nat.mul_comm (2 ^ tzAux f (n / 2)) 2, Nat.mul_assoc, ← hk]
      exact h2

theorem tz_dvd (w n : Nat) : 2 ^ tz w n ∣ n := by
  unfold tz
  split
  · rename_i h; subst h; exact Nat.dvd_zero _
  · exact tzAux_dvd w n

theorem shr_shl_of_dvd (sh s : Nat) (h : 2 ^ sh ∣ s) : (s >>> sh) <<< sh = s := by
  rw [Nat.shiftRight_eq_div_pow, Nat.shiftLeft_eq]
  exact Nat.div_mul_cancel h

/-- `n >> (dim - 1)` times `dim` does not exceed `n` (the quantities have `dim ∈ {1, 2}`). -/
theorem dim_ddFromBits (q : Qty) (hq : q.dim = 1 ∨ q.dim = 2) (n : Nat) : q.dim * ddFromBits q n ≤ n := by
  unfold ddFromBits
  rcases hq with h | h <;> rw [h] <;> simp [Nat.shiftRight_eq_div_pow] <;> omega

/-- One greedy step: the cell returned is exactly `[s, s')` with `s < s' ≤ e`, at a legal depth. -/
theorem nextCell_spec (q : Qty) (hq : q.dim = 1 ∨ q.dim = 2) (w s e : Nat) (hse : s < e) :
    let r := nextCell q w s e
    s < r.2 ∧ r.2 ≤ e ∧ r.1.1 ≤ q.maxDepth w ∧ rangeOfCell q w r.1 = (s, r.2) := by
  simp only [nextCell]
  have hlen : e - s ≠ 0 := by omega
  -- abbreviations
  generalize hdd : min (min (ddFromBits q (Nat.log2 (e - s))) (ddFromBits q (tz w s))) (q.maxDepth w) = dd
  have h1 : q.dim * dd ≤ Nat.log2 (e - s) := by
    have := dim_ddFromBits q hq (Nat.log2 (e - s))
    have : dd ≤ ddFromBits q (Nat.log2 (e - s)) := by omega
    exact Nat.le_trans (Nat.mul_le_mul_left _ this) ‹_›
  have h2 : q.dim * dd ≤ tz w s := by
    have := dim_ddFromBits q hq (tz w s)
    have : dd ≤ ddFromBits q (tz w s) := by omega
    exact Nat.le_trans (Nat.mul_le_mul_left _ this) ‹_›
  have h3 : dd ≤ q.maxDepth w := by omega
  have hc : 2 ^ (q.dim * dd) ≤ e - s :=
    Nat.le_trans (Nat.pow_le_pow_right (by omega) h1) (Nat.log2_self_le hlen)
  have hdvd : 2 ^ (q.dim * dd) ∣ s := Nat.dvd_trans (Nat.pow_dvd_pow 2 h2) (tz_dvd w s)
  have hpos : 0 < 2 ^ (q.dim * dd) := Nat.pos_of_ne_zero (by simp)
  have hone : 1 <<< (q.dim * dd) = 2 ^ (q.dim * dd) := by simp [Nat.shiftLeft_eq]
  refine ⟨by omega, by omega, by omega, ?_⟩
  unfold rangeOfCell Qty.shiftFromMax
  simp only []
  have : q.maxDepth w - (q.maxDepth w - dd) = dd := by omega
  rw [this]
  have e1 := shr_shl_of_dvd (q.dim * dd) s hdvd
  rw [hone]
  apply Prod.ext
  · exact e1
  · simp only []
    rw [Nat.shiftLeft_eq, Nat.add_mul, ← Nat.shiftLeft_eq, e1]; omega

end Moc

namespace Moc

theorem narrow_eq (k x : Nat) : narrow k x = x / 2 ^ k := by simp [narrow, Nat.shiftRight_eq_div_pow]

/-- The indices (on the narrower type) of the values of a non-empty half-open range `[a, b)` are exactly
    `[narrow a, narrowUp b)`. -/
theorem narrow_image (k a b y : Nat) (hab : a < b) :
    (narrow k a ≤ y ∧ y < narrowUp k b) ↔ ∃ t, a ≤ t ∧ t < b ∧ narrow k t = y := by
  have hc : 0 < 2 ^ k := Nat.pos_of_ne_zero (by simp)
  unfold narrowUp
  simp only [narrow_eq, widen, Nat.shiftLeft_eq]
  generalize 2 ^ k = c at *
  have hb := Nat.div_add_mod b c
  have hb' := Nat.mod_lt b hc
  have hbm : c * (b / c) = b / c * c := Nat.mul_comm _ _
  constructor
  · rintro ⟨h1, h2⟩
    by_cases hy : y = a / c
    · exact ⟨a, Nat.le_refl _, hab, hy.symm⟩
    · refine ⟨y * c, ?_, ?_, Nat.mul_div_cancel _ hc⟩
      · have : a / c + 1 ≤ y := by omega
        have h3 := Nat.mul_le_mul_right c this
        have h4 := Nat.lt_div_mul_add (a := a) hc
        rw [Nat.add_mul] at h3
        omega
      · split at h2
        · have : y ≤ b / c := by omega
          have := Nat.mul_le_mul_right c this
          omega
        · have : y + 1 ≤ b / c := by omega
          have := Nat.mul_le_mul_right c this
          rw [Nat.add_mul] at this
          omega
  · rintro ⟨t, h1, h2, rfl⟩
    refine ⟨Nat.div_le_div_right h1, ?_⟩
    have ht : t / c ≤ b / c := Nat.div_le_div_right (Nat.le_of_lt h2)
    split
    · omega
    · rename_i hn
      have hbeq : b / c * c = b := by omega
      have : t < b / c * c := by omega
      exact (Nat.div_lt_iff_lt_mul hc).2 this

end Moc
