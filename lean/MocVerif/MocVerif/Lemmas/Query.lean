/-
  Queries agree with the covered set.
-/
import MocVerif.Lemmas.ValidOps
import MocVerif.Model.Query

namespace Moc

theorem or_one_of_even (i : Nat) (h : i % 2 = 0) : i ||| 1 = i + 1 := by
  have h1 : (i ||| 1) / 2 = i / 2 := by rw [Nat.or_div_two]; simp
  have h2 : (i ||| 1) % 2 = 1 := by simp
  omega

@[simp] theorem rank_nil (x : Nat) : rank x [] = 0 := rfl
theorem rank_cons (x a : Nat) (t : List Nat) : rank x (a :: t) = (if a < x then 1 else 0) + rank x t := by
  unfold rank
  simp only [List.filter]
  by_cases h : a < x <;> simp [h] <;> omega

/-- Strictly below the lower bound: rank 0 and not found. -/
theorem flatten_below (t : List Rng) : ∀ (lo x : Nat), CanonFrom lo t → x < lo →
    rank x (flatten t) = 0 ∧ (flatten t).contains x = false := by
  induction t with
  | nil => intro lo x _ _; simp [flatten]
  | cons r tt ih =>
    intro lo x h hx
    obtain ⟨h1, h2, h3⟩ := h
    have := ih (r.2 + 1) x h3 (by omega)
    simp only [flatten, rank_cons, List.contains_cons, this.1, this.2]
    have b1 : (x == r.1) = false := beq_eq_false_iff_ne.2 (by omega)
    have b2 : (x == r.2) = false := beq_eq_false_iff_ne.2 (by omega)
    have c1 : ¬ r.1 < x := by omega
    have c2 : ¬ r.2 < x := by omega
    simp [b1, b2, c1, c2]

/-- Parity of the binary-search index decides membership (core of `contains_val`). -/
theorem bsearch_parity (l : List Rng) : ∀ lo, CanonFrom lo l → ∀ x,
    (if (flatten l).contains x then rank x (flatten l) % 2 == 0 else rank x (flatten l) % 2 == 1)
      = decide (mem x l) := by
  induction l with
  | nil => intro lo _ x; simp [flatten]
  | cons r t ih =>
    intro lo h x
    obtain ⟨h1, h2, h3⟩ := h
    simp only [flatten, rank_cons, mem_cons, List.contains_cons]
    by_cases hx : x ≤ r.2
    · have hb := flatten_below t (r.2 + 1) x h3 (by omega)
      have hnm : ¬ mem x t := fun hm => by have := h3.lb hm; omega
      rw [hb.1, hb.2]
      by_cases e1 : x = r.1
      · have b2 : (x == r.2) = false := beq_eq_false_iff_ne.2 (by omega)
        have c1 : ¬ r.1 < x := by omega
        have c2 : ¬ r.2 < x := by omega
        have hm : (r.1 ≤ x ∧ x < r.2) := by omega
        have c3 : ¬ r.2 < r.1 := by omega
        simp [e1, h2, c3]
      · have b1 : (x == r.1) = false := beq_eq_false_iff_ne.2 e1
        by_cases e2 : x = r.2
        · have c1 : r.1 < x := by omega
          have c2 : ¬ r.2 < x := by omega
          have hm : ¬ (r.1 ≤ x ∧ x < r.2) := by omega
          have hnm' : ¬ mem r.2 t := by rw [← e2]; exact hnm
          simp [e2, hnm', h2]
        · have b2 : (x == r.2) = false := beq_eq_false_iff_ne.2 e2
          have c2 : ¬ r.2 < x := by omega
          by_cases e3 : x < r.1
          · have c1 : ¬ (r.1 < x) := by omega
            have hm : ¬ (r.1 ≤ x ∧ x < r.2) := by omega
            simp [b1, b2, c1, c2, hm, hnm]
          · have c1 : r.1 < x := by omega
            have hm : (r.1 ≤ x ∧ x < r.2) := by omega
            simp [b1, b2, c1, c2, hm]
    · have hgt : r.2 < x := by omega
      have := ih (r.2 + 1) h3 x
      have b1 : (x == r.1) = false := beq_eq_false_iff_ne.2 (by omega)
      have b2 : (x == r.2) = false := beq_eq_false_iff_ne.2 (by omega)
      have e3 : r.1 < x := by omega
      simp only [e3, hgt, if_true, b1, b2, Bool.false_or]
      have hm : ((r.1 ≤ x ∧ x < r.2) ∨ mem x t) = mem x t := by
        apply propext; constructor
        · rintro (h | h)
          · omega
          · exact h
        · exact Or.inr
      simp only [hm]
      rw [← this]
      have : (1 + (1 + rank x (flatten t))) % 2 = rank x (flatten t) % 2 := by omega
      rw [this]

theorem mem_bounds (l : List Rng) (lo : Nat) (h : CanonFrom lo l) (x : Nat) (hx : mem x l) :
    firstStart l ≤ x ∧ x < lastEnd l := by
  cases l with
  | nil => simp at hx
  | cons r t =>
    obtain ⟨h1, h2, h3⟩ := h
    have hl := lastEndD_spec t r.2 h3
    simp only [firstStart, lastEnd]
    simp at hx
    rcases hx with hx | hx
    · omega
    · have := h3.lb hx; have := hl.2 x hx; omega

/-- **`contains_val`** answers exactly membership. -/
theorem containsVal_iff (l : List Rng) (hc : Canon l) (x : Nat) : containsVal l x = true ↔ mem x l := by
  unfold containsVal
  split
  · rename_i hq
    simp at hq
    constructor
    · intro h; simp at h
    · intro hm
      have := mem_bounds l 0 hc x hm
      rcases hq with (hq | hq) | hq
      · subst hq; simp at hm
      · omega
      · omega
  · have := bsearch_parity l 0 hc x
    simp only []
    rw [this]; simp

end Moc

namespace Moc

theorem rank_shift2 (r : Rng) (rest : List Nat) (a : Nat) (h : r.2 < a) (hr : r.1 < r.2) :
    rank a (r.1 :: r.2 :: rest) = 2 + rank a rest := by
  rw [rank_cons, rank_cons]
  have : r.1 < a := by omega
  simp [h, this]; omega

theorem contains_shift2 (r : Rng) (rest : List Nat) (a : Nat) (h : r.2 < a) (hr : r.1 < r.2) :
    (r.1 :: r.2 :: rest).contains a = rest.contains a := by
  have b1 : (a == r.1) = false := beq_eq_false_iff_ne.2 (by omega)
  have b2 : (a == r.2) = false := beq_eq_false_iff_ne.2 (by omega)
  rw [List.contains_cons, List.contains_cons, b1, b2]; rfl

theorem crCore_shift2 (r : Rng) (rest : List Nat) (a b : Nat) (h : r.2 < a) (hr : r.1 < r.2) :
    crCore (r.1 :: r.2 :: rest) a b = crCore rest a b := by
  unfold crCore
  rw [rank_shift2 r rest a h hr, contains_shift2 r rest a h hr]
  simp only []
  have hg : ∀ j, (r.1 :: r.2 :: rest).getD (2 + j) 0 = rest.getD j 0 := by
    intro j; rw [Nat.add_comm]; simp [List.getD]
  have hm : (2 + rank a rest) % 2 = rank a rest % 2 := by omega
  rw [hm, hg]
  by_cases he : rank a rest % 2 = 0
  · rw [or_one_of_even _ (by omega : (2 + rank a rest) % 2 = 0), or_one_of_even _ he]
    have : 2 + rank a rest + 1 = 2 + (rank a rest + 1) := by omega
    rw [this, hg]
  · have : (rank a rest % 2 == 0) = false := by simp; omega
    simp [this]

theorem irCore_shift2 (r : Rng) (rest : List Nat) (a b : Nat) (h : r.2 < a) (hr : r.1 < r.2) :
    irCore (r.1 :: r.2 :: rest) a b = irCore rest a b := by
  unfold irCore
  rw [rank_shift2 r rest a h hr, contains_shift2 r rest a h hr]
  simp only []
  have hg : ∀ j, (r.1 :: r.2 :: rest).getD (2 + j) 0 = rest.getD j 0 := by
    intro j; rw [Nat.add_comm]; simp [List.getD]
  have hm : (2 + rank a rest) % 2 = rank a rest % 2 := by omega
  have hl : (r.1 :: r.2 :: rest).length = 2 + rest.length := by simp; omega
  have e1 : 2 + rank a rest + 1 = 2 + (rank a rest + 1) := by omega
  rw [hm, hg, hl, e1, hg]
  have d1 : decide (2 + (rank a rest + 1) < 2 + rest.length) = decide (rank a rest + 1 < rest.length) := by
    apply decide_eq_decide.2; omega
  have d2 : decide (2 + rank a rest < 2 + rest.length) = decide (rank a rest < rest.length) := by
    apply decide_eq_decide.2; omega
  rw [d1, d2]

/-- Core of `contains_range` on canonical lists (`a < b`). -/
theorem crCore_spec (l : List Rng) : ∀ lo, CanonFrom lo l → ∀ a b, a < b →
    (crCore (flatten l) a b = true ↔ ∃ r ∈ l, r.1 ≤ a ∧ b ≤ r.2) := by
  induction l with
  | nil => intro lo _ a b _; simp [crCore, flatten]
  | cons r t ih =>
    intro lo h a b hab
    obtain ⟨h1, h2, h3⟩ := h
    simp only [flatten]
    by_cases hx : a ≤ r.2
    · have hb := flatten_below t (r.2 + 1) a h3 (by omega)
      have htail : ¬ ∃ r' ∈ t, r'.1 ≤ a ∧ b ≤ r'.2 := by
        rintro ⟨r', hr', h4, _⟩
        have := h3.lb ((mem_iff_exists r'.1 t).2 ⟨r', hr', Nat.le_refl _, canon_nonempty h3 r' hr'⟩)
        omega
      have hex : (∃ r' ∈ r :: t, r'.1 ≤ a ∧ b ≤ r'.2) ↔ (r.1 ≤ a ∧ b ≤ r.2) := by
        constructor
        · rintro ⟨r', hr', h4⟩
          simp at hr'
          rcases hr' with rfl | hr'
          · exact h4
          · exact absurd ⟨r', hr', h4⟩ htail
        · intro h4; exact ⟨r, List.mem_cons_self .., h4⟩
      rw [hex]
      unfold crCore
      simp only [rank_cons, List.contains_cons, hb.1, hb.2]
      by_cases e1 : a = r.1
      · have c3 : ¬ r.2 < r.1 := by omega
        subst e1
        simp [c3, List.getD]
      · have b1 : (a == r.1) = false := beq_eq_false_iff_ne.2 e1
        by_cases e2 : a = r.2
        · subst e2
          have c1 : r.1 < r.2 := h2
          simp [b1, c1]
          omega
        · have b2 : (a == r.2) = false := beq_eq_false_iff_ne.2 e2
          have c2 : ¬ r.2 < a := by omega
          by_cases e3 : a < r.1
          · have c1 : ¬ r.1 < a := by omega
            simp [b1, b2, c1, c2]; omega
          · have c1 : r.1 < a := by omega
            simp [b1, b2, c1, c2, List.getD]; omega
    · have hgt : r.2 < a := by omega
      rw [crCore_shift2 r (flatten t) a b hgt h2, ih (r.2 + 1) h3 a b hab]
      constructor
      · rintro ⟨r', hr', h4⟩; exact ⟨r', List.mem_cons_of_mem _ hr', h4⟩
      · rintro ⟨r', hr', h4⟩
        simp at hr'
        rcases hr' with rfl | hr'
        · omega
        · exact ⟨r', hr', h4⟩

theorem exists_cons_iff (P : Rng → Prop) (r : Rng) (t : List Rng) :
    (∃ r' ∈ r :: t, P r') ↔ P r ∨ ∃ r' ∈ t, P r' := by
  constructor
  · rintro ⟨r', hr', hp⟩
    rcases List.mem_cons.1 hr' with rfl | hr'
    · exact Or.inl hp
    · exact Or.inr ⟨r', hr', hp⟩
  · rintro (hp | ⟨r', hr', hp⟩)
    · exact ⟨r, List.mem_cons_self .., hp⟩
    · exact ⟨r', List.mem_cons_of_mem _ hr', hp⟩

/-- Below the lower bound of a canonical list, "some range starts before `b`" only depends on the first range. -/
theorem tail_first (t : List Rng) (lo : Nat) (h : CanonFrom lo t) (a b : Nat) (ha : a < lo) :
    (∃ r' ∈ t, r'.1 < b ∧ a < r'.2) ↔ (match t with | [] => False | s :: _ => s.1 < b) := by
  cases t with
  | nil => simp
  | cons s tt =>
    obtain ⟨h1, h2, h3⟩ := h
    rw [exists_cons_iff]
    constructor
    · rintro (⟨h4, _⟩ | ⟨r', hr', h4, _⟩)
      · exact h4
      · have := h3.lb ((mem_iff_exists r'.1 tt).2 ⟨r', hr', Nat.le_refl _, canon_nonempty h3 r' hr'⟩)
        show s.1 < b
        omega
    · intro h4; exact Or.inl ⟨h4, by omega⟩

/-- Core of `intersects_range` on canonical lists (`a < b`). -/
theorem irCore_spec (l : List Rng) : ∀ lo, CanonFrom lo l → ∀ a b, a < b →
    (irCore (flatten l) a b = true ↔ ∃ r ∈ l, r.1 < b ∧ a < r.2) := by
  induction l with
  | nil => intro lo _ a b _; simp [irCore, flatten]
  | cons r t ih =>
    intro lo h a b hab
    obtain ⟨h1, h2, h3⟩ := h
    simp only [flatten]
    by_cases hx : a ≤ r.2
    · have hb := flatten_below t (r.2 + 1) a h3 (by omega)
      rw [exists_cons_iff, tail_first t (r.2 + 1) h3 a b (by omega)]
      unfold irCore
      simp only [rank_cons, List.contains_cons, hb.1, hb.2]
      cases t with
      | nil =>
        simp only [flatten]
        by_cases e1 : a = r.1
        · have c3 : ¬ r.2 < r.1 := by omega
          subst e1; simp [c3]; omega
        · have b1 : (a == r.1) = false := beq_eq_false_iff_ne.2 e1
          by_cases e2 : a = r.2
          · subst e2; simp [b1, h2]
          · have b2 : (a == r.2) = false := beq_eq_false_iff_ne.2 e2
            have c2 : ¬ r.2 < a := by omega
            by_cases e3 : a < r.1
            · have c1 : ¬ r.1 < a := by omega
              simp [b1, b2, c1, c2, List.getD]; omega
            · have c1 : r.1 < a := by omega
              simp [b1, b2, c1, c2]; omega
      | cons s tt =>
        have hs := h3.1
        have hs2 := h3.2.1
        simp only [flatten]
        by_cases e1 : a = r.1
        · have c3 : ¬ r.2 < r.1 := by omega
          subst e1; simp [c3]; omega
        · have b1 : (a == r.1) = false := beq_eq_false_iff_ne.2 e1
          by_cases e2 : a = r.2
          · subst e2; simp [b1, h2, List.getD]
          · have b2 : (a == r.2) = false := beq_eq_false_iff_ne.2 e2
            have c2 : ¬ r.2 < a := by omega
            by_cases e3 : a < r.1
            · have c1 : ¬ r.1 < a := by omega
              simp [b1, b2, c1, c2, List.getD]; omega
            · have c1 : r.1 < a := by omega
              simp [b1, b2, c1, c2]; omega
    · have hgt : r.2 < a := by omega
      rw [irCore_shift2 r (flatten t) a b hgt h2, ih (r.2 + 1) h3 a b hab, exists_cons_iff]
      constructor
      · intro h4; exact Or.inr h4
      · rintro (h4 | h4)
        · omega
        · exact h4

end Moc

namespace Moc

theorem range_bounds (l : List Rng) (lo : Nat) (h : CanonFrom lo l) (r : Rng) (hr : r ∈ l) :
    firstStart l ≤ r.1 ∧ r.2 ≤ lastEnd l := by
  have hne := canon_nonempty h r hr
  have m1 := mem_bounds l lo h r.1 ((mem_iff_exists _ _).2 ⟨r, hr, Nat.le_refl _, hne⟩)
  have m2 := mem_bounds l lo h (r.2 - 1) ((mem_iff_exists _ _).2 ⟨r, hr, by omega, by omega⟩)
  omega

/-- **`contains_range`**: true iff one range of the MOC contains the whole query range. -/
theorem containsRange_iff_exists (l : List Rng) (hc : Canon l) (x : Rng) (hx : x.1 < x.2) :
    containsRange l x = true ↔ ∃ r ∈ l, r.1 ≤ x.1 ∧ x.2 ≤ r.2 := by
  unfold containsRange
  split
  · rename_i hq
    simp at hq
    constructor
    · intro h; simp at h
    · rintro ⟨r, hr, h1, h2⟩
      have := range_bounds l 0 hc r hr
      have := canon_nonempty hc r hr
      rcases hq with (hq | hq) | hq
      · subst hq; simp at hr
      · omega
      · omega
  · exact crCore_spec l 0 hc x.1 x.2 hx

/-- In a canonical list a fully covered interval lies inside ONE range (ranges are non-adjacent). -/
theorem covered_iff_one_range (l : List Rng) : ∀ lo, CanonFrom lo l → ∀ a b, a < b →
    ((∀ y, a ≤ y → y < b → mem y l) ↔ ∃ r ∈ l, r.1 ≤ a ∧ b ≤ r.2) := by
  induction l with
  | nil => intro lo _ a b hab; simp; exact ⟨a, Nat.le_refl _, hab⟩
  | cons r t ih =>
    intro lo h a b hab
    obtain ⟨h1, h2, h3⟩ := h
    rw [exists_cons_iff]
    constructor
    · intro hall
      have ha := hall a (Nat.le_refl _) hab
      simp at ha
      rcases ha with ha | ha
      · left
        refine ⟨ha.1, ?_⟩
        apply Classical.byContradiction
        intro hb
        have := hall r.2 (by omega) (by omega)
        rcases (mem_cons _ _ _).1 this with h' | h'
        · omega
        · have := h3.lb h'; omega
      · right
        have hlo := h3.lb ha
        apply (ih (r.2 + 1) h3 a b hab).1
        intro y hy1 hy2
        have := hall y hy1 hy2
        simp at this
        rcases this with h' | h'
        · omega
        · exact h'
    · rintro (⟨h4, h5⟩ | hex) y hy1 hy2
      · simp; left; omega
      · simp; right; exact (ih (r.2 + 1) h3 a b hab).2 hex y hy1 hy2

theorem containsRange_iff (l : List Rng) (hc : Canon l) (x : Rng) (hx : x.1 < x.2) :
    containsRange l x = true ↔ ∀ y, x.1 ≤ y → y < x.2 → mem y l := by
  rw [containsRange_iff_exists l hc x hx, covered_iff_one_range l 0 hc x.1 x.2 hx]

theorem meets_iff (l : List Rng) (a b : Nat) (hab : a < b) (lo : Nat) (hc : CanonFrom lo l) :
    (∃ r ∈ l, r.1 < b ∧ a < r.2) ↔ ∃ y, a ≤ y ∧ y < b ∧ mem y l := by
  constructor
  · rintro ⟨r, hr, h1, h2⟩
    have := canon_nonempty hc r hr
    exact ⟨max a r.1, by omega, by omega, (mem_iff_exists _ _).2 ⟨r, hr, by omega, by omega⟩⟩
  · rintro ⟨y, h1, h2, hm⟩
    obtain ⟨r, hr, h3, h4⟩ := (mem_iff_exists _ _).1 hm
    exact ⟨r, hr, by omega, by omega⟩

/-- **`intersects_range`**: true iff some index of the query range is covered. -/
theorem intersectsRange_iff (l : List Rng) (hc : Canon l) (x : Rng) (hx : x.1 < x.2) :
    intersectsRange l x = true ↔ ∃ y, x.1 ≤ y ∧ y < x.2 ∧ mem y l := by
  rw [← meets_iff l x.1 x.2 hx 0 hc]
  unfold intersectsRange
  split
  · rename_i hq
    simp at hq
    constructor
    · intro h; simp at h
    · rintro ⟨r, hr, h1, h2⟩
      have := range_bounds l 0 hc r hr
      have := canon_nonempty hc r hr
      rcases hq with (hq | hq) | hq
      · subst hq; simp at hr
      · omega
      · omega
  · exact irCore_spec l 0 hc x.1 x.2 hx

/-- `SNORanges::contains(rhs)` is the subset test. -/
theorem containsAll_iff (l rhs : List Rng) (hl : Canon l) (hr : Canon rhs) :
    containsAll l rhs = true ↔ ∀ y, mem y rhs → mem y l := by
  unfold containsAll
  rw [List.all_eq_true]
  constructor
  · intro h y hy
    obtain ⟨r, hr', h1, h2⟩ := (mem_iff_exists _ _).1 hy
    have hne := canon_nonempty hr r hr'
    exact (containsRange_iff l hl r hne).1 (h r hr') y h1 h2
  · intro h r hr'
    have hne := canon_nonempty hr r hr'
    apply (containsRange_iff l hl r hne).2
    intro y h1 h2
    exact h y ((mem_iff_exists _ _).2 ⟨r, hr', h1, h2⟩)

/-- The loop of `intersects` = "the loop of `intersection` yields something". -/
theorem intersectsLoop_eq (l r : List Rng) : intersectsLoop l r = !(interLoop l r).isEmpty := by
  fun_induction intersectsLoop l r with
  | case1 r => simp [interLoop]
  | case2 l lt => simp [interLoop]
  | case3 l lt r rt h ih => rw [interLoop]; simp [h, ih]
  | case4 l lt r rt h1 h2 ih => rw [interLoop]; simp [h1, h2, ih]
  | case5 l lt r rt h1 h2 =>
    rw [interLoop]; simp only [h1, h2, if_false]
    split
    · simp
    · split <;> simp

theorem intersects_eq (l r : List Rng) : intersects l r = !(intersection l r).isEmpty := by
  unfold intersects intersection
  split
  · simp
  · simp
  · simp only []
    split
    · simp
    · split
      · exact intersectsLoop_eq _ _
      · split
        · exact intersectsLoop_eq _ _
        · exact intersectsLoop_eq _ _

/-- **`intersects`**: true iff the two MOCs share an index. -/
theorem intersects_iff (l r : List Rng) (hl : Canon l) (hr : Canon r) :
    intersects l r = true ↔ ∃ y, mem y l ∧ mem y r := by
  rw [intersects_eq]
  have sp := intersection_spec l r hl hr
  constructor
  · intro h
    cases hi : intersection l r with
    | nil => simp [hi] at h
    | cons s t =>
      have hc := sp.1; rw [hi] at hc
      exact ⟨s.1, (sp.2 s.1).1 (by rw [hi]; simp; left; exact hc.2.1)⟩
  · rintro ⟨y, hy⟩
    have := (sp.2 y).2 hy
    cases hi : intersection l r with
    | nil => rw [hi] at this; simp at this
    | cons s t => simp

/-- Does range `c` overlap some range of `r`? -/
def meetsB (r : List Rng) (c : Rng) : Bool := r.any fun s => decide (s.1 < c.2 ∧ c.1 < s.2)

/-- The loop of `overlapped_by`: exactly the ranges of `l` that meet `r`, in order. -/
theorem overlapLoop_spec (l r : List Rng) : ∀ a b, CanonFrom a l → CanonFrom b r →
    overlapLoop l r = l.filter (meetsB r) := by
  fun_induction overlapLoop l r with
  | case1 r => intro a b _ _; simp
  | case2 l lt =>
    intro a b _ _
    symm; rw [List.filter_eq_nil_iff]; intro c _; simp [meetsB]
  | case3 l lt r rt h ih =>
    intro a b ⟨hl1, hl2, hl3⟩ hr
    rw [ih (l.2 + 1) b hl3 hr, List.filter_cons]
    have : meetsB (r :: rt) l = false := by
      unfold meetsB
      rw [List.any_eq_false]
      intro s hs
      have hs1 : r.1 ≤ s.1 := by
        rcases List.mem_cons.1 hs with rfl | hs'
        · exact Nat.le_refl _
        · have := CanonFrom.lb hr.2.2 ((mem_iff_exists s.1 _).2 ⟨s, hs', Nat.le_refl _, canon_nonempty hr.2.2 s hs'⟩)
          have := hr.2.1; omega
      simp; omega
    simp [this]
  | case4 l lt r rt h1 h2 ih =>
    intro a b hl ⟨hr1, hr2, hr3⟩
    rw [ih a (r.2 + 1) hl hr3]
    apply List.filter_congr
    intro c hc
    have hcl2 : l.1 ≤ c.1 := by
      rcases List.mem_cons.1 hc with rfl | hc'
      · exact Nat.le_refl _
      · have := CanonFrom.lb hl.2.2 ((mem_iff_exists c.1 _).2 ⟨c, hc', Nat.le_refl _, canon_nonempty hl.2.2 c hc'⟩)
        have := hl.2.1; omega
    unfold meetsB
    rw [List.any_cons]
    have : decide (r.1 < c.2 ∧ c.1 < r.2) = false := by simp; omega
    rw [this, Bool.false_or]
  | case5 l lt r rt h1 h2 ih =>
    intro a b ⟨hl1, hl2, hl3⟩ hr
    rw [ih (l.2 + 1) b hl3 hr, List.filter_cons]
    have : meetsB (r :: rt) l = true := by
      unfold meetsB
      rw [List.any_cons]
      have : decide (r.1 < l.2 ∧ l.1 < r.2) = true := by simp; omega
      rw [this, Bool.true_or]
    simp [this]

end Moc

namespace Moc

theorem overlapLoop_drop_left (r0 : Rng) (rt : List Rng) (l : List Rng) : ∀ a, CanonFrom a l →
    overlapLoop (l.drop (startIdx r0.1 l)) (r0 :: rt) = overlapLoop l (r0 :: rt) := by
  induction l with
  | nil => intro a _; simp [startIdx]
  | cons l0 t ih =>
    intro a h
    cases t with
    | nil => simp [startIdx]
    | cons s t =>
      obtain ⟨h1, h2, h3⟩ := h
      simp only [startIdx]
      split
      · rename_i hle
        have := ih _ h3
        rw [Nat.add_comm, List.drop_succ_cons, this]
        conv => rhs; rw [overlapLoop]
        have : l0.2 ≤ r0.1 := by have := h3.1; omega
        simp [this]
      · simp

theorem overlapLoop_drop_right (l0 : Rng) (hl0 : l0.1 < l0.2) (lt : List Rng) (r : List Rng) :
    ∀ a, CanonFrom a r →
    overlapLoop (l0 :: lt) (r.drop (startIdx l0.1 r)) = overlapLoop (l0 :: lt) r := by
  induction r with
  | nil => intro a _; simp [startIdx]
  | cons r0 t ih =>
    intro a h
    cases t with
    | nil => simp [startIdx]
    | cons s t =>
      obtain ⟨h1, h2, h3⟩ := h
      simp only [startIdx]
      split
      · rename_i hle
        have := ih _ h3
        rw [Nat.add_comm, List.drop_succ_cons, this]
        conv => rhs; rw [overlapLoop]
        have h4 := h3.1
        have c1 : ¬ l0.2 ≤ r0.1 := by omega
        have c2 : r0.2 ≤ l0.1 := by omega
        simp [c1, c2]
      · simp

/-- **`overlapped_by_iter`** (repaired for empty operands): exactly the ranges of `l` overlapped by a
    range of `r`, in order; total on every pair of canonical MOCs, including empty ones. -/
theorem overlappedBy_eq (l r : List Rng) (hl : Canon l) (hr : Canon r) :
    overlappedBy l r = l.filter (meetsB r) := by
  unfold overlappedBy
  split
  · simp
  · symm; rw [List.filter_eq_nil_iff]; intro c _; simp [meetsB]
  · rename_i l0 lt r0 rt
    obtain ⟨hl1, hl2, hl3⟩ := hl
    obtain ⟨hr1, hr2, hr3⟩ := hr
    have hcl : Canon (l0 :: lt) := ⟨hl1, hl2, hl3⟩
    have hcr : Canon (r0 :: rt) := ⟨hr1, hr2, hr3⟩
    split
    · rename_i hq
      simp at hq
      symm; rw [List.filter_eq_nil_iff]
      intro c hc
      have bc := range_bounds (l0 :: lt) 0 hcl c hc
      have nc := canon_nonempty hcl c hc
      simp only [firstStart, lastEnd] at bc
      unfold meetsB
      simp only [Bool.not_eq_true]
      rw [List.any_eq_false]
      intro s hs
      have bs := range_bounds (r0 :: rt) 0 hcr s hs
      have ns := canon_nonempty hcr s hs
      simp only [firstStart, lastEnd] at bs
      simp
      rcases hq with hq | hq <;> omega
    · split
      · rw [overlapLoop_drop_left r0 rt (l0 :: lt) 0 hcl]; exact overlapLoop_spec _ _ 0 0 hcl hcr
      · split
        · rw [overlapLoop_drop_right l0 hl2 lt (r0 :: rt) 0 hcr]; exact overlapLoop_spec _ _ 0 0 hcl hcr
        · exact overlapLoop_spec _ _ 0 0 hcl hcr

/-! ### measures -/

theorem rangeSum_append (a b : List Rng) : rangeSum (a ++ b) = rangeSum a + rangeSum b := by
  induction a with
  | nil => simp [rangeSum]
  | cons r t ih => simp [rangeSum, ih]; omega

/-- Number of covered indices below `ub`. -/
def card (ub : Nat) (l : List Rng) : Nat := ((List.range ub).filter fun x => decide (mem x l)).length

end Moc
