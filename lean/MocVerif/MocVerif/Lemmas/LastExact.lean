/-
  The exact contract of `peek_last`: a source that announces a last range yields ranges, and the last one
  ends exactly at the announced upper bound (C04: hints are consistent with what is then yielded).
-/
import MocVerif.Lemmas.Hints
import MocVerif.Lemmas.Expr
namespace Moc

theorem last_exact_of_sem (o : List Rng) (M : Nat) (ho : Canon o) (hle : ∀ c ∈ o, c.2 ≤ M)
    (hm : mem (M - 1) o) (hM : 0 < M) : ∃ c, o.getLast? = some c ∧ c.2 = M := by
  obtain ⟨c, hc, h1, h2⟩ := (mem_iff_exists _ _).1 hm
  cases hz : o.getLast? with
  | none => simp [List.getLast?_eq_none_iff] at hz; subst hz; simp at hc
  | some z =>
    have := getLast?_hint o 0 ho z hz c hc
    have := hle z (List.mem_of_getLast? hz)
    have := hle c hc
    exact ⟨z, rfl, by omega⟩

theorem orLast_end (l r : Src) (r1 r2 q : Rng) (h1 : l.last = some r1) (h2 : r.last = some r2)
    (n1 : r1.1 < r1.2) (n2 : r2.1 < r2.2) (hq : orLast l r = some q) : q.2 = max r1.2 r2.2 := by
  unfold orLast at hq
  simp only [h1, h2] at hq
  split at hq
  · injection hq with hq; subst hq; omega
  · split at hq
    · injection hq with hq; subst hq; omega
    · injection hq with hq; subst hq; rfl

theorem last_mem (s : Src) (cs : Canon s.items) (e : s.LastExact) (q : Rng) (h : s.last = some q) :
    0 < q.2 ∧ mem (q.2 - 1) s.items := by
  obtain ⟨c, hc, he⟩ := e q h
  have hm := List.mem_of_getLast? hc
  have := canon_nonempty cs c hm
  exact ⟨by omega, (mem_iff_exists _ _).2 ⟨c, hm, by omega, by omega⟩⟩

theorem orSrc_lastExact (l r : Src) (hl : l.HintOkAll) (hr : r.HintOkAll) (el : l.LastExact) (er : r.LastExact)
    (cl : Canon l.items) (cr : Canon r.items) : (orSrc l r).LastExact := by
  have e : (orSrc l r).items = unionLoop l.items r.items := orItems_eq l r hr.1 cl cr
  have sp := unionLoop_spec l.items r.items 0 0 cl cr
  intro q hq
  rw [e]
  have hq' : orLast l r = some q := hq
  have ok := orLast_ok l r hl.1 hr.1 _ sp.1 (fun x hx => (sp.2 x).1 hx) q hq'
  cases h1 : l.last with
  | none => simp [orLast, h1] at hq'
  | some r1 =>
    cases h2 : r.last with
    | none => simp [orLast, h1, h2] at hq'
    | some r2 =>
      have a1 := hl.1.1 r1 h1
      have a2 := hr.1.1 r2 h2
      have hend := orLast_end l r r1 r2 q h1 h2 a1.1 a2.1 hq'
      have m1 := last_mem l cl el r1 h1
      have m2 := last_mem r cr er r2 h2
      apply last_exact_of_sem _ _ sp.1 ok.2
      · rw [hend]
        by_cases hc : r1.2 ≤ r2.2
        · rw [Nat.max_eq_right hc]; exact (sp.2 _).2 (Or.inr m2.2)
        · rw [Nat.max_eq_left (by omega)]; exact (sp.2 _).2 (Or.inl m1.2)
      · omega


theorem xorSrc_lastExact (l r : Src) (hl : l.HintOkAll) (hr : r.HintOkAll) (el : l.LastExact) (er : r.LastExact)
    (cl : Canon l.items) (cr : Canon r.items) : (xorSrc l r).LastExact := by
  have sp := xorLoop_spec l.items r.items 0 cl cr
  intro q hq
  obtain ⟨hq', r1, r2, h1, h2, hne⟩ := xorLast_ok l r q hq
  have hsem : ∀ x, mem x (xorLoop l.items r.items) → mem x l.items ∨ mem x r.items := by
    intro x hx
    have := (sp.2 x).1 hx
    by_cases h : mem x l.items
    · exact Or.inl h
    · right; apply Classical.byContradiction; intro h2; exact h (this.2 h2)
  have ok := orLast_ok l r hl.1 hr.1 _ sp.1 hsem q hq'
  have a1 := hl.1.1 r1 h1
  have a2 := hr.1.1 r2 h2
  have hend := orLast_end l r r1 r2 q h1 h2 a1.1 a2.1 hq'
  have m1 := last_mem l cl el r1 h1
  have m2 := last_mem r cr er r2 h2
  show ∃ c, (xorLoop l.items r.items).getLast? = some c ∧ c.2 = q.2
  have notin : ∀ (s : Src) (z : Rng), (∀ c ∈ s.items, c.2 ≤ z.2) → ∀ x, z.2 ≤ x → ¬ mem x s.items := by
    intro s z hz x hx hm
    obtain ⟨c, hc, _, h2⟩ := (mem_iff_exists _ _).1 hm
    have := hz c hc; omega
  apply last_exact_of_sem _ _ sp.1 ok.2
  · rw [hend]
    by_cases hc : r1.2 ≤ r2.2
    · rw [Nat.max_eq_right hc]
      have nl := notin l r1 a1.2 (r2.2 - 1) (by omega)
      exact (sp.2 _).2 ⟨fun hm => absurd hm nl, fun hn => absurd m2.2 hn⟩
    · rw [Nat.max_eq_left (by omega)]
      exact (sp.2 _).2 ⟨fun _ => notin r r2 a2.2 _ (by omega), fun _ => m1.2⟩
  · omega

theorem borrowedSrc_lastExact (d : Nat) (l : List Rng) : (borrowedSrc d l).LastExact := by
  intro q hq; exact ⟨q, hq, rfl⟩

theorem checkSrc_lastExact (s : Src) (e : s.LastExact) : (checkSrc s).LastExact := by
  unfold checkSrc; split <;> exact e

theorem convertSrc_lastExact (sh md : Nat) (s : Src) (e : s.LastExact) : (convertSrc sh md s).LastExact := by
  intro q hq
  simp only [convertSrc, Option.map_eq_some_iff] at hq
  obtain ⟨q0, h0, rfl⟩ := hq
  obtain ⟨c, hc, he⟩ := e q0 h0
  refine ⟨(c.1 <<< sh, c.2 <<< sh), ?_, by simp [he]⟩
  simp [convertSrc, List.getLast?_map, hc]

theorem lastExactB_strict_iff (s : Src) : s.lastExactB true = true ↔ s.LastExact := by
  unfold Src.lastExactB Src.LastExact
  cases h1 : s.last with
  | none => simp
  | some q =>
    cases h2 : s.items.getLast? with
    | none => simp
    | some c => simp

/-- Every leaf announces an exact last range (or none). -/
def Expr.LeavesLastExact : Expr → Prop
  | .leaf s => s.LastExact
  | .and a b | .or a b | .xor a b | .minus a b => a.LeavesLastExact ∧ b.LeavesLastExact
  | .not a => a.LeavesLastExact
  | .degrade _ a => a.LeavesLastExact

/-- Every node of a lazy operator tree announces an exact last range (or none). -/
theorem evalL_lastExact (q : Qty) (w : Nat) (h0 : 0 < q.nCellsMax w) (e : Expr)
    (hl : e.LeavesOk q w) (hd : e.DepthsOk q w) (hx : e.LeavesLastExact) : (evalL q w e).LastExact := by
  induction e with
  | leaf s => exact hx
  | and a b _ _ => intro q hq; cases hq
  | minus a b _ _ => intro q hq; cases hq
  | not a _ => intro q hq; simp only [evalL, notSrc] at hq; split at hq <;> cases hq
  | degrade nd a _ => intro q hq; simp only [evalL, degradeSrc] at hq; split at hq <;> cases hq
  | or a b iha ihb =>
    have ha := evalL_eq_evalE q w h0 a hl.1 hd.1; have hb := evalL_eq_evalE q w h0 b hl.2 hd.2
    have va := (evalE_valid q w h0 a hl.1 hd.1).1.1
    have vb := (evalE_valid q w h0 b hl.2 hd.2).1.1
    rw [← ha.1] at va; rw [← hb.1] at vb
    exact orSrc_lastExact _ _ ha.2.2 hb.2.2 (iha hl.1 hd.1 hx.1) (ihb hl.2 hd.2 hx.2) va vb
  | xor a b iha ihb =>
    have ha := evalL_eq_evalE q w h0 a hl.1 hd.1; have hb := evalL_eq_evalE q w h0 b hl.2 hd.2
    have va := (evalE_valid q w h0 a hl.1 hd.1).1.1
    have vb := (evalE_valid q w h0 b hl.2 hd.2).1.1
    rw [← ha.1] at va; rw [← hb.1] at vb
    exact xorSrc_lastExact _ _ ha.2.2 hb.2.2 (iha hl.1 hd.1 hx.1) (ihb hl.2 hd.2 hx.2) va vb

end Moc
