import MocVerif.Lemmas.Cells
import MocVerif.Model.Morpho

namespace Moc

/-- A point is in the grown range iff its cell is equal or adjacent to the cell of a point of the
    range (and it is inside the domain). -/
theorem mem_tfGrow (c ub : Nat) (hc : 0 < c) (r : Rng) (hr : r.1 < r.2) (hub : r.2 ≤ ub)
    (h1 : c ∣ r.1) (h2 : c ∣ r.2) (h3 : c ∣ ub) (x : Nat) :
    ((tfGrow c ub r).1 ≤ x ∧ x < (tfGrow c ub r).2) ↔
      x < ub ∧ ∃ y, r.1 ≤ y ∧ y < r.2 ∧ x / c ≤ y / c + 1 ∧ y / c ≤ x / c + 1 := by
  obtain ⟨a, ha⟩ := h1
  obtain ⟨b, hb⟩ := h2
  obtain ⟨n, hn⟩ := h3
  have hab : a < b := by
    apply Classical.byContradiction; intro h
    have : c * b ≤ c * a := Nat.mul_le_mul_left c (by omega)
    omega
  have hbn : b ≤ n := by
    apply Classical.byContradiction; intro h
    have : c * (n + 1) ≤ c * b := Nat.mul_le_mul_left c (by omega)
    rw [Nat.mul_add] at this; omega
  -- everything in terms of k = x / c
  have hx1 : ∀ m, c * m ≤ x ↔ m ≤ x / c := fun m => by rw [Nat.le_div_iff_mul_le hc, Nat.mul_comm]
  have hx2 : ∀ m, x < c * m ↔ x / c < m := fun m => by rw [Nat.div_lt_iff_lt_mul hc, Nat.mul_comm]
  have hy : ∀ k, a ≤ k → k < b → ∃ y, r.1 ≤ y ∧ y < r.2 ∧ y / c = k := by
    intro k k1 k2
    refine ⟨c * k, ?_, ?_, Nat.mul_div_cancel_left k hc⟩
    · rw [ha]; exact Nat.mul_le_mul_left c k1
    · rw [hb]; exact Nat.mul_lt_mul_of_pos_left k2 hc
  have hyk : ∀ y, r.1 ≤ y → y < r.2 → a ≤ y / c ∧ y / c < b := by
    intro y y1 y2
    rw [ha] at y1; rw [hb] at y2
    exact ⟨(Nat.le_div_iff_mul_le hc).2 (by rw [Nat.mul_comm]; exact y1),
           (Nat.div_lt_iff_lt_mul hc).2 (by rw [Nat.mul_comm]; exact y2)⟩
  unfold tfGrow
  simp only []
  have e1 : (if r.1 > 0 then r.1 - c else r.1) = c * (a - 1) := by
    by_cases h0 : r.1 > 0
    · rw [if_pos h0, ha, Nat.mul_sub, Nat.mul_one]
    · rw [if_neg h0]
      have : a = 0 := by
        apply Classical.byContradiction; intro h
        have : c * 1 ≤ c * a := Nat.mul_le_mul_left c (by omega)
        omega
      rw [ha, this]
  have e2 : (if r.2 < ub then r.2 + c else r.2) = c * (min (b + 1) n) := by
    by_cases h0 : r.2 < ub
    · rw [if_pos h0]
      have : b < n := by
        apply Classical.byContradiction; intro h
        have : c * n ≤ c * b := Nat.mul_le_mul_left c (by omega)
        omega
      rw [Nat.min_eq_left (by omega), hb, Nat.mul_add, Nat.mul_one]
    · rw [if_neg h0]
      have : b = n := by
        have : c * b = c * n := by omega
        exact Nat.eq_of_mul_eq_mul_left hc this
      rw [Nat.min_eq_right (by omega), hb, this]
  rw [e1, e2, hx1, hx2, hn, hx2]
  constructor
  · rintro ⟨k1, k2⟩
    refine ⟨by omega, ?_⟩
    -- pick the cell of r closest to x / c
    by_cases hk : x / c < a
    · obtain ⟨y, y1, y2, y3⟩ := hy a (Nat.le_refl _) hab
      exact ⟨y, y1, y2, by omega, by omega⟩
    · by_cases hk2 : x / c < b
      · obtain ⟨y, y1, y2, y3⟩ := hy (x / c) (by omega) hk2
        exact ⟨y, y1, y2, by omega, by omega⟩
      · obtain ⟨y, y1, y2, y3⟩ := hy (b - 1) (by omega) (by omega)
        exact ⟨y, y1, y2, by omega, by omega⟩
  · rintro ⟨k0, y, y1, y2, k1, k2⟩
    obtain ⟨t1, t2⟩ := hyk y y1 y2
    generalize x / c = k at *
    generalize y / c = j at *
    refine ⟨by omega, Nat.lt_min.2 ⟨by omega, k0⟩⟩

end Moc

namespace Moc

theorem map_tfGrow_sorted (c ub : Nat) (l : List Rng) : ∀ lo, CanonFrom lo l →
    SortedFrom (lo - c) (l.map (tfGrow c ub)) := by
  induction l with
  | nil => intro lo _; trivial
  | cons r t ih =>
    intro lo h
    obtain ⟨h1, h2, h3⟩ := h
    simp only [List.map]
    refine ⟨?_, ?_, ?_⟩
    · unfold tfGrow; simp only []; split <;> omega
    · unfold tfGrow; simp only []; split <;> split <;> omega
    · have := ih (r.2 + 1) h3
      apply this.mono
      unfold tfGrow; simp only []; split <;> omega

theorem mem_map_iff (f : Rng → Rng) (l : List Rng) (x : Nat) :
    mem x (l.map f) ↔ ∃ r ∈ l, (f r).1 ≤ x ∧ x < (f r).2 := by
  rw [mem_iff_exists]
  constructor
  · rintro ⟨s, hs, h⟩
    obtain ⟨r, hr, rfl⟩ := List.mem_map.1 hs
    exact ⟨r, hr, h⟩
  · rintro ⟨r, hr, h⟩
    exact ⟨f r, List.mem_map.2 ⟨r, hr, rfl⟩, h⟩

/-- **T/F expansion**: `M` plus the previous and the next depth-`d` cell of each of its cells,
    clipped to the domain; the result is canonical. -/
theorem tfExpanded_spec (c ub : Nat) (hc : 0 < c) (l : List Rng) (hl : Canon l)
    (hb : BoundedBy ub l) (ha : Aligned c l) (hub : c ∣ ub) :
    Canon (tfExpanded c ub l) ∧
    ∀ x, mem x (tfExpanded c ub l) ↔
      x < ub ∧ ∃ y, mem y l ∧ x / c ≤ y / c + 1 ∧ y / c ≤ x / c + 1 := by
  have hs := map_tfGrow_sorted c ub l 0 hl
  have hm := mergeOverlapping_spec _ (hs.mono (Nat.zero_le _))
  refine ⟨hm.1, fun x => ?_⟩
  unfold tfExpanded mergeSorted
  rw [hm.2, mem_map_iff]
  constructor
  · rintro ⟨r, hr, h⟩
    have := (mem_tfGrow c ub hc r (canon_nonempty hl r hr) (hb r hr) (ha r hr).1 (ha r hr).2 hub x).1 h
    obtain ⟨h0, y, y1, y2, k1, k2⟩ := this
    exact ⟨h0, y, (mem_iff_exists _ _).2 ⟨r, hr, y1, y2⟩, k1, k2⟩
  · rintro ⟨h0, y, hy, k1, k2⟩
    obtain ⟨r, hr, y1, y2⟩ := (mem_iff_exists _ _).1 hy
    exact ⟨r, hr, (mem_tfGrow c ub hc r (canon_nonempty hl r hr) (hb r hr) (ha r hr).1 (ha r hr).2 hub x).2
      ⟨h0, y, y1, y2, k1, k2⟩⟩

theorem shrink_aux (s e x : Nat) :
    (∃ q : Rng, (if s < e then some (s, e) else none) = some q ∧ q.1 ≤ x ∧ x < q.2) ↔ (s ≤ x ∧ x < e) := by
  constructor
  · rintro ⟨q, hq, q1, q2⟩
    split at hq
    · injection hq with hq; subst hq; exact ⟨q1, q2⟩
    · simp at hq
  · rintro ⟨h1, h2⟩
    rw [if_pos (by omega)]
    exact ⟨_, rfl, h1, h2⟩

/-- `contracted` (repaired) keeps a point iff its whole neighbourhood (its cell, the previous and
    the next one, inside the domain) is covered — i.e. it is the complement of the expansion of the
    complement, stated pointwise on one range. -/
theorem mem_tfShrink (c ub : Nat) (r : Rng) (x : Nat) :
    (∃ s, tfShrink c ub r = some s ∧ s.1 ≤ x ∧ x < s.2) ↔
      ((r.1 > 0 → r.1 + c ≤ x) ∧ (r.1 = 0 → r.1 ≤ x) ∧ (r.2 < ub → x + c < r.2) ∧ (¬ r.2 < ub → x < r.2)) := by
  unfold tfShrink
  simp only []
  rw [shrink_aux]
  by_cases c1 : r.1 > 0 <;> by_cases c2 : r.2 < ub
  · have c3 : ¬ r.1 = 0 := by omega
    simp [c1, c2, c3]; omega
  · have c3 : ¬ r.1 = 0 := by omega
    simp [c1, c2, c3]
  · have c3 : r.1 = 0 := by omega
    simp [c1, c2, c3]; omega
  · have c3 : r.1 = 0 := by omega
    simp [c1, c2, c3]

end Moc

namespace Moc

/-- In a canonical list the index just after a range, and the one just before it, are not covered. -/
theorem canon_gaps {lo : Nat} {l : List Rng} (h : CanonFrom lo l) : ∀ r ∈ l,
    ¬ mem r.2 l ∧ (r.1 > 0 → ¬ mem (r.1 - 1) l) := by
  induction l generalizing lo with
  | nil => intro r hr; cases hr
  | cons q t ih =>
    obtain ⟨h1, h2, h3⟩ := h
    intro r hr
    cases hr with
    | head =>
      constructor
      · rintro (hh | hh)
        · omega
        · have := h3.lb hh; omega
      · intro _
        rintro (hh | hh)
        · omega
        · have := h3.lb hh; omega
    | tail _ hm =>
      have hne := canon_nonempty h3 r hm
      have hlb := h3.lb ((mem_iff_exists r.1 t).2 ⟨r, hm, Nat.le_refl _, hne⟩)
      have := ih h3 r hm
      constructor
      · rintro (hh | hh)
        · omega
        · exact this.1 hh
      · intro hp
        rintro (hh | hh)
        · omega
        · exact this.2 hp hh

theorem tfShrink_some (c ub : Nat) (r s : Rng) (h : tfShrink c ub r = some s) :
    r.1 ≤ s.1 ∧ s.1 < s.2 ∧ s.2 ≤ r.2 := by
  unfold tfShrink at h
  simp only [] at h
  generalize hs0 : (if r.1 > 0 then r.1 + c else r.1) = s0 at h
  generalize he0 : (if r.2 < ub then r.2 - c else r.2) = e0 at h
  have k1 : r.1 ≤ s0 := by rw [← hs0]; split <;> omega
  have k2 : e0 ≤ r.2 := by rw [← he0]; split <;> omega
  split at h
  · injection h with h
    subst h
    rename_i hlt
    exact ⟨k1, hlt, k2⟩
  · simp at h

theorem tfContracted_canon (c ub : Nat) (l : List Rng) : ∀ lo, CanonFrom lo l →
    CanonFrom lo (tfContracted c ub l) := by
  unfold tfContracted
  induction l with
  | nil => intro lo _; trivial
  | cons r t ih =>
    intro lo h
    obtain ⟨h1, h2, h3⟩ := h
    rw [List.filterMap_cons]
    have iht := ih (r.2 + 1) h3
    cases hs : tfShrink c ub r with
    | none => simp only []; exact iht.mono (by omega)
    | some s =>
      simp only []
      have k := tfShrink_some c ub r s hs
      exact ⟨by omega, k.2.1, iht.mono (by omega)⟩

/-- **T/F contraction** (repaired code): canonical, and a point is kept iff every point of the domain whose
    cell is equal or adjacent to its own is covered — i.e. `contracted = complement ∘ expanded ∘ complement`,
    stated on the covered sets. -/
theorem tfContracted_spec (c ub : Nat) (hc : 0 < c) (l : List Rng) (hl : Canon l)
    (hb : BoundedBy ub l) (ha : Aligned c l) (hub : c ∣ ub) :
    Canon (tfContracted c ub l) ∧
    ∀ x, mem x (tfContracted c ub l) ↔
      x < ub ∧ ∀ y, y < ub → x / c ≤ y / c + 1 → y / c ≤ x / c + 1 → mem y l := by
  refine ⟨tfContracted_canon c ub l 0 hl, fun x => ?_⟩
  have hmem : mem x (tfContracted c ub l) ↔ ∃ r ∈ l, ∃ s, tfShrink c ub r = some s ∧ s.1 ≤ x ∧ x < s.2 := by
    unfold tfContracted
    rw [mem_iff_exists]
    constructor
    · rintro ⟨s, hs, h⟩
      obtain ⟨r, hr, hrs⟩ := List.mem_filterMap.1 hs
      exact ⟨r, hr, s, hrs, h⟩
    · rintro ⟨r, hr, s, hrs, h⟩
      exact ⟨s, List.mem_filterMap.2 ⟨r, hr, hrs⟩, h⟩
  rw [hmem]
  obtain ⟨n, hn⟩ := hub
  -- facts on x / c
  have hxd := Nat.div_add_mod x c
  have hxm := Nat.mod_lt x hc
  constructor
  · rintro ⟨r, hr, hs⟩
    have cond := (mem_tfShrink c ub r x).1 hs
    obtain ⟨a, ha'⟩ := (ha r hr).1
    obtain ⟨b, hb'⟩ := (ha r hr).2
    have hrb := hb r hr
    have hne := canon_nonempty hl r hr
    -- x lies inside r
    have hx1 : r.1 ≤ x := by
      by_cases h0 : r.1 > 0
      · have := cond.1 h0; omega
      · have := cond.2.1 (by omega); omega
    have hx2 : x < r.2 := by
      by_cases h0 : r.2 < ub
      · have := cond.2.2.1 h0; omega
      · exact cond.2.2.2 h0
    refine ⟨by omega, fun y hy k1 k2 => ?_⟩
    refine (mem_iff_exists y l).2 ⟨r, hr, ?_, ?_⟩
    · -- lower bound
      by_cases h0 : r.1 > 0
      · have h1 := cond.1 h0
        -- a + 1 ≤ x / c
        have hxa : a + 1 ≤ x / c := by
          rw [Nat.le_div_iff_mul_le hc, Nat.add_mul, Nat.one_mul, Nat.mul_comm]; omega
        have hya : a ≤ y / c := by omega
        have : c * a ≤ y := by
          have := (Nat.le_div_iff_mul_le hc).1 hya
          rw [Nat.mul_comm] at this; exact this
        omega
      · omega
    · -- upper bound
      by_cases h0 : r.2 < ub
      · have h1 := cond.2.2.1 h0
        -- x / c + 1 < b, so y / c < b
        have hxb : x / c + 1 < b := by
          have : x + c < c * b := by omega
          have h2 : x / c + 1 = (x + c) / c := by rw [Nat.add_div_right _ hc]
          rw [h2, Nat.div_lt_iff_lt_mul hc, Nat.mul_comm]; exact this
        have hyb : y / c < b := by omega
        have : y < c * b := by
          have := (Nat.div_lt_iff_lt_mul hc).1 hyb
          rw [Nat.mul_comm] at this; exact this
        omega
      · omega
  · rintro ⟨hxu, hall⟩
    have hxl := hall x hxu (by omega) (by omega)
    obtain ⟨r, hr, hx1, hx2⟩ := (mem_iff_exists x l).1 hxl
    refine ⟨r, hr, (mem_tfShrink c ub r x).2 ⟨?_, fun _ => hx1, ?_, fun _ => hx2⟩⟩
    · intro h0
      -- otherwise r.1 - 1 is a neighbour of x that is not covered
      apply Classical.byContradiction; intro hlt
      obtain ⟨a, ha'⟩ := (ha r hr).1
      have hgap := (canon_gaps hl r hr).2 h0
      apply hgap
      have hapos : 0 < a := by
        apply Classical.byContradiction; intro h; have : a = 0 := by omega
        rw [this] at ha'; omega
      have hxa : x / c = a := by
        apply Nat.div_eq_of_lt_le
        · rw [Nat.mul_comm]; omega
        · rw [Nat.add_mul, Nat.one_mul, Nat.mul_comm]; omega
      have hya : (r.1 - 1) / c = a - 1 := by
        apply Nat.div_eq_of_lt_le
        · rw [Nat.mul_comm, ha']
          have : c * (a - 1) + c = c * a := by
            rw [← Nat.mul_succ]; congr 1; omega
          omega
        · have : a - 1 + 1 = a := by omega
          rw [this, Nat.mul_comm]; omega
      exact hall (r.1 - 1) (by omega) (by omega) (by omega)
    · intro h0
      apply Classical.byContradiction; intro hlt
      obtain ⟨b, hb'⟩ := (ha r hr).2
      have hgap := (canon_gaps hl r hr).1
      apply hgap
      have hbpos : 0 < b := by
        apply Classical.byContradiction; intro h; have : b = 0 := by omega
        rw [this] at hb'; omega
      have hxb : x / c = b - 1 := by
        apply Nat.div_eq_of_lt_le
        · rw [Nat.mul_comm]
          have : c * (b - 1) + c = c * b := by
            rw [← Nat.mul_succ]; congr 1; omega
          omega
        · have : b - 1 + 1 = b := by omega
          rw [this, Nat.mul_comm]; omega
      have hyb : r.2 / c = b := by
        rw [hb']; exact Nat.mul_div_cancel_left b hc
      exact hall r.2 h0 (by omega) (by omega)

end Moc
