/-
  C05 — the cell-RANGE view and the generic uniq numbering.
-/
import MocVerif.Lemmas.CodecMoc
import MocVerif.Lemmas.Cells

namespace Moc

theorem sentinel_eq (q : Qty) (d : Nat) : (1 <<< q.nd0Bits) <<< (q.dim * d) = 2 ^ (q.nd0Bits + q.dim * d) := by
  rw [Nat.shiftLeft_eq, Nat.shiftLeft_eq, Nat.one_mul, ← Nat.pow_add]

/-- Generic `to_uniq_gen` / `from_uniq_gen` (sentinel bit above the index): decoding inverts encoding for every
    depth and every in-range index of a quantity whose depth-0 cells fit in `N_D0_BITS` bits. -/
theorem fromUniqGen_toUniqGen (q : Qty) (hdim : 0 < q.dim) (hq : q.nd0 ≤ 2 ^ q.nd0Bits) (d i : Nat)
    (hi : i < q.nCells d) : fromUniqGen q (toUniqGen q d i) = (d, i) := by
  have hi' : i < 2 ^ (q.nd0Bits + q.dim * d) := by
    unfold Qty.nCells at hi
    rw [Nat.shiftLeft_eq] at hi
    rw [Nat.pow_add]
    exact Nat.lt_of_lt_of_le hi (Nat.mul_le_mul_right _ hq)
  unfold toUniqGen fromUniqGen
  have hor : 2 ^ (q.nd0Bits + q.dim * d) ||| i = 2 ^ (q.nd0Bits + q.dim * d) + i := by
    have := Nat.two_pow_add_eq_or_of_lt hi' 1
    rw [Nat.mul_one] at this
    exact this.symm
  rw [sentinel_eq, hor]
  simp only []
  generalize hk : q.nd0Bits + q.dim * d = k at *
  have hne : 2 ^ k + i ≠ 0 := by have : 0 < 2 ^ k := Nat.pos_of_ne_zero (by simp); omega
  have l1 : k ≤ Nat.log2 (2 ^ k + i) := (Nat.le_log2 hne).2 (by omega)
  have l2 : Nat.log2 (2 ^ k + i) < k + 1 := (Nat.log2_lt hne).2 (by rw [Nat.pow_succ]; omega)
  have hl : Nat.log2 (2 ^ k + i) = k := by omega
  simp only [hl]
  have hd : (k - q.nd0Bits) / q.dim = d := by
    rw [← hk, Nat.add_sub_cancel_left, Nat.mul_div_cancel_left d hdim]
  rw [hd, sentinel_eq, hk]
  simp


open Moc.Codec in
theorem rangeOfCellRange_lt (q : Qty) (w : Nat) (c : CellRange) (h : c.2.1 < c.2.2) :
    (rangeOfCellRange q w c).1 < (rangeOfCellRange q w c).2 := by
  unfold rangeOfCellRange
  exact shl_lt_shl _ _ _ h

open Moc.Codec in
/-- On ordered cell ranges the fusing reader is `merge_overlapping` of the mapped ranges. -/
theorem rangesOfCellRangesFrom_eq (q : Qty) (w d : Nat) : ∀ (t : List CellRange) (cur : Rng) (hi : Nat),
    OrdCR q w d cur.2 hi t →
    rangesOfCellRangesFrom q w cur t = mergeOvFrom cur (t.map (rangeOfCellRange q w)) := by
  intro t
  induction t with
  | nil => intro cur hi _; rfl
  | cons c t ih =>
    intro cur hi h
    obtain ⟨_, h2, h3, h4⟩ := h
    have hlt := rangeOfCellRange_lt q w c h2
    simp only [rangesOfCellRangesFrom, List.map_cons, mergeOvFrom]
    split
    · have hmax : max (rangeOfCellRange q w c).2 cur.2 = (rangeOfCellRange q w c).2 := by
        apply Nat.max_eq_left; omega
      rw [hmax]
      exact ih (cur.1, (rangeOfCellRange q w c).2) hi h4
    · rw [ih (rangeOfCellRange q w c) hi h4]

open Moc.Codec in
theorem sortedFrom_of_ordCR (q : Qty) (w d : Nat) : ∀ (t : List CellRange) (lo hi : Nat), OrdCR q w d lo hi t →
    SortedFrom lo (t.map (rangeOfCellRange q w)) := by
  intro t
  induction t with
  | nil => intro lo hi _; trivial
  | cons c t ih =>
    intro lo hi h
    obtain ⟨_, h2, h3, h4⟩ := h
    have hlt := rangeOfCellRange_lt q w c h2
    exact ⟨h3, hlt, (ih _ hi h4).mono (Nat.le_of_lt hlt)⟩

open Moc.Codec in
/-- Reading ordered cell ranges back: canonical ranges covering exactly the cell ranges. -/
theorem rangesOfCellRanges_spec (q : Qty) (w d : Nat) (crs : List CellRange) (lo hi : Nat)
    (h : OrdCR q w d lo hi crs) :
    Canon (rangesOfCellRanges q w crs) ∧
    ∀ x, mem x (rangesOfCellRanges q w crs) ↔ mem x (crs.map (rangeOfCellRange q w)) := by
  have hs := (sortedFrom_of_ordCR q w d crs lo hi h).mono (Nat.zero_le _)
  have sp := mergeOverlapping_spec _ hs
  have e : rangesOfCellRanges q w crs = mergeOverlapping (crs.map (rangeOfCellRange q w)) := by
    cases crs with
    | nil => rfl
    | cons c t =>
      obtain ⟨_, _, _, h4⟩ := h
      simp only [rangesOfCellRanges, List.map_cons, mergeOverlapping]
      exact rangesOfCellRangesFrom_eq q w d t _ hi h4
  rw [e]
  exact sp

end Moc
