import MocVerif.Lemmas.Canon

namespace Moc

theorem interLoop_spec (l r : List Rng) : ∀ a b, CanonFrom a l → CanonFrom b r →
    CanonFrom (max a b) (interLoop l r) ∧ ∀ x, mem x (interLoop l r) ↔ mem x l ∧ mem x r := by
  fun_induction interLoop l r with
  | case1 r => intro a b _ _; simp
  | case2 l lt => intro a b _ _; simp
  | case3 l lt r rt h ih =>
    intro a b hl hr
    simp at hl hr
    have := ih (l.2+1) b hl.2.2 (by simp; exact hr)
    refine ⟨this.1.mono (by omega), fun x => ?_⟩
    rw [this.2]
    have lb := @CanonFrom.lb _ _ hr.2.2 x
    simp
    grind
  | case4 l lt r rt h1 h2 ih =>
    intro a b hl hr
    simp at hl hr
    have := ih a (r.2+1) (by simp; exact hl) hr.2.2
    refine ⟨this.1.mono (by omega), fun x => ?_⟩
    rw [this.2]
    have lb := @CanonFrom.lb _ _ hl.2.2 x
    simp
    grind
  | case5 l lt r rt h1 h2 from_ h3 ih =>
    intro a b hl hr
    simp at hl hr
    have := ih (l.2 + 1) b hl.2.2 (by simp; exact hr)
    refine ⟨?_, fun x => ?_⟩
    · simp; refine ⟨by omega, by omega, this.1.mono (by omega)⟩
    · simp; rw [this.2]
      have lb := @CanonFrom.lb _ _ hl.2.2 x
      have lb' := @CanonFrom.lb _ _ hr.2.2 x
      simp
      grind
  | case6 l lt r rt h1 h2 from_ h3 h4 ih =>
    intro a b hl hr
    simp at hl hr
    have := ih a (r.2 + 1) (by simp; exact hl) hr.2.2
    refine ⟨?_, fun x => ?_⟩
    · simp; refine ⟨by omega, by omega, this.1.mono (by omega)⟩
    · simp; rw [this.2]
      have lb := @CanonFrom.lb _ _ hl.2.2 x
      have lb' := @CanonFrom.lb _ _ hr.2.2 x
      simp
      grind
  | case7 l lt r rt h1 h2 from_ h3 h4 ih =>
    intro a b hl hr
    simp at hl hr
    have := ih (l.2 + 1) (r.2 + 1) hl.2.2 hr.2.2
    refine ⟨?_, fun x => ?_⟩
    · simp; refine ⟨by omega, by omega, this.1.mono (by omega)⟩
    · simp; rw [this.2]
      have lb := @CanonFrom.lb _ _ hl.2.2 x
      have lb' := @CanonFrom.lb _ _ hr.2.2 x
      grind

end Moc

namespace Moc

theorem consumeWhileEndLe_spec (to : Nat) (t : List Rng) : ∀ a, CanonFrom a t →
    CanonFrom a (consumeWhileEndLe to t) ∧
    (∀ x, mem x (consumeWhileEndLe to t) → mem x t) ∧
    (∀ x, mem x t → x < to ∨ mem x (consumeWhileEndLe to t)) := by
  induction t with
  | nil => intro a _; simp [consumeWhileEndLe]
  | cons c t ih =>
    intro a h
    simp at h
    simp only [consumeWhileEndLe]
    split
    · exact ⟨by simp; exact h, fun x hx => hx, fun x hx => Or.inr hx⟩
    · have := ih (c.2+1) h.2.2
      refine ⟨this.1.mono (by omega), fun x hx => Or.inr (this.2.1 x hx), fun x hx => ?_⟩
      simp at hx
      rcases hx with hx | hx
      · omega
      · exact this.2.2 x hx

/-- Prove `CanonFrom lo (r :: t)` from hypotheses in context. -/
macro "canon_cons" : tactic =>
  `(tactic| (refine (canonFrom_cons _ _ _).2 ⟨?_, ?_, ?_⟩ <;> (try simp only []) <;>
             (first | omega | assumption | (apply CanonFrom.mono (by assumption); omega))))

theorem unionLoop_spec (l r : List Rng) : ∀ a b, CanonFrom a l → CanonFrom b r →
    CanonFrom (min a b) (unionLoop l r) ∧ ∀ x, mem x (unionLoop l r) ↔ mem x l ∨ mem x r := by
  fun_induction unionLoop l r with
  | case1 r => intro a b _ hr; simp; exact hr.mono (by omega)
  | case2 l lt => intro a b hl _; simp only [List.cons_ne_nil, not_false_eq_true, mem_nil, or_false, implies_true, and_true]; exact CanonFrom.mono hl (by omega)
  | case3 l lt r rt h ih =>
    intro a b hl hr
    obtain ⟨hl1, hl2, hl3⟩ := hl
    obtain ⟨hr1, hr2, hr3⟩ := hr
    have := ih (l.2+1) (l.2+1) hl3 (by canon_cons)
    refine ⟨?_, fun x => ?_⟩
    · have := this.1; canon_cons
    · simp; rw [this.2]; simp; grind
  | case4 l lt r rt h1 h2 ih =>
    intro a b hl hr
    obtain ⟨hl1, hl2, hl3⟩ := hl
    obtain ⟨hr1, hr2, hr3⟩ := hr
    have := ih (r.2+1) (r.2+1) (by canon_cons) hr3
    refine ⟨?_, fun x => ?_⟩
    · have := this.1; canon_cons
    · simp; rw [this.2]; simp; grind
  | case5 l lt r rt h1 h2 h3 ih =>
    intro a b hl hr
    obtain ⟨hl1, hl2, hl3⟩ := hl
    obtain ⟨hr1, hr2, hr3⟩ := hr
    have hc := consumeWhileEndLe_spec r.2 lt (l.2+1) hl3
    have := ih (l.2+1) (min l.1 r.1) hc.1 (by canon_cons)
    refine ⟨this.1.mono (by omega), fun x => ?_⟩
    rw [this.2]
    have c1 := hc.2.1 x
    have c2 := hc.2.2 x
    have lb := @CanonFrom.lb _ _ hl3 x
    simp
    grind
  | case6 l lt r rt h1 h2 h3 ih =>
    intro a b hl hr
    obtain ⟨hl1, hl2, hl3⟩ := hl
    obtain ⟨hr1, hr2, hr3⟩ := hr
    have hc := consumeWhileEndLe_spec l.2 rt (r.2+1) hr3
    have := ih (min l.1 r.1) (r.2+1) (by canon_cons) hc.1
    refine ⟨this.1.mono (by omega), fun x => ?_⟩
    rw [this.2]
    have c1 := hc.2.1 x
    have c2 := hc.2.2 x
    have lb := @CanonFrom.lb _ _ hr3 x
    simp
    grind

end Moc

namespace Moc

/-! ### complement -/

theorem complFrom_spec (ub : Nat) (t : List Rng) : ∀ last, CanonFrom (last + 1) t → BoundedBy ub t →
    CanonFrom last (complFrom last ub t) ∧
    ∀ x, mem x (complFrom last ub t) ↔ last ≤ x ∧ x < ub ∧ ¬ mem x t := by
  induction t with
  | nil =>
    intro last _ _
    simp only [complFrom]
    split
    · simp; omega
    · simp; omega
  | cons r t ih =>
    intro last hc hb
    obtain ⟨h1, h2, h3⟩ := hc
    have hb' : BoundedBy ub t := fun s hs => hb s (List.mem_cons_of_mem _ hs)
    have hr : r.2 ≤ ub := hb r (List.mem_cons_self ..)
    have := ih r.2 h3 hb'
    simp only [complFrom]
    refine ⟨?_, fun x => ?_⟩
    · have := this.1; canon_cons
    · have lb := @CanonFrom.lb _ _ h3 x
      simp; rw [this.2]; grind

theorem complement_spec (ub : Nat) (l : List Rng) (hub : 0 < ub) (hc : Canon l) (hb : BoundedBy ub l) :
    Canon (complement ub l) ∧ ∀ x, mem x (complement ub l) ↔ x < ub ∧ ¬ mem x l := by
  cases l with
  | nil => simp [complement, Canon]; exact hub
  | cons r t =>
    obtain ⟨h1, h2, h3⟩ := hc
    have hb' : BoundedBy ub t := fun s hs => hb s (List.mem_cons_of_mem _ hs)
    simp only [complement]
    split
    · rename_i h0
      have := complFrom_spec ub t r.2 h3 hb'
      refine ⟨this.1.mono (by omega), fun x => ?_⟩
      rw [this.2]; simp; grind
    · rename_i h0
      have := complFrom_spec ub (r :: t) 0 (by canon_cons) hb
      refine ⟨this.1, fun x => ?_⟩
      rw [this.2]; simp

/-! ### sort + fuse = `Ranges::new_from` -/

/-- Sorted by start, every range non-empty, all starts `≥ lo`. -/
def SortedFrom (lo : Nat) : List Rng → Prop
  | [] => True
  | r :: t => lo ≤ r.1 ∧ r.1 < r.2 ∧ SortedFrom r.1 t

theorem SortedFrom.mono {lo lo' : Nat} {l : List Rng} (h : SortedFrom lo l) (hle : lo' ≤ lo) :
    SortedFrom lo' l := by
  cases l with
  | nil => trivial
  | cons r t => exact ⟨Nat.le_trans hle h.1, h.2.1, h.2.2⟩

theorem mergeOvFrom_spec (t : List Rng) : ∀ cur : Rng, cur.1 < cur.2 → SortedFrom cur.1 t →
    CanonFrom cur.1 (mergeOvFrom cur t) ∧
    ∀ x, mem x (mergeOvFrom cur t) ↔ (cur.1 ≤ x ∧ x < cur.2) ∨ mem x t := by
  induction t with
  | nil => intro cur h _; simp [mergeOvFrom]; omega
  | cons r t ih =>
    intro cur hcur hs
    obtain ⟨h1, h2, h3⟩ := hs
    simp only [mergeOvFrom]
    split
    · rename_i hle
      have := ih (cur.1, max r.2 cur.2) (by simp; omega) (h3.mono (by simp; omega))
      refine ⟨this.1, fun x => ?_⟩
      rw [this.2]; simp; grind
    · rename_i hgt
      have := ih r h2 h3
      refine ⟨?_, fun x => ?_⟩
      · have := this.1; canon_cons
      · simp; rw [this.2]

theorem mergeOverlapping_spec (l : List Rng) (hs : SortedFrom 0 l) :
    Canon (mergeOverlapping l) ∧ ∀ x, mem x (mergeOverlapping l) ↔ mem x l := by
  cases l with
  | nil => simp [mergeOverlapping, Canon]
  | cons r t =>
    have := mergeOvFrom_spec t r hs.2.1 hs.2.2
    exact ⟨this.1.mono (Nat.zero_le _), fun x => by simp [mergeOverlapping, this.2]⟩

theorem insertByStart_spec (r : Rng) (hr : r.1 < r.2) (l : List Rng) : ∀ lo, SortedFrom lo l → lo ≤ r.1 →
    SortedFrom lo (insertByStart r l) ∧ ∀ x, mem x (insertByStart r l) ↔ (r.1 ≤ x ∧ x < r.2) ∨ mem x l := by
  induction l with
  | nil => intro lo _ hlo; simp [insertByStart, SortedFrom]; omega
  | cons s t ih =>
    intro lo hs hlo
    obtain ⟨h1, h2, h3⟩ := hs
    simp only [insertByStart]
    split
    · rename_i hle
      exact ⟨⟨hlo, hr, hle, h2, h3⟩, fun x => by simp⟩
    · rename_i hgt
      have := ih s.1 h3 (by omega)
      exact ⟨⟨h1, h2, this.1⟩, fun x => by simp [this.2]; grind⟩

theorem sortByStart_spec (l : List Rng) (hne : ∀ r ∈ l, r.1 < r.2) :
    SortedFrom 0 (sortByStart l) ∧ ∀ x, mem x (sortByStart l) ↔ mem x l := by
  induction l with
  | nil => simp [sortByStart, SortedFrom]
  | cons r t ih =>
    have := ih (fun s hs => hne s (List.mem_cons_of_mem _ hs))
    have hi := insertByStart_spec r (hne r (List.mem_cons_self ..)) _ 0 this.1 (Nat.zero_le _)
    exact ⟨hi.1, fun x => by simp [sortByStart, hi.2, this.2]⟩

theorem newFrom_spec (l : List Rng) (hne : ∀ r ∈ l, r.1 < r.2) :
    Canon (newFrom l) ∧ ∀ x, mem x (newFrom l) ↔ mem x l := by
  have hs := sortByStart_spec l hne
  have hm := mergeOverlapping_spec _ hs.1
  exact ⟨hm.1, fun x => by rw [newFrom, hm.2, hs.2]⟩

theorem mem_filter_nonempty (x : Nat) (l : List Rng) :
    mem x (l.filter fun r => r.1 < r.2) ↔ mem x l := by
  induction l with
  | nil => simp
  | cons r t ih =>
    simp only [List.filter]
    split
    · simp [ih]
    · rename_i h; simp at h; simp [ih]; omega

/-- `normalize` reaches the unique normal form of the covered set. -/
theorem normalize_spec (l : List Rng) :
    Canon (normalize l) ∧ ∀ x, mem x (normalize l) ↔ mem x l := by
  have := newFrom_spec (l.filter fun r => r.1 < r.2) (by intro r hr; simpa using (List.mem_filter.1 hr).2)
  exact ⟨this.1, fun x => by rw [normalize, this.2, mem_filter_nonempty]⟩

end Moc

namespace Moc

/-! ### top-level `intersection` / `union`: the binary-search prefixes and quick tests are no-ops -/

theorem lastEndD_spec (t : List Rng) : ∀ d, CanonFrom (d + 1) t →
    d ≤ lastEndD d t ∧ ∀ x, mem x t → x < lastEndD d t := by
  induction t with
  | nil => intro d _; simp [lastEndD]
  | cons r t ih =>
    intro d h
    obtain ⟨h1, h2, h3⟩ := h
    have := ih r.2 h3
    simp only [lastEndD]
    refine ⟨by omega, fun x hx => ?_⟩
    simp at hx
    rcases hx with hx | hx
    · omega
    · exact this.2 x hx

theorem interLoop_drop_startIdx (r0 : Rng) (rt : List Rng) (l : List Rng) : ∀ a, CanonFrom a l →
    interLoop (l.drop (startIdx r0.1 l)) (r0 :: rt) = interLoop l (r0 :: rt) := by
  induction l with
  | nil => intro a _; simp [startIdx]
  | cons l0 t ih =>
    intro a h
    cases t with
    | nil => simp [startIdx]
    | cons s t =>
      obtain ⟨h1, h2, h3⟩ := h
      simp only [startIdx]
      split
      · rename_i hle
        have := ih _ h3
        rw [Nat.add_comm, List.drop_succ_cons, this]
        conv => rhs; rw [interLoop]
        have : l0.2 ≤ r0.1 := by have := h3.1; omega
        simp [this]
      · simp

theorem interLoop_comm_drop (l0 : Rng) (hl0 : l0.1 < l0.2) (lt : List Rng) (r : List Rng) :
    ∀ a, CanonFrom a r →
    interLoop (l0 :: lt) (r.drop (startIdx l0.1 r)) = interLoop (l0 :: lt) r := by
  induction r with
  | nil => intro a _; simp [startIdx]
  | cons r0 t ih =>
    intro a h
    cases t with
    | nil => simp [startIdx]
    | cons s t =>
      obtain ⟨h1, h2, h3⟩ := h
      simp only [startIdx]
      split
      · rename_i hle
        have := ih _ h3
        rw [Nat.add_comm, List.drop_succ_cons, this]
        conv => rhs; rw [interLoop]
        have h4 := h3.1
        have c1 : ¬ l0.2 ≤ r0.1 := by omega
        have c2 : r0.2 ≤ l0.1 := by omega
        simp [c1, c2]
      · simp

theorem interLoop_nil_of_sep_left (l r : List Rng) (k : Nat) (hl : ∀ x, mem x l → x < k)
    (hr : CanonFrom k r) : ∀ a, CanonFrom a l → interLoop l r = [] := by
  intro a ha
  have := interLoop_spec l r a k ha hr
  have hc := this.1
  generalize interLoop l r = o at *
  cases o with
  | nil => rfl
  | cons s t =>
    exfalso
    have h1 := (this.2 s.1).1 (by simp; exact Or.inl hc.2.1)
    have := hl _ h1.1
    have := hr.lb h1.2
    omega

theorem interLoop_nil_of_sep_right (l r : List Rng) (k : Nat) (hr' : ∀ x, mem x r → x < k)
    (hl : CanonFrom k l) : ∀ b, CanonFrom b r → interLoop l r = [] := by
  intro b hb
  have := interLoop_spec l r k b hl hb
  have hc := this.1
  generalize interLoop l r = o at *
  cases o with
  | nil => rfl
  | cons s t =>
    exfalso
    have h1 := (this.2 s.1).1 (by simp; exact Or.inl hc.2.1)
    have := hr' _ h1.2
    have := hl.lb h1.1
    omega

/-- The quick-rejection test and the binary-search start of `BorrowedRanges::intersection`
    never change the result of the plain two-pointer loop. -/
theorem intersection_eq_interLoop (l r : List Rng) (hl : Canon l) (hr : Canon r) :
    intersection l r = interLoop l r := by
  unfold intersection
  split
  · simp [interLoop]
  · rename_i h; cases l <;> simp [interLoop]
  · rename_i l0 lt r0 rt
    obtain ⟨hl1, hl2, hl3⟩ := hl
    obtain ⟨hr1, hr2, hr3⟩ := hr
    have hll := lastEndD_spec lt l0.2 hl3
    have hrl := lastEndD_spec rt r0.2 hr3
    simp only []
    split
    · rename_i hq
      simp at hq
      rcases hq with hq | hq
      · symm
        apply interLoop_nil_of_sep_right (l0 :: lt) (r0 :: rt) l0.1 _ (by canon_cons) 0 (by canon_cons)
        intro x hx
        simp at hx
        rcases hx with hx | hx
        · omega
        · have := hrl.2 x hx; omega
      · symm
        apply interLoop_nil_of_sep_left (l0 :: lt) (r0 :: rt) r0.1 _ (by canon_cons) 0 (by canon_cons)
        intro x hx
        simp at hx
        rcases hx with hx | hx
        · omega
        · have := hll.2 x hx; omega
    · split
      · exact interLoop_drop_startIdx r0 rt (l0 :: lt) 0 (by canon_cons)
      · split
        · exact interLoop_comm_drop l0 hl2 lt (r0 :: rt) 0 (by canon_cons)
        · rfl

theorem intersection_spec (l r : List Rng) (hl : Canon l) (hr : Canon r) :
    Canon (intersection l r) ∧ ∀ x, mem x (intersection l r) ↔ mem x l ∧ mem x r := by
  rw [intersection_eq_interLoop l r hl hr]
  have := interLoop_spec l r 0 0 hl hr
  exact ⟨this.1, this.2⟩

end Moc

namespace Moc

theorem unionLoop_take_drop (r0 : Rng) (rt : List Rng) (l : List Rng) :
    l.take (endIdx r0.1 l) ++ unionLoop (l.drop (endIdx r0.1 l)) (r0 :: rt) = unionLoop l (r0 :: rt) := by
  induction l with
  | nil => simp [endIdx]
  | cons s t ih =>
    simp only [endIdx]
    split
    · rename_i h
      rw [Nat.add_comm, List.take_succ_cons, List.drop_succ_cons, List.cons_append, ih]
      conv => rhs; rw [unionLoop]
      simp [h]
    · simp

theorem unionLoop_drop_take (l0 : Rng) (hl0 : l0.1 < l0.2) (lt : List Rng) (r : List Rng) :
    ∀ a, CanonFrom a r →
    r.take (endIdx l0.1 r) ++ unionLoop (l0 :: lt) (r.drop (endIdx l0.1 r)) = unionLoop (l0 :: lt) r := by
  induction r with
  | nil => intro a _; simp [endIdx]
  | cons s t ih =>
    intro a h
    obtain ⟨h1, h2, h3⟩ := h
    simp only [endIdx]
    split
    · rename_i h
      rw [Nat.add_comm, List.take_succ_cons, List.drop_succ_cons, List.cons_append, ih _ h3]
      conv => rhs; rw [unionLoop]
      have c1 : ¬ l0.2 < s.1 := by omega
      simp [h, c1]
    · simp

theorem unionLoop_nil_right (l : List Rng) : unionLoop l [] = l := by
  cases l <;> simp [unionLoop]

theorem unionLoop_all_left (r0 : Rng) (rt : List Rng) (l : List Rng) (h : ∀ c ∈ l, c.2 < r0.1) :
    unionLoop l (r0 :: rt) = l ++ (r0 :: rt) := by
  induction l with
  | nil => simp [unionLoop]
  | cons s t ih =>
    rw [unionLoop]
    have := h s (List.mem_cons_self ..)
    simp [this]
    exact ih (fun c hc => h c (List.mem_cons_of_mem _ hc))

theorem unionLoop_all_right (l0 : Rng) (hl0 : l0.1 < l0.2) (lt : List Rng) (r : List Rng)
    (h : ∀ c ∈ r, c.1 < c.2 ∧ c.2 < l0.1) :
    unionLoop (l0 :: lt) r = r ++ (l0 :: lt) := by
  induction r with
  | nil => simp [unionLoop]
  | cons s t ih =>
    rw [unionLoop]
    have := h s (List.mem_cons_self ..)
    have c1 : ¬ l0.2 < s.1 := by omega
    simp [this, c1]
    exact ih (fun c hc => h c (List.mem_cons_of_mem _ hc))

theorem lastEndD_ge (t : List Rng) : ∀ d, CanonFrom (d + 1) t → ∀ c ∈ t, c.1 < c.2 ∧ c.2 ≤ lastEndD d t := by
  induction t with
  | nil => intro d _ c hc; simp at hc
  | cons r t ih =>
    intro d h c hc
    obtain ⟨h1, h2, h3⟩ := h
    simp only [lastEndD]
    simp at hc
    rcases hc with rfl | hc
    · exact ⟨h2, (lastEndD_spec t c.2 h3).1⟩
    · exact ih r.2 h3 c hc

/-- The fast paths of `BorrowedRanges::union` (empty operand, plain concatenation, prefix copy found
    by binary search) never change the result of the plain merge loop. -/
theorem union_eq_unionLoop (l r : List Rng) (hl : Canon l) (hr : Canon r) :
    union l r = unionLoop l r := by
  unfold union
  split
  · simp [unionLoop]
  · exact (unionLoop_nil_right _).symm
  · rename_i l0 lt r0 rt
    obtain ⟨hl1, hl2, hl3⟩ := hl
    obtain ⟨hr1, hr2, hr3⟩ := hr
    have hll := lastEndD_ge lt l0.2 hl3
    have hrl := lastEndD_ge rt r0.2 hr3
    have hll0 := (lastEndD_spec lt l0.2 hl3).1
    have hrl0 := (lastEndD_spec rt r0.2 hr3).1
    simp only []
    split
    · rename_i hq
      symm
      apply unionLoop_all_left
      intro c hc
      simp at hc
      rcases hc with rfl | hc
      · omega
      · have := (hll c hc).2; omega
    · split
      · rename_i hq
        symm
        apply unionLoop_all_right l0 hl2
        intro c hc
        simp at hc
        rcases hc with rfl | hc
        · exact ⟨hr2, by omega⟩
        · have := hrl c hc; exact ⟨this.1, by omega⟩
      · split
        · exact unionLoop_take_drop r0 rt (l0 :: lt)
        · split
          · exact unionLoop_drop_take l0 hl2 lt (r0 :: rt) 0 (by canon_cons)
          · rfl

theorem union_spec (l r : List Rng) (hl : Canon l) (hr : Canon r) :
    Canon (union l r) ∧ ∀ x, mem x (union l r) ↔ mem x l ∨ mem x r := by
  rw [union_eq_unionLoop l r hl hr]
  have := unionLoop_spec l r 0 0 hl hr
  exact ⟨this.1, this.2⟩

end Moc
