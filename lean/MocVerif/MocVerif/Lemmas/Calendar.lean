/-
  C19 — `gregorian2jd` counts days: the day after a civil date has the next Julian day number.
-/
import MocVerif.Model.Calendar

namespace Moc.Calendar

/-- The finite part of the end-of-February step (the rest is linear in the 400-year cycle). -/
theorem feb_fin : ∀ r, r < 400 →
    (1461 * (r + 4716)) / 4 + (3 * ((r + 4899) / 100)) / 4
      = (1461 * (r + 4715)) / 4 + (if isLeap r then 29 else 28) + 337 + (3 * ((r + 4900) / 100)) / 4 := by
  decide +kernel

/-- End of February: 28 → 1 March in a common year, 29 → 1 March in a leap year (Gregorian rule,
    centuries included). -/
theorem jd_feb (y : Nat) : gregorian2jd y 3 1 = gregorian2jd y 2 (monthLen y 2) + 1 := by
  unfold gregorian2jd calendar2f monthLen
  simp only [Nat.shiftRight_eq_div_pow, ↓reduceIte]
  -- y = 400 q + r: everything is linear in q, the rest is a finite check on r
  obtain ⟨q, r, hr, rfl⟩ : ∃ q r, r < 400 ∧ y = 400 * q + r := ⟨y / 400, y % 400, Nat.mod_lt _ (by decide), by omega⟩
  have e1 : (1461 * (400 * q + r + 4716 - (14 - 3) / 12)) / 2 ^ 2 = 146100 * q + (1461 * (r + 4716)) / 4 := by omega
  have e2 : (1461 * (400 * q + r + 4716 - (14 - 2) / 12)) / 2 ^ 2 = 146100 * q + (1461 * (r + 4715)) / 4 := by omega
  have e3 : (3 * ((400 * q + r + 4716 - (14 - 3) / 12 + 184) / 100)) / 2 ^ 2 = 3 * q + (3 * ((r + 4900) / 100)) / 4 := by omega
  have e4 : (3 * ((400 * q + r + 4716 - (14 - 2) / 12 + 184) / 100)) / 2 ^ 2 = 3 * q + (3 * ((r + 4899) / 100)) / 4 := by omega
  have el : isLeap (400 * q + r) ↔ isLeap r := by unfold isLeap; omega
  rw [e1, e2, e3, e4]
  simp only [el]
  have F := feb_fin r hr
  clear e1 e2 e3 e4 el
  by_cases hl : isLeap r
  · rw [if_pos hl] at F ⊢; omega
  · rw [if_neg hl] at F ⊢; omega

/-- The year-like quantity `g` of Richards' algorithm (the year starts in March). -/
def gOf (y m : Nat) : Nat := y + 4716 - (14 - m) / 12
def aOf (g : Nat) : Nat := (1461 * g) / 4
def cOf (g : Nat) : Nat := (3 * ((g + 184) / 100)) / 4
def tOf (m : Nat) : Nat := (153 * ((m + 9) % 12) + 2) / 5

/-- `gregorian2jd` without truncated subtractions. -/
theorem jd_eq (y m d : Nat) (hm : m ≤ 12) : gregorian2jd y m d + 1364 + cOf (gOf y m) = aOf (gOf y m) + d + tOf m := by
  unfold gregorian2jd calendar2f gOf aOf cOf tOf
  simp only [Nat.shiftRight_eq_div_pow]
  have hg : 4715 ≤ y + 4716 - (14 - m) / 12 := by omega
  generalize y + 4716 - (14 - m) / 12 = g at hg ⊢
  generalize (153 * ((m + 9) % 12) + 2) / 5 = t
  omega

/-- **`gregorian2jd` counts days**: for every civil date of the Gregorian calendar (year ≥ 0), the
    day after it has the next Julian day number. -/
theorem jd_next_day (y m d : Nat) (hm : 1 ≤ m ∧ m ≤ 12) (hd : 1 ≤ d ∧ d ≤ monthLen y m) :
    gregorian2jd (nextDay y m d).1 (nextDay y m d).2.1 (nextDay y m d).2.2 = gregorian2jd y m d + 1 := by
  obtain ⟨hm1, hm2⟩ := hm
  obtain ⟨hd1, hd2⟩ := hd
  unfold nextDay
  by_cases hlt : d < monthLen y m
  · simp only [hlt, ↓reduceIte]
    have e1 := jd_eq y m (d + 1) hm2
    have e2 := jd_eq y m d hm2
    omega
  · have hde : d = monthLen y m := by omega
    simp only [hlt, ↓reduceIte]
    by_cases h2 : m = 2
    · subst h2
      rw [hde]
      simp only [show (2 : Nat) < 12 by decide, ↓reduceIte]
      exact jd_feb y
    · unfold monthLen at hde
      simp only [h2, ↓reduceIte] at hde
      by_cases h12 : m < 12
      · simp only [h12, ↓reduceIte]
        have e1 := jd_eq y (m + 1) 1 (by omega)
        have e2 := jd_eq y m d hm2
        have hg : gOf y (m + 1) = gOf y m := by unfold gOf; omega
        rw [hg] at e1
        have ht : tOf (m + 1) = tOf m + d := by
          unfold tOf
          have : m = 1 ∨ m = 3 ∨ m = 4 ∨ m = 5 ∨ m = 6 ∨ m = 7 ∨ m = 8 ∨ m = 9 ∨ m = 10 ∨ m = 11 := by omega
          rcases this with rfl | rfl | rfl | rfl | rfl | rfl | rfl | rfl | rfl | rfl <;> simp at hde ⊢ <;> omega
        generalize aOf (gOf y m) = A at e1 e2
        generalize cOf (gOf y m) = C at e1 e2
        omega
      · have hm12 : m = 12 := by omega
        subst hm12
        simp only [show ¬ (12 : Nat) < 12 by decide, ↓reduceIte]
        have e1 := jd_eq (y + 1) 1 1 (by decide)
        have e2 := jd_eq y 12 d (by decide)
        have hg : gOf (y + 1) 1 = gOf y 12 := by unfold gOf; omega
        rw [hg] at e1
        have ht : tOf 1 = tOf 12 + d := by
          unfold tOf
          simp at hde ⊢
          omega
        generalize aOf (gOf y 12) = A at e1 e2
        generalize cOf (gOf y 12) = C at e1 e2
        omega

theorem jd_anchor : gregorian2jd 2000 1 1 = 2451545 := by decide

end Moc.Calendar
