/-
  Lemmas for the moc-set file model (C14, C16): metadata word packing, little-endian words,
  the reader and the writers on files in build form.
-/
import MocVerif.Model.MocSetFile

namespace Moc.MsFile
open Moc

/-! ### The metadata word -/

theorem pack_eq (st d id : Nat) (hd : d < 256) :
    pack st d id = st * 2 ^ 56 + d * 2 ^ 48 + id % 2 ^ 48 := by
  unfold pack idMask
  rw [Nat.and_two_pow_sub_one_eq_mod]
  have h1 : id % 2 ^ 48 < 2 ^ 48 := Nat.mod_lt _ (by decide)
  have e1 : st <<< 56 ||| d <<< 48 = (st <<< 8 + d) <<< 48 := by
    have : st <<< 56 = (st <<< 8) <<< 48 := by rw [← Nat.shiftLeft_add]
    rw [this, ← Nat.shiftLeft_or_distrib, ← Nat.shiftLeft_add_eq_or_of_lt (by omega : d < 2 ^ 8)]
  rw [e1, ← Nat.shiftLeft_add_eq_or_of_lt h1]
  simp only [Nat.shiftLeft_eq]
  omega

/-- **Decomposing a composed metadata word gives back its three fields.** -/
theorem unpack (st d id : Nat) (hs : st < 4) (hd : d < 256) :
    wStatus (pack st d id) = st ∧ wDepth (pack st d id) = d ∧ wId (pack st d id) = id % 2 ^ 48 := by
  rw [pack_eq st d id hd]
  unfold wStatus wDepth wId idMask
  have h1 : id % 2 ^ 48 < 2 ^ 48 := Nat.mod_lt _ (by decide)
  have : (3 : Nat) = 2 ^ 2 - 1 := by decide
  rw [this, Nat.and_two_pow_sub_one_eq_mod, Nat.and_two_pow_sub_one_eq_mod]
  simp only [Nat.shiftRight_eq_div_pow]
  omega

theorem pack_ne_zero (st d id : Nat) (hs : 1 ≤ st) (hd : d < 256) : pack st d id ≠ 0 := by
  rw [pack_eq st d id hd]
  have : st * 2 ^ 56 ≥ 2 ^ 56 := Nat.le_mul_of_pos_left _ hs
  omega

theorem wStatus_lt (w : Nat) : wStatus w < 4 := by
  unfold wStatus
  have : (3 : Nat) = 2 ^ 2 - 1 := by decide
  rw [this, Nat.and_two_pow_sub_one_eq_mod]
  omega

theorem wDepth_lt (w : Nat) : wDepth w < 256 := Nat.mod_lt _ (by decide)

theorem wId_lt (w : Nat) : wId w < 2 ^ 48 := by
  unfold wId idMask
  rw [Nat.and_two_pow_sub_one_eq_mod]
  exact Nat.mod_lt _ (by decide)

theorem wStatus_zero : wStatus 0 = 0 := by decide

/-- Re-packing with the identifier read from a word keeps the identifier. -/
theorem pack_wId (a b w : Nat) (hb : b < 256) : pack a b (wId w) = pack a b (wId w % 2 ^ 48) := by
  rw [pack_eq a b _ hb, pack_eq a b _ hb, Nat.mod_mod]

/-! ### Little-endian words -/

theorem toLE_length (k x : Nat) : (toLE k x).length = k := by
  induction k generalizing x with
  | zero => rfl
  | succ k ih => simp [toLE, ih]

theorem fromLE_toLE (k x : Nat) (h : x < 256 ^ k) : fromLE (toLE k x) = x := by
  induction k generalizing x with
  | zero => simp at h; simp [toLE, fromLE, h]
  | succ k ih =>
    have : x / 256 < 256 ^ k := by
      rw [Nat.pow_succ] at h
      exact Nat.div_lt_of_lt_mul (by rw [Nat.mul_comm]; exact h)
    simp only [toLE, fromLE, ih _ this]
    omega

theorem encWords_length (k : Nat) (ws : List Nat) : (encWords k ws).length = k * ws.length := by
  induction ws with
  | nil => simp [encWords]
  | cons x t ih => simp [encWords, toLE_length, ih, Nat.mul_add]; omega

theorem decWords_encWords (k : Nat) (ws : List Nat) (h : ∀ x ∈ ws, x < 256 ^ k) (rest : List Nat) :
    decWords k ws.length (encWords k ws ++ rest) = ws := by
  induction ws with
  | nil => rfl
  | cons x t ih =>
    have hx := h x (by simp)
    have e1 : (toLE k x ++ encWords k t ++ rest).take k = toLE k x := by
      rw [List.append_assoc, List.take_left' (toLE_length k x)]
    have e2 : (toLE k x ++ encWords k t ++ rest).drop k = encWords k t ++ rest := by
      rw [List.append_assoc, List.drop_left' (toLE_length k x)]
    simp only [List.length_cons, decWords, encWords, e1, e2, fromLE_toLE k x hx,
      ih (fun y hy => h y (by simp [hy]))]

theorem pairs_flatten2_map (f : Nat → Nat) (rs : List Rng) :
    pairs ((flatten2 rs).map f) = rs.map fun r => (f r.1, f r.2) := by
  induction rs with
  | nil => rfl
  | cons r t ih => simp [flatten2, pairs, ih]

theorem flatten2_length (rs : List Rng) : (flatten2 rs).length = 2 * rs.length := by
  induction rs with
  | nil => rfl
  | cons r t ih => simp [flatten2, ih]; omega

theorem mem_flatten2 (rs : List Rng) (y : Nat) (hy : y ∈ flatten2 rs) : ∃ r ∈ rs, y = r.1 ∨ y = r.2 := by
  induction rs with
  | nil => simp [flatten2] at hy
  | cons r t ih =>
    simp only [flatten2, List.mem_cons] at hy
    rcases hy with rfl | rfl | hy
    · exact ⟨r, by simp, .inl rfl⟩
    · exact ⟨r, by simp, .inr rfl⟩
    · obtain ⟨r', hr', h'⟩ := ih hy
      exact ⟨r', by simp [hr'], h'⟩

/-- What `make` / `append` accept: a status that is not `void`, fields that fit their bit fields,
    ranges representable at the storage scale of the depth. -/
def EntryOk (e : MsEntry) : Prop :=
  1 ≤ e.status ∧ e.status < 4 ∧ e.depth < 256 ∧ e.id < 2 ^ 48 ∧
  ∀ r ∈ e.ranges, (2 ^ stoShift e.depth ∣ r.1 ∧ 2 ^ stoShift e.depth ∣ r.2) ∧
    r.1 >>> stoShift e.depth < 256 ^ elemBytes e.depth ∧ r.2 >>> stoShift e.depth < 256 ^ elemBytes e.depth

theorem elemBytes_pos (d : Nat) : 0 < elemBytes d := by unfold elemBytes; split <;> decide

theorem shift_roundtrip (x s : Nat) (h : 2 ^ s ∣ x) : (x >>> s) <<< s = x := by
  rw [Nat.shiftRight_eq_div_pow, Nat.shiftLeft_eq]
  exact Nat.div_mul_cancel h

/-- **The bytes written for a MOC are read back as the same ranges.** -/
theorem bytesRanges_entryBytes (e : MsEntry) (h : EntryOk e) (rest : List Nat) (hrest : rest.length < elemBytes e.depth) :
    bytesRanges e.depth (entryBytes e ++ rest) = e.ranges := by
  obtain ⟨_, _, _, _, hr⟩ := h
  unfold bytesRanges entryBytes
  simp only []
  have hk := elemBytes_pos e.depth
  have hlen : (encWords (elemBytes e.depth) ((flatten2 e.ranges).map (· >>> stoShift e.depth)) ++ rest).length
      / elemBytes e.depth = ((flatten2 e.ranges).map (· >>> stoShift e.depth)).length := by
    rw [List.length_append, encWords_length, Nat.mul_comm]
    rw [Nat.add_comm, Nat.add_mul_div_right _ _ hk, Nat.div_eq_of_lt hrest, Nat.zero_add]
  rw [hlen, decWords_encWords]
  · rw [List.map_map, pairs_flatten2_map]
    have : e.ranges.map (fun r => (((fun x => x <<< stoShift e.depth) ∘ fun x => x >>> stoShift e.depth) r.1,
        ((fun x => x <<< stoShift e.depth) ∘ fun x => x >>> stoShift e.depth) r.2)) = e.ranges.map id := by
      apply List.map_congr_left
      intro r hr'
      have := hr r hr'
      simp only [Function.comp, id, shift_roundtrip _ _ this.1.1, shift_roundtrip _ _ this.1.2]
    rw [this, List.map_id]
  · intro x hx
    obtain ⟨y, hy, rfl⟩ := List.mem_map.1 hx
    have := mem_flatten2 e.ranges y hy
    obtain ⟨r, hr', rfl | rfl⟩ := this
    · exact (hr r hr').2.1
    · exact (hr r hr').2.2

theorem entryBytes_length (e : MsEntry) : (entryBytes e).length = e.ranges.length * 2 * elemBytes e.depth := by
  unfold entryBytes
  rw [encWords_length, List.length_map, flatten2_length]
  rw [Nat.mul_comm, Nat.mul_comm 2]

/-! ### The reader on a file in build form -/

/-- The entry a reader decodes from an item. -/
def itemEntry (it : Item) : MsEntry :=
  { id := wId it.1, status := wStatus it.1, depth := wDepth it.1, ranges := bytesRanges (wDepth it.1) it.2 }

/-- The rows of a list of items stored from offset `s` on. -/
def rowsOf (s : Nat) : List Item → List (Nat × Nat × Nat)
  | [] => []
  | it :: t => (it.1, s, s + it.2.length) :: rowsOf (s + it.2.length) t

theorem readRows_zeros (L z : Nat) (idx : List Nat) : readRows L (zeros z) idx = [] := by
  cases z with
  | zero => simp [zeros, readRows]
  | succ z =>
    simp only [zeros, List.replicate]
    match idx with
    | [] => simp [readRows]
    | [_] => simp [readRows]
    | _ :: _ :: _ => simp [readRows]

/-- **The reader's zip on arrays in build form** returns one row per item, whatever follows the
    used part of the index array. -/
theorem readRows_build (L z : Nat) (rest : List Nat) : ∀ (items : List Item) (s : Nat),
    (∀ it ∈ items, it.1 ≠ 0) → s + (dataOf items).length ≤ L →
    readRows L (items.map (·.1) ++ zeros z) (s :: (idxFrom s items ++ rest)) = rowsOf s items := by
  intro items
  induction items with
  | nil => intro s _ _; simp [readRows_zeros, rowsOf]
  | cons it t ih =>
    intro s hnz hL
    have h1 : it.1 ≠ 0 := hnz it (by simp)
    have hlen : (dataOf (it :: t)).length = it.2.length + (dataOf t).length := by simp [dataOf]
    have h2 : s + it.2.length ≤ L := by omega
    simp only [List.map_cons, List.cons_append, idxFrom, readRows, h1, h2, ↓reduceIte, rowsOf]
    rw [ih (s + it.2.length) (fun x hx => hnz x (by simp [hx])) (by omega)]

theorem slice_mid (pre b post : List Nat) (a c : Nat) (ha : a = pre.length) (hc : c = pre.length + b.length) :
    slice (pre ++ (b ++ post)) a c = b := by
  subst ha hc
  unfold slice
  rw [List.drop_left, Nat.add_sub_cancel_left, List.take_left]

theorem rows_entries (hdr : Nat) (tail : List Nat) : ∀ (items : List Item) (pre : List Nat) (s : Nat),
    hdr ≤ s → pre.length = s - hdr →
    (rowsOf s items).map (rowEntry hdr (pre ++ (dataOf items ++ tail))) = items.map itemEntry := by
  intro items
  induction items with
  | nil => intro _ _ _ _; rfl
  | cons it t ih =>
    intro pre s hs hp
    simp only [rowsOf, List.map_cons, dataOf]
    have e1 : rowEntry hdr (pre ++ (it.2 ++ dataOf t ++ tail)) (it.1, s, s + it.2.length) = itemEntry it := by
      unfold rowEntry itemEntry
      simp only []
      rw [List.append_assoc, slice_mid pre it.2 _ _ _ (by omega) (by omega)]
    rw [e1]
    have := ih (pre ++ it.2) (s + it.2.length) (by omega) (by simp only [List.length_append]; omega)
    simp only [List.append_assoc] at this ⊢
    rw [this]

/-- **What a reader sees in a built file**: exactly the items, decoded. -/
theorem abs_build (n : Nat) (items : List Item) (tail : List Nat) (hnz : ∀ it ∈ items, it.1 ≠ 0) :
    abs (build n items tail) = { n128 := n, entries := items.map itemEntry } := by
  unfold abs File.rows File.fileLen build
  simp only []
  rw [readRows_build _ _ _ items (hdrBytes n) hnz (by simp only [List.length_append]; omega)]
  have := rows_entries (hdrBytes n) tail items [] (hdrBytes n) (Nat.le_refl _) (by simp)
  rw [List.nil_append] at this
  rw [this]

theorem itemEntry_itemOf (e : MsEntry) (h : EntryOk e) : itemEntry (itemOf e) = e := by
  obtain ⟨h1, h2, h3, h4, _⟩ := id h
  obtain ⟨u1, u2, u3⟩ := unpack e.status e.depth e.id h2 h3
  unfold itemEntry itemOf
  simp only [u1, u2, u3]
  have hb := bytesRanges_entryBytes e h [] (by simpa using elemBytes_pos e.depth)
  rw [List.append_nil] at hb
  rw [hb, Nat.mod_eq_of_lt h4]

theorem itemOf_ne_zero (e : MsEntry) (h : EntryOk e) : (itemOf e).1 ≠ 0 :=
  pack_ne_zero _ _ _ h.1 h.2.2.1

/-- **`abs` of the canonical file of a list of entries is that list.** -/
theorem abs_canon (n : Nat) (l : List MsEntry) (tail : List Nat) (hok : ∀ e ∈ l, EntryOk e) :
    abs (build n (l.map itemOf) tail) = { n128 := n, entries := l } := by
  rw [abs_build n _ tail (by
    intro it hit
    obtain ⟨e, he, rfl⟩ := List.mem_map.1 hit
    exact itemOf_ne_zero e (hok e he))]
  rw [List.map_map]
  congr 1
  have : l.map (itemEntry ∘ itemOf) = l.map id := by
    apply List.map_congr_left
    intro e he
    exact itemEntry_itemOf e (hok e he)
  rw [this, List.map_id]

/-! ### `append` on a file in build form -/

/-- A live item with that identifier. -/
def dupIn (id : Nat) (items : List Item) : Bool :=
  items.any fun it => decide (id = wId it.1) && decide (wStatus it.1 > 1)

theorem idxFrom_append (s : Nat) (a b : List Item) :
    idxFrom s (a ++ b) = idxFrom s a ++ idxFrom (s + (dataOf a).length) b := by
  induction a generalizing s with
  | nil => simp [idxFrom, dataOf]
  | cons it t ih => simp [idxFrom, dataOf, ih, Nat.add_assoc]

theorem dataOf_append (a b : List Item) : dataOf (a ++ b) = dataOf a ++ dataOf b := by
  induction a with
  | nil => rfl
  | cons it t ih => simp [dataOf, ih]

theorem zeros_succ (z : Nat) : zeros (z + 1) = 0 :: zeros z := rfl

/-- **The scan of `append_moc` on arrays in build form.** -/
theorem scan_build (id word len z : Nat) : ∀ (items : List Item) (s : Nat),
    (∀ it ∈ items, it.1 ≠ 0) →
    scan id word len (items.map (·.1) ++ zeros z) (s :: (idxFrom s items ++ zeros z))
      = if dupIn id items then none
        else if z = 0 then none
        else some (items.map (·.1) ++ word :: zeros (z - 1),
                   s :: (idxFrom s items ++ (s + (dataOf items).length + len) :: zeros (z - 1)),
                   s + (dataOf items).length) := by
  intro items
  induction items with
  | nil =>
    intro s _
    cases z with
    | zero => simp [dupIn, zeros, scan]
    | succ z =>
      simp only [List.map_nil, List.nil_append, zeros_succ, idxFrom, scan, wStatus_zero, dupIn, List.any_nil,
        dataOf, List.length_nil, Nat.add_zero, Nat.add_sub_cancel]
      simp
  | cons it t ih =>
    intro s hnz
    have h1 : it.1 ≠ 0 := hnz it (by simp)
    have iht := ih (s + it.2.length) (fun x hx => hnz x (by simp [hx]))
    simp only [List.map_cons, List.cons_append, idxFrom, scan]
    by_cases hd : id = wId it.1 ∧ wStatus it.1 > 1
    · have : dupIn id (it :: t) = true := by simp [dupIn, hd.1, hd.2]
      rw [if_pos hd, this]
      rfl
    · have hdup : dupIn id (it :: t) = dupIn id t := by
        simp only [dupIn, List.any_cons]
        have : (decide (id = wId it.1) && decide (wStatus it.1 > 1)) = false := by
          rw [Bool.and_eq_false_iff]
          by_cases h : id = wId it.1
          · right; simp only [decide_eq_false_iff_not]; exact fun h' => hd ⟨h, h'⟩
          · left; simp [h]
        rw [this, Bool.false_or]
      simp only [hd, ↓reduceIte, h1, iht, hdup, dataOf, List.length_append]
      by_cases hdt : dupIn id t = true
      · simp [hdt]
      · simp only [hdt, Bool.false_eq_true, ↓reduceIte]
        by_cases hz : z = 0
        · simp [hz]
        · simp only [hz, ↓reduceIte, Nat.add_assoc]

theorem writeAt_end (a tail bytes : List Nat) :
    writeAt (a ++ tail) a.length bytes = a ++ bytes ++ tail.drop bytes.length := by
  unfold writeAt
  rw [List.take_left, List.drop_append, List.drop_of_length_le (by omega : a.length ≤ a.length + bytes.length)]
  simp

theorem dupIn_canon (id : Nat) (l : List MsEntry) (hok : ∀ x ∈ l, EntryOk x) :
    dupIn id (l.map itemOf) = l.any (fun x => x.id == id && decide (x.status > 1)) := by
  induction l with
  | nil => rfl
  | cons x t ih =>
    obtain ⟨h1, h2, h3, h4, _⟩ := hok x (by simp)
    obtain ⟨u1, u2, u3⟩ := unpack x.status x.depth x.id h2 h3
    have iht := ih (fun y hy => hok y (by simp [hy]))
    unfold dupIn at iht ⊢
    simp only [List.map_cons, List.any_cons, iht, itemOf, u1, u3, Nat.mod_eq_of_lt h4]
    congr 1
    by_cases hid : id = x.id
    · simp [hid]
    · have : ¬ x.id = id := fun h => hid h.symm
      simp [hid, this]

theorem cap_eq (n : Nat) (l : List MsEntry) : capOf n = ({ n128 := n, entries := l } : MocSet).cap := by
  simp [capOf, MocSet.cap, Nat.shiftLeft_eq]

/-- **`append` on the canonical file of a list of entries** is the abstract `append` on that list:
    same refusals (identifier already live, file full), and on success the canonical file of the
    extended list (the bytes an interrupted append may have left after the data are overwritten). -/
theorem fileAppend_canon (n : Nat) (l : List MsEntry) (tail : List Nat) (e : MsEntry)
    (hok : ∀ x ∈ l, EntryOk x) :
    fileAppend (build n (l.map itemOf) tail) e =
      if (msAppend { n128 := n, entries := l } e).2 = true
      then (build n ((l ++ [e]).map itemOf) (tail.drop (entryBytes e).length), true)
      else (build n (l.map itemOf) tail, false) := by
  have hnz : ∀ it ∈ l.map itemOf, it.1 ≠ 0 := by
    intro it hit
    obtain ⟨x, hx, rfl⟩ := List.mem_map.1 hit
    exact itemOf_ne_zero x (hok x hx)
  have hs := scan_build e.id (pack e.status e.depth e.id) (entryBytes e).length
    (capOf n - (l.map itemOf).length) (l.map itemOf) (hdrBytes n) hnz
  have hcap := cap_eq n l
  unfold fileAppend
  simp only [build] at hs ⊢
  rw [hs, dupIn_canon e.id l hok]
  unfold msAppend
  simp only [List.length_map] at *
  by_cases hd : (l.any fun x => x.id == e.id && decide (x.status > 1)) = true
  · simp [hd]
  · simp only [hd, Bool.false_eq_true, ↓reduceIte]
    by_cases hz : capOf n - l.length = 0
    · have : l.length ≥ ({ n128 := n, entries := l } : MocSet).cap := by rw [← hcap]; omega
      simp [hz, this]
    · have : ¬ l.length ≥ ({ n128 := n, entries := l } : MocSet).cap := by rw [← hcap]; omega
      simp only [hz, ↓reduceIte, this]
      have hsub : capOf n - l.length - 1 = capOf n - (l.length + 1) := by omega
      simp only [List.map_append, List.map_cons, List.map_nil, List.length_append, List.length_cons,
        List.length_nil, Nat.zero_add, idxFrom_append, idxFrom, dataOf_append, dataOf, List.append_nil,
        Nat.add_sub_cancel_left, writeAt_end, List.append_assoc, List.cons_append, List.nil_append,
        List.length_map, hsub, itemOf]

/-! ### `chgstatus` on a file in build form -/

/-- List form of "at most one live entry per identifier". -/
def NoDupL : List MsEntry → Prop
  | [] => True
  | x :: t => (x.status > 1 → ∀ y ∈ t, y.status > 1 → y.id ≠ x.id) ∧ NoDupL t

theorem chgScan_zeros (st : Nat) (ids : List Nat) (z : Nat) : chgScan st ids (zeros z) = zeros z := by
  cases z with
  | zero => simp [zeros, chgScan]
  | succ z => simp [zeros_succ, chgScan, wStatus_zero]

theorem itemOf_chgEntry_fst (st : Nat) (ids : List Nat) (x : MsEntry) :
    (itemOf (chgEntry st ids x)).1 =
      if x.status > 1 ∧ ids.contains x.id = true then pack st x.depth x.id else (itemOf x).1 := by
  unfold chgEntry
  by_cases h1 : x.status > 1 <;> by_cases h2 : x.id ∈ ids <;> simp [h1, h2, itemOf]

/-- **The walk of `chg_multi_status`** (the identifier is taken off the map once met) on the metadata
    of a canonical file whose live identifiers are unique: every live entry with a listed identifier
    gets the new status, nothing else changes. -/
theorem chgScan_canon (st : Nat) (ids : List Nat) (z : Nat) : ∀ (l : List MsEntry) (ids' : List Nat),
    (∀ x ∈ l, EntryOk x) → NoDupL l → (∀ y ∈ l, y.status > 1 → (ids'.contains y.id = ids.contains y.id)) →
    chgScan st ids' ((l.map itemOf).map (·.1) ++ zeros z)
      = ((l.map (chgEntry st ids)).map itemOf).map (·.1) ++ zeros z := by
  intro l
  induction l with
  | nil => intro ids' _ _ _; simp [chgScan_zeros]
  | cons x t ih =>
    intro ids' hok hnd hids
    obtain ⟨h1, h2, h3, h4, _⟩ := hok x (by simp)
    obtain ⟨u1, u2, u3⟩ := unpack x.status x.depth x.id h2 h3
    have hs0 : ¬ wStatus (itemOf x).1 = 0 := by simp only [itemOf, u1]; omega
    simp only [List.map_cons, List.cons_append, chgScan, hs0, ↓reduceIte, itemOf_chgEntry_fst]
    have uid : wId (itemOf x).1 = x.id := by simp only [itemOf, u3]; exact Nat.mod_eq_of_lt h4
    have ust : wStatus (itemOf x).1 = x.status := by simp only [itemOf, u1]
    have udp : wDepth (itemOf x).1 = x.depth := by simp only [itemOf, u2]
    rw [uid, ust, udp]
    by_cases hl : x.status > 1
    · have hc := hids x (by simp) hl
      by_cases hm : ids.contains x.id = true
      · have hm' : ids'.contains x.id = true := by rw [hc]; exact hm
        simp only [hl, hm, hm', and_self, ↓reduceIte]
        congr 1
        apply ih (ids'.erase x.id) (fun y hy => hok y (by simp [hy])) hnd.2
        intro y hy hyl
        have hne : y.id ≠ x.id := hnd.1 hl y hy hyl
        have := hids y (by simp [hy]) hyl
        rw [← this]
        simp only [List.contains_eq_mem, List.mem_erase_of_ne hne]
      · have hm' : ¬ ids'.contains x.id = true := by rw [hc]; exact hm
        simp only [hm, hm', and_false, ↓reduceIte, Bool.false_eq_true]
        congr 1
        exact ih ids' (fun y hy => hok y (by simp [hy])) hnd.2 (fun y hy => hids y (by simp [hy]))
    · simp only [hl, false_and, ↓reduceIte]
      congr 1
      exact ih ids' (fun y hy => hok y (by simp [hy])) hnd.2 (fun y hy => hids y (by simp [hy]))

/-- What a reader sees in any file whose arrays have the build SHAPE (whatever follows the used part
    of the index array and of the data). -/
theorem abs_shape (f : File) (items : List Item) (z : Nat) (rest tail : List Nat)
    (hm : f.mwords = items.map (·.1) ++ zeros z)
    (hi : f.index = hdrBytes f.n128 :: (idxFrom (hdrBytes f.n128) items ++ rest))
    (hd : f.data = dataOf items ++ tail) (hnz : ∀ it ∈ items, it.1 ≠ 0) :
    abs f = { n128 := f.n128, entries := items.map itemEntry } := by
  unfold abs File.rows File.fileLen
  rw [hm, hi, hd, readRows_build _ _ _ items (hdrBytes f.n128) hnz (by simp only [List.length_append]; omega)]
  have := rows_entries (hdrBytes f.n128) tail items [] (hdrBytes f.n128) (Nat.le_refl _) (by simp)
  rw [List.nil_append] at this
  rw [this]

theorem entryBytes_chgEntry (st : Nat) (ids : List Nat) (x : MsEntry) :
    entryBytes (chgEntry st ids x) = entryBytes x := by
  unfold chgEntry
  split <;> rfl

theorem idxFrom_map_congr (f : MsEntry → MsEntry) (hf : ∀ x, entryBytes (f x) = entryBytes x) (l : List MsEntry) (s : Nat) :
    idxFrom s ((l.map f).map itemOf) = idxFrom s (l.map itemOf) := by
  induction l generalizing s with
  | nil => rfl
  | cons x t ih =>
    have : (itemOf (f x)).2.length = (itemOf x).2.length := by simp [itemOf, hf]
    simp only [List.map_cons, idxFrom, this, ih]

theorem dataOf_map_congr (f : MsEntry → MsEntry) (hf : ∀ x, entryBytes (f x) = entryBytes x) (l : List MsEntry) :
    dataOf ((l.map f).map itemOf) = dataOf (l.map itemOf) := by
  induction l with
  | nil => rfl
  | cons x t ih =>
    have : (itemOf (f x)).2 = (itemOf x).2 := by simp [itemOf, hf]
    simp only [List.map_cons, dataOf, this, ih]

/-- **`chgstatus` on the canonical file** is the abstract command on the list of entries. -/
theorem fileChg_canon (n : Nat) (l : List MsEntry) (tail : List Nat) (st : Nat) (ids : List Nat)
    (hok : ∀ x ∈ l, EntryOk x) (hnd : NoDupL l) :
    fileChg (build n (l.map itemOf) tail) st ids
      = (build n ((l.map (chgEntry st ids)).map itemOf) tail, true) := by
  unfold fileChg build
  simp only [List.length_map]
  rw [chgScan_canon st ids _ l ids.eraseDups hok hnd (fun y _ _ => by simp [List.mem_eraseDups])]
  rw [idxFrom_map_congr _ (entryBytes_chgEntry st ids), dataOf_map_congr _ (entryBytes_chgEntry st ids)]

/-! ### `purge` -/

def repack (it : Item) : Item := (pack (wStatus it.1) (wDepth it.1) (wId it.1), it.2)

theorem rows_live_items (hdr : Nat) (tail : List Nat) : ∀ (items : List Item) (pre : List Nat) (s : Nat),
    hdr ≤ s → pre.length = s - hdr →
    ((rowsOf s items).filter fun r => decide (wStatus r.1 > 1)).map (rowItem hdr (pre ++ (dataOf items ++ tail)))
      = (items.filter fun it => decide (wStatus it.1 > 1)).map repack := by
  intro items
  induction items with
  | nil => intro _ _ _ _; rfl
  | cons it t ih =>
    intro pre s hs hp
    have e1 : rowItem hdr (pre ++ (it.2 ++ dataOf t ++ tail)) (it.1, s, s + it.2.length) = repack it := by
      unfold rowItem repack
      simp only []
      rw [List.append_assoc, slice_mid pre it.2 _ _ _ (by omega) (by omega)]
    have iht := ih (pre ++ it.2) (s + it.2.length) (by omega) (by simp only [List.length_append]; omega)
    simp only [List.append_assoc] at iht e1
    simp only [rowsOf, dataOf, List.filter_cons, List.append_assoc]
    by_cases hl : wStatus it.1 > 1
    · simp only [hl, decide_true, ↓reduceIte, List.map_cons, e1, iht]
    · simp only [hl, decide_false, Bool.false_eq_true, ↓reduceIte, iht]

theorem repack_itemOf (x : MsEntry) (h : EntryOk x) : repack (itemOf x) = itemOf x := by
  obtain ⟨h1, h2, h3, h4, _⟩ := h
  obtain ⟨u1, u2, u3⟩ := unpack x.status x.depth x.id h2 h3
  unfold repack itemOf
  simp only [u1, u2, u3, Nat.mod_eq_of_lt h4]

theorem wStatus_itemOf (x : MsEntry) (h : EntryOk x) : wStatus (itemOf x).1 = x.status :=
  (unpack x.status x.depth x.id h.2.1 h.2.2.1).1

/-- **`purge` on the canonical file**: the canonical file (no leftover bytes) of the live entries. -/
theorem filePurge_canon (n : Nat) (l : List MsEntry) (tail : List Nat) (k : Option Nat)
    (hok : ∀ x ∈ l, EntryOk x) :
    filePurge (build n (l.map itemOf) tail) k
      = (build (max (k.getD 1) n) ((l.filter fun x => decide (x.status > 1)).map itemOf) [], true) := by
  have hnz : ∀ it ∈ l.map itemOf, it.1 ≠ 0 := by
    intro it hit
    obtain ⟨x, hx, rfl⟩ := List.mem_map.1 hit
    exact itemOf_ne_zero x (hok x hx)
  unfold filePurge File.rows File.fileLen
  simp only [build]
  rw [readRows_build _ _ _ (l.map itemOf) (hdrBytes n) hnz (by simp only [List.length_append]; omega)]
  have := rows_live_items (hdrBytes n) tail (l.map itemOf) [] (hdrBytes n) (Nat.le_refl _) (by simp)
  rw [List.nil_append] at this
  rw [this]
  have e : ((l.map itemOf).filter fun it => decide (wStatus it.1 > 1)).map repack
      = (l.filter fun x => decide (x.status > 1)).map itemOf := by
    clear this
    induction l with
    | nil => rfl
    | cons x t ih =>
      have hx := hok x (by simp)
      have iht := ih (fun y hy => hok y (by simp [hy])) (fun it hit => hnz it (by simp only [List.map_cons, List.mem_cons]; exact .inr hit))
      simp only [List.map_cons, List.filter_cons, wStatus_itemOf x hx]
      by_cases hl : x.status > 1
      · simp only [hl, decide_true, ↓reduceIte, List.map_cons, repack_itemOf x hx, iht]
      · simp only [hl, decide_false, Bool.false_eq_true, ↓reduceIte, iht]
  rw [e]

/-! ### `list` -/

theorem rows_list (l : List MsEntry) (hok : ∀ x ∈ l, EntryOk x) (s : Nat) :
    (rowsOf s (l.map itemOf)).map (fun r =>
        (wId r.1, wStatus r.1, wDepth r.1, (r.2.2 - r.2.1) / (elemBytes (wDepth r.1) <<< 1), r.2.2 - r.2.1))
      = l.map fun e => (e.id, e.status, e.depth, e.ranges.length, e.byteSize) := by
  induction l generalizing s with
  | nil => rfl
  | cons x t ih =>
    obtain ⟨h1, h2, h3, h4, _⟩ := hok x (by simp)
    obtain ⟨u1, u2, u3⟩ := unpack x.status x.depth x.id h2 h3
    have hk := elemBytes_pos x.depth
    have hlen : (itemOf x).2.length = x.ranges.length * 2 * elemBytes x.depth := entryBytes_length x
    simp only [List.map_cons, rowsOf, ih (fun y hy => hok y (by simp [hy]))]
    congr 1
    simp only [itemOf, u1, u2, u3, Nat.mod_eq_of_lt h4, Nat.add_sub_cancel_left] at hlen ⊢
    rw [hlen]
    have : x.ranges.length * 2 * elemBytes x.depth / (elemBytes x.depth <<< 1) = x.ranges.length := by
      rw [Nat.shiftLeft_eq, Nat.pow_one, Nat.mul_assoc, Nat.mul_comm 2]
      exact Nat.mul_div_cancel _ (by omega)
    rw [this]
    rfl

/-- **`mocset list` computed from the words of a canonical file** (byte size = difference of two
    index words, number of ranges = byte size / (2 × element size)) is the abstract listing. -/
theorem fileList_canon (n : Nat) (l : List MsEntry) (tail : List Nat) (hok : ∀ x ∈ l, EntryOk x) :
    fileList (build n (l.map itemOf) tail) = msList { n128 := n, entries := l } := by
  have hnz : ∀ it ∈ l.map itemOf, it.1 ≠ 0 := by
    intro it hit
    obtain ⟨x, hx, rfl⟩ := List.mem_map.1 hit
    exact itemOf_ne_zero x (hok x hx)
  unfold fileList File.rows File.fileLen msList
  simp only [build]
  rw [readRows_build _ _ _ (l.map itemOf) (hdrBytes n) hnz (by simp only [List.length_append]; omega)]
  exact rows_list l hok _

theorem map_itemEntry_itemOf (l : List MsEntry) (hok : ∀ x ∈ l, EntryOk x) :
    (l.map itemOf).map itemEntry = l := by
  rw [List.map_map]
  have : l.map (itemEntry ∘ itemOf) = l.map id := by
    apply List.map_congr_left
    intro e he
    exact itemEntry_itemOf e (hok e he)
  rw [this, List.map_id]

/-! ### An interrupted `chgstatus` (C16) -/

/-- Word by word, the result is the old word or the new one. -/
def OldOrNew : List Nat → List Nat → List Nat → Prop
  | [], [], [] => True
  | r :: rs, o :: os, n :: ns => (r = o ∨ r = n) ∧ OldOrNew rs os ns
  | _, _, _ => False

theorem chgScan_length (st : Nat) : ∀ (ws ids : List Nat), (chgScan st ids ws).length = ws.length := by
  intro ws
  induction ws with
  | nil => intro ids; simp [chgScan]
  | cons m ms ih =>
    intro ids
    simp only [chgScan]
    split
    · rfl
    · split <;> simp [ih]

theorem oldOrNew_old : ∀ (l n : List Nat), n.length = l.length → OldOrNew l l n := by
  intro l
  induction l with
  | nil => intro n h; cases n <;> simp_all [OldOrNew]
  | cons a t ih =>
    intro n h
    cases n with
    | nil => simp at h
    | cons b u => exact ⟨.inl rfl, ih u (by simpa using h)⟩

/-- **A `chgstatus` killed after any number of its stores** leaves metadata words each of which is the
    word before the command or the word after it (never a third value, never a shifted or torn one). -/
theorem chgScanK_oldOrNew (st : Nat) : ∀ (ws : List Nat) (k : Nat) (ids : List Nat),
    OldOrNew (chgScanK st k ids ws) ws (chgScan st ids ws) := by
  intro ws
  induction ws with
  | nil => intro k ids; simp [chgScanK, chgScan, OldOrNew]
  | cons m ms ih =>
    intro k ids
    simp only [chgScanK, chgScan]
    by_cases h0 : wStatus m = 0
    · simp only [h0, ↓reduceIte]
      exact oldOrNew_old (m :: ms) (m :: ms) rfl
    · simp only [h0, ↓reduceIte]
      by_cases hl : wStatus m > 1 ∧ ids.contains (wId m) = true
      · simp only [hl, and_self, ↓reduceIte]
        by_cases hs : wStatus m = st
        · simp only [hs, ↓reduceIte]
          exact ⟨.inl rfl, ih k _⟩
        · simp only [hs, ↓reduceIte]
          cases k with
          | zero => exact ⟨.inl rfl, oldOrNew_old ms _ (chgScan_length st ms _)⟩
          | succ k => exact ⟨.inr rfl, ih k _⟩
      · simp only [hl, ↓reduceIte]
        exact ⟨.inl rfl, ih k _⟩

/-! ### An interrupted `append` (C16) -/

/-- **What a reader sees after the first `k` stores of an `append`** on a canonical file: the OLD
    moc-set as long as the metadata word is not stored (data written, index word stored), the NEW
    one from then on — never anything else. -/
theorem appendPrefix_abs (n : Nat) (l : List MsEntry) (tail : List Nat) (e : MsEntry) (k : Nat)
    (hok : ∀ x ∈ l, EntryOk x) (he : EntryOk e) :
    abs (fileAppendPrefix (build n (l.map itemOf) tail) e k)
      = if k ≥ 3 then (msAppend { n128 := n, entries := l } e).1 else { n128 := n, entries := l } := by
  have hnz : ∀ it ∈ l.map itemOf, it.1 ≠ 0 := by
    intro it hit
    obtain ⟨x, hx, rfl⟩ := List.mem_map.1 hit
    exact itemOf_ne_zero x (hok x hx)
  have hs := scan_build e.id (pack e.status e.depth e.id) (entryBytes e).length
    (capOf n - (l.map itemOf).length) (l.map itemOf) (hdrBytes n) hnz
  have hcap := cap_eq n l
  have hold := abs_canon n l tail hok
  unfold fileAppendPrefix
  simp only [build] at hs hold ⊢
  rw [hs, dupIn_canon e.id l hok]
  unfold msAppend
  simp only [List.length_map] at *
  by_cases hd : (l.any fun x => x.id == e.id && decide (x.status > 1)) = true
  · simp only [hd, ↓reduceIte, hold, ite_self]
  · simp only [hd, Bool.false_eq_true, ↓reduceIte]
    by_cases hz : capOf n - l.length = 0
    · have : l.length ≥ ({ n128 := n, entries := l } : MocSet).cap := by rw [← hcap]; omega
      rw [hz] at hold
      simp only [hz, ↓reduceIte, hold, this, ite_self]
    · have hfull : ¬ l.length ≥ ({ n128 := n, entries := l } : MocSet).cap := by rw [← hcap]; omega
      simp only [hz, ↓reduceIte, hfull, Nat.add_sub_cancel_left, writeAt_end]
      match k with
      | 0 => simp only [show ¬ (0 ≥ 1) by omega, show ¬ (0 ≥ 2) by omega, show ¬ (0 ≥ 3) by omega, ↓reduceIte, hold]
      | 1 =>
        simp only [show (1 ≥ 1) by omega, show ¬ (1 ≥ 2) by omega, show ¬ (1 ≥ 3) by omega, ↓reduceIte]
        rw [abs_shape _ (l.map itemOf) (capOf n - l.length) (zeros (capOf n - l.length))
          (entryBytes e ++ tail.drop (entryBytes e).length) rfl rfl (by simp) hnz]
        rw [map_itemEntry_itemOf l hok]
      | 2 =>
        simp only [show (2 ≥ 1) by omega, show (2 ≥ 2) by omega, show ¬ (2 ≥ 3) by omega, ↓reduceIte]
        rw [abs_shape _ (l.map itemOf) (capOf n - l.length)
          ((hdrBytes n + (dataOf (l.map itemOf)).length + (entryBytes e).length) :: zeros (capOf n - l.length - 1))
          (entryBytes e ++ tail.drop (entryBytes e).length) rfl rfl (by simp) hnz]
        rw [map_itemEntry_itemOf l hok]
      | k + 3 =>
        simp only [show (k + 3 ≥ 1) by omega, show (k + 3 ≥ 2) by omega, show (k + 3 ≥ 3) by omega, ↓reduceIte]
        have hsub : capOf n - l.length - 1 = capOf n - (l.length + 1) := by omega
        have hnew := abs_canon n (l ++ [e]) (tail.drop (entryBytes e).length) (by
          intro x hx
          simp only [List.mem_append, List.mem_singleton] at hx
          rcases hx with hx | rfl
          · exact hok x hx
          · exact he)
        simp only [build, List.map_append, List.map_cons, List.map_nil, List.length_append, List.length_cons,
          List.length_nil, Nat.zero_add, idxFrom_append, idxFrom, dataOf_append, dataOf, List.append_nil,
          List.append_assoc, List.cons_append, List.nil_append, List.length_map, itemOf] at hnew
        simp only [hsub, itemOf, List.append_assoc, List.cons_append, List.nil_append]
        exact hnew

end Moc.MsFile
