/-
  C09 — correctness of the transliterated `Ranges2D::make_consistent` (`Model/Consistent2D.lean`).
-/
import MocVerif.Model.Consistent2D
import MocVerif.Lemmas.Merge2D

namespace Moc.Consistent2D
open Moc
open Moc.Merge2D (memFlat memFlat_append memFlat_single SegFrom lastEndF segFrom_append lastEndF_append
  segFrom_ends not_memFlat_of_end_le VF postPass postPassFrom postPass_spec)

/-! ### sorting the bounds -/

theorem le_x_of_le {a b : Bound} (h : a.le b = true) : a.x ≤ b.x := by
  unfold Bound.le at h
  simp only [Bool.or_eq_true, Bool.and_eq_true, decide_eq_true_eq] at h
  rcases h with h | ⟨h, _⟩ <;> omega

theorem ge_x_of_not_le {a b : Bound} (h : ¬ a.le b = true) : b.x ≤ a.x := by
  unfold Bound.le at h
  simp only [Bool.or_eq_true, Bool.and_eq_true, decide_eq_true_eq, not_or] at h
  omega

theorem mem_insertB (b x : Bound) : ∀ l, x ∈ insertB b l ↔ x = b ∨ x ∈ l := by
  intro l
  induction l with
  | nil => simp [insertB]
  | cons c t ih =>
    simp only [insertB]
    split
    · simp
    · simp only [List.mem_cons, ih]
      constructor
      · rintro (h | h | h)
        · exact Or.inr (Or.inl h)
        · exact Or.inl h
        · exact Or.inr (Or.inr h)
      · rintro (h | h | h)
        · exact Or.inr (Or.inl h)
        · exact Or.inl h
        · exact Or.inr (Or.inr h)

theorem mem_sortB (x : Bound) : ∀ l, x ∈ sortB l ↔ x ∈ l := by
  intro l
  induction l with
  | nil => simp [sortB]
  | cons b t ih => simp only [sortB, mem_insertB, ih, List.mem_cons]

theorem insertB_sorted (b : Bound) : ∀ l, l.Pairwise (fun a c => a.x ≤ c.x) →
    (insertB b l).Pairwise (fun a c => a.x ≤ c.x) := by
  intro l
  induction l with
  | nil => intro _; simp [insertB]
  | cons c t ih =>
    intro hp
    rw [List.pairwise_cons] at hp
    simp only [insertB]
    split
    · rename_i hle
      have hx := le_x_of_le hle
      rw [List.pairwise_cons]
      refine ⟨fun z hz => ?_, List.pairwise_cons.2 hp⟩
      cases hz with
      | head => exact hx
      | tail _ hm => exact Nat.le_trans hx (hp.1 z hm)
    · rename_i hle
      have hx := ge_x_of_not_le hle
      rw [List.pairwise_cons]
      refine ⟨fun z hz => ?_, ih hp.2⟩
      rcases (mem_insertB b z t).1 hz with rfl | hm
      · exact hx
      · exact hp.1 z hm

theorem sortB_sorted : ∀ l, (sortB l).Pairwise (fun a c => a.x ≤ c.x) := by
  intro l
  induction l with
  | nil => simp [sortB]
  | cons b t ih => exact insertB_sorted b _ ih

theorem mem_boundsFrom (b : Bound) : ∀ (l : List Rng) (k : Nat), b ∈ boundsFrom k l ↔
    ∃ j, j < l.length ∧ (b = ⟨(l.getD j (0, 0)).1, k + j, true⟩ ∨ b = ⟨(l.getD j (0, 0)).2, k + j, false⟩) := by
  intro l
  induction l with
  | nil => intro k; simp [boundsFrom]
  | cons r t ih =>
    intro k
    simp only [boundsFrom, List.mem_cons, ih (k + 1), List.length_cons]
    constructor
    · rintro (h | h | ⟨j, hj, h⟩)
      · exact ⟨0, by omega, Or.inl (by simpa using h)⟩
      · exact ⟨0, by omega, Or.inr (by simpa using h)⟩
      · refine ⟨j + 1, by omega, ?_⟩
        have e : k + (j + 1) = k + 1 + j := by omega
        simpa [e] using h
    · rintro ⟨j, hj, h⟩
      cases j with
      | zero =>
        rcases h with h | h
        · exact Or.inl (by simpa using h)
        · exact Or.inr (Or.inl (by simpa using h))
      | succ j' =>
        refine Or.inr (Or.inr ⟨j', by omega, ?_⟩)
        have e : k + (j' + 1) = k + 1 + j' := by omega
        simpa [e] using h

/-! ### union of the open coverages -/

theorem unionAll_spec (ys : List Space) (hy : ∀ i, Canon (ys.getD i [])) : ∀ (op : List Nat),
    Canon (unionAll ys op) ∧ ∀ s, mem s (unionAll ys op) ↔ ∃ i ∈ op, mem s (ys.getD i []) := by
  have gen : ∀ (op : List Nat) (acc : Space), Canon acc →
      Canon (op.foldl (fun acc i => Moc.union acc (ys.getD i [])) acc) ∧
      ∀ s, mem s (op.foldl (fun acc i => Moc.union acc (ys.getD i [])) acc) ↔
        mem s acc ∨ ∃ i ∈ op, mem s (ys.getD i []) := by
    intro op
    induction op with
    | nil => intro acc h; exact ⟨h, fun s => by simp⟩
    | cons i t ih =>
      intro acc h
      have u := union_spec acc (ys.getD i []) h (hy i)
      obtain ⟨i1, i2⟩ := ih _ u.1
      refine ⟨i1, fun s => ?_⟩
      simp only [List.foldl_cons]
      rw [i2 s, u.2 s]
      constructor
      · rintro ((h' | h') | ⟨j, hj, hs⟩)
        · exact Or.inl h'
        · exact Or.inr ⟨i, List.mem_cons_self, h'⟩
        · exact Or.inr ⟨j, List.mem_cons_of_mem _ hj, hs⟩
      · rintro (h' | ⟨j, hj, hs⟩)
        · exact Or.inl (Or.inl h')
        · cases hj with
          | head => exact Or.inl (Or.inr hs)
          | tail _ hm => exact Or.inr ⟨j, hm, hs⟩
  intro op
  have := gen op [] trivial
  refine ⟨this.1, fun s => ?_⟩
  unfold unionAll
  rw [this.2 s]
  simp

end Moc.Consistent2D

namespace Moc.Consistent2D
open Moc
open Moc.Merge2D (memFlat memFlat_append memFlat_single SegFrom lastEndF segFrom_append lastEndF_append
  segFrom_ends not_memFlat_of_end_le VF postPass postPassFrom postPass_spec)

/-! ### the sweep -/

section sweep
variable (xs : List Rng) (ys : List Space)

def startB (i : Nat) : Bound := ⟨(xs.getD i (0, 0)).1, i, true⟩
def endB (i : Nat) : Bound := ⟨(xs.getD i (0, 0)).2, i, false⟩

/-- What is known of the sorted list of bounds `L` and of the entries. -/
structure G (L : List Bound) : Prop where
  sorted : L.Pairwise (fun a c => a.x ≤ c.x)
  sub : ∀ b ∈ L, ∃ i, i < xs.length ∧ (b = startB xs i ∨ b = endB xs i)
  sup : ∀ i, i < xs.length → startB xs i ∈ L ∧ endB xs i ∈ L
  ne : ∀ i, i < xs.length → (xs.getD i (0, 0)).1 < (xs.getD i (0, 0)).2
  cy : ∀ i, Canon (ys.getD i [])
  ney : ∀ i, i < xs.length → ys.getD i [] ≠ []

/-- Invariant of the sweep after the bounds `pre`. -/
structure SInv (pre : List Bound) (st : St) : Prop where
  prevIn : ∃ a ∈ pre, a.x = st.prev
  preLe : ∀ b ∈ pre, b.x ≤ st.prev
  opChar : ∀ i, i ∈ st.op ↔ (i < xs.length ∧ startB xs i ∈ pre ∧ endB xs i ∉ pre)
  seg : SegFrom 0 st.out
  endLe : lastEndF 0 st.out ≤ st.prev
  strict : ∀ e ∈ st.out, e.1.1 < e.1.2 ∧ e.2 ≠ [] ∧ Canon e.2
  sem : ∀ t s, t < st.prev → (memFlat t s st.out ↔
    ∃ i, i < xs.length ∧ (xs.getD i (0, 0)).1 ≤ t ∧ t < (xs.getD i (0, 0)).2 ∧ mem s (ys.getD i []))

variable {xs ys}

theorem open_char {L pre post : List Bound} {b : Bound} {st : St} (g : G xs ys L) (hL : L = pre ++ b :: post)
    (h : SInv xs ys pre st) (t : Nat) (h1 : st.prev ≤ t) (h2 : t < b.x) (i : Nat) :
    i ∈ st.op ↔ (i < xs.length ∧ (xs.getD i (0, 0)).1 ≤ t ∧ t < (xs.getD i (0, 0)).2) := by
  have hs := g.sorted
  rw [hL, List.pairwise_append] at hs
  obtain ⟨_, hs2, _⟩ := hs
  rw [List.pairwise_cons] at hs2
  have hpost : ∀ c ∈ b :: post, b.x ≤ c.x := by
    intro c hc
    cases hc with
    | head => exact Nat.le_refl _
    | tail _ hm => exact hs2.1 c hm
  rw [h.opChar i]
  constructor
  · rintro ⟨hi, hsb, heb⟩
    refine ⟨hi, ?_, ?_⟩
    · have := h.preLe _ hsb
      simp only [startB] at this; omega
    · have hin := (g.sup i hi).2
      rw [hL] at hin
      rcases List.mem_append.1 hin with hin | hin
      · exact absurd hin heb
      · have := hpost _ hin
        simp only [endB] at this; omega
  · rintro ⟨hi, a1, a2⟩
    refine ⟨hi, ?_, ?_⟩
    · have hin := (g.sup i hi).1
      rw [hL] at hin
      rcases List.mem_append.1 hin with hin | hin
      · exact hin
      · have := hpost _ hin
        simp only [startB] at this; omega
    · intro hin
      have := h.preLe _ hin
      simp only [endB] at this; omega

theorem SInv.step {L pre post : List Bound} {b : Bound} {st : St} (g : G xs ys L) (hL : L = pre ++ b :: post)
    (h : SInv xs ys pre st) : SInv xs ys (pre ++ [b]) (Consistent2D.step ys st b) := by
  have hs := g.sorted
  rw [hL, List.pairwise_append] at hs
  obtain ⟨_, hs2, hs3⟩ := hs
  -- `prev` is the coordinate of a bound of `pre`, hence `≤ b.x`
  have hprev_le : ∀ a ∈ pre, a.x ≤ b.x := fun a ha => hs3 a ha b List.mem_cons_self
  have hprev : st.prev ≤ b.x := by
    obtain ⟨a, ha, hax⟩ := h.prevIn
    rw [← hax]; exact hprev_le a ha
  obtain ⟨i0, hi0, hb⟩ := g.sub b (by rw [hL]; exact List.mem_append_right _ List.mem_cons_self)
  have hoc := open_char g hL h
  -- the new output
  have hcov := unionAll_spec ys g.cy st.op
  -- the output of the step
  have hout : (Consistent2D.step ys st b).out =
      if (decide (st.prev < b.x) && !st.op.isEmpty) = true then st.out ++ [((st.prev, b.x), unionAll ys st.op)]
      else st.out := rfl
  have hpv : (Consistent2D.step ys st b).prev = b.x := rfl
  have hnm : ∀ t s, st.prev ≤ t → ¬ memFlat t s st.out :=
    fun t s ht => not_memFlat_of_end_le h.seg (Nat.le_trans h.endLe ht)
  refine ⟨⟨b, List.mem_append_right _ List.mem_cons_self, rfl⟩, ?_, ?_, ?_, ?_, ?_, ?_⟩
  · -- preLe
    intro a ha
    show a.x ≤ b.x
    rcases List.mem_append.1 ha with ha | ha
    · exact hprev_le a ha
    · simp at ha; subst ha; exact Nat.le_refl _
  · -- opChar
    intro i
    show i ∈ (if b.start then (if st.op.contains b.idx then st.op else b.idx :: st.op) else st.op.filter (· != b.idx)) ↔ _
    rcases hb with hb | hb
    · -- a start bound
      have hst : b.start = true := by rw [hb]; rfl
      have hidx : b.idx = i0 := by rw [hb]; rfl
      rw [if_pos hst, hidx]
      have hmem : i ∈ (if st.op.contains i0 then st.op else i0 :: st.op) ↔ i = i0 ∨ i ∈ st.op := by
        split
        · rename_i hc
          have : i0 ∈ st.op := by simpa using hc
          constructor
          · exact Or.inr
          · rintro (rfl | h') <;> assumption
        · simp
      rw [hmem, h.opChar i]
      by_cases hii : i = i0
      · subst hii
        constructor
        · intro _
          refine ⟨hi0, by rw [← hb]; exact List.mem_append_right _ List.mem_cons_self, ?_⟩
          intro hin
          rcases List.mem_append.1 hin with hin | hin
          · have := hprev_le _ hin
            have hne := g.ne i hi0
            rw [hb] at this
            simp only [endB, startB] at this; omega
          · simp at hin; rw [hb] at hin; simp [endB, startB] at hin
        · intro _; exact Or.inl rfl
      · have e1 : startB xs i ∈ pre ++ [b] ↔ startB xs i ∈ pre := by
          rw [List.mem_append]
          constructor
          · rintro (h' | h')
            · exact h'
            · simp at h'; rw [hb] at h'; simp [startB] at h'; exact absurd h'.2 hii
          · exact Or.inl
        have e2 : endB xs i ∈ pre ++ [b] ↔ endB xs i ∈ pre := by
          rw [List.mem_append]
          constructor
          · rintro (h' | h')
            · exact h'
            · simp at h'; rw [hb] at h'; simp [startB, endB] at h'
          · exact Or.inl
        rw [e1, e2]
        constructor
        · rintro (h' | h')
          · exact absurd h' hii
          · exact h'
        · exact Or.inr
    · -- an end bound
      have hst : b.start = false := by rw [hb]; rfl
      have hidx : b.idx = i0 := by rw [hb]; rfl
      rw [if_neg (by simp [hst]), hidx]
      simp only [List.mem_filter, bne_iff_ne, ne_eq]
      rw [h.opChar i]
      by_cases hii : i = i0
      · subst hii
        constructor
        · rintro ⟨_, h'⟩; exact absurd rfl h'
        · rintro ⟨_, _, h'⟩
          exact absurd (by rw [← hb]; exact List.mem_append_right _ List.mem_cons_self) h'
      · have e1 : startB xs i ∈ pre ++ [b] ↔ startB xs i ∈ pre := by
          rw [List.mem_append]
          constructor
          · rintro (h' | h')
            · exact h'
            · simp at h'; rw [hb] at h'; simp [startB, endB] at h'
          · exact Or.inl
        have e2 : endB xs i ∈ pre ++ [b] ↔ endB xs i ∈ pre := by
          rw [List.mem_append]
          constructor
          · rintro (h' | h')
            · exact h'
            · simp at h'; rw [hb] at h'; simp [endB] at h'; exact absurd h'.2 hii
          · exact Or.inl
        rw [e1, e2]
        constructor
        · rintro ⟨h', _⟩; exact h'
        · intro h'; exact ⟨h', hii⟩
  · -- seg
    rw [hout]
    split
    · rename_i hemit
      simp only [Bool.and_eq_true, decide_eq_true_eq] at hemit
      rw [segFrom_append]
      exact ⟨h.seg, h.endLe, Nat.le_of_lt hemit.1⟩
    · exact h.seg
  · -- endLe
    rw [hout, hpv]
    split
    · rw [lastEndF_append]; exact Nat.le_refl _
    · exact Nat.le_trans h.endLe hprev
  · -- strict
    rw [hout]
    split
    · rename_i hemit
      simp only [Bool.and_eq_true, decide_eq_true_eq, Bool.not_eq_true', List.isEmpty_eq_false_iff] at hemit
      intro e he
      rcases List.mem_append.1 he with he | he
      · exact h.strict e he
      · simp at he; subst he
        refine ⟨hemit.1, ?_, hcov.1⟩
        -- some open entry has a non-empty coverage
        obtain ⟨j, hj⟩ := List.exists_mem_of_ne_nil _ hemit.2
        have hjn := ((h.opChar j).1 hj).1
        have hne := g.ney j hjn
        intro hnil
        cases hc : ys.getD j [] with
        | nil => exact hne hc
        | cons r rs =>
          have hr : r.1 < r.2 := by
            have := g.cy j
            rw [hc] at this
            exact this.2.1
          have : mem r.1 (unionAll ys st.op) := (hcov.2 r.1).2 ⟨j, hj, by rw [hc]; exact Or.inl ⟨Nat.le_refl _, hr⟩⟩
          have hnil' : unionAll ys st.op = [] := hnil
          rw [hnil'] at this
          exact this
    · exact h.strict
  · -- sem
    intro t s ht
    rw [hpv] at ht
    rw [hout]
    by_cases htl : t < st.prev
    · rw [← h.sem t s htl]
      split
      · rw [memFlat_append, memFlat_single]
        simp only []
        constructor
        · rintro (hm | ⟨a1, _, _⟩)
          · exact hm
          · omega
        · exact Or.inl
      · rfl
    · have htl' : st.prev ≤ t := by omega
      have hoct := hoc t htl' ht
      split
      · rw [memFlat_append, memFlat_single]
        simp only []
        constructor
        · rintro (hm | ⟨_, _, hm⟩)
          · exact absurd hm (hnm t s htl')
          · obtain ⟨i, hi, hs⟩ := (hcov.2 s).1 hm
            obtain ⟨k1, k2, k3⟩ := (hoct i).1 hi
            exact ⟨i, k1, k2, k3, hs⟩
        · rintro ⟨i, k1, k2, k3, hs⟩
          exact Or.inr ⟨htl', ht, (hcov.2 s).2 ⟨i, (hoct i).2 ⟨k1, k2, k3⟩, hs⟩⟩
      · rename_i hemit
        constructor
        · intro hm; exact absurd hm (hnm t s htl')
        · rintro ⟨i, k1, k2, k3, _⟩
          exfalso
          apply hemit
          have hi := (hoct i).2 ⟨k1, k2, k3⟩
          simp only [Bool.and_eq_true, decide_eq_true_eq, Bool.not_eq_true', List.isEmpty_eq_false_iff]
          exact ⟨by omega, List.ne_nil_of_mem hi⟩

theorem SInv.foldl {L : List Bound} (g : G xs ys L) : ∀ (post pre : List Bound) (st : St), L = pre ++ post →
    SInv xs ys pre st → SInv xs ys L (post.foldl (Consistent2D.step ys) st) := by
  intro post
  induction post with
  | nil => intro pre st hL h; simp at hL; subst hL; exact h
  | cons b r ih =>
    intro pre st hL h
    have hst := SInv.step g hL h
    exact ih (pre ++ [b]) _ (by rw [hL]; simp) hst

theorem SInv.init {first : Bound} {rest : List Bound} (g : G xs ys (first :: rest)) :
    SInv xs ys [first] { prev := first.x, op := [first.idx] } := by
  obtain ⟨j, hj, hb⟩ := g.sub first List.mem_cons_self
  have hs := g.sorted
  rw [List.pairwise_cons] at hs
  have hmin : ∀ c ∈ first :: rest, first.x ≤ c.x := by
    intro c hc
    cases hc with
    | head => exact Nat.le_refl _
    | tail _ hm => exact hs.1 c hm
  -- the first bound is a start
  have hstart : first = startB xs j := by
    rcases hb with hb | hb
    · exact hb
    · exfalso
      have := hmin _ (g.sup j hj).1
      have hne := g.ne j hj
      rw [hb] at this
      simp only [startB, endB] at this; omega
  refine ⟨⟨first, List.mem_cons_self, rfl⟩, ?_, ?_, trivial, Nat.zero_le _, fun e he => (by cases he), ?_⟩
  · intro b hb'; simp at hb'; subst hb'; exact Nat.le_refl _
  · intro i
    simp only [List.mem_singleton]
    rw [hstart]
    constructor
    · intro hi
      have : i = j := hi
      subst this
      refine ⟨hj, rfl, ?_⟩
      simp [startB, endB]
    · rintro ⟨_, h1, _⟩
      simp [startB] at h1
      exact h1.2
  · intro t s ht
    constructor
    · rintro ⟨e, he, _⟩; cases he
    · rintro ⟨i, hi, a1, _, _⟩
      exfalso
      have := hmin _ (g.sup i hi).1
      simp only [startB] at this
      simp only [] at ht
      omega

/-- Result of the sweep over all the bounds. -/
theorem sweep_spec {first : Bound} {rest : List Bound} (g : G xs ys (first :: rest)) :
    let out := (rest.foldl (Consistent2D.step ys) { prev := first.x, op := [first.idx] }).out
    SegFrom 0 out ∧ (∀ e ∈ out, e.1.1 < e.1.2 ∧ e.2 ≠ [] ∧ Canon e.2) ∧
    ∀ t s, memFlat t s out ↔
      ∃ i, i < xs.length ∧ (xs.getD i (0, 0)).1 ≤ t ∧ t < (xs.getD i (0, 0)).2 ∧ mem s (ys.getD i []) := by
  have h := SInv.foldl g rest [first] _ rfl (SInv.init g)
  refine ⟨h.seg, h.strict, fun t s => ?_⟩
  by_cases ht : t < (rest.foldl (Consistent2D.step ys) { prev := first.x, op := [first.idx] }).prev
  · exact h.sem t s ht
  · have ht' : (rest.foldl (Consistent2D.step ys) { prev := first.x, op := [first.idx] }).prev ≤ t := by omega
    constructor
    · intro hm; exact absurd hm (not_memFlat_of_end_le h.seg (Nat.le_trans h.endLe ht'))
    · rintro ⟨i, hi, _, a2, _⟩
      exfalso
      have := h.preLe _ (g.sup i hi).2
      simp only [endB] at this
      omega

end sweep

/-! ### `compress` -/

theorem compressFrom_eq : ∀ (rest : FlatST) (c : Rng × Space), (∀ e ∈ rest, e.1.1 < e.1.2) →
    compressFrom c rest = postPassFrom c rest := by
  intro rest
  induction rest with
  | nil => intro c _; rfl
  | cons x r ih =>
    intro c h
    obtain ⟨t, s⟩ := x
    have hx := h (t, s) List.mem_cons_self
    have hr : ∀ e ∈ r, e.1.1 < e.1.2 := fun e he => h e (List.mem_cons_of_mem _ he)
    simp only [compressFrom, postPassFrom]
    rw [if_pos hx]
    split
    · exact ih _ hr
    · rw [ih _ hr]

theorem compress_eq (f : FlatST) (h : ∀ e ∈ f, e.1.1 < e.1.2) : compress f = postPass f := by
  cases f with
  | nil => rfl
  | cons x r =>
    obtain ⟨t, s⟩ := x
    have hx := h (t, s) List.mem_cons_self
    simp only [compress, postPass]
    rw [if_pos hx]
    exact compressFrom_eq r (t, s) (fun e he => h e (List.mem_cons_of_mem _ he))

end Moc.Consistent2D

namespace Moc.Consistent2D
open Moc
open Moc.Merge2D (memFlat VF postPass postPass_spec)

theorem getD_map_fst (entries : FlatST) (i : Nat) (hi : i < entries.length) :
    (entries.map (·.1)).getD i (0, 0) = entries[i].1 := by
  simp [List.getD, hi]

theorem getD_map_snd (entries : FlatST) (i : Nat) (hi : i < entries.length) :
    (entries.map (·.2)).getD i [] = entries[i].2 := by
  simp [List.getD, hi]

/-- **`Ranges2D::make_consistent` (the range-2D construction path)**: for every list of entries — any order,
    overlapping or touching time ranges, duplicates — with non-empty time ranges and non-empty canonical
    coverages, the result is a VALID flat coverage and covers exactly the union of the products
    (time range) × (coverage) of the entries: no pair lost, none invented. -/
theorem makeConsistent_spec (entries : FlatST)
    (he : ∀ e ∈ entries, e.1.1 < e.1.2 ∧ Canon e.2 ∧ e.2 ≠ []) :
    VF Canon 0 none (makeConsistent entries) ∧
    ∀ t s, memFlat t s (makeConsistent entries) ↔ ∃ e ∈ entries, e.1.1 ≤ t ∧ t < e.1.2 ∧ mem s e.2 := by
  unfold makeConsistent
  -- the global facts
  have hlen : (entries.map (·.1)).length = entries.length := by simp
  have hg : G (entries.map (·.1)) (entries.map (·.2)) (sortB (boundsFrom 0 (entries.map (·.1)))) := by
    refine ⟨sortB_sorted _, ?_, ?_, ?_, ?_, ?_⟩
    · intro b hb
      rw [mem_sortB, mem_boundsFrom] at hb
      obtain ⟨j, hj, h⟩ := hb
      refine ⟨j, hj, ?_⟩
      simpa [startB, endB] using h
    · intro i hi
      constructor
      · rw [mem_sortB, mem_boundsFrom]; exact ⟨i, hi, Or.inl (by simp [startB])⟩
      · rw [mem_sortB, mem_boundsFrom]; exact ⟨i, hi, Or.inr (by simp [endB])⟩
    · intro i hi
      rw [hlen] at hi
      rw [getD_map_fst entries i hi]
      exact (he _ (List.getElem_mem hi)).1
    · intro i
      by_cases hi : i < entries.length
      · rw [getD_map_snd entries i hi]; exact (he _ (List.getElem_mem hi)).2.1
      · have : (entries.map (·.2)).getD i [] = [] := by
          rw [List.getD_eq_getElem?_getD, List.getElem?_eq_none (by simp; omega)]
          rfl
        rw [this]; trivial
    · intro i hi
      rw [hlen] at hi
      rw [getD_map_snd entries i hi]
      exact (he _ (List.getElem_mem hi)).2.2
  -- index form ↔ entry form of the specification
  have hidx : ∀ t s, (∃ i, i < (entries.map (·.1)).length ∧ ((entries.map (·.1)).getD i (0, 0)).1 ≤ t ∧
      t < ((entries.map (·.1)).getD i (0, 0)).2 ∧ mem s ((entries.map (·.2)).getD i [])) ↔
      ∃ e ∈ entries, e.1.1 ≤ t ∧ t < e.1.2 ∧ mem s e.2 := by
    intro t s
    constructor
    · rintro ⟨i, hi, a1, a2, a3⟩
      rw [hlen] at hi
      rw [getD_map_fst entries i hi] at a1 a2
      rw [getD_map_snd entries i hi] at a3
      exact ⟨entries[i], List.getElem_mem hi, a1, a2, a3⟩
    · rintro ⟨e, hmem, a1, a2, a3⟩
      obtain ⟨i, hi, rfl⟩ := List.mem_iff_getElem.1 hmem
      refine ⟨i, by rw [hlen]; exact hi, ?_, ?_, ?_⟩
      · rw [getD_map_fst entries i hi]; exact a1
      · rw [getD_map_fst entries i hi]; exact a2
      · rw [getD_map_snd entries i hi]; exact a3
  cases hL : sortB (boundsFrom 0 (entries.map (·.1))) with
  | nil =>
    -- no bound: no entry
    simp only []
    have hnil : entries = [] := by
      cases entries with
      | nil => rfl
      | cons e r =>
        exfalso
        have : (⟨e.1.1, 0, true⟩ : Bound) ∈ sortB (boundsFrom 0 ((e :: r).map (·.1))) := by
          rw [mem_sortB]; simp [boundsFrom]
        rw [hL] at this; cases this
    subst hnil
    refine ⟨trivial, fun t s => ?_⟩
    constructor
    · rintro ⟨e, he', _⟩; cases he'
    · rintro ⟨e, he', _⟩; cases he'
  | cons first rest =>
    simp only []
    rw [hL] at hg
    obtain ⟨g1, g2, g3⟩ := sweep_spec hg
    rw [compress_eq _ (fun e he' => (g2 e he').1)]
    have pp := postPass_spec Canon _ 0 g1 (fun e he' => ⟨(g2 e he').2.1, (g2 e he').2.2⟩)
    refine ⟨pp.1, fun t s => ?_⟩
    rw [pp.2 t s, g3 t s, hidx t s]


/-- **Construction from observations, every list**: empty time ranges and empty coverages included, in any order —
    the result is a VALID flat coverage and covers exactly the union of the products (time range) × (coverage). -/
theorem fromObservations_spec (entries : FlatST) (he : ∀ e ∈ entries, Canon e.2) :
    VF Canon 0 none (fromObservations entries) ∧
    ∀ t s, memFlat t s (fromObservations entries) ↔ ∃ e ∈ entries, e.1.1 ≤ t ∧ t < e.1.2 ∧ mem s e.2 := by
  unfold fromObservations
  have hf : ∀ e ∈ entries.filter (fun e => decide (e.1.1 < e.1.2) && !e.2.isEmpty),
      e.1.1 < e.1.2 ∧ Canon e.2 ∧ e.2 ≠ [] := by
    intro e h
    obtain ⟨h1, h2⟩ := List.mem_filter.1 h
    simp only [Bool.and_eq_true, decide_eq_true_eq, Bool.not_eq_true', List.isEmpty_eq_false_iff] at h2
    exact ⟨h2.1, he e h1, h2.2⟩
  have sp := makeConsistent_spec _ hf
  refine ⟨sp.1, fun t s => ?_⟩
  rw [sp.2]
  constructor
  · rintro ⟨e, h, r⟩; exact ⟨e, (List.mem_filter.1 h).1, r⟩
  · rintro ⟨e, h, h1, h2, h3⟩
    refine ⟨e, List.mem_filter.2 ⟨h, ?_⟩, h1, h2, h3⟩
    have hne : e.2 ≠ [] := by intro h0; rw [h0] at h3; simp [mem] at h3
    simp only [Bool.and_eq_true, decide_eq_true_eq, Bool.not_eq_true', List.isEmpty_eq_false_iff]
    exact ⟨by omega, hne⟩

end Moc.Consistent2D
