/-
  C09 — the elements built from a buffer of observations cover exactly the observations.
-/
import MocVerif.Model.STBuilder
import MocVerif.Lemmas.Graph

namespace Moc.STBuilder
open Moc.Graph

/-- `(t, s)` is covered by a list of groups. -/
def InGroups (gs : List (Nat × List Nat)) (t s : Nat) : Prop := ∃ g ∈ gs, g.1 = t ∧ s ∈ g.2

theorem inGroups_addObs (t0 s0 t s : Nat) : ∀ (gs : List (Nat × List Nat)),
    InGroups (addObs t0 s0 gs) t s ↔ (t = t0 ∧ s = s0) ∨ InGroups gs t s := by
  intro gs
  induction gs with
  | nil =>
    simp only [addObs, InGroups, List.mem_singleton, List.not_mem_nil, false_and, exists_false, or_false]
    constructor
    · rintro ⟨g, rfl, h1, h2⟩
      simp only [List.mem_singleton] at h2
      exact ⟨h1.symm, h2⟩
    · rintro ⟨rfl, rfl⟩
      exact ⟨_, rfl, rfl, by simp⟩
  | cons g0 rest ih =>
    obtain ⟨t', S⟩ := g0
    simp only [addObs]
    by_cases h1 : t0 < t'
    · simp only [h1, ↓reduceIte, InGroups, List.mem_cons]
      constructor
      · rintro ⟨g, hg | hg, e1, e2⟩
        · subst hg
          simp only [List.mem_singleton] at e2
          exact .inl ⟨e1.symm, e2⟩
        · exact .inr ⟨g, hg, e1, e2⟩
      · rintro (⟨rfl, rfl⟩ | ⟨g, hg, e1, e2⟩)
        · exact ⟨_, .inl rfl, rfl, by simp⟩
        · exact ⟨g, .inr hg, e1, e2⟩
    · simp only [h1, ↓reduceIte]
      by_cases h2 : t0 = t'
      · subst h2
        simp only [↓reduceIte, InGroups, List.mem_cons]
        constructor
        · rintro ⟨g, hg | hg, e1, e2⟩
          · subst hg
            simp only [] at e1 e2
            rcases (mem_ins s0 s S).1 e2 with rfl | h
            · exact .inl ⟨e1.symm, rfl⟩
            · exact .inr ⟨(t0, S), .inl rfl, e1, h⟩
          · exact .inr ⟨g, .inr hg, e1, e2⟩
        · rintro (⟨rfl, rfl⟩ | ⟨g, hg | hg, e1, e2⟩)
          · exact ⟨_, .inl rfl, rfl, (mem_ins s s S).2 (.inl rfl)⟩
          · subst hg
            exact ⟨_, .inl rfl, e1, (mem_ins s0 s S).2 (.inr e2)⟩
          · exact ⟨g, .inr hg, e1, e2⟩
      · simp only [h2, ↓reduceIte]
        have : InGroups ((t', S) :: addObs t0 s0 rest) t s ↔ (t' = t ∧ s ∈ S) ∨ InGroups (addObs t0 s0 rest) t s := by
          simp only [InGroups, List.mem_cons]
          constructor
          · rintro ⟨g, hg | hg, e1, e2⟩
            · subst hg; exact .inl ⟨e1, e2⟩
            · exact .inr ⟨g, hg, e1, e2⟩
          · rintro (⟨e1, e2⟩ | ⟨g, hg, e1, e2⟩)
            · exact ⟨_, .inl rfl, e1, e2⟩
            · exact ⟨g, .inr hg, e1, e2⟩
        rw [this, ih]
        simp only [InGroups, List.mem_cons]
        constructor
        · rintro (h | h | ⟨g, hg, e1, e2⟩)
          · exact .inr ⟨_, .inl rfl, h.1, h.2⟩
          · exact .inl h
          · exact .inr ⟨g, .inr hg, e1, e2⟩
        · rintro (h | ⟨g, hg | hg, e1, e2⟩)
          · exact .inr (.inl h)
          · subst hg; exact .inl ⟨e1, e2⟩
          · exact .inr (.inr ⟨g, hg, e1, e2⟩)

theorem inGroups_groups (buf : List (Nat × Nat)) (t s : Nat) : InGroups (groups buf) t s ↔ (t, s) ∈ buf := by
  induction buf with
  | nil => simp [groups, InGroups]
  | cons o rest ih =>
    have : groups (o :: rest) = addObs o.1 o.2 (groups rest) := rfl
    rw [this, inGroups_addObs, ih]
    simp only [List.mem_cons]
    constructor
    · rintro (⟨rfl, rfl⟩ | h)
      · exact .inl rfl
      · exact .inr h
    · rintro (h | h)
      · left; rw [← h]; exact ⟨rfl, rfl⟩
      · exact .inr h

/-- `(t, s)` is covered by a list of elements. -/
def InElems (es : List (List Nat × List Nat)) (t s : Nat) : Prop := ∃ e ∈ es, t ∈ e.1 ∧ s ∈ e.2

theorem inElems_mergeRuns : ∀ (gs : List (Nat × List Nat)) (t s : Nat), InElems (mergeRuns gs) t s ↔ InGroups gs t s := by
  intro gs
  induction gs with
  | nil => intro t s; simp [mergeRuns, InElems, InGroups]
  | cons g rest ih =>
    intro t s
    obtain ⟨t0, S⟩ := g
    have hrest := ih t s
    simp only [mergeRuns]
    have hcons : InGroups ((t0, S) :: rest) t s ↔ (t0 = t ∧ s ∈ S) ∨ InGroups rest t s := by
      simp only [InGroups, List.mem_cons]
      constructor
      · rintro ⟨g, hg | hg, e1, e2⟩
        · subst hg; exact .inl ⟨e1, e2⟩
        · exact .inr ⟨g, hg, e1, e2⟩
      · rintro (⟨e1, e2⟩ | ⟨g, hg, e1, e2⟩)
        · exact ⟨_, .inl rfl, e1, e2⟩
        · exact ⟨g, .inr hg, e1, e2⟩
    rw [hcons, ← hrest]
    cases hm : mergeRuns rest with
    | nil =>
      simp only [InElems, List.mem_singleton, List.not_mem_nil, false_and, exists_false, or_false]
      constructor
      · rintro ⟨e, rfl, h1, h2⟩
        simp only [List.mem_singleton] at h1
        exact ⟨h1.symm, h2⟩
      · rintro ⟨rfl, h2⟩
        exact ⟨_, rfl, by simp, h2⟩
    | cons e0 more =>
      obtain ⟨ts, S'⟩ := e0
      simp only []
      by_cases hS : S = S'
      · subst hS
        simp only [↓reduceIte, InElems, List.mem_cons]
        constructor
        · rintro ⟨e, he | he, h1, h2⟩
          · subst he
            simp only [List.mem_cons] at h1
            rcases h1 with rfl | h1
            · exact .inl ⟨rfl, h2⟩
            · exact .inr ⟨(ts, S), .inl rfl, h1, h2⟩
          · exact .inr ⟨e, .inr he, h1, h2⟩
        · rintro (⟨rfl, h2⟩ | ⟨e, he | he, h1, h2⟩)
          · exact ⟨_, .inl rfl, by simp, h2⟩
          · subst he
            exact ⟨_, .inl rfl, List.mem_cons_of_mem _ h1, h2⟩
          · exact ⟨e, .inr he, h1, h2⟩
      · simp only [hS, ↓reduceIte, InElems, List.mem_cons]
        constructor
        · rintro ⟨e, he | he | he, h1, h2⟩
          · subst he
            simp only [List.mem_singleton] at h1
            exact .inl ⟨h1.symm, h2⟩
          · exact .inr ⟨e, .inl he, h1, h2⟩
          · exact .inr ⟨e, .inr he, h1, h2⟩
        · rintro (⟨rfl, h2⟩ | ⟨e, he | he, h1, h2⟩)
          · exact ⟨_, .inl rfl, by simp, h2⟩
          · exact ⟨e, .inr (.inl he), h1, h2⟩
          · exact ⟨e, .inr (.inr he), h1, h2⟩

/-- **The elements built from a buffer cover exactly its observations.** -/
theorem buffToElems_sem (buf : List (Nat × Nat)) (t s : Nat) : InElems (buffToElems buf) t s ↔ (t, s) ∈ buf := by
  unfold buffToElems
  rw [inElems_mergeRuns, inGroups_groups]

/-- Groups in strictly increasing order of time cell, all above `lo`. -/
def SortedFrom : Nat → List (Nat × List Nat) → Prop
  | _, [] => True
  | lo, g :: t => lo ≤ g.1 ∧ SortedFrom (g.1 + 1) t

theorem SortedFrom.mono {lo lo' : Nat} : ∀ {gs : List (Nat × List Nat)}, SortedFrom lo gs → lo' ≤ lo → SortedFrom lo' gs := by
  intro gs h hle
  cases gs with
  | nil => trivial
  | cons g t => exact ⟨Nat.le_trans hle h.1, h.2⟩

theorem sorted_addObs (t0 s0 : Nat) : ∀ (gs : List (Nat × List Nat)) (lo : Nat), SortedFrom lo gs → lo ≤ t0 →
    SortedFrom lo (addObs t0 s0 gs) := by
  intro gs
  induction gs with
  | nil => intro lo _ h; exact ⟨h, trivial⟩
  | cons g rest ih =>
    intro lo hs hlo
    obtain ⟨t', S⟩ := g
    simp only [addObs]
    by_cases h1 : t0 < t'
    · simp only [h1, ↓reduceIte]
      exact ⟨hlo, ⟨by show t0 + 1 ≤ t'; omega, hs.2⟩⟩
    · simp only [h1, ↓reduceIte]
      by_cases h2 : t0 = t'
      · simp only [h2, ↓reduceIte]; exact ⟨hs.1, hs.2⟩
      · simp only [h2, ↓reduceIte]
        exact ⟨hs.1, ih (t' + 1) hs.2 (by show t' + 1 ≤ t0; omega)⟩

/-- The groups are in strictly increasing order of time cell: one group per time cell. -/
theorem groups_sorted (buf : List (Nat × Nat)) : SortedFrom 0 (groups buf) := by
  induction buf with
  | nil => trivial
  | cons o rest ih => exact sorted_addObs o.1 o.2 _ 0 ih (Nat.zero_le _)

/-- Consecutive elements carry different space coverages. -/
def Alternating : List (List Nat × List Nat) → Prop
  | a :: b :: t => a.2 ≠ b.2 ∧ Alternating (b :: t)
  | _ => True

theorem mergeRuns_alternating : ∀ (gs : List (Nat × List Nat)), Alternating (mergeRuns gs) := by
  intro gs
  induction gs with
  | nil => trivial
  | cons g rest ih =>
    obtain ⟨t0, S⟩ := g
    simp only [mergeRuns]
    cases hm : mergeRuns rest with
    | nil => trivial
    | cons e0 more =>
      obtain ⟨ts, S'⟩ := e0
      rw [hm] at ih
      simp only []
      by_cases hS : S = S'
      · simp only [hS, ↓reduceIte]
        cases more with
        | nil => trivial
        | cons e1 more' => exact ⟨ih.1, ih.2⟩
      · simp only [hS, ↓reduceIte]
        exact ⟨hS, ih⟩

end Moc.STBuilder
