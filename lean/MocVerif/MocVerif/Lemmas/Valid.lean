/-
  `Valid` (bounded + cell-aligned) is a property of the covered SET for canonical lists, hence it is
  preserved by every operator that is proved to compute a Boolean combination of sets.
-/
import MocVerif.Lemmas.LazyOps

namespace Moc

/-- The covered set is a union of whole cells of size `c`. -/
def CellClosed (c : Nat) (l : List Rng) : Prop := ∀ x y, x / c = y / c → (mem x l → mem y l)

theorem cellClosed_of_aligned (c : Nat) (hc : 0 < c) (l : List Rng) (ha : Aligned c l) : CellClosed c l := by
  intro x y hxy hx
  rw [mem_iff_exists] at hx ⊢
  obtain ⟨r, hr, h1, h2⟩ := hx
  refine ⟨r, hr, ?_, ?_⟩
  · obtain ⟨⟨k1, hk1⟩, _⟩ := ha r hr
    rw [hk1] at h1 ⊢
    have : k1 ≤ x / c := (Nat.le_div_iff_mul_le hc).2 (by rw [Nat.mul_comm]; exact h1)
    rw [hxy] at this
    have := (Nat.le_div_iff_mul_le hc).1 this
    rw [Nat.mul_comm]; exact this
  · obtain ⟨_, ⟨k2, hk2⟩⟩ := ha r hr
    rw [hk2] at h2 ⊢
    have : x / c < k2 := (Nat.div_lt_iff_lt_mul hc).2 (by rw [Nat.mul_comm]; exact h2)
    rw [hxy] at this
    have := (Nat.div_lt_iff_lt_mul hc).1 this
    rw [Nat.mul_comm]; exact this

theorem pred_div_eq_of_not_dvd (c n : Nat) (hn : 0 < n) (h : ¬ c ∣ n) : (n - 1) / c = n / c := by
  obtain ⟨m, rfl⟩ : ∃ m, n = m + 1 := ⟨n - 1, by omega⟩
  rw [Nat.succ_div]
  simp [h]

theorem aligned_of_cellClosed (c : Nat) (l : List Rng) : ∀ lo, CanonFrom lo l → CellClosed c l →
    (∀ x, x < lo → ¬ mem x l) → Aligned c l := by
  induction l with
  | nil => intro lo _ _ _ r hr; simp at hr
  | cons r t ih =>
    intro lo hcan hcl hlo
    obtain ⟨h1, h2, h3⟩ := hcan
    -- the tail is cell-closed too (members of the tail are > r.2, pulled back members as well)
    have hr2 : c ∣ r.2 := by
      apply Classical.byContradiction
      intro hnd
      have e := pred_div_eq_of_not_dvd c r.2 (by omega) hnd
      have hm : mem (r.2 - 1) (r :: t) := by simp; left; omega
      have := hcl (r.2 - 1) r.2 e hm
      rcases (mem_cons _ _ _).1 this with h | h
      · omega
      · have := h3.lb h; omega
    have hr1 : c ∣ r.1 := by
      apply Classical.byContradiction
      intro hnd
      have hpos : 0 < r.1 := by
        apply Nat.pos_of_ne_zero
        intro h0
        exact hnd (h0 ▸ Nat.dvd_zero c)
      have e := pred_div_eq_of_not_dvd c r.1 hpos hnd
      have hm : mem r.1 (r :: t) := by simp; left; omega
      have := hcl r.1 (r.1 - 1) e.symm hm
      rcases (mem_cons _ _ _).1 this with h | h
      · omega
      · have := h3.lb h; omega
    have hclt : CellClosed c t := by
      intro x y hxy hx
      have hxl := h3.lb hx
      have := hcl x y hxy (by simp; right; exact hx)
      rcases (mem_cons _ _ _).1 this with h | h
      · -- y ∈ r but x > r.2 with the same cell and c ∣ r.2: impossible
        exfalso
        obtain ⟨k, hk⟩ := hr2
        by_cases hc0 : c = 0
        · subst hc0; simp at hk; omega
        · have hc : 0 < c := Nat.pos_of_ne_zero hc0
          have hy : y / c < k := (Nat.div_lt_iff_lt_mul hc).2 (by rw [Nat.mul_comm, ← hk]; exact h.2)
          have hx' : k ≤ x / c := (Nat.le_div_iff_mul_le hc).2 (by rw [Nat.mul_comm, ← hk]; omega)
          omega
      · exact h
    have := ih (r.2 + 1) h3 hclt (fun x hx hm => by have := h3.lb hm; omega)
    intro s hs
    simp at hs
    rcases hs with rfl | hs
    · exact ⟨hr1, hr2⟩
    · exact this s hs

theorem aligned_iff_cellClosed (c : Nat) (hc : 0 < c) (l : List Rng) (hcan : Canon l) :
    Aligned c l ↔ CellClosed c l :=
  ⟨cellClosed_of_aligned c hc l, fun h => aligned_of_cellClosed c l 0 hcan h (fun x hx => by omega)⟩

theorem boundedBy_iff (ub : Nat) (l : List Rng) : ∀ lo, CanonFrom lo l →
    (BoundedBy ub l ↔ ∀ x, mem x l → x < ub) := by
  intro lo hcan
  constructor
  · intro hb x hx
    rw [mem_iff_exists] at hx
    obtain ⟨r, hr, _, h2⟩ := hx
    have := hb r hr; omega
  · intro h r hr
    have hne := canon_nonempty hcan r hr
    have := h (r.2 - 1) ((mem_iff_exists _ _).2 ⟨r, hr, by omega, by omega⟩)
    omega

/-- Any canonical list whose set is a pointwise Boolean combination of two valid operands' sets
    (with `f false false = false`) is valid at depth-cell size `c`, provided `c` divides both operands'
    cell sizes. This is how every binary operator preserves `Valid`. -/
theorem valid_of_sem (c ub : Nat) (hc : 0 < c) (a b o : List Rng) (f : Prop → Prop → Prop)
    (hf : ¬ f False False)
    (ha : Canon a) (hb : Canon b) (ho : Canon o)
    (hba : BoundedBy ub a) (hbb : BoundedBy ub b) (haa : Aligned c a) (hab : Aligned c b)
    (hsem : ∀ x, mem x o ↔ f (mem x a) (mem x b)) :
    BoundedBy ub o ∧ Aligned c o := by
  constructor
  · rw [boundedBy_iff ub o 0 ho]
    intro x hx
    rw [hsem] at hx
    by_cases h1 : mem x a
    · exact (boundedBy_iff ub a 0 ha).1 hba x h1
    · by_cases h2 : mem x b
      · exact (boundedBy_iff ub b 0 hb).1 hbb x h2
      · exfalso
        have e1 : mem x a = False := propext ⟨h1, False.elim⟩
        have e2 : mem x b = False := propext ⟨h2, False.elim⟩
        rw [e1, e2] at hx
        exact hf hx
  · rw [aligned_iff_cellClosed c hc o ho]
    intro x y hxy hx
    have ca := cellClosed_of_aligned c hc a haa
    have cb := cellClosed_of_aligned c hc b hab
    rw [hsem] at hx ⊢
    have e1 : mem x a = mem y a := propext ⟨ca x y hxy, ca y x hxy.symm⟩
    have e2 : mem x b = mem y b := propext ⟨cb x y hxy, cb y x hxy.symm⟩
    rw [← e1, ← e2]; exact hx

end Moc
