/-
  C04 — hints (`peek_last`, `size_hint`) of every lazy operator are consistent with what it yields,
  and lazy evaluation of any operator tree equals eager evaluation.
-/
import MocVerif.Lemmas.Expr

namespace Moc

/-! ### output sizes of the loops -/

theorem interLoop_length (l r : List Rng) : (interLoop l r).length ≤ l.length + r.length - 1 := by
  fun_induction interLoop l r <;> simp only [List.length_cons, List.length_nil] at * <;> omega

theorem unionLoop_length (l r : List Rng) : (unionLoop l r).length ≤ l.length + r.length := by
  fun_induction unionLoop l r with
  | case1 r => simp
  | case2 l lt => simp
  | case3 l lt r rt h ih => simp only [List.length_cons] at *; omega
  | case4 l lt r rt h1 h2 ih => simp only [List.length_cons] at *; omega
  | case5 l lt r rt h1 h2 h3 ih =>
    have := consumeWhileEndLe_length_le r.2 lt
    simp only [List.length_cons] at *; omega
  | case6 l lt r rt h1 h2 h3 ih =>
    have := consumeWhileEndLe_length_le l.2 rt
    simp only [List.length_cons] at *; omega

theorem xorLoop_length (l r : List Rng) : (xorLoop l r).length ≤ l.length + r.length := by
  fun_induction xorLoop l r <;> simp only [List.length_cons, List.length_nil] at * <;> omega

theorem minusLoop_length (l r : List Rng) : (minusLoop l r).length ≤ l.length + r.length := by
  fun_induction minusLoop l r with
  | case1 r => simp
  | case2 l lt => simp
  | case3 l lt r rt h ih => simp only [List.length_cons] at *; omega
  | case4 l lt r rt h1 h2 ih =>
    have := consumeWhileEndLe_length_le l.1 rt
    simp only [List.length_cons] at *; omega
  | case5 l lt r rt h1 h2 h3 h4 ih => simp only [List.length_cons] at *; omega
  | case6 l lt r rt h1 h2 h3 h4 ih =>
    have := consumeWhileEndLe_length_le r.2 lt
    simp only [List.length_cons] at *; omega
  | case7 l lt r rt h1 h2 h3 h4 ih => simp only [List.length_cons] at *; omega
  | case8 l lt r rt h1 h2 h3 h4 ih => simp only [List.length_cons] at *; omega

theorem complFrom_length (last ub : Nat) (t : List Rng) : (complFrom last ub t).length ≤ t.length + 1 := by
  induction t generalizing last with
  | nil => simp only [complFrom]; split <;> simp
  | cons r t ih => simp only [complFrom, List.length_cons]; have := ih r.2; omega

/-! ### hints after `next()` -/

theorem Src.afterNext_items (s : Src) : s.afterNext.items = s.items.tail := by
  unfold Src.afterNext; split <;> rfl

theorem Src.afterNext_last (s : Src) : s.afterNext.last = s.last := by
  unfold Src.afterNext; split <;> rfl

theorem Src.afterNext_ok (s : Src) (h : s.HintOkAll) : s.afterNext.HintOkAll := by
  obtain ⟨⟨h1, h2, h3⟩, hl⟩ := h
  unfold Src.afterNext
  split
  · rename_i he
    refine ⟨⟨?_, Nat.zero_le _, fun n hn => by simp at hn⟩, ?_⟩
    · intro r hr; exact ⟨(h1 r hr).1, fun c hc => (h1 r hr).2 c (List.mem_of_mem_tail hc)⟩
    · simp [he, laterOk]
  · rename_i hd tl he
    rw [he] at hl
    obtain ⟨l1, l2, l3⟩ := hl
    refine ⟨⟨?_, l1, l2⟩, l3⟩
    intro r hr; exact ⟨(h1 r hr).1, fun c hc => (h1 r hr).2 c (List.mem_of_mem_tail hc)⟩

theorem Src.afterNext_bounds (s : Src) (h : s.HintOkAll) :
    s.afterNext.lo ≤ s.items.tail.length ∧ ∀ n, s.afterNext.hi = some n → s.items.tail.length ≤ n := by
  have := (s.afterNext_ok h).1
  rw [← s.afterNext_items]
  exact ⟨this.2.1, this.2.2⟩

theorem Src.afterNexts_ok (k : Nat) (s : Src) (h : s.HintOkAll) :
    (s.afterNexts k).HintOkAll ∧ (s.afterNexts k).items = s.items.drop k := by
  induction k generalizing s with
  | zero => exact ⟨h, by simp [Src.afterNexts]⟩
  | succ k ih =>
    have := ih s.afterNext (s.afterNext_ok h)
    refine ⟨this.1, ?_⟩
    simp only [Src.afterNexts]
    rw [this.2, s.afterNext_items, List.drop_tail]

/-! ### `peek_last` of `or` / `xor` -/

theorem ends_le_of_sem (o a b : List Rng) (M : Nat) (ho : Canon o)
    (ha : ∀ c ∈ a, c.2 ≤ M) (hb : ∀ c ∈ b, c.2 ≤ M)
    (hsem : ∀ x, mem x o → mem x a ∨ mem x b) : ∀ c ∈ o, c.2 ≤ M := by
  intro c hc
  have hne := canon_nonempty ho c hc
  have hm : mem (c.2 - 1) o := (mem_iff_exists _ _).2 ⟨c, hc, by omega, by omega⟩
  rcases hsem _ hm with h | h
  · obtain ⟨r, hr, _, h2⟩ := (mem_iff_exists _ _).1 h
    have := ha r hr; omega
  · obtain ⟨r, hr, _, h2⟩ := (mem_iff_exists _ _).1 h
    have := hb r hr; omega

theorem orLast_ok (l r : Src) (hl : l.HintOk) (hr : r.HintOk) (o : List Rng) (ho : Canon o)
    (hsem : ∀ x, mem x o → mem x l.items ∨ mem x r.items) :
    ∀ q, orLast l r = some q → q.1 < q.2 ∧ ∀ c ∈ o, c.2 ≤ q.2 := by
  intro q hq
  unfold orLast at hq
  cases h1 : l.last with
  | none => simp [h1] at hq
  | some r1 =>
    cases h2 : r.last with
    | none => simp [h1, h2] at hq
    | some r2 =>
      simp only [h1, h2] at hq
      have a1 := hl.1 r1 h1
      have a2 := hr.1 r2 h2
      have key : ∀ M, r1.2 ≤ M → r2.2 ≤ M → ∀ c ∈ o, c.2 ≤ M := fun M m1 m2 =>
        ends_le_of_sem o l.items r.items M ho
          (fun c hc => Nat.le_trans (a1.2 c hc) m1) (fun c hc => Nat.le_trans (a2.2 c hc) m2) hsem
      by_cases c1 : r2.2 < r1.1
      · rw [if_pos c1] at hq
        injection hq with hq; subst hq
        exact ⟨a1.1, key _ (Nat.le_refl _) (by have := a1.1; omega)⟩
      · rw [if_neg c1] at hq
        by_cases c2 : r1.2 < r2.1
        · rw [if_pos c2] at hq
          injection hq with hq; subst hq
          exact ⟨a2.1, key _ (by have := a2.1; omega) (Nat.le_refl _)⟩
        · rw [if_neg c2] at hq
          injection hq with hq; subst hq
          refine ⟨?_, key _ (Nat.le_max_left _ _) (Nat.le_max_right _ _)⟩
          have := a1.1; have := a2.1
          simp only []
          omega

end Moc

namespace Moc

theorem tail_length (l : List Rng) : l.tail.length = l.length - 1 := by cases l <;> simp

/-! ### every operator's hints are consistent -/

theorem andSrc_hintOk (l r : Src) (hl : l.HintOkAll) (hr : r.HintOkAll) (cl : Canon l.items) (cr : Canon r.items) :
    (andSrc l r).HintOkAll := by
  refine ⟨⟨fun q hq => by simp [andSrc] at hq, Nat.zero_le _, ?_⟩, trivial⟩
  intro n hn
  have e : (andSrc l r).items = interLoop l.items r.items := andItems_eq l r hl.1 hr.1 cl cr
  rw [e]
  have len := interLoop_length l.items r.items
  have bl := l.afterNext_bounds hl
  have br := r.afterNext_bounds hr
  simp only [andSrc, andSizeHi] at hn
  cases h1 : l.afterNext.hi with
  | none => simp [h1] at hn
  | some n1 =>
    cases h2 : r.afterNext.hi with
    | none => simp [h1, h2] at hn
    | some n2 =>
      simp [h1, h2] at hn
      have := bl.2 n1 h1; have := br.2 n2 h2
      rw [tail_length] at *
      omega

theorem binSizeHi_bound (l r : Src) (hl : l.HintOkAll) (hr : r.HintOkAll) (n : Nat)
    (hn : binSizeHi l.afterNext r.afterNext = some n) : l.items.length + r.items.length ≤ n := by
  have bl := l.afterNext_bounds hl
  have br := r.afterNext_bounds hr
  unfold binSizeHi at hn
  cases h1 : l.afterNext.hi with
  | none => simp [h1] at hn
  | some n1 =>
    cases h2 : r.afterNext.hi with
    | none => simp [h1, h2] at hn
    | some n2 =>
      simp [h1, h2] at hn
      have := bl.2 n1 h1; have := br.2 n2 h2
      rw [tail_length] at *
      omega

theorem orItems_disjoint (l r : Src) (hd : orDisjoint l r = true) :
    orItems l r = r.items ++ l.items ∧ l.items ≠ [] := by
  unfold orItems
  unfold orDisjoint at hd
  cases h1 : r.last with
  | none => simp [h1] at hd
  | some lastRight =>
    cases h2 : l.items with
    | nil => simp [h1, h2] at hd
    | cons l0 lt =>
      simp only [h1, h2] at hd
      simp at hd
      simp only [if_pos hd]
      exact ⟨trivial, by simp⟩

theorem orSrc_hintOk (l r : Src) (hl : l.HintOkAll) (hr : r.HintOkAll) (cl : Canon l.items) (cr : Canon r.items) :
    (orSrc l r).HintOkAll := by
  have e : (orSrc l r).items = unionLoop l.items r.items := orItems_eq l r hr.1 cl cr
  have sp := unionLoop_spec l.items r.items 0 0 cl cr
  have len := unionLoop_length l.items r.items
  have bl := l.afterNext_bounds hl
  have br := r.afterNext_bounds hr
  rw [tail_length] at bl br
  refine ⟨⟨?_, ?_, ?_⟩, trivial⟩
  · intro q hq
    rw [e]
    exact orLast_ok l r hl.1 hr.1 _ sp.1 (fun x hx => (sp.2 x).1 hx) q hq
  · -- lower bound
    show (orSrc l r).lo ≤ (orSrc l r).items.length
    by_cases hd : orDisjoint l r = true
    · have hitems : (orSrc l r).items = r.items ++ l.items := (orItems_disjoint l r hd).1
      rw [hitems]
      simp only [orSrc, hd, if_true, List.length_append]
      have h1 := bl.1; have h2 := br.1
      have o1 : (if l.items.isEmpty = true then 0 else 1) ≤ l.items.length := by
        cases l.items <;> simp
      have o2 : (if r.items.isEmpty = true then 0 else 1) ≤ r.items.length := by
        cases r.items <;> simp
      have o3 : (if l.items.isEmpty = true then 0 else 1) + (l.items.length - 1) = l.items.length := by
        cases l.items <;> simp <;> omega
      have o4 : (if r.items.isEmpty = true then 0 else 1) + (r.items.length - 1) = r.items.length := by
        cases r.items <;> simp <;> omega
      omega
    · simp only [orSrc, hd]; simp
  · intro n hn
    rw [e]
    by_cases hd : orDisjoint l r = true
    · simp only [orSrc, hd, if_true] at hn
      cases h1 : l.afterNext.hi with
      | none => simp [h1] at hn
      | some n1 =>
        cases h2 : r.afterNext.hi with
        | none => simp [h1, h2] at hn
        | some n2 =>
          simp [h1, h2] at hn
          have := bl.2 n1 h1; have := br.2 n2 h2
          have o3 : (if l.items = [] then 0 else 1) + (l.items.length - 1) = l.items.length := by
            cases l.items <;> simp <;> omega
          have o4 : (if r.items = [] then 0 else 1) + (r.items.length - 1) = r.items.length := by
            cases r.items <;> simp <;> omega
          omega
    · simp only [orSrc, hd] at hn
      have := binSizeHi_bound l r hl hr n (by simpa using hn)
      omega

theorem xorLast_ok (l r : Src) (q : Rng) (h : xorLast l r = some q) :
    orLast l r = some q ∧ ∃ r1 r2, l.last = some r1 ∧ r.last = some r2 ∧ r1.2 ≠ r2.2 := by
  unfold xorLast at h
  split at h
  · rename_i r1 r2 h1 h2
    split at h
    · cases h
    · exact ⟨h, r1, r2, h1, h2, by assumption⟩
  · cases h

theorem xorSrc_hintOk (l r : Src) (hl : l.HintOkAll) (hr : r.HintOkAll) (cl : Canon l.items) (cr : Canon r.items) :
    (xorSrc l r).HintOkAll := by
  have sp := xorLoop_spec l.items r.items 0 cl cr
  have len := xorLoop_length l.items r.items
  refine ⟨⟨?_, Nat.zero_le _, ?_⟩, trivial⟩
  · intro q hq
    refine orLast_ok l r hl.1 hr.1 _ sp.1 (fun x hx => ?_) q (xorLast_ok l r q hq).1
    have := (sp.2 x).1 hx
    by_cases h : mem x l.items
    · exact Or.inl h
    · right; apply Classical.byContradiction; intro h2; exact h (this.2 h2)
  · intro n hn
    have := binSizeHi_bound l r hl hr n hn
    show (xorLoop l.items r.items).length ≤ n
    omega

theorem minusSrc_hintOk (l r : Src) (hl : l.HintOkAll) (hr : r.HintOkAll) (cl : Canon l.items) (cr : Canon r.items) :
    (minusSrc l r).HintOkAll := by
  have e : (minusSrc l r).items = minusLoop l.items r.items := minusItems_eq l r hl.1 hr.1 cl cr
  have len := minusLoop_length l.items r.items
  refine ⟨⟨fun q hq => by simp [minusSrc] at hq, Nat.zero_le _, ?_⟩, trivial⟩
  intro n hn
  have := binSizeHi_bound l r hl hr n hn
  rw [e]; omega

theorem complFrom_length_ge (last ub : Nat) (t : List Rng) : t.length ≤ (complFrom last ub t).length := by
  induction t generalizing last with
  | nil => simp
  | cons r t ih => simp only [complFrom, List.length_cons]; have := ih r.2; omega

/-- Pure list facts behind `NotRangeIter::size_hint`. -/
theorem not_bounds (ub : Nat) (items : List Rng) (cs : Canon items) (hb : BoundedBy ub items) :
    (notCurrSome ub items = true →
      (items.drop (notConsumed ub items)).length + 1 ≤ (complement ub items).length ∧
      (complement ub items).length ≤ (items.drop (notConsumed ub items)).length + 2) ∧
    (notCurrSome ub items = false → complement ub items = []) := by
  cases items with
  | nil => simp [notCurrSome, notConsumed, complement]
  | cons r t =>
    have hr2 : r.2 ≤ ub := hb r (List.mem_cons_self ..)
    by_cases h0 : r.1 = 0
    · by_cases he : r.2 = ub
      · -- full domain: `curr` is None
        have ht : t = [] := by
          cases t with
          | nil => rfl
          | cons r2 t' =>
            have := cs.2.2.1
            have := hb r2 (List.mem_cons_of_mem _ (List.mem_cons_self ..))
            have := cs.2.2.2.1
            omega
        subst ht
        simp [notCurrSome, notConsumed, complement, complFrom, h0, he]
      · cases t with
        | nil =>
          have : r.2 < ub := by omega
          simp [notCurrSome, notConsumed, complement, complFrom, h0, he, this]
        | cons r2 t' =>
          have g := complFrom_length_ge r2.2 ub t'
          have l := complFrom_length r2.2 ub t'
          simp [notCurrSome, notConsumed, complement, complFrom, h0, he]
          omega
    · have g := complFrom_length_ge r.2 ub t
      have l := complFrom_length r.2 ub t
      simp [notCurrSome, notConsumed, complement, complFrom, h0]
      omega

theorem notSrc_hintOk (ub : Nat) (s : Src) (hs : s.HintOkAll) (cs : Canon s.items) (hb : BoundedBy ub s.items) :
    (notSrc ub s).HintOkAll := by
  have hrem := Src.afterNexts_ok (notConsumed ub s.items) s hs
  have hlo := hrem.1.1.2.1
  have hhi := hrem.1.1.2.2
  rw [hrem.2] at hlo hhi
  have nb := not_bounds ub s.items cs hb
  unfold notSrc
  split
  · rename_i hcur
    have nb1 := nb.1 hcur
    refine ⟨⟨fun q hq => by simp at hq, ?_, ?_⟩, trivial⟩
    · show (s.afterNexts (notConsumed ub s.items)).lo + 1 ≤ (complement ub s.items).length
      omega
    · intro n hn
      show (complement ub s.items).length ≤ n
      simp only [Option.map_eq_some_iff] at hn
      obtain ⟨m, hm, rfl⟩ := hn
      have := hhi m hm
      omega
  · rename_i hcur
    have nb2 := nb.2 (by simpa using hcur)
    refine ⟨⟨fun q hq => by simp at hq, Nat.zero_le _, ?_⟩, trivial⟩
    intro n hn
    show (complement ub s.items).length ≤ n
    rw [nb2]; simp

end Moc

namespace Moc

theorem degradeSrc_hintOk (sh nd : Nat) (s : Src) : (degradeSrc sh nd s).HintOkAll := by
  unfold degradeSrc
  split <;> exact ⟨⟨fun q hq => by simp at hq, Nat.zero_le _, fun n hn => by simp at hn⟩, trivial⟩

theorem checkSrc_hintOk (s : Src) (hs : s.HintOkAll) : (checkSrc s).HintOkAll ∧ (checkSrc s).items = s.items := by
  have b := s.afterNext_bounds hs
  rw [tail_length] at b
  unfold checkSrc
  split
  · rename_i he
    refine ⟨⟨⟨hs.1.1, Nat.zero_le _, ?_⟩, trivial⟩, rfl⟩
    intro n hn
    have : s.items = [] := by simpa using he
    simp at hn; subst hn; simp [this]
  · rename_i he
    have hne : 0 < s.items.length := by
      cases hi : s.items with
      | nil => simp [hi] at he
      | cons _ _ => simp
    refine ⟨⟨⟨hs.1.1, ?_, ?_⟩, trivial⟩, rfl⟩
    · show s.afterNext.lo + 1 ≤ s.items.length
      have := b.1; omega
    · intro n hn
      show s.items.length ≤ n
      simp only [Option.map_eq_some_iff] at hn
      obtain ⟨m, hm, rfl⟩ := hn
      have := b.2 m hm; omega

/-- **Lazy = eager, for every operator tree and every consistent hint configuration of the leaves.**
    Invariant carried through the induction: same ranges, same depth, and the node's own hints are
    consistent (so the *next* operator's fast paths are sound too). -/
theorem evalL_eq_evalE (q : Qty) (w : Nat) (h0 : 0 < q.nCellsMax w) (e : Expr)
    (hl : e.LeavesOk q w) (hd : e.DepthsOk q w) :
    (evalL q w e).items = (evalE q w e).2 ∧ (evalL q w e).depth = (evalE q w e).1 ∧
    (evalL q w e).HintOkAll := by
  induction e with
  | leaf s => exact ⟨rfl, rfl, hl.2⟩
  | and a b iha ihb =>
    have ha := iha hl.1 hd.1; have hb := ihb hl.2 hd.2
    have va := (evalE_valid q w h0 a hl.1 hd.1).1.1
    have vb := (evalE_valid q w h0 b hl.2 hd.2).1.1
    rw [← ha.1] at va; rw [← hb.1] at vb
    refine ⟨?_, ?_, andSrc_hintOk _ _ ha.2.2 hb.2.2 va vb⟩
    · show andItems _ _ = intersection _ _
      rw [andItems_eq _ _ ha.2.2.1 hb.2.2.1 va vb, ← ha.1, ← hb.1, intersection_eq_interLoop _ _ va vb]
    · show max _ _ = max _ _
      rw [ha.2.1, hb.2.1]
  | or a b iha ihb =>
    have ha := iha hl.1 hd.1; have hb := ihb hl.2 hd.2
    have va := (evalE_valid q w h0 a hl.1 hd.1).1.1
    have vb := (evalE_valid q w h0 b hl.2 hd.2).1.1
    rw [← ha.1] at va; rw [← hb.1] at vb
    refine ⟨?_, ?_, orSrc_hintOk _ _ ha.2.2 hb.2.2 va vb⟩
    · show orItems _ _ = union _ _
      rw [orItems_eq _ _ hb.2.2.1 va vb, ← ha.1, ← hb.1, union_eq_unionLoop _ _ va vb]
    · show max _ _ = max _ _
      rw [ha.2.1, hb.2.1]
  | xor a b iha ihb =>
    have ha := iha hl.1 hd.1; have hb := ihb hl.2 hd.2
    have va := (evalE_valid q w h0 a hl.1 hd.1).1.1
    have vb := (evalE_valid q w h0 b hl.2 hd.2).1.1
    rw [← ha.1] at va; rw [← hb.1] at vb
    refine ⟨?_, ?_, xorSrc_hintOk _ _ ha.2.2 hb.2.2 va vb⟩
    · show xorLoop _ _ = xorLoop _ _
      rw [ha.1, hb.1]
    · show max _ _ = max _ _
      rw [ha.2.1, hb.2.1]
  | minus a b iha ihb =>
    have ha := iha hl.1 hd.1; have hb := ihb hl.2 hd.2
    have va := (evalE_valid q w h0 a hl.1 hd.1).1.1
    have vb := (evalE_valid q w h0 b hl.2 hd.2).1.1
    have va' := va; have vb' := vb
    rw [← ha.1] at va; rw [← hb.1] at vb
    refine ⟨?_, ?_, minusSrc_hintOk _ _ ha.2.2 hb.2.2 va vb⟩
    · show minusItems _ _ = minusItems (borrowedSrc _ _) (borrowedSrc _ _)
      rw [minusItems_eq _ _ ha.2.2.1 hb.2.2.1 va vb,
        minusItems_eq _ _ (borrowedSrc_hintOk _ _ va') (borrowedSrc_hintOk _ _ vb') va' vb', ha.1, hb.1]
      rfl
    · show max _ _ = max _ _
      rw [ha.2.1, hb.2.1]
  | not a iha =>
    have ha := iha hl hd
    have va := (evalE_valid q w h0 a hl hd).1
    have vc := va.1; have vbd := va.2.1
    rw [← ha.1] at vc vbd
    refine ⟨?_, ?_, notSrc_hintOk _ _ ha.2.2 vc vbd⟩
    · show (notSrc _ _).items = complement _ _
      have : (notSrc (q.nCellsMax w) (evalL q w a)).items = complement (q.nCellsMax w) (evalL q w a).items := by
        unfold notSrc; split <;> rfl
      rw [this, ha.1]
    · show (notSrc _ _).depth = _
      have : (notSrc (q.nCellsMax w) (evalL q w a)).depth = (evalL q w a).depth := by
        unfold notSrc; split <;> rfl
      rw [this, ha.2.1]; rfl
  | degrade nd a iha =>
    have ha := iha hl hd.2
    have va := (evalE_valid q w h0 a hl hd.2).1
    refine ⟨?_, ?_, degradeSrc_hintOk _ _ _⟩
    · show (degradeSrc _ nd _).items = degradedShift _ _
      unfold degradeSrc
      by_cases h : nd < (evalL q w a).depth
      · rw [if_pos h]
        simp only []
        rw [ha.1]
        cases hi : (evalE q w a).2 with
        | nil => simp [degradedShift, mergeOverlapping]
        | cons r t =>
          simp only []
          have vc := va.1; rw [hi] at vc
          exact degradeFrom_head_eq _ r t 0 vc
      · rw [if_neg h]
        simp only []
        rw [ha.1]
        have hge : (evalE q w a).1 ≤ nd := by rw [← ha.2.1]; omega
        rw [degraded_deeper_eq q w _ nd _ va hge]
        cases hi : (evalE q w a).2 with
        | nil => rfl
        | cons r t =>
          simp only []
          have vc := va.1; rw [hi] at vc
          -- with shift 0 nothing is degraded, and on a canonical list nothing is fused
          have e0 := degradeFrom_head_eq 0 r t 0 vc
          have d0 : degradeRange 0 r = r := by
            simp [degradeRange, floorTo, ceilTo]
          rw [d0] at e0
          rw [e0]
          have sp := degradedShift_spec 0 (r :: t) vc
          exact Canon.ext sp.1 vc (fun x => by
            rw [sp.2]
            constructor
            · rintro ⟨y, hy, hxy⟩; simp at hxy; subst hxy; exact hy
            · intro hx; exact ⟨x, hx, rfl⟩)
    · show (degradeSrc _ nd _).depth = min _ nd
      unfold degradeSrc
      by_cases h : nd < (evalL q w a).depth
      · rw [if_pos h]; simp only []; rw [← ha.2.1]; omega
      · rw [if_neg h]; simp only []; rw [← ha.2.1]; omega

end Moc
