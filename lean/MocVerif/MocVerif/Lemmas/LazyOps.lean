/-
  Lemmas on the lazy operators (`xor`, `minus`, `not`, `degrade`, and the hint-driven fast paths of
  `and` / `or` / `minus`).
-/
import MocVerif.Lemmas.Sweep
import MocVerif.Model.LazyOps

namespace Moc

/-- Prove `CanonFrom lo l` (cons or not) from `CanonFrom` hypotheses in context + arithmetic. -/
macro "canon_tac" : tactic =>
  `(tactic| first
      | assumption
      | (apply CanonFrom.mono (by assumption); omega)
      | (refine (canonFrom_cons _ _ _).2 ⟨?_, ?_, ?_⟩ <;> (try simp only []) <;>
           (first | omega | assumption | (apply CanonFrom.mono (by assumption); omega))))

set_option hygiene false in
/-- One case of a two-pointer loop proof: `ih` instantiated at lower bound `lo'`. -/
macro "loop_case" ih:ident lo:term : tactic => `(tactic| (
  have hih := $ih $lo (by canon_tac) (by canon_tac)
  refine ⟨?_, fun x => ?_⟩
  · have hih1 := hih.1; canon_tac
  · have lbl := @CanonFrom.lb _ _ hl3 x
    have lbr := @CanonFrom.lb _ _ hr3 x
    simp [hih.2]
    grind))

theorem xorLoop_spec (l r : List Rng) : ∀ lo, CanonFrom lo l → CanonFrom lo r →
    CanonFrom lo (xorLoop l r) ∧ ∀ x, mem x (xorLoop l r) ↔ (mem x l ↔ ¬ mem x r) := by
  fun_induction xorLoop l r with
  | case1 r => intro lo _ hr; simp; exact hr
  | case2 l lt => intro lo hl _; simp; exact hl
  | case3 l lt r rt h1 ih =>
    intro lo ⟨hl1, hl2, hl3⟩ ⟨hr1, hr2, hr3⟩; loop_case ih lo
  | case4 l lt r rt h1 h2 ih =>
    intro lo ⟨hl1, hl2, hl3⟩ ⟨hr1, hr2, hr3⟩; loop_case ih lo
  | case5 l lt r rt h1 h2 h3 ih =>
    intro lo ⟨hl1, hl2, hl3⟩ ⟨hr1, hr2, hr3⟩; loop_case ih (l.2 + 1)
  | case6 l lt r rt h1 h2 h3 h4 ih =>
    intro lo ⟨hl1, hl2, hl3⟩ ⟨hr1, hr2, hr3⟩; loop_case ih (r.2 + 1)
  | case7 l lt r rt h1 h2 h3 h4 h5 h6 ih =>
    intro lo ⟨hl1, hl2, hl3⟩ ⟨hr1, hr2, hr3⟩; loop_case ih lo
  | case8 l lt r rt h1 h2 h3 h4 h5 h6 h7 ih =>
    intro lo ⟨hl1, hl2, hl3⟩ ⟨hr1, hr2, hr3⟩; loop_case ih (r.1 + 1)
  | case9 l lt r rt h1 h2 h3 h4 h5 h6 h7 ih =>
    intro lo ⟨hl1, hl2, hl3⟩ ⟨hr1, hr2, hr3⟩; loop_case ih (l.1 + 1)
  | case10 l lt r rt h1 h2 h3 h4 h5 h6 h7 ih =>
    intro lo ⟨hl1, hl2, hl3⟩ ⟨hr1, hr2, hr3⟩; loop_case ih lo
  | case11 l lt r rt h1 h2 h3 h4 h5 h6 h7 h8 ih =>
    intro lo ⟨hl1, hl2, hl3⟩ ⟨hr1, hr2, hr3⟩; loop_case ih (r.1 + 1)
  | case12 l lt r rt h1 h2 h3 h4 h5 h6 h7 h8 ih =>
    intro lo ⟨hl1, hl2, hl3⟩ ⟨hr1, hr2, hr3⟩; loop_case ih (l.1 + 1)
  | case13 l lt r rt h1 h2 h3 h4 h5 h6 h7 ih =>
    intro lo ⟨hl1, hl2, hl3⟩ ⟨hr1, hr2, hr3⟩; loop_case ih lo
  | case14 l lt r rt h1 h2 h3 h4 h5 h6 h7 h8 ih =>
    intro lo ⟨hl1, hl2, hl3⟩ ⟨hr1, hr2, hr3⟩; loop_case ih (r.1 + 1)
  | case15 l lt r rt h1 h2 h3 h4 h5 h6 h7 h8 ih =>
    intro lo ⟨hl1, hl2, hl3⟩ ⟨hr1, hr2, hr3⟩; loop_case ih (l.1 + 1)

end Moc

namespace Moc

set_option hygiene false in
macro "loop_case2" ih:ident a:term:max b:term:max : tactic => `(tactic| (
  have hih := $ih $a $b (by canon_tac) (by canon_tac)
  refine ⟨?_, fun x => ?_⟩
  · have hih1 := hih.1; canon_tac
  · have lbl := @CanonFrom.lb _ _ hl3 x
    have lbr := @CanonFrom.lb _ _ hr3 x
    simp [hih.2]
    grind))

theorem minusLoop_spec (l r : List Rng) : ∀ a b, CanonFrom a l → CanonFrom b r →
    CanonFrom a (minusLoop l r) ∧ ∀ x, mem x (minusLoop l r) ↔ (mem x l ∧ ¬ mem x r) := by
  fun_induction minusLoop l r with
  | case1 r => intro a b _ hr; simp
  | case2 l lt => intro a b hl _; simp; exact hl
  | case3 l lt r rt h1 ih =>
    intro a b ⟨hl1, hl2, hl3⟩ ⟨hr1, hr2, hr3⟩; loop_case2 ih (l.2 + 1) b
  | case4 l lt r rt h1 h2 ih =>
    intro a b ⟨hl1, hl2, hl3⟩ ⟨hr1, hr2, hr3⟩
    have hc := consumeWhileEndLe_spec l.1 rt (r.2+1) hr3
    have hih := ih a (r.2+1) (by canon_tac) hc.1
    refine ⟨hih.1, fun x => ?_⟩
    have c1 := hc.2.1 x
    have c2 := hc.2.2 x
    have lbl := @CanonFrom.lb _ _ hl3 x
    have lbr := @CanonFrom.lb _ _ hr3 x
    simp [hih.2]
    grind
  | case5 l lt r rt h1 h2 h3 h4 ih =>
    intro a b ⟨hl1, hl2, hl3⟩ ⟨hr1, hr2, hr3⟩; loop_case2 ih (l.2 + 1) b
  | case6 l lt r rt h1 h2 h3 h4 ih =>
    intro a b ⟨hl1, hl2, hl3⟩ ⟨hr1, hr2, hr3⟩
    have hc := consumeWhileEndLe_spec r.2 lt (l.2+1) hl3
    have hih := ih (l.2+1) b hc.1 (by canon_tac)
    refine ⟨hih.1.mono (by omega), fun x => ?_⟩
    have c1 := hc.2.1 x
    have c2 := hc.2.2 x
    have lbl := @CanonFrom.lb _ _ hl3 x
    have lbr := @CanonFrom.lb _ _ hr3 x
    simp [hih.2]
    grind
  | case7 l lt r rt h1 h2 h3 h4 ih =>
    intro a b ⟨hl1, hl2, hl3⟩ ⟨hr1, hr2, hr3⟩; loop_case2 ih r.2 (r.2 + 1)
  | case8 l lt r rt h1 h2 h3 h4 ih =>
    intro a b ⟨hl1, hl2, hl3⟩ ⟨hr1, hr2, hr3⟩; loop_case2 ih r.2 (r.2 + 1)

end Moc

namespace Moc

/-! ### hint-driven fast paths are no-ops when the hints are consistent -/

theorem consumeWhileEndLe_all (to : Nat) (t : List Rng) (h : ∀ c ∈ t, c.2 ≤ to) :
    consumeWhileEndLe to t = [] := by
  induction t with
  | nil => rfl
  | cons c t ih =>
    have := h c (List.mem_cons_self ..)
    simp only [consumeWhileEndLe]
    split
    · omega
    · exact ih (fun c' hc' => h c' (List.mem_cons_of_mem _ hc'))

theorem minusLoop_nil_right (l : List Rng) : minusLoop l [] = l := by
  cases l <;> simp [minusLoop]

theorem minusLoop_all_left (r0 : Rng) (rt : List Rng) (l : List Rng) (h : ∀ c ∈ l, c.2 ≤ r0.1) :
    minusLoop l (r0 :: rt) = l := by
  induction l with
  | nil => simp [minusLoop]
  | cons s t ih =>
    rw [minusLoop]
    have := h s (List.mem_cons_self ..)
    simp [this]
    exact ih (fun c hc => h c (List.mem_cons_of_mem _ hc))

theorem minusLoop_all_right (l0 : Rng) (hl0 : l0.1 < l0.2) (lt : List Rng) (r : List Rng)
    (h : ∀ c ∈ r, c.1 < c.2 ∧ c.2 ≤ l0.1) : minusLoop (l0 :: lt) r = l0 :: lt := by
  cases r with
  | nil => simp [minusLoop]
  | cons r0 rt =>
    rw [minusLoop]
    have := h r0 (List.mem_cons_self ..)
    have c1 : ¬ l0.2 ≤ r0.1 := by omega
    simp [c1, this.2]
    rw [consumeWhileEndLe_all l0.1 rt (fun c hc => (h c (List.mem_cons_of_mem _ hc)).2)]
    simp [minusLoop]

theorem canon_nonempty {lo : Nat} {l : List Rng} (h : CanonFrom lo l) : ∀ c ∈ l, c.1 < c.2 := by
  induction l generalizing lo with
  | nil => intro c hc; simp at hc
  | cons r t ih =>
    intro c hc
    simp at hc
    rcases hc with rfl | hc
    · exact h.2.1
    · exact ih h.2.2 c hc

theorem endLe_spec (s : Src) (hs : s.HintOk) (x : Nat) (h : endLe s.last x = true) :
    ∀ c ∈ s.items, c.2 ≤ x := by
  intro c hc
  unfold endLe at h
  cases hlast : s.last with
  | none => simp [hlast] at h
  | some up =>
    simp [hlast] at h
    have := (hs.1 up hlast).2 c hc
    omega

/-- `MinusRangeIter` (repaired): whatever consistent `peek_last` hints the operands advertise, the
    stream is the plain loop's. -/
theorem minusItems_eq (l r : Src) (hl : l.HintOk) (hr : r.HintOk) (cl : Canon l.items) (cr : Canon r.items) :
    minusItems l r = minusLoop l.items r.items := by
  unfold minusItems
  split
  · rename_i h; simp [h, minusLoop]
  · rename_i l0 lt h1 h2; rw [h1, h2]; simp [minusLoop]
  · rename_i l0 lt r0 rt h1 h2
    rw [h1, h2]
    have el := endLe_spec l hl r0.1
    have er := endLe_spec r hr l0.1
    rw [h1] at cl el
    rw [h2] at cr er
    by_cases hq : (endLe l.last r0.1 || endLe r.last l0.1) = true
    · rw [if_pos hq]
      simp at hq
      rcases hq with hq | hq
      · exact (minusLoop_all_left r0 rt (l0 :: lt) (el hq)).symm
      · symm
        apply minusLoop_all_right l0 cl.2.1
        intro c hc
        exact ⟨canon_nonempty cr c hc, er hq c hc⟩
    · rw [if_neg hq]

/-- `AndRangeIter`: quick rejections are no-ops under consistent hints. -/
theorem andItems_eq (l r : Src) (hl : l.HintOk) (hr : r.HintOk) (cl : Canon l.items) (cr : Canon r.items) :
    andItems l r = interLoop l.items r.items := by
  unfold andItems
  split
  · rename_i h; simp [h, interLoop]
  · rename_i l0 lt h1 h2; rw [h1, h2]; simp [interLoop]
  · rename_i l0 lt r0 rt h1 h2
    rw [h1, h2]
    have el := endLe_spec l hl r0.1
    have er := endLe_spec r hr l0.1
    rw [h1] at cl el
    rw [h2] at cr er
    by_cases hq : (endLe l.last r0.1 || endLe r.last l0.1) = true
    · rw [if_pos hq]
      simp at hq
      rcases hq with hq | hq
      · symm
        apply interLoop_nil_of_sep_left (l0 :: lt) (r0 :: rt) r0.1 _ (by exact ⟨Nat.le_refl _, cr.2.1, cr.2.2⟩) 0 cl
        intro x hx
        rw [mem_iff_exists] at hx
        obtain ⟨c, hc, hx1, hx2⟩ := hx
        have := el hq c hc
        omega
      · symm
        apply interLoop_nil_of_sep_right (l0 :: lt) (r0 :: rt) l0.1 _ (by exact ⟨Nat.le_refl _, cl.2.1, cl.2.2⟩) 0 cr
        intro x hx
        rw [mem_iff_exists] at hx
        obtain ⟨c, hc, hx1, hx2⟩ := hx
        have := er hq c hc
        omega
    · rw [if_neg hq]

/-- `OrRangeIter`: the `DisjointRightFirst` concatenation equals the regular merge loop. -/
theorem orItems_eq (l r : Src) (hr : r.HintOk) (cl : Canon l.items) (cr : Canon r.items) :
    orItems l r = unionLoop l.items r.items := by
  unfold orItems
  split
  · rename_i lastRight l0 lt h1 h2
    split
    · rename_i hq
      rw [h2] at cl ⊢
      symm
      apply unionLoop_all_right l0 cl.2.1
      intro c hc
      have := (hr.1 lastRight h1).2 c hc
      exact ⟨canon_nonempty cr c hc, by omega⟩
    · rfl
  · rfl

end Moc
