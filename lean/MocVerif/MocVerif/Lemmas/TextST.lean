/-
  Character-level lemmas for the ST ASCII document (C11): splitting the writer's characters on the
  prefixes `t` and `s` gives back the per-element parts, because number / separator characters never
  contain these two letters.
-/
import MocVerif.Lemmas.Text
import MocVerif.Model.STText

namespace Moc.STText
open Moc Moc.Codec

/-- Neither of the two prefix letters. -/
abbrev Plain (c : Char) : Prop := c ≠ 't' ∧ c ≠ 's'

theorem digitOf_plain : ∀ k, k < 10 → Plain (digitOf k) := by
  intro k hk
  match k, hk with
  | 0, _ => decide | 1, _ => decide | 2, _ => decide | 3, _ => decide | 4, _ => decide
  | 5, _ => decide | 6, _ => decide | 7, _ => decide | 8, _ => decide | 9, _ => decide

theorem showNat_plain (n : Nat) : ∀ c ∈ showNat n, Plain c := by
  intro c hc
  obtain ⟨k, hk, rfl⟩ := showNat_digits n c hc
  exact digitOf_plain k hk

theorem showTokC_plain (t : Tok) : ∀ c ∈ showTokC t, Plain c := by
  intro c hc
  cases t with
  | depth d =>
    simp only [showTokC, List.mem_append, List.mem_singleton] at hc
    rcases hc with h | rfl
    · exact showNat_plain d c h
    · decide
  | cell i =>
    simp only [showTokC, List.mem_append, List.mem_singleton] at hc
    rcases hc with h | rfl
    · exact showNat_plain i c h
    · decide
  | range s e =>
    simp only [showTokC, List.mem_append, List.mem_cons, List.not_mem_nil, or_false] at hc
    rcases hc with h | rfl | h | rfl
    · exact showNat_plain s c h
    · decide
    · exact showNat_plain (e - 1) c h
    · decide

theorem encodeChars_plain (dmax : Nat) (items : List Item) : ∀ c ∈ encodeChars dmax items, Plain c := by
  have hb : ∀ c ∈ ((encodeToks dmax items).map showTokC).flatten, Plain c := by
    intro c hc
    obtain ⟨l, hl, hcl⟩ := List.mem_flatten.1 hc
    obtain ⟨t, _, rfl⟩ := List.mem_map.1 hl
    exact showTokC_plain t c hcl
  intro c hc
  unfold encodeChars at hc
  simp only [] at hc
  split at hc
  · simp only [List.mem_append, List.mem_singleton] at hc
    rcases hc with h | rfl
    · exact hb c h
    · decide
  · exact hb c hc

/-! ### Splitting -/

theorem splitOnChar_ne_nil (sep : Char) (l : List Char) : splitOnChar sep l ≠ [] := by
  cases l with
  | nil => simp [splitOnChar]
  | cons c t =>
    unfold splitOnChar
    split
    · simp
    · split <;> simp

theorem splitOnChar_sep (sep : Char) (b : List Char) :
    splitOnChar sep (sep :: b) = [] :: splitOnChar sep b := by
  rw [splitOnChar]
  cases h : splitOnChar sep b with
  | nil => exact absurd h (splitOnChar_ne_nil sep b)
  | cons x r => simp

theorem splitOnChar_none (sep : Char) (a : List Char) (ha : ∀ c ∈ a, c ≠ sep) :
    splitOnChar sep a = [a] := by
  induction a with
  | nil => simp [splitOnChar]
  | cons c t ih =>
    rw [splitOnChar, ih (fun x hx => ha x (by simp [hx]))]
    have : c ≠ sep := ha c (by simp)
    simp [this]

theorem splitOnChar_append (sep : Char) (a b : List Char) (ha : ∀ c ∈ a, c ≠ sep) :
    splitOnChar sep (a ++ sep :: b) = a :: splitOnChar sep b := by
  induction a with
  | nil => exact splitOnChar_sep sep b
  | cons c t ih =>
    rw [List.cons_append, splitOnChar, ih (fun x hx => ha x (by simp [hx]))]
    have : c ≠ sep := ha c (by simp)
    simp [this]

/-- Pieces, each introduced by the separator. -/
def joinSep (sep : Char) (ps : List (List Char)) : List Char := (ps.map (sep :: ·)).flatten

theorem splitOnChar_pieces (sep : Char) : ∀ (ps : List (List Char)) (p : List Char),
    (∀ c ∈ p, c ≠ sep) → (∀ q ∈ ps, ∀ c ∈ q, c ≠ sep) →
    splitOnChar sep (p ++ joinSep sep ps) = p :: ps := by
  intro ps
  induction ps with
  | nil => intro p hp _; simp [joinSep, splitOnChar_none sep p hp]
  | cons q ps ih =>
    intro p hp hps
    have : joinSep sep (q :: ps) = sep :: (q ++ joinSep sep ps) := by simp [joinSep]
    rw [this, splitOnChar_append sep p _ hp,
      ih q (hps q (by simp)) (fun x hx => hps x (by simp [hx]))]

theorem splitOnce_append (sep : Char) (a b : List Char) (ha : ∀ c ∈ a, c ≠ sep) :
    splitOnce sep (a ++ sep :: b) = some (a, b) := by
  induction a with
  | nil => simp [splitOnce]
  | cons c t ih =>
    have : c ≠ sep := ha c (by simp)
    simp [splitOnce, this, ih (fun x hx => ha x (by simp [hx]))]

theorem dropSpaces_head (c : Char) (l : List Char) (h : isSpace c = false) :
    dropSpaces (c :: l) = c :: l := dropSpaces_nonspace c l h

/-- `trim` removes exactly the final newline of a text that starts with `t` and ends with `/\n`. -/
theorem trimSpaces_doc (body : List Char) :
    trimSpaces ('t' :: (body ++ ['/', '\n'])) = 't' :: (body ++ ['/']) := by
  unfold trimSpaces
  have r : ('t' :: (body ++ ['/', '\n'])).reverse = '\n' :: '/' :: (body.reverse ++ ['t']) := by simp
  rw [r]
  have d1 : dropSpaces ('\n' :: '/' :: (body.reverse ++ ['t'])) = '/' :: (body.reverse ++ ['t']) := by
    rw [dropSpaces]
    simp only [show isSpace '\n' = true by decide, ↓reduceIte]
    exact dropSpaces_nonspace '/' _ (by decide)
  rw [d1]
  have r2 : ('/' :: (body.reverse ++ ['t'])).reverse = 't' :: (body ++ ['/']) := by simp
  simp only [r2]
  exact dropSpaces_nonspace 't' _ (by decide)

end Moc.STText

namespace Moc.STText
open Moc Moc.Codec

theorem joinSep_append_single (sep : Char) (ps : List (List Char)) (q : List Char) :
    joinSep sep (ps ++ [q]) = joinSep sep ps ++ sep :: q := by
  simp [joinSep]

theorem joinSep_cons (sep : Char) (p : List Char) (ps : List (List Char)) :
    joinSep sep (p :: ps) = sep :: (p ++ joinSep sep ps) := by
  simp [joinSep]

/-- A document made of `t`-introduced pieces, the last one ending with `/`, then a newline: trimming
    removes the newline only. -/
theorem trimSpaces_pieces (ps : List (List Char)) (Z : List Char) :
    trimSpaces (joinSep 't' (ps ++ [Z ++ ['/']]) ++ ['\n']) = joinSep 't' (ps ++ [Z ++ ['/']]) := by
  rw [joinSep_append_single]
  cases ps with
  | nil =>
    have := trimSpaces_doc Z
    simpa [joinSep] using this
  | cons p ps =>
    rw [joinSep_cons]
    have := trimSpaces_doc (p ++ joinSep 't' ps ++ 't' :: Z)
    simpa using this

/-- The reader's lexer on a bare depth `d/` followed by white space. -/
theorem decodeAscii_depthOnly (q : Qty) (w d : Nat) (hd : d < 2 ^ w) (tail : List Char) (ht : AllSpace tail) :
    decodeAscii q w (showNat d ++ '/' :: tail) = decodeToks q w [Tok.depth d] := by
  have := lexAll_showToks w [Tok.depth d] (by simp) (fun t h => by
      simp only [List.mem_singleton] at h; subst h; exact hd)
    ((showNat d ++ '/' :: tail).length + 1) (by simp) [] tail (fun _ h => by cases h) ht
  have e : showToks [Tok.depth d] ++ tail = showNat d ++ '/' :: tail := by simp [showToks, showTokC]
  rw [List.nil_append, e] at this
  unfold decodeAscii
  rw [this]

end Moc.STText
