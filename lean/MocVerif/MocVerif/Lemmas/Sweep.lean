/-
  The generic edge sweep `BorrowedRanges::merge(op)` computes `op` pointwise.
-/
import MocVerif.Lemmas.SetOps

namespace Moc

/-- Strictly increasing list of bounds, all `≥ lo`. -/
def StrictFrom (lo : Nat) : List Nat → Prop
  | [] => True
  | b :: t => lo ≤ b ∧ StrictFrom (b + 1) t

/-- Parity semantics of a flat list of bounds: state `ins` toggles at every bound `≤ x`. -/
def memF (x : Nat) : Bool → List Nat → Bool
  | ins, [] => ins
  | ins, b :: t => if x < b then ins else memF x (!ins) t

/-- State after all bounds. -/
def fin : Bool → List Nat → Bool
  | ins, [] => ins
  | ins, _ :: t => fin (!ins) t

theorem StrictFrom.mono {lo lo' : Nat} {l : List Nat} (h : StrictFrom lo l) (hle : lo' ≤ lo) :
    StrictFrom lo' l := by
  cases l with
  | nil => trivial
  | cons b t => exact ⟨Nat.le_trans hle h.1, h.2⟩

theorem memF_below {lo : Nat} {l : List Nat} (h : StrictFrom lo l) {x : Nat} (hx : x < lo) (ins : Bool) :
    memF x ins l = ins := by
  cases l with
  | nil => rfl
  | cons b t => have := h.1; simp [memF]; omega

theorem flatten_spec (l : List Rng) : ∀ lo, CanonFrom lo l →
    StrictFrom lo (flatten l) ∧ fin false (flatten l) = false ∧
    ∀ x, (memF x false (flatten l) = true ↔ mem x l) := by
  induction l with
  | nil => intro lo _; simp [flatten, StrictFrom, memF, fin]
  | cons r t ih =>
    intro lo h
    obtain ⟨h1, h2, h3⟩ := h
    have := ih (r.2 + 1) h3
    refine ⟨⟨h1, by omega, this.1⟩, by simpa [flatten, fin] using this.2.1, fun x => ?_⟩
    simp only [flatten, memF, mem_cons]
    have lb := @CanonFrom.lb _ _ h3 x
    rw [← this.2.2]
    have hb := @memF_below _ _ this.1 x
    grind

theorem unflatten_spec : ∀ (o : List Nat) (lo : Nat), StrictFrom lo o → fin false o = false →
    CanonFrom lo (unflatten o) ∧ ∀ x, (mem x (unflatten o) ↔ memF x false o = true)
  | [], lo, _, _ => by simp [unflatten, memF]
  | [a], lo, _, hf => by simp [fin] at hf
  | a :: b :: t, lo, hs, hf => by
    obtain ⟨h1, h2, h3⟩ := hs
    have := unflatten_spec t (b + 1) h3 (by simpa [fin] using hf)
    refine ⟨⟨h1, by simp; omega, this.1⟩, fun x => ?_⟩
    simp only [unflatten, mem_cons, memF]
    rw [this.2]
    have hb := @memF_below _ _ h3 x
    grind

end Moc

namespace Moc

theorem bne_true_imp {a b : Bool} (h : (a != b) = true) : (!a) = b := by
  cases a <;> cases b <;> simp_all
theorem bne_not_true_imp {a b : Bool} (h : ¬ (a != b) = true) : a = b := by
  cases a <;> cases b <;> simp_all

theorem mergeSweep_spec (op : Bool → Bool → Bool) (li : List Nat) (iOdd : Bool) (rj : List Nat)
    (jOdd : Bool) (open_ : Bool) :
    ∀ lo, StrictFrom lo li → StrictFrom lo rj → fin iOdd li = false → fin jOdd rj = false →
    open_ = op iOdd jOdd →
    StrictFrom lo (mergeSweep op li iOdd rj jOdd open_) ∧
    fin open_ (mergeSweep op li iOdd rj jOdd open_) = op false false ∧
    ∀ x, memF x open_ (mergeSweep op li iOdd rj jOdd open_) = op (memF x iOdd li) (memF x jOdd rj) := by
  fun_induction mergeSweep op li iOdd rj jOdd open_ with
  | case1 iOdd jOdd open_ => intro lo _ _ h1 h2 h; simp [fin] at h1 h2; simp [StrictFrom, fin, memF, h, h1, h2]
  | case2 iOdd rv rj jOdd open_ inR hadd ih =>
    intro lo hl hr hfl hfr ho
    obtain ⟨h1, h2⟩ := hr
    simp [fin] at hfl hfr
    have := ih (rv + 1) trivial h2 (by simp [fin, hfl]) hfr (by subst hfl; exact bne_true_imp hadd)
    refine ⟨⟨h1, this.1⟩, by simpa [fin] using this.2.1, fun x => ?_⟩
    have hb := @memF_below _ _ this.1 x
    have hb2 := @memF_below _ _ h2 x
    simp only [memF]; rw [this.2.2]; simp only [memF]; grind
  | case3 iOdd rv rj jOdd open_ inR hadd ih =>
    intro lo hl hr hfl hfr ho
    obtain ⟨h1, h2⟩ := hr
    simp [fin] at hfl hfr
    have := ih (rv + 1) trivial h2 (by simp [fin, hfl]) hfr (by subst hfl; exact bne_not_true_imp hadd)
    refine ⟨this.1.mono (by omega), by simpa [fin] using this.2.1, fun x => ?_⟩
    have hb := @memF_below _ _ this.1 x
    have hb2 := @memF_below _ _ h2 x
    rw [this.2.2]; simp only [memF]; grind
  | case4 lv li iOdd jOdd open_ inL hadd ih =>
    intro lo hl hr hfl hfr ho
    obtain ⟨h1, h2⟩ := hl
    simp [fin] at hfl hfr
    have := ih (lv + 1) h2 trivial hfl (by simp [fin, hfr]) (by subst hfr; exact bne_true_imp hadd)
    refine ⟨⟨h1, this.1⟩, by simpa [fin] using this.2.1, fun x => ?_⟩
    have hb := @memF_below _ _ this.1 x
    have hb2 := @memF_below _ _ h2 x
    simp only [memF]; rw [this.2.2]; simp only [memF]; grind
  | case5 lv li iOdd jOdd open_ inL hadd ih =>
    intro lo hl hr hfl hfr ho
    obtain ⟨h1, h2⟩ := hl
    simp [fin] at hfl hfr
    have := ih (lv + 1) h2 trivial hfl (by simp [fin, hfr]) (by subst hfr; exact bne_not_true_imp hadd)
    refine ⟨this.1.mono (by omega), by simpa [fin] using this.2.1, fun x => ?_⟩
    have hb := @memF_below _ _ this.1 x
    have hb2 := @memF_below _ _ h2 x
    rw [this.2.2]; simp only [memF]; grind
  | case6 lv li iOdd rv rj jOdd open_ c inL inR add hc hadd ih =>
    intro lo hl hr hfl hfr ho
    obtain ⟨h1, h2⟩ := hl
    obtain ⟨h3, h4⟩ := hr
    simp [fin] at hfl hfr
    simp at hc
    have hlr : lv = rv := by omega
    have hcl : c = lv := by omega
    have eL : inL = !iOdd := by cases iOdd <;> simp [inL, hcl]
    have eR : inR = !jOdd := by cases jOdd <;> simp [inR, hcl, hlr]
    have := ih (c + 1) (h2.mono (by omega)) (h4.mono (by omega)) hfl hfr (by rw [← eL, ← eR]; exact bne_true_imp hadd)
    refine ⟨⟨by omega, this.1⟩, by simpa [fin] using this.2.1, fun x => ?_⟩
    have hb := @memF_below _ _ this.1 x
    have hb2 := @memF_below _ _ h2 x
    have hb3 := @memF_below _ _ h4 x
    simp only [memF]; rw [this.2.2]; grind
  | case7 lv li iOdd rv rj jOdd open_ c inL inR add hc hadd ih =>
    intro lo hl hr hfl hfr ho
    obtain ⟨h1, h2⟩ := hl
    obtain ⟨h3, h4⟩ := hr
    simp [fin] at hfl hfr
    simp at hc
    have hlr : lv = rv := by omega
    have hcl : c = lv := by omega
    have eL : inL = !iOdd := by cases iOdd <;> simp [inL, hcl]
    have eR : inR = !jOdd := by cases jOdd <;> simp [inR, hcl, hlr]
    have := ih (c + 1) (h2.mono (by omega)) (h4.mono (by omega)) hfl hfr (by rw [← eL, ← eR]; exact bne_not_true_imp hadd)
    refine ⟨this.1.mono (by omega), by simpa [fin] using this.2.1, fun x => ?_⟩
    have hb := @memF_below _ _ this.1 x
    have hb2 := @memF_below _ _ h2 x
    have hb3 := @memF_below _ _ h4 x
    rw [this.2.2]; simp only [memF]; grind
  | case8 lv li iOdd rv rj jOdd open_ c inL inR add hc1 hc2 hadd ih =>
    intro lo hl hr hfl hfr ho
    obtain ⟨h1, h2⟩ := hl
    obtain ⟨h3, h4⟩ := hr
    simp [fin] at hfl hfr
    simp at hc1 hc2
    have hcl : c = lv := by omega
    have hlt : lv < rv := by omega
    have eL : inL = !iOdd := by cases iOdd <;> simp [inL, hcl]
    have eR : inR = jOdd := by cases jOdd <;> simp [inR, hcl] <;> omega
    have := ih (c + 1) (h2.mono (by omega)) ⟨by omega, h4⟩ hfl (by simpa [fin] using hfr) (by rw [← eL, ← eR]; exact bne_true_imp hadd)
    refine ⟨⟨by omega, this.1⟩, by simpa [fin] using this.2.1, fun x => ?_⟩
    have hb := @memF_below _ _ this.1 x
    have hb2 := @memF_below _ _ h2 x
    simp only [memF]; rw [this.2.2]; simp only [memF]; grind
  | case9 lv li iOdd rv rj jOdd open_ c inL inR add hc1 hc2 hadd ih =>
    intro lo hl hr hfl hfr ho
    obtain ⟨h1, h2⟩ := hl
    obtain ⟨h3, h4⟩ := hr
    simp [fin] at hfl hfr
    simp at hc1 hc2
    have hcl : c = lv := by omega
    have hlt : lv < rv := by omega
    have eL : inL = !iOdd := by cases iOdd <;> simp [inL, hcl]
    have eR : inR = jOdd := by cases jOdd <;> simp [inR, hcl] <;> omega
    have := ih (c + 1) (h2.mono (by omega)) ⟨by omega, h4⟩ hfl (by simpa [fin] using hfr) (by rw [← eL, ← eR]; exact bne_not_true_imp hadd)
    refine ⟨this.1.mono (by omega), by simpa [fin] using this.2.1, fun x => ?_⟩
    have hb := @memF_below _ _ this.1 x
    have hb2 := @memF_below _ _ h2 x
    rw [this.2.2]; simp only [memF]; grind
  | case10 lv li iOdd rv rj jOdd open_ c inL inR add hc1 hc2 hadd ih =>
    intro lo hl hr hfl hfr ho
    obtain ⟨h1, h2⟩ := hl
    obtain ⟨h3, h4⟩ := hr
    simp [fin] at hfl hfr
    simp at hc1 hc2
    have hcl : c = rv := by omega
    have hlt : rv < lv := by omega
    have eL : inL = iOdd := by cases iOdd <;> simp [inL, hcl] <;> omega
    have eR : inR = !jOdd := by cases jOdd <;> simp [inR, hcl]
    have := ih (c + 1) ⟨by omega, h2⟩ (h4.mono (by omega)) (by simpa [fin] using hfl) hfr (by rw [← eL, ← eR]; exact bne_true_imp hadd)
    refine ⟨⟨by omega, this.1⟩, by simpa [fin] using this.2.1, fun x => ?_⟩
    have hb := @memF_below _ _ this.1 x
    have hb2 := @memF_below _ _ h4 x
    simp only [memF]; rw [this.2.2]; simp only [memF]; grind
  | case11 lv li iOdd rv rj jOdd open_ c inL inR add hc1 hc2 hadd ih =>
    intro lo hl hr hfl hfr ho
    obtain ⟨h1, h2⟩ := hl
    obtain ⟨h3, h4⟩ := hr
    simp [fin] at hfl hfr
    simp at hc1 hc2
    have hcl : c = rv := by omega
    have hlt : rv < lv := by omega
    have eL : inL = iOdd := by cases iOdd <;> simp [inL, hcl] <;> omega
    have eR : inR = !jOdd := by cases jOdd <;> simp [inR, hcl]
    have := ih (c + 1) ⟨by omega, h2⟩ (h4.mono (by omega)) (by simpa [fin] using hfl) hfr (by rw [← eL, ← eR]; exact bne_not_true_imp hadd)
    refine ⟨this.1.mono (by omega), by simpa [fin] using this.2.1, fun x => ?_⟩
    have hb := @memF_below _ _ this.1 x
    have hb2 := @memF_below _ _ h4 x
    rw [this.2.2]; simp only [memF]; grind

end Moc

namespace Moc

/-- `BorrowedRanges::merge(op)` returns the canonical range set of `{x | op (x ∈ l) (x ∈ r)}`
    for every Boolean function with `op false false = false`. -/
theorem merge_spec (op : Bool → Bool → Bool) (hop : op false false = false) (l r : List Rng)
    (hl : Canon l) (hr : Canon r) :
    Canon (merge op l r) ∧
    ∀ x, mem x (merge op l r) ↔ op (decide (mem x l)) (decide (mem x r)) = true := by
  have fl := flatten_spec l 0 hl
  have fr := flatten_spec r 0 hr
  have sw := mergeSweep_spec op (flatten l) false (flatten r) false false 0 fl.1 fr.1 fl.2.1 fr.2.1 hop.symm
  have un := unflatten_spec _ 0 sw.1 (by rw [sw.2.1, hop])
  refine ⟨un.1, fun x => ?_⟩
  rw [merge, un.2, sw.2.2]
  have h1 := fl.2.2 x
  have h2 := fr.2.2 x
  have e1 : memF x false (flatten l) = decide (mem x l) := by
    by_cases h : mem x l <;> simp [h, h1]
    exact Bool.eq_false_iff.2 (fun hh => h (h1.1 hh))
  have e2 : memF x false (flatten r) = decide (mem x r) := by
    by_cases h : mem x r <;> simp [h, h2]
    exact Bool.eq_false_iff.2 (fun hh => h (h2.1 hh))
  rw [e1, e2]

theorem difference_spec (l r : List Rng) (hl : Canon l) (hr : Canon r) :
    Canon (difference l r) ∧ ∀ x, mem x (difference l r) ↔ mem x l ∧ ¬ mem x r := by
  have := merge_spec (fun a b => a && !b) rfl l r hl hr
  exact ⟨this.1, fun x => by rw [difference, this.2]; simp⟩

end Moc
