/-
  Every modelled operator preserves `Valid q w d` (canonical + inside the domain + aligned on the
  cells of the declared depth).
-/
import MocVerif.Lemmas.Degrade

namespace Moc

theorem aligned_of_dvd {c c' : Nat} (h : c' ∣ c) {l : List Rng} (ha : Aligned c l) : Aligned c' l :=
  fun r hr => ⟨Nat.dvd_trans h (ha r hr).1, Nat.dvd_trans h (ha r hr).2⟩

namespace Qty

theorem cellSize_eq (q : Qty) (w d : Nat) : q.cellSize w d = 2 ^ (q.dim * (q.maxDepth w - d)) := by
  simp [cellSize, shiftFromMax, Nat.shiftLeft_eq]

theorem cellSize_pos (q : Qty) (w d : Nat) : 0 < q.cellSize w d := by
  rw [cellSize_eq]; exact Nat.pos_of_ne_zero (by simp)

theorem nCellsMax_eq (q : Qty) (w : Nat) : q.nCellsMax w = q.nd0 * 2 ^ (q.dim * q.maxDepth w) := by
  simp [nCellsMax, Nat.shiftLeft_eq]

/-- A deeper depth has a cell size dividing the shallower one's. -/
theorem cellSize_dvd (q : Qty) (w : Nat) {d d' : Nat} (h : d ≤ d') : q.cellSize w d' ∣ q.cellSize w d := by
  rw [cellSize_eq, cellSize_eq]
  exact Nat.pow_dvd_pow 2 (Nat.mul_le_mul_left _ (by omega))

theorem cellSize_dvd_nCellsMax (q : Qty) (w d : Nat) : q.cellSize w d ∣ q.nCellsMax w := by
  rw [cellSize_eq, nCellsMax_eq]
  exact Nat.dvd_trans (Nat.pow_dvd_pow 2 (Nat.mul_le_mul_left _ (by omega))) (Nat.dvd_mul_left _ _)

end Qty

theorem validB_iff (q : Qty) (w d : Nat) (rs : List Rng) : validB q w d rs = true ↔ Valid q w d rs := by
  unfold validB Valid
  rw [Bool.and_eq_true, Bool.and_eq_true, canonB_iff]
  have h1 : boundedByB (q.nCellsMax w) rs = true ↔ BoundedBy (q.nCellsMax w) rs := by
    simp [boundedByB, BoundedBy, List.all_eq_true]
  have h2 : alignedB (q.cellSize w d) rs = true ↔ Aligned (q.cellSize w d) rs := by
    simp [alignedB, Aligned, List.all_eq_true, Nat.dvd_iff_mod_eq_zero]
  rw [h1, h2, and_assoc]

/-- A MOC valid at depth `d` is valid at any deeper declared depth. -/
theorem Valid.deeper {q : Qty} {w d d' : Nat} {l : List Rng} (h : Valid q w d l) (hd : d ≤ d') :
    Valid q w d' l :=
  ⟨h.1, h.2.1, aligned_of_dvd (q.cellSize_dvd w hd) h.2.2⟩

/-- Binary operators: the output (any canonical list with the right set) is valid at `max dl dr`. -/
theorem valid_binary (q : Qty) (w dl dr : Nat) (a b o : List Rng) (f : Prop → Prop → Prop)
    (hf : ¬ f False False) (ha : Valid q w dl a) (hb : Valid q w dr b) (ho : Canon o)
    (hsem : ∀ x, mem x o ↔ f (mem x a) (mem x b)) : Valid q w (max dl dr) o := by
  have ha' := ha.deeper (Nat.le_max_left dl dr)
  have hb' := hb.deeper (Nat.le_max_right dl dr)
  have := valid_of_sem _ _ (q.cellSize_pos w (max dl dr)) a b o f hf ha.1 hb.1 ho ha'.2.1 hb'.2.1
    ha'.2.2 hb'.2.2 hsem
  exact ⟨ho, this.1, this.2⟩

theorem valid_full (q : Qty) (w d : Nat) (h0 : 0 < q.nCellsMax w) : Valid q w d [(0, q.nCellsMax w)] := by
  refine ⟨⟨Nat.le_refl _, h0, trivial⟩, ?_, ?_⟩
  · intro r hr; simp at hr; subst hr; exact Nat.le_refl _
  · intro r hr; simp at hr; subst hr; exact ⟨Nat.dvd_zero _, q.cellSize_dvd_nCellsMax w d⟩

theorem valid_empty (q : Qty) (w d : Nat) : Valid q w d [] :=
  ⟨trivial, fun r hr => by simp at hr, fun r hr => by simp at hr⟩

/-- `complement` / `not` preserve validity (same depth). -/
theorem valid_complement (q : Qty) (w d : Nat) (a : List Rng) (h0 : 0 < q.nCellsMax w)
    (ha : Valid q w d a) : Valid q w d (complement (q.nCellsMax w) a) := by
  have sp := complement_spec (q.nCellsMax w) a h0 ha.1 ha.2.1
  have hfull := valid_full q w d h0
  have hsem : ∀ x, mem x (complement (q.nCellsMax w) a) ↔
      (fun p1 p2 => p1 ∧ ¬ p2) (mem x [(0, q.nCellsMax w)]) (mem x a) := by
    intro x; rw [sp.2]; simp
  have := valid_of_sem _ _ (q.cellSize_pos w d) [(0, q.nCellsMax w)] a _ (fun p1 p2 => p1 ∧ ¬ p2)
    (by simp) hfull.1 ha.1 sp.1 hfull.2.1 ha.2.1 hfull.2.2 ha.2.2 hsem
  exact ⟨sp.1, this.1, this.2⟩

/-- Degrading to a shallower depth `nd` gives a MOC valid at `nd`. -/
theorem valid_degraded (q : Qty) (w d nd : Nat) (a : List Rng) (ha : Valid q w d a) :
    Valid q w nd (degradedShift (q.shiftFromMax w nd) a) := by
  have sp := degradedShift_spec (q.shiftFromMax w nd) a ha.1
  have hc : q.cellSize w nd = 2 ^ q.shiftFromMax w nd := by simp [Qty.cellSize, Nat.shiftLeft_eq]
  have hpos := q.cellSize_pos w nd
  refine ⟨sp.1, ?_, ?_⟩
  · rw [boundedBy_iff _ _ 0 sp.1]
    intro x hx
    obtain ⟨y, hy, hxy⟩ := (sp.2 x).1 hx
    have hyb := (boundedBy_iff _ _ 0 ha.1).1 ha.2.1 y hy
    obtain ⟨k, hk⟩ := q.cellSize_dvd_nCellsMax w nd
    rw [← hc] at hxy
    rw [hk] at hyb ⊢
    have : y / q.cellSize w nd < k := (Nat.div_lt_iff_lt_mul hpos).2 (by rw [Nat.mul_comm]; exact hyb)
    rw [← hxy] at this
    have := (Nat.div_lt_iff_lt_mul hpos).1 this
    rw [Nat.mul_comm]; exact this
  · rw [aligned_iff_cellClosed _ hpos _ sp.1]
    intro x y hxy hx
    rw [sp.2] at hx ⊢
    obtain ⟨z, hz, hxz⟩ := hx
    exact ⟨z, hz, by rw [← hc] at hxz ⊢; omega⟩

/-- Degrading to a depth that is not shallower changes nothing. -/
theorem degraded_deeper_eq (q : Qty) (w d nd : Nat) (a : List Rng) (ha : Valid q w d a) (h : d ≤ nd) :
    degradedShift (q.shiftFromMax w nd) a = a := by
  have sp := degradedShift_spec (q.shiftFromMax w nd) a ha.1
  have hc : q.cellSize w nd = 2 ^ q.shiftFromMax w nd := by simp [Qty.cellSize, Nat.shiftLeft_eq]
  apply Canon.ext sp.1 ha.1
  intro x
  rw [sp.2]
  have hcl := cellClosed_of_aligned _ (q.cellSize_pos w nd) a (ha.deeper h).2.2
  constructor
  · rintro ⟨y, hy, hxy⟩
    exact hcl y x (by rw [hc]; exact hxy.symm) hy
  · intro hx; exact ⟨x, hx, rfl⟩

end Moc
