/-
  The cell view of a whole MOC (C05): `cellsOf` tiles every range exactly, and reading the cells
  back (`rangesOfCells`) returns the original canonical ranges.
-/
import MocVerif.Lemmas.Cells
import MocVerif.Lemmas.Canon

namespace Moc

/-- `tzAux` never under-counts below the fuel: a power of two dividing `n ≠ 0` is counted. -/
theorem le_tzAux_of_dvd : ∀ (fuel m n : Nat), 2 ^ m ∣ n → n ≠ 0 → m ≤ fuel → m ≤ tzAux fuel n := by
  intro fuel
  induction fuel with
  | zero => intro m n _ _ h; omega
  | succ f ih =>
    intro m n hd hn hm
    simp only [tzAux]
    split
    · rename_i hodd
      cases m with
      | zero => omega
      | succ m' =>
        obtain ⟨k, hk⟩ := hd
        rw [Nat.pow_succ] at hk
        have : n % 2 = 0 := by rw [hk]; rw [Nat.mul_assoc]; simp [Nat.mul_mod]
        omega
    · rename_i hev
      cases m with
      | zero => omega
      | succ m' =>
        have hd' : 2 ^ m' ∣ n / 2 := by
          obtain ⟨k, hk⟩ := hd
          refine ⟨k, ?_⟩
          rw [hk, Nat.pow_succ, Nat.mul_assoc, Nat.mul_comm 2 k, ← Nat.mul_assoc]
          exact Nat.mul_div_cancel _ (by decide)
        have hn' : n / 2 ≠ 0 := by omega
        have := ih m' (n / 2) hd' hn' (by omega)
        omega

theorem le_tz_of_dvd (w m n : Nat) (hd : 2 ^ m ∣ n) (hm : m ≤ w) : m ≤ tz w n := by
  unfold tz
  split
  · exact hm
  · rename_i hn; exact le_tzAux_of_dvd w m n hd hn hm

theorem dim_maxDepth_le (q : Qty) (w : Nat) : q.dim * q.maxDepth w ≤ w := by
  unfold Qty.maxDepth
  have := Nat.mul_div_le (w - (q.reserved + q.nd0Bits)) q.dim
  omega

/-- `k ≤ n >> (dim - 1)` when `dim * k ≤ n` (`dim ∈ {1, 2}`). -/
theorem le_ddFromBits (q : Qty) (hq : q.dim = 1 ∨ q.dim = 2) (k n : Nat) (h : q.dim * k ≤ n) :
    k ≤ ddFromBits q n := by
  unfold ddFromBits
  rcases hq with h1 | h1 <;> rw [h1] at h ⊢ <;> simp [Nat.shiftRight_eq_div_pow] <;> omega

theorem log2_ge_of_pow_le (m n : Nat) (h : 2 ^ m ≤ n) : m ≤ Nat.log2 n := by
  have hn : n ≠ 0 := by have := Nat.two_pow_pos m; omega
  exact (Nat.le_log2 hn).2 h

/-- One step of the cell view on a range aligned on depth `d`: the cell is exactly `[s, s')`,
    `s < s' ≤ e`, its depth is at most `d`, and `s'` is again aligned on depth `d`. -/
theorem nextCellK_spec (q : Qty) (hq : q.dim = 1 ∨ q.dim = 2) (w d s e : Nat) (hd : d ≤ q.maxDepth w)
    (hs : 2 ^ q.shiftFromMax w d ∣ s) (he : 2 ^ q.shiftFromMax w d ∣ e) (hse : s < e) :
    s < (nextCellK q w d s e).2 ∧ (nextCellK q w d s e).2 ≤ e ∧
    2 ^ q.shiftFromMax w d ∣ (nextCellK q w d s e).2 ∧
    (nextCellK q w d s e).1.1 ≤ d ∧ rangeOfCell q w (nextCellK q w d s e).1 = (s, (nextCellK q w d s e).2) := by
  have hC := Nat.two_pow_pos (q.shiftFromMax w d)
  have hlenC : 2 ^ q.shiftFromMax w d ≤ e - s := by
    have : 2 ^ q.shiftFromMax w d ∣ e - s := Nat.dvd_sub he hs
    exact Nat.le_of_dvd (by omega) this
  unfold nextCellK
  simp only []
  split
  · -- shortcut: one depth-`d` cell
    have hone : 1 <<< q.shiftFromMax w d = 2 ^ q.shiftFromMax w d := by simp [Nat.shiftLeft_eq]
    refine ⟨by rw [hone]; omega, by rw [hone]; omega, by rw [hone]; exact Nat.dvd_add hs (Nat.dvd_refl _),
      Nat.le_refl _, ?_⟩
    unfold rangeOfCell
    simp only []
    have e1 := shr_shl_of_dvd (q.shiftFromMax w d) s hs
    apply Prod.ext
    · exact e1
    · simp only []
      rw [Nat.shiftLeft_eq, Nat.add_mul, ← Nat.shiftLeft_eq, e1, hone]; omega
  · -- general step
    have sp := nextCell_spec q hq w s e hse
    simp only [] at sp
    obtain ⟨a1, a2, a3, a4⟩ := sp
    refine ⟨a1, a2, ?_, ?_, a4⟩
    all_goals
      simp only [nextCell]
      generalize hdd : min (min (ddFromBits q (Nat.log2 (e - s))) (ddFromBits q (tz w s))) (q.maxDepth w) = dd
      have hk : q.maxDepth w - d ≤ dd := by
        have k1 : q.maxDepth w - d ≤ ddFromBits q (Nat.log2 (e - s)) :=
          le_ddFromBits q hq _ _ (log2_ge_of_pow_le _ _ hlenC)
        have k2 : q.maxDepth w - d ≤ ddFromBits q (tz w s) := by
          apply le_ddFromBits q hq
          apply le_tz_of_dvd w _ s hs
          have := dim_maxDepth_le q w
          have : q.dim * (q.maxDepth w - d) ≤ q.dim * q.maxDepth w := Nat.mul_le_mul_left _ (by omega)
          unfold Qty.shiftFromMax; omega
        omega
    · -- alignment of the new start
      have hone : 1 <<< (q.dim * dd) = 2 ^ (q.dim * dd) := by simp [Nat.shiftLeft_eq]
      rw [hone]
      apply Nat.dvd_add hs
      apply Nat.pow_dvd_pow
      unfold Qty.shiftFromMax
      exact Nat.mul_le_mul_left _ hk
    · omega

/-- The cells `cs` tile `[s, e)`: consecutive, each exactly the range of a cell of depth ≤ `d`. -/
def Tiles (q : Qty) (w d : Nat) : Nat → Nat → List Cell → Prop
  | s, e, [] => s = e
  | s, e, c :: t => ∃ s', rangeOfCell q w c = (s, s') ∧ s < s' ∧ s' ≤ e ∧ c.1 ≤ d ∧ Tiles q w d s' e t

theorem cellsOfRange_tiles (q : Qty) (hq : q.dim = 1 ∨ q.dim = 2) (w d : Nat) (hd : d ≤ q.maxDepth w) :
    ∀ (fuel s e : Nat), e - s ≤ fuel → s ≤ e → 2 ^ q.shiftFromMax w d ∣ s → 2 ^ q.shiftFromMax w d ∣ e →
      Tiles q w d s e (cellsOfRange q w d fuel s e) := by
  intro fuel
  induction fuel with
  | zero =>
    intro s e hf hse _ _
    simp only [cellsOfRange, Tiles]; omega
  | succ f ih =>
    intro s e hf hse hs he
    simp only [cellsOfRange]
    by_cases h : e ≤ s
    · simp only [h, ↓reduceIte, Tiles]; omega
    · simp only [h, ↓reduceIte]
      have sp := nextCellK_spec q hq w d s e hd hs he (by omega)
      obtain ⟨a1, a2, a3, a4, a5⟩ := sp
      exact ⟨_, a5, a1, a2, a4, ih _ e (by omega) a2 a3 he⟩

/-- A tiling covers exactly its range. -/
theorem mem_of_tiles (q : Qty) (w d : Nat) : ∀ (cs : List Cell) (s e : Nat), Tiles q w d s e cs →
    ∀ x, mem x (cs.map (rangeOfCell q w)) ↔ s ≤ x ∧ x < e := by
  intro cs
  induction cs with
  | nil => intro s e h x; simp only [Tiles] at h; subst h; simp [mem]; try omega
  | cons c t ih =>
    intro s e h x
    obtain ⟨s', h1, h2, h3, _, h5⟩ := h
    simp only [List.map_cons, mem, h1, ih s' e h5 x]
    have : s' ≤ e := h3
    constructor
    · rintro (⟨a, b⟩ | ⟨a, b⟩) <;> omega
    · rintro ⟨a, b⟩
      by_cases hx : x < s'
      · exact Or.inl ⟨a, hx⟩
      · exact Or.inr ⟨by omega, b⟩

theorem tiles_le {q : Qty} {w d : Nat} : ∀ {cs : List Cell} {s e : Nat}, Tiles q w d s e cs → s ≤ e := by
  intro cs
  induction cs with
  | nil => intro s e h; simp only [Tiles] at h; omega
  | cons c t ih =>
    intro s e h
    obtain ⟨s', _, h2, h3, _, _⟩ := h
    omega

/-- Reading a tiling back while the current range ends at its start: everything is fused. -/
theorem rangesOfCellsFrom_tiles (q : Qty) (w d : Nat) : ∀ (cs : List Cell) (a s e : Nat) (rest : List Cell),
    Tiles q w d s e cs →
    rangesOfCellsFrom q w (a, s) (cs ++ rest) = rangesOfCellsFrom q w (a, e) rest := by
  intro cs
  induction cs with
  | nil => intro a s e rest h; simp only [Tiles] at h; subst h; rfl
  | cons c t ih =>
    intro a s e rest h
    obtain ⟨s', h1, _, _, _, h5⟩ := h
    simp only [List.cons_append, rangesOfCellsFrom, h1, Nat.le_refl, ↓reduceIte]
    exact ih a s' e rest h5

/-- The cell view of a list of ranges. -/
def cellsOfFrom (q : Qty) (w d : Nat) (l : List Rng) : List Cell :=
  l.flatMap fun r => cellsOfRange q w d (r.2 - r.1) r.1 r.2

theorem cellsOf_eq (q : Qty) (w d : Nat) (l : List Rng) : cellsOf q w d l = cellsOfFrom q w d l := rfl

/-- Reading back the cells of a canonical, aligned list of ranges whose first range starts
    strictly after the end of the current range: the current range is emitted, then the list. -/
theorem rangesOfCellsFrom_cells (q : Qty) (hq : q.dim = 1 ∨ q.dim = 2) (w d : Nat) (hd : d ≤ q.maxDepth w) :
    ∀ (l : List Rng) (cur : Rng), CanonFrom (cur.2 + 1) l → Aligned (2 ^ q.shiftFromMax w d) l →
      rangesOfCellsFrom q w cur (cellsOfFrom q w d l) = cur :: l := by
  intro l
  induction l with
  | nil => intro cur _ _; rfl
  | cons r t ih =>
    intro cur hc ha
    obtain ⟨h1, h2, h3⟩ := hc
    have har := ha r List.mem_cons_self
    have ht := cellsOfRange_tiles q hq w d hd (r.2 - r.1) r.1 r.2 (Nat.le_refl _) (by omega) har.1 har.2
    -- the tiling of `r` is non-empty and starts at `r.1 > cur.2`
    simp only [cellsOfFrom, List.flatMap_cons]
    cases hcs : cellsOfRange q w d (r.2 - r.1) r.1 r.2 with
    | nil => rw [hcs] at ht; simp only [Tiles] at ht; omega
    | cons c cs =>
      rw [hcs] at ht
      obtain ⟨s', e1, e2, e3, _, e5⟩ := ht
      simp only [List.cons_append, rangesOfCellsFrom, e1]
      have : ¬ (r.1 ≤ cur.2) := by omega
      simp only [this, ↓reduceIte]
      rw [rangesOfCellsFrom_tiles q w d cs r.1 s' r.2 _ e5]
      have := ih (r.1, r.2) h3 (fun x hx => ha x (List.mem_cons_of_mem _ hx))
      simp only [cellsOfFrom] at this
      rw [this]

/-- **Lossless cell view**: ranges → hierarchical cells → ranges is the identity on every valid
    MOC (canonical, aligned on its depth). -/
theorem rangesOfCells_cellsOf (q : Qty) (hq : q.dim = 1 ∨ q.dim = 2) (w d : Nat) (hd : d ≤ q.maxDepth w)
    (l : List Rng) (hc : Canon l) (ha : Aligned (2 ^ q.shiftFromMax w d) l) :
    rangesOfCells q w (cellsOf q w d l) = l := by
  cases l with
  | nil => rfl
  | cons r t =>
    obtain ⟨_, h2, h3⟩ := hc
    have har := ha r List.mem_cons_self
    have ht := cellsOfRange_tiles q hq w d hd (r.2 - r.1) r.1 r.2 (Nat.le_refl _) (by omega) har.1 har.2
    simp only [cellsOf, List.flatMap_cons]
    cases hcs : cellsOfRange q w d (r.2 - r.1) r.1 r.2 with
    | nil => rw [hcs] at ht; simp only [Tiles] at ht; omega
    | cons c cs =>
      rw [hcs] at ht
      obtain ⟨s', e1, _, _, _, e5⟩ := ht
      simp only [List.cons_append, rangesOfCells, e1]
      rw [rangesOfCellsFrom_tiles q w d cs r.1 s' r.2 _ e5]
      have := rangesOfCellsFrom_cells q hq w d hd t (r.1, r.2) h3 (fun x hx => ha x (List.mem_cons_of_mem _ hx))
      simp only [cellsOfFrom] at this
      exact this

/-- The cells cover exactly the MOC, and every cell has a depth at most the declared depth. -/
theorem cellsOf_cover (q : Qty) (hq : q.dim = 1 ∨ q.dim = 2) (w d : Nat) (hd : d ≤ q.maxDepth w) :
    ∀ (l : List Rng), (∀ r ∈ l, r.1 ≤ r.2) → Aligned (2 ^ q.shiftFromMax w d) l →
      ∀ x, mem x ((cellsOf q w d l).map (rangeOfCell q w)) ↔ mem x l := by
  intro l
  induction l with
  | nil => intro _ _ x; simp [cellsOf, mem]
  | cons r t ih =>
    intro hne ha x
    have har := ha r List.mem_cons_self
    have hr := hne r List.mem_cons_self
    have ht := cellsOfRange_tiles q hq w d hd (r.2 - r.1) r.1 r.2 (Nat.le_refl _) hr har.1 har.2
    have hm := mem_of_tiles q w d _ _ _ ht x
    have iht := ih (fun y hy => hne y (List.mem_cons_of_mem _ hy)) (fun y hy => ha y (List.mem_cons_of_mem _ hy)) x
    simp only [cellsOf, List.flatMap_cons, List.map_append, mem_append, mem]
    simp only [cellsOf] at iht
    rw [hm, iht]

end Moc

namespace Moc

theorem shl_add_one_le (sh a b : Nat) (h : a < b) : (a + 1) <<< sh ≤ b <<< sh := by
  simp only [Nat.shiftLeft_eq]
  exact Nat.mul_le_mul_right _ h

/-- Grouping consecutive cells of one depth into cell ranges does not change what is covered. -/
theorem mem_cellRangesFrom (q : Qty) (w : Nat) (x : Nat) : ∀ (t : List Cell) (d i n : Nat),
    mem x ((cellRangesFrom d i n t).map (rangeOfCellRange q w)) ↔
      (i <<< q.shiftFromMax w d ≤ x ∧ x < (i + n) <<< q.shiftFromMax w d) ∨ mem x (t.map (rangeOfCell q w)) := by
  intro t
  induction t with
  | nil => intro d i n; simp [cellRangesFrom, rangeOfCellRange, mem]
  | cons c t ih =>
    intro d i n
    simp only [cellRangesFrom]
    by_cases h : c.1 = d ∧ i + n = c.2
    · simp only [h, and_self, ↓reduceIte]
      rw [ih d i (n + 1)]
      simp only [List.map_cons, mem, rangeOfCell]
      obtain ⟨h1, h2⟩ := h
      rw [h1, ← h2]
      have e : i + (n + 1) = i + n + 1 := by omega
      rw [e]
      have m1 : i <<< q.shiftFromMax w d ≤ (i + n) <<< q.shiftFromMax w d := by
        simp only [Nat.shiftLeft_eq]; exact Nat.mul_le_mul_right _ (by omega)
      have m2 : (i + n) <<< q.shiftFromMax w d ≤ (i + n + 1) <<< q.shiftFromMax w d := by
        simp only [Nat.shiftLeft_eq]; exact Nat.mul_le_mul_right _ (by omega)
      constructor
      · rintro (⟨a, b⟩ | hm)
        · by_cases hx : x < (i + n) <<< q.shiftFromMax w d
          · exact Or.inl ⟨a, hx⟩
          · exact Or.inr (Or.inl ⟨by omega, b⟩)
        · exact Or.inr (Or.inr hm)
      · rintro (⟨a, b⟩ | ⟨a, b⟩ | hm)
        · exact Or.inl ⟨a, by omega⟩
        · exact Or.inl ⟨by omega, b⟩
        · exact Or.inr hm
    · simp only [h, ↓reduceIte, List.map_cons, mem]
      rw [ih c.1 c.2 1]
      simp only [rangeOfCellRange, rangeOfCell]

theorem mem_cellRangesOf (q : Qty) (w : Nat) (cs : List Cell) (x : Nat) :
    mem x ((cellRangesOf cs).map (rangeOfCellRange q w)) ↔ mem x (cs.map (rangeOfCell q w)) := by
  cases cs with
  | nil => simp [cellRangesOf, mem]
  | cons c t =>
    simp only [cellRangesOf]
    rw [mem_cellRangesFrom q w x t c.1 c.2 1]
    simp only [List.map_cons, mem, rangeOfCell]

end Moc
