/-
  C03 — measures: `range_sum`, the width accumulated by `range_fraction`, the cell count, all equal to
  the number of covered indices.
-/
import MocVerif.Lemmas.SetOps
import MocVerif.Model.Query

namespace Moc

theorem countP_range'_false (p : Nat → Bool) (a n : Nat) (h : ∀ x, a ≤ x → x < a + n → p x = false) :
    (List.range' a n).countP p = 0 := by
  rw [List.countP_eq_zero]
  intro x hx
  have := List.mem_range'_1.1 hx
  simp [h x this.1 this.2]

theorem countP_range'_true (p : Nat → Bool) (a n : Nat) (h : ∀ x, a ≤ x → x < a + n → p x = true) :
    (List.range' a n).countP p = n := by
  have : (List.range' a n).countP p = (List.range' a n).length := by
    rw [List.countP_eq_length]
    intro x hx
    have := List.mem_range'_1.1 hx
    exact h x this.1 this.2
  rw [this, List.length_range']

/-- Number of indices of `[a, b)` covered by `l`. -/
def coveredIn (l : List Rng) (a b : Nat) : Nat := (List.range' a (b - a)).countP (fun y => decide (mem y l))

/-- `range_sum` is the number of covered indices. -/
theorem rangeSum_counts_from (l : List Rng) : ∀ lo N, CanonFrom lo l → (∀ r ∈ l, r.2 ≤ N) → lo ≤ N →
    coveredIn l lo N = rangeSum l := by
  unfold coveredIn
  induction l with
  | nil => intro lo N _ _ _; simp [rangeSum]
  | cons r t ih =>
    intro lo N hc hN hlo
    obtain ⟨h1, h2, h3⟩ := hc
    have hr2 : r.2 ≤ N := hN r List.mem_cons_self
    have e : N - lo = (r.1 - lo) + ((r.2 - r.1) + (N - r.2)) := by omega
    rw [e, ← List.range'_append_1, ← List.range'_append_1, List.countP_append, List.countP_append]
    have ea : lo + (r.1 - lo) = r.1 := by omega
    have eb : r.1 + (r.2 - r.1) = r.2 := by omega
    rw [ea, eb]
    have c1 : (List.range' lo (r.1 - lo)).countP (fun x => decide (mem x (r :: t))) = 0 := by
      apply countP_range'_false
      intro x hx1 hx2
      simp only [decide_eq_false_iff_not, mem_cons]
      rintro (h | h)
      · omega
      · have := h3.lb h; omega
    have c2 : (List.range' r.1 (r.2 - r.1)).countP (fun x => decide (mem x (r :: t))) = r.2 - r.1 := by
      apply countP_range'_true
      intro x hx1 hx2
      simp only [decide_eq_true_eq, mem_cons]
      left; omega
    have c3 : (List.range' r.2 (N - r.2)).countP (fun x => decide (mem x (r :: t))) =
        (List.range' r.2 (N - r.2)).countP (fun x => decide (mem x t)) := by
      apply List.countP_congr
      intro x hx
      have := List.mem_range'_1.1 hx
      simp only [decide_eq_true_eq, mem_cons]
      constructor
      · rintro (h | h)
        · omega
        · exact h
      · exact Or.inr
    rw [c1, c2, c3, ih r.2 N (h3.mono (by omega)) (fun q hq => hN q (List.mem_cons_of_mem _ hq)) hr2]
    simp [rangeSum]

/-- Indices of `[a, a+n)` lying in `[c, d)`. -/
theorem countP_range'_interval (c d : Nat) : ∀ (n a : Nat),
    (List.range' a n).countP (fun y => decide (c ≤ y ∧ y < d)) = min d (a + n) - max c a := by
  intro n
  induction n with
  | zero => intro a; simp; omega
  | succ n ih =>
    intro a
    rw [List.range'_succ, List.countP_cons, ih (a + 1)]
    by_cases h : c ≤ a ∧ a < d
    · simp only [h, and_self, decide_true, if_true]; omega
    · simp only [h, decide_false]
      simp only [Bool.false_eq_true, if_false]
      omega

theorem countP_or_disjoint (p q : Nat → Bool) : ∀ ys : List Nat, (∀ y ∈ ys, ¬(p y = true ∧ q y = true)) →
    ys.countP (fun y => p y || q y) = ys.countP p + ys.countP q := by
  intro ys
  induction ys with
  | nil => intro _; rfl
  | cons y ys ih =>
    intro h
    rw [List.countP_cons, List.countP_cons, List.countP_cons, ih (fun z hz => h z (List.mem_cons_of_mem _ hz))]
    have := h y List.mem_cons_self
    cases hp : p y <;> cases hq : q y <;> simp [hp, hq] at this ⊢ <;> omega

/-- The loop of `range_fraction` accumulates exactly the number of indices of `x` covered by the ranges
    it is run on. -/
theorem fracWidth_counts (x : Rng) (hx : x.1 < x.2) (t : List Rng) : ∀ lo, CanonFrom lo t →
    fracWidth x t = coveredIn t x.1 x.2 := by
  unfold coveredIn
  induction t with
  | nil => intro lo _; simp [fracWidth]
  | cons r t ih =>
    intro lo hc
    obtain ⟨h1, h2, h3⟩ := hc
    unfold fracWidth
    split
    · rename_i hle
      symm
      apply countP_range'_false
      intro y hy1 hy2
      simp only [decide_eq_false_iff_not, mem_cons]
      rintro (h | h)
      · omega
      · have := h3.lb h; omega
    · rename_i hgt
      rw [ih (r.2 + 1) h3]
      have hsplit : (List.range' x.1 (x.2 - x.1)).countP (fun y => decide (mem y (r :: t))) =
          (List.range' x.1 (x.2 - x.1)).countP (fun y => decide (r.1 ≤ y ∧ y < r.2)) +
          (List.range' x.1 (x.2 - x.1)).countP (fun y => decide (mem y t)) := by
        rw [← countP_or_disjoint]
        · apply List.countP_congr
          intro y _
          simp only [mem_cons, Bool.or_eq_true, decide_eq_true_eq]
        · intro y _ hh
          simp only [decide_eq_true_eq] at hh
          have := h3.lb hh.2; omega
      rw [hsplit, countP_range'_interval]
      have : x.1 + (x.2 - x.1) = x.2 := by omega
      rw [this]

/-- Dropping leading ranges that end at or before `a` does not change what is covered from `a` on. -/
theorem coveredIn_drop (l : List Rng) (k a b : Nat) (h : ∀ r ∈ l.take k, r.2 ≤ a) :
    coveredIn l a b = coveredIn (l.drop k) a b := by
  unfold coveredIn
  apply List.countP_congr
  intro y hy
  have hy' := List.mem_range'_1.1 hy
  simp only [decide_eq_true_eq]
  conv => lhs; rw [← List.take_append_drop k l, mem_append]
  constructor
  · rintro (hm | hm)
    · obtain ⟨r, hr, h1, h2⟩ := (mem_iff_exists y _).1 hm
      have := h r hr; omega
    · exact hm
  · exact Or.inr

/-- In a canonical list no range starts before `a` once one starts at or after `a`. -/
theorem filter_start_lt_nil {lo a : Nat} {t : List Rng} (h : CanonFrom lo t) (hlo : a ≤ lo) :
    t.filter (fun r => decide (r.1 < a)) = [] := by
  rw [List.filter_eq_nil_iff]
  intro r hr
  simp only [decide_eq_true_eq, Nat.not_lt]
  have : mem r.1 t := (mem_iff_exists r.1 t).2 ⟨r, hr, Nat.le_refl _, ?_⟩
  · have := h.lb this; omega
  · -- non-empty ranges
    clear hlo
    induction t generalizing lo with
    | nil => cases hr
    | cons q t ih =>
      obtain ⟨_, h2, h3⟩ := h
      cases hr with
      | head => exact h2
      | tail _ hm => exact ih h3 hm

theorem any_start_eq_false {lo a : Nat} {t : List Rng} (h : CanonFrom lo t) (hlo : a < lo) :
    t.any (fun r => r.1 == a) = false := by
  rw [List.any_eq_false]
  intro r hr
  simp only [beq_iff_eq]
  intro he
  have hne : r.1 < r.2 := by
    clear hlo he
    induction t generalizing lo with
    | nil => cases hr
    | cons q t ih =>
      obtain ⟨_, h2, h3⟩ := h
      cases hr with
      | head => exact h2
      | tail _ hm => exact ih h3 hm
  have : mem r.1 t := (mem_iff_exists r.1 t).2 ⟨r, hr, Nat.le_refl _, hne⟩
  have := h.lb this; omega

/-- The ranges skipped by the start index of `range_fraction` all end at or before `a`. -/
theorem fracStart_skips (a : Nat) (l : List Rng) : ∀ lo, CanonFrom lo l →
    ∀ r ∈ l.take (fracStart l a), r.2 ≤ a := by
  induction l with
  | nil => intro lo _ r hr; simp at hr
  | cons q t ih =>
    intro lo hc
    obtain ⟨h1, h2, h3⟩ := hc
    by_cases hq : q.1 < a
    · -- `q` starts before `a`
      have hi : ((q :: t).filter (fun r => decide (r.1 < a))).length = 1 + (t.filter (fun r => decide (r.1 < a))).length := by
        simp [List.filter_cons, hq]; omega
      have hany : (q :: t).any (fun r => r.1 == a) = t.any (fun r => r.1 == a) := by
        have : (q.1 == a) = false := by simp; omega
        simp [this]
      by_cases hat : t.any (fun r => r.1 == a) = true
      · -- a later range starts exactly at `a`
        have e1 : fracStart (q :: t) a = 1 + fracStart t a := by
          unfold fracStart; simp only [hany, hat, if_true, hi]
        rw [e1, Nat.add_comm, List.take_succ_cons]
        intro r hr
        cases hr with
        | head =>
          obtain ⟨z, hz, hza⟩ := List.any_eq_true.1 hat
          simp only [beq_iff_eq] at hza
          have hne : z.1 < z.2 := by
            have : ∀ {lo : Nat} {t : List Rng}, CanonFrom lo t → z ∈ t → z.1 < z.2 := by
              intro lo t
              induction t generalizing lo with
              | nil => intro _ h; cases h
              | cons w t ih =>
                intro h hm
                obtain ⟨_, k2, k3⟩ := h
                cases hm with
                | head => exact k2
                | tail _ hm => exact ih k3 hm
            exact this h3 hz
          have := h3.lb ((mem_iff_exists z.1 t).2 ⟨z, hz, Nat.le_refl _, hne⟩)
          omega
        | tail _ hm => exact ih (q.2 + 1) h3 r hm
      · have hat' : t.any (fun r => r.1 == a) = false := by
          cases hh : t.any (fun r => r.1 == a)
          · rfl
          · exact absurd hh hat
        by_cases hit : (t.filter (fun r => decide (r.1 < a))).length = 0
        · -- `q` is the last range starting before `a`
          have e1 : fracStart (q :: t) a = if q.2 > a then 0 else 1 := by
            unfold fracStart
            simp only [hany, hat', hi, hit]
            simp
          rw [e1]
          split
          · intro r hr; simp at hr
          · intro r hr
            simp at hr
            rw [hr]; omega
        · have hpos : 0 < (t.filter (fun r => decide (r.1 < a))).length := Nat.pos_of_ne_zero hit
          have e1 : fracStart (q :: t) a = 1 + fracStart t a := by
            unfold fracStart
            simp only [hany, hat', hi]
            have hg : (q :: t).getD (1 + (t.filter (fun r => decide (r.1 < a))).length - 1) (0, 0) =
                t.getD ((t.filter (fun r => decide (r.1 < a))).length - 1) (0, 0) := by
              have : 1 + (t.filter (fun r => decide (r.1 < a))).length - 1 = ((t.filter (fun r => decide (r.1 < a))).length - 1) + 1 := by omega
              rw [this, List.getD_cons_succ]
            rw [hg]
            have hp1 : (decide (1 + (t.filter (fun r => decide (r.1 < a))).length > 0)) = true := decide_eq_true (by omega)
            have hp2 : (decide ((t.filter (fun r => decide (r.1 < a))).length > 0)) = true := decide_eq_true hpos
            simp only [hp1, hp2, Bool.true_and, Bool.false_eq_true, if_false]
            split <;> omega
          rw [e1, Nat.add_comm, List.take_succ_cons]
          intro r hr
          cases hr with
          | head =>
            -- some range of `t` starts before `a`, and it starts after `q` ends
            obtain ⟨z, hz⟩ := List.exists_mem_of_length_pos hpos
            have hz' := List.mem_filter.1 hz
            simp only [decide_eq_true_eq] at hz'
            have hne : z.1 < z.2 := by
              have : ∀ {lo : Nat} {t : List Rng}, CanonFrom lo t → z ∈ t → z.1 < z.2 := by
                intro lo t
                induction t generalizing lo with
                | nil => intro _ h; cases h
                | cons w t ih =>
                  intro h hm
                  obtain ⟨_, k2, k3⟩ := h
                  cases hm with
                  | head => exact k2
                  | tail _ hm => exact ih k3 hm
              exact this h3 hz'.1
            have := h3.lb ((mem_iff_exists z.1 t).2 ⟨z, hz'.1, Nat.le_refl _, hne⟩)
            omega
          | tail _ hm => exact ih (q.2 + 1) h3 r hm
    · -- `q` starts at or after `a`: nothing is skipped
      have hf : (q :: t).filter (fun r => decide (r.1 < a)) = [] := by
        rw [List.filter_cons]
        simp only [hq, decide_false]
        exact filter_start_lt_nil h3 (by omega)
      have e1 : fracStart (q :: t) a = 0 := by
        unfold fracStart
        simp only [hf, List.length_nil]
        simp only [Nat.lt_irrefl, decide_false, Bool.false_and, Bool.false_eq_true, if_false]
        split <;> rfl
      rw [e1]
      intro r hr; simp at hr

end Moc

namespace Moc

theorem firstStart_le_of_mem {lo : Nat} {l : List Rng} (h : CanonFrom lo l) {y : Nat} (hy : mem y l) :
    firstStart l ≤ y := by
  cases l with
  | nil => exact absurd hy (by simp)
  | cons r t =>
    obtain ⟨_, h2, h3⟩ := h
    simp only [firstStart]
    rcases (mem_cons y r t).1 hy with hh | hh
    · exact hh.1
    · have := h3.lb hh; omega

theorem lt_lastEnd_of_mem {lo : Nat} {l : List Rng} (h : CanonFrom lo l) {y : Nat} (hy : mem y l) :
    y < lastEnd l := by
  cases l with
  | nil => exact absurd hy (by simp)
  | cons r t =>
    obtain ⟨_, h2, h3⟩ := h
    simp only [lastEnd]
    have sp := lastEndD_spec t r.2 h3
    rcases (mem_cons y r t).1 hy with hh | hh
    · omega
    · exact sp.2 y hh

/-- **`range_fraction`**: the integer pair handed to the final division is determined by the NUMBER OF
    COVERED INDICES of the query range: `(0,1)` iff none is covered, `(1,1)` iff all are, otherwise
    `covered / length` (both shifted alike when the length exceeds 52 bits). -/
theorem rangeFractionPair_spec (l : List Rng) (hl : Canon l) (x : Rng) (hx : x.1 < x.2) :
    rangeFractionPair l x =
      (let c := coveredIn l x.1 x.2
       let tot := x.2 - x.1
       if c = 0 then (0, 1)
       else if c = tot then (1, 1)
       else if tot >>> 52 > 0 then (c >>> bitLen (tot >>> 52), tot >>> bitLen (tot >>> 52))
       else (c, tot)) := by
  unfold rangeFractionPair
  split
  · -- quick rejection: nothing of `x` is covered
    rename_i hq
    have hc : coveredIn l x.1 x.2 = 0 := by
      unfold coveredIn
      apply countP_range'_false
      intro y hy1 hy2
      simp only [decide_eq_false_iff_not]
      intro hm
      simp only [Bool.or_eq_true, decide_eq_true_eq] at hq
      rcases hq with (hq | hq) | hq
      · cases l with
        | nil => exact absurd hm (by simp)
        | cons r t => simp at hq
      · have := firstStart_le_of_mem hl hm; omega
      · have := lt_lastEnd_of_mem hl hm; omega
    simp only [hc, if_true]
  · have hw : fracWidth x (l.drop (fracStart l x.1)) = coveredIn l x.1 x.2 := by
      rw [coveredIn_drop l (fracStart l x.1) x.1 x.2 (fracStart_skips x.1 l 0 hl)]
      have hcd : CanonFrom 0 (l.drop (fracStart l x.1)) := by
        have : ∀ (k : Nat) (l : List Rng) (lo : Nat), CanonFrom lo l → CanonFrom lo (l.drop k) := by
          intro k
          induction k with
          | zero => intro l lo h; simpa using h
          | succ k ih =>
            intro l lo h
            cases l with
            | nil => simp [CanonFrom]
            | cons r t =>
              simp only [List.drop_succ_cons]
              exact (ih t (r.2 + 1) h.2.2).mono (by have := h.1; have := h.2.1; omega)
        exact this _ l 0 hl
      exact fracWidth_counts x hx _ 0 hcd
    simp only [hw]

end Moc
