/-
  C05 — a set of covered indices has ONE family of maximal aligned cells: two aligned cells lying inside
  `M`, both maximal (their parents do not lie inside `M`) and sharing an index, are the same cell.
-/
import MocVerif.Lemmas.UniqIter

namespace Moc.UniqIter
open Moc

/-- The parent block (one level up) of the aligned block `(j, p)`. -/
def parentStart (g j p : Nat) : Nat := down (g * (j + 1)) p

theorem blockIn_sub (k k' p q : Nat) (M : List Rng) (h : BlockIn k' q M) (h1 : q ≤ p) (h2 : p + 2 ^ k ≤ q + 2 ^ k') :
    BlockIn k p M := by
  intro x hx1 hx2
  exact h x (by omega) (by omega)

/-- An aligned block lies inside its parent block. -/
theorem block_in_parent (g j p : Nat) (hp : 2 ^ (g * j) ∣ p) :
    parentStart g j p ≤ p ∧ p + 2 ^ (g * j) ≤ parentStart g j p + 2 ^ (g * (j + 1)) := by
  have hds := down_spec (g * (j + 1)) p
  have hpos := Nat.two_pow_pos (g * j)
  exact block_nest (g * j) (g * (j + 1)) p (parentStart g j p) p (Nat.mul_le_mul_left g (Nat.le_succ j)) hp hds.2.2
    ⟨Nat.le_refl _, by omega⟩ ⟨hds.1, hds.2.1⟩

/-- "Maximal": when not at the top level, the parent block does not lie inside `M`. -/
def MaximalIn (g J : Nat) (j p : Nat) (M : List Rng) : Prop :=
  j < J → ¬ BlockIn (g * (j + 1)) (parentStart g j p) M

/-- **Uniqueness of maximal aligned cells**: two aligned blocks inside `M`, both maximal, sharing an index, are equal. -/
theorem maximal_unique (g J : Nat) (M : List Rng) (j1 p1 j2 p2 x : Nat)
    (ha1 : 2 ^ (g * j1) ∣ p1) (ha2 : 2 ^ (g * j2) ∣ p2) (hJ1 : j1 ≤ J) (hJ2 : j2 ≤ J)
    (hi1 : BlockIn (g * j1) p1 M) (hi2 : BlockIn (g * j2) p2 M)
    (hm1 : MaximalIn g J j1 p1 M) (hm2 : MaximalIn g J j2 p2 M)
    (hx1 : p1 ≤ x ∧ x < p1 + 2 ^ (g * j1)) (hx2 : p2 ≤ x ∧ x < p2 + 2 ^ (g * j2)) :
    j1 = j2 ∧ p1 = p2 := by
  -- a block strictly below another one sharing an index has its parent inside that block, hence inside `M`
  have key : ∀ (ja pa jb pb : Nat), 2 ^ (g * ja) ∣ pa → 2 ^ (g * jb) ∣ pb → jb ≤ J → BlockIn (g * jb) pb M →
      MaximalIn g J ja pa M → pa ≤ x ∧ x < pa + 2 ^ (g * ja) → pb ≤ x ∧ x < pb + 2 ^ (g * jb) → ja < jb → False := by
    intro ja pa jb pb haa hab hJb hib hma hxa hxb hlt
    have hpar := block_in_parent g ja pa haa
    have hds := down_spec (g * (ja + 1)) pa
    -- the parent of `a` contains `x`, as does `b`; its level is at most the level of `b`
    have hnest := block_nest (g * (ja + 1)) (g * jb) (parentStart g ja pa) pb x (Nat.mul_le_mul_left g hlt)
      hds.2.2 hab ⟨by omega, by omega⟩ hxb
    exact hma (by omega) (blockIn_sub _ _ _ _ M hib hnest.1 hnest.2)
  have hlev : j1 = j2 := by
    rcases Nat.lt_trichotomy j1 j2 with h | h | h
    · exact (key j1 p1 j2 p2 ha1 ha2 hJ2 hi2 hm1 hx1 hx2 h).elim
    · exact h
    · exact (key j2 p2 j1 p1 ha2 ha1 hJ1 hi1 hm2 hx2 hx1 h).elim
  subst hlev
  refine ⟨rfl, ?_⟩
  have n1 := block_nest (g * j1) (g * j1) p1 p2 x (Nat.le_refl _) ha1 ha2 hx1 hx2
  have n2 := block_nest (g * j1) (g * j1) p2 p1 x (Nat.le_refl _) ha2 ha1 hx2 hx1
  omega

/-- The aligned block `(j, p)` is one of the cells the iterator emits. -/
def Emitted (g J : Nat) (M : List Rng) (j p : Nat) : Prop :=
  ∃ e ∈ run g J M, e.1 = j ∧ 2 ^ (g * j) ∣ p ∧ e.2.1 ≤ p ∧ p + 2 ^ (g * j) ≤ e.2.2

theorem emitted_inside (g J : Nat) (M : List Rng) (hc : Canon M) (j p : Nat) (h : Emitted g J M j p) :
    BlockIn (g * j) p M := by
  obtain ⟨e, he, _, _, h1, h2⟩ := h
  intro x hx1 hx2
  exact (run_cover g J M hc x).2 ⟨e, he, by omega, by omega⟩

theorem emitted_maximal (g J : Nat) (M : List Rng) (hc : Canon M) (j p : Nat) (h : Emitted g J M j p) :
    MaximalIn g J j p M := by
  obtain ⟨e, he, rfl, hdv, h1, h2⟩ := h
  intro hlt
  have hds := down_spec (g * (e.1 + 1)) p
  have hpos := Nat.two_pow_pos (g * e.1)
  exact run_maximal g J M hc e he hlt (parentStart g e.1 p) p hds.2.2 ⟨hds.1, hds.2.1⟩ ⟨h1, by omega⟩

theorem emitted_level (g J : Nat) (M : List Rng) (j p : Nat) (h : Emitted g J M j p) : j ≤ J := by
  obtain ⟨e, he, rfl, _⟩ := h
  exact run_level_le g J M e he

/-- Every covered index lies in an emitted cell. -/
theorem emitted_covers (g J : Nat) (M : List Rng) (hc : Canon M) (x : Nat) (hx : mem x M) :
    ∃ j p, Emitted g J M j p ∧ p ≤ x ∧ x < p + 2 ^ (g * j) := by
  obtain ⟨e, he, h1, h2⟩ := (run_cover g J M hc x).1 hx
  obtain ⟨_, a1, a2⟩ := run_aligned g J M e he
  have hds := down_spec (g * e.1) x
  refine ⟨e.1, down (g * e.1) x, ⟨e, he, rfl, hds.2.2, le_down_of_dvd _ _ _ a1 h1, ?_⟩, hds.1, hds.2.1⟩
  -- `down x + size` is the first multiple above `x`; `e.2.2` is a multiple above `x`
  obtain ⟨c, hc'⟩ := a2
  obtain ⟨u, hu⟩ := hds.2.2
  have : u < c := by
    apply Nat.lt_of_mul_lt_mul_left (a := 2 ^ (g * e.1))
    rw [← hu, ← hc']; omega
  rw [hc', hu, ← Nat.mul_succ]; exact Nat.mul_le_mul_left _ this

end Moc.UniqIter
