import MocVerif.Lemmas.Query
import MocVerif.Model.ST

namespace Moc

theorem memSTB_iff (t s : Nat) (m : STMoc) : memSTB t s m = true ↔ memST t s m := by
  unfold memSTB memST
  rw [List.any_eq_true]
  constructor
  · rintro ⟨e, he, h⟩; simp at h; exact ⟨e, he, h.1, h.2⟩
  · rintro ⟨e, he, h1, h2⟩; exact ⟨e, he, by simp [h1, h2]⟩

/-- **Union specification**: the point set of the union is the union of the point sets. -/
theorem memST_union (t s : Nat) (a b : STMoc) : memST t s (stUnionSpec a b) ↔ memST t s a ∨ memST t s b := by
  unfold memST stUnionSpec
  constructor
  · rintro ⟨e, he, h⟩
    rcases List.mem_append.1 he with h' | h'
    · exact Or.inl ⟨e, h', h⟩
    · exact Or.inr ⟨e, h', h⟩
  · rintro (⟨e, he, h⟩ | ⟨e, he, h⟩)
    · exact ⟨e, List.mem_append_left _ he, h⟩
    · exact ⟨e, List.mem_append_right _ he, h⟩

/-- **Intersection specification** for operands whose elements hold canonical MOCs. -/
theorem memST_inter (t s : Nat) (a b : STMoc)
    (ha : ∀ e ∈ a, Canon e.1 ∧ Canon e.2) (hb : ∀ e ∈ b, Canon e.1 ∧ Canon e.2) :
    memST t s (stInterSpec a b) ↔ memST t s a ∧ memST t s b := by
  unfold memST stInterSpec
  constructor
  · rintro ⟨e, he, h1, h2⟩
    obtain ⟨ea, hea, he'⟩ := List.mem_flatMap.1 he
    obtain ⟨eb, heb, rfl⟩ := List.mem_map.1 he'
    have i1 := (intersection_spec ea.1 eb.1 (ha ea hea).1 (hb eb heb).1).2 t
    have i2 := (intersection_spec ea.2 eb.2 (ha ea hea).2 (hb eb heb).2).2 s
    simp only [] at h1 h2
    exact ⟨⟨ea, hea, (i1.1 h1).1, (i2.1 h2).1⟩, ⟨eb, heb, (i1.1 h1).2, (i2.1 h2).2⟩⟩
  · rintro ⟨⟨ea, hea, a1, a2⟩, ⟨eb, heb, b1, b2⟩⟩
    refine ⟨(intersection ea.1 eb.1, intersection ea.2 eb.2), ?_, ?_, ?_⟩
    · exact List.mem_flatMap.2 ⟨ea, hea, List.mem_map.2 ⟨eb, heb, rfl⟩⟩
    · exact ((intersection_spec ea.1 eb.1 (ha ea hea).1 (hb eb heb).1).2 t).2 ⟨a1, b1⟩
    · exact ((intersection_spec ea.2 eb.2 (ha ea hea).2 (hb eb heb).2).2 s).2 ⟨a2, b2⟩

/-- The point-wise operator used by the correspondence check is the Boolean combination of the two
    point sets. -/
theorem stPointOp_union (a b : STMoc) (t s : Nat) :
    stPointOp 14 a b t s = true ↔ memST t s a ∨ memST t s b := by
  unfold stPointOp
  rw [← memSTB_iff, ← memSTB_iff]
  cases memSTB t s a <;> cases memSTB t s b <;> decide

theorem stPointOp_inter (a b : STMoc) (t s : Nat) :
    stPointOp 8 a b t s = true ↔ memST t s a ∧ memST t s b := by
  unfold stPointOp
  rw [← memSTB_iff, ← memSTB_iff]
  cases memSTB t s a <;> cases memSTB t s b <;> decide

theorem stPointOp_diff (a b : STMoc) (t s : Nat) :
    stPointOp 4 a b t s = true ↔ memST t s a ∧ ¬ memST t s b := by
  unfold stPointOp
  rw [← memSTB_iff, ← memSTB_iff]
  cases memSTB t s a <;> cases memSTB t s b <;> decide

/-- Time fold on a valid T-MOC: the code's range-intersection reading equals the instant reading. -/
theorem tfoldB_iff (tm : List Rng) (htm : Canon tm) (a : STMoc) (ha : ∀ e ∈ a, Canon e.1) (s : Nat) :
    tfoldB tm a s = true ↔ ∃ t, mem t tm ∧ memST t s a := by
  unfold tfoldB memST
  rw [List.any_eq_true]
  constructor
  · rintro ⟨e, he, h⟩
    simp only [Bool.and_eq_true, decide_eq_true_eq, List.any_eq_true] at h
    obtain ⟨hs, r, hr, hir⟩ := h
    have hne := canon_nonempty (ha e he) r hr
    obtain ⟨y, y1, y2, y3⟩ := (intersectsRange_iff tm htm r hne).1 hir
    exact ⟨y, y3, e, he, (mem_iff_exists _ _).2 ⟨r, hr, y1, y2⟩, hs⟩
  · rintro ⟨t, ht, e, he, h1, h2⟩
    refine ⟨e, he, ?_⟩
    simp only [Bool.and_eq_true, decide_eq_true_eq, List.any_eq_true]
    obtain ⟨r, hr, r1, r2⟩ := (mem_iff_exists _ _).1 h1
    have hne := canon_nonempty (ha e he) r hr
    exact ⟨h2, r, hr, (intersectsRange_iff tm htm r hne).2 ⟨t, r1, r2, ht⟩⟩

/-- Space fold: instants whose (non-empty) space coverage lies inside `S`. -/
theorem sfoldB_iff (sm : List Rng) (hsm : Canon sm) (a : STMoc) (ha : ∀ e ∈ a, Canon e.2) (t : Nat) :
    sfoldB sm a t = true ↔ ∃ e ∈ a, mem t e.1 ∧ e.2 ≠ [] ∧ ∀ y, mem y e.2 → mem y sm := by
  unfold sfoldB
  rw [List.any_eq_true]
  constructor
  · rintro ⟨e, he, h⟩
    simp only [Bool.and_eq_true, decide_eq_true_eq, Bool.not_eq_true', List.isEmpty_eq_false_iff] at h
    exact ⟨e, he, h.1.1, h.1.2, (containsAll_iff sm e.2 hsm (ha e he)).1 h.2⟩
  · rintro ⟨e, he, h1, h2, h3⟩
    refine ⟨e, he, ?_⟩
    simp only [Bool.and_eq_true, decide_eq_true_eq, Bool.not_eq_true', List.isEmpty_eq_false_iff]
    exact ⟨⟨h1, h2⟩, (containsAll_iff sm e.2 hsm (ha e he)).2 h3⟩

/-- Construction from observations: exactly the union of the products — no pair lost, none invented. -/
theorem obsB_iff (obs : List (Rng × Rng)) (t s : Nat) :
    obsB obs t s = true ↔ ∃ o ∈ obs, (o.1.1 ≤ t ∧ t < o.1.2) ∧ (o.2.1 ≤ s ∧ s < o.2.2) := by
  unfold obsB
  rw [List.any_eq_true]
  constructor
  · rintro ⟨o, ho, h⟩; simp at h; exact ⟨o, ho, h.1, h.2⟩
  · rintro ⟨o, ho, h1, h2⟩; exact ⟨o, ho, by simp [h1, h2]⟩

end Moc

namespace Moc

/-- Folding unions over entries with canonical space coverages: canonical, and covers exactly the
    accumulator plus the entries' coverages. -/
theorem foldl_union_spec : ∀ (es : FlatST) (acc : List Rng), Canon acc → (∀ e ∈ es, Canon e.2) →
    Canon (es.foldl (fun acc e => union acc e.2) acc) ∧
    ∀ p, mem p (es.foldl (fun acc e => union acc e.2) acc) ↔ mem p acc ∨ ∃ e ∈ es, mem p e.2 := by
  intro es
  induction es with
  | nil => intro acc hc _; exact ⟨hc, fun p => by simp⟩
  | cons e t ih =>
    intro acc hc he
    have u := union_spec acc e.2 hc (he e List.mem_cons_self)
    obtain ⟨i1, i2⟩ := ih (union acc e.2) u.1 (fun x hx => he x (List.mem_cons_of_mem _ hx))
    refine ⟨i1, fun p => ?_⟩
    simp only [List.foldl_cons]
    rw [i2 p, u.2 p]
    constructor
    · rintro ((h | h) | ⟨x, hx, hp⟩)
      · exact Or.inl h
      · exact Or.inr ⟨e, List.mem_cons_self, h⟩
      · exact Or.inr ⟨x, List.mem_cons_of_mem _ hx, hp⟩
    · rintro (h | ⟨x, hx, hp⟩)
      · exact Or.inl (Or.inl h)
      · cases hx with
        | head => exact Or.inl (Or.inr hp)
        | tail _ hm => exact Or.inr ⟨x, hm, hp⟩

/-- **Time fold, as computed**: canonical, and a position is covered iff some entry whose time range
    meets `x` covers it. -/
theorem tfoldRanges_spec (x : List Rng) (hx : Canon x) (flat : FlatST)
    (hf : ∀ e ∈ flat, e.1.1 < e.1.2 ∧ Canon e.2) :
    Canon (tfoldRanges x flat) ∧
    ∀ p, mem p (tfoldRanges x flat) ↔ ∃ e ∈ flat, (∃ t, e.1.1 ≤ t ∧ t < e.1.2 ∧ mem t x) ∧ mem p e.2 := by
  unfold tfoldRanges
  have sp := foldl_union_spec (flat.filter fun e => intersectsRange x e.1) [] trivial
    (fun e he => (hf e (List.mem_filter.1 he).1).2)
  refine ⟨sp.1, fun p => ?_⟩
  rw [sp.2 p]
  simp only [mem, false_or, List.mem_filter]
  constructor
  · rintro ⟨e, ⟨he, hi⟩, hp⟩
    refine ⟨e, he, ?_, hp⟩
    obtain ⟨t, ht⟩ := (intersectsRange_iff x hx e.1 (hf e he).1).1 hi
    exact ⟨t, ht.1, ht.2.1, ht.2.2⟩
  · rintro ⟨e, he, ⟨t, h1, h2, h3⟩, hp⟩
    exact ⟨e, ⟨he, (intersectsRange_iff x hx e.1 (hf e he).1).2 ⟨t, h1, h2, h3⟩⟩, hp⟩

/-- The result of the time fold does not depend on the order in which the (parallel) reduction
    visits the entries. -/
theorem tfoldRanges_perm (x : List Rng) (hx : Canon x) (flat flat' : FlatST) (hp : flat.Perm flat')
    (hf : ∀ e ∈ flat, e.1.1 < e.1.2 ∧ Canon e.2) : tfoldRanges x flat = tfoldRanges x flat' := by
  have hf' : ∀ e ∈ flat', e.1.1 < e.1.2 ∧ Canon e.2 := fun e he => hf e (hp.mem_iff.2 he)
  have s1 := tfoldRanges_spec x hx flat hf
  have s2 := tfoldRanges_spec x hx flat' hf'
  refine Canon.ext s1.1 s2.1 (fun p => ?_)
  rw [s1.2 p, s2.2 p]
  constructor
  · rintro ⟨e, he, h⟩; exact ⟨e, hp.mem_iff.1 he, h⟩
  · rintro ⟨e, he, h⟩; exact ⟨e, hp.mem_iff.2 he, h⟩

/-- Time ranges of a flat coverage in increasing order. -/
def FlatSorted (lo : Nat) : FlatST → Prop
  | [] => True
  | e :: t => lo ≤ e.1.1 ∧ e.1.1 < e.1.2 ∧ FlatSorted e.1.1 t

theorem sortedFrom_filter_map (p : Rng × List Rng → Bool) : ∀ (flat : FlatST) (lo : Nat), FlatSorted lo flat →
    SortedFrom lo ((flat.filter p).map (·.1)) := by
  intro flat
  induction flat with
  | nil => intro lo _; trivial
  | cons e t ih =>
    intro lo h
    obtain ⟨h1, h2, h3⟩ := h
    simp only [List.filter_cons]
    split
    · exact ⟨h1, h2, ih _ h3⟩
    · exact (ih _ h3).mono h1

/-- **Space fold, as computed**: canonical, and an instant is covered iff it lies in the time range of
    an entry whose space coverage is inside `y`. -/
theorem sfoldRanges_spec (y : List Rng) (hy : Canon y) (flat : FlatST) (hs : FlatSorted 0 flat)
    (hf : ∀ e ∈ flat, Canon e.2) :
    Canon (sfoldRanges y flat) ∧
    ∀ t, mem t (sfoldRanges y flat) ↔ ∃ e ∈ flat, (e.1.1 ≤ t ∧ t < e.1.2) ∧ ∀ p, mem p e.2 → mem p y := by
  unfold sfoldRanges newFromSorted
  have sp := mergeOverlapping_spec _ (sortedFrom_filter_map (fun e => containsAll y e.2) flat 0 hs)
  refine ⟨sp.1, fun t => ?_⟩
  rw [sp.2 t, mem_iff_exists]
  simp only [List.mem_map, List.mem_filter]
  constructor
  · rintro ⟨r, ⟨e, ⟨he, hc⟩, rfl⟩, hr⟩
    exact ⟨e, he, hr, (containsAll_iff y e.2 hy (hf e he)).1 hc⟩
  · rintro ⟨e, he, hr, hc⟩
    exact ⟨e.1, ⟨e, ⟨he, (containsAll_iff y e.2 hy (hf e he)).2 hc⟩, rfl⟩, hr⟩

end Moc
