/-
  Foundation lemmas on `mem` / `CanonFrom`: lower bounds, unique normal form (`Canon.ext`),
  Boolean twins.
-/
import MocVerif.Model.Ranges

namespace Moc

@[simp] theorem mem_nil (x : Nat) : mem x [] ↔ False := Iff.rfl
@[simp] theorem mem_cons (x : Nat) (r : Rng) (t : List Rng) :
    mem x (r :: t) ↔ (r.1 ≤ x ∧ x < r.2) ∨ mem x t := Iff.rfl

/-- The recursive definition of `mem` agrees with the reading "some range of the list contains x". -/
theorem mem_iff_exists (x : Nat) (rs : List Rng) : mem x rs ↔ ∃ r ∈ rs, r.1 ≤ x ∧ x < r.2 := by
  induction rs with
  | nil => simp
  | cons r t ih => simp [ih]

theorem mem_append (x : Nat) (a b : List Rng) : mem x (a ++ b) ↔ mem x a ∨ mem x b := by
  induction a with
  | nil => simp
  | cons r t ih => simp [ih, or_assoc]

@[simp] theorem canonFrom_nil (lo : Nat) : CanonFrom lo [] ↔ True := Iff.rfl
@[simp] theorem canonFrom_cons (lo : Nat) (r : Rng) (t : List Rng) :
    CanonFrom lo (r :: t) ↔ lo ≤ r.1 ∧ r.1 < r.2 ∧ CanonFrom (r.2 + 1) t := Iff.rfl

theorem CanonFrom.mono {lo lo' : Nat} {rs : List Rng} (h : CanonFrom lo rs) (hle : lo' ≤ lo) :
    CanonFrom lo' rs := by
  cases rs with
  | nil => trivial
  | cons r t => exact ⟨Nat.le_trans hle h.1, h.2.1, h.2.2⟩

/-- Everything covered by a list canonical from `lo` is `≥ lo`. -/
theorem CanonFrom.lb {lo : Nat} {rs : List Rng} (h : CanonFrom lo rs) {x : Nat} (hx : mem x rs) :
    lo ≤ x := by
  induction rs generalizing lo with
  | nil => simp at hx
  | cons r t ih =>
    simp at h hx
    rcases hx with hx | hx
    · omega
    · have := ih h.2.2 hx; omega

theorem CanonFrom.tail {lo : Nat} {r : Rng} {t : List Rng} (h : CanonFrom lo (r :: t)) :
    CanonFrom (r.2 + 1) t := h.2.2

theorem canonFromB_iff (lo : Nat) (rs : List Rng) : canonFromB lo rs = true ↔ CanonFrom lo rs := by
  induction rs generalizing lo with
  | nil => simp [canonFromB]
  | cons r t ih => simp [canonFromB, ih, and_assoc]

theorem canonB_iff (rs : List Rng) : canonB rs = true ↔ Canon rs := canonFromB_iff 0 rs

instance (lo : Nat) (rs : List Rng) : Decidable (CanonFrom lo rs) :=
  decidable_of_iff _ (canonFromB_iff lo rs)
instance (rs : List Rng) : Decidable (Canon rs) := inferInstanceAs (Decidable (CanonFrom 0 rs))

/-- **Unique normal form.** Two canonical range lists covering the same set are equal. -/
theorem CanonFrom.ext {lo : Nat} {a b : List Rng} (ha : CanonFrom lo a) (hb : CanonFrom lo b)
    (h : ∀ x, mem x a ↔ mem x b) : a = b := by
  induction a generalizing lo b with
  | nil =>
    cases b with
    | nil => rfl
    | cons s tb =>
      simp at hb
      have := (h s.1).2 (by simp; omega)
      simp at this
  | cons r ta ih =>
    cases b with
    | nil =>
      simp at ha
      have := (h r.1).1 (by simp; omega)
      simp at this
    | cons s tb =>
      simp at ha hb
      obtain ⟨ha1, ha2, ha3⟩ := ha
      obtain ⟨hb1, hb2, hb3⟩ := hb
      -- starts agree
      have hs : r.1 = s.1 := by
        have h1 := (h r.1).1 (by simp; omega)
        have h2 := (h s.1).2 (by simp; omega)
        simp at h1 h2
        rcases h1 with h1 | h1
        · rcases h2 with h2 | h2
          · omega
          · have := ha3.lb h2; omega
        · have := hb3.lb h1
          rcases h2 with h2 | h2
          · omega
          · have := ha3.lb h2; omega
      -- ends agree
      have he : r.2 = s.2 := by
        rcases Nat.lt_trichotomy r.2 s.2 with hlt | heq | hgt
        · have h1 := (h r.2).2 (by simp; omega)
          simp at h1
          have := ha3.lb h1; omega
        · exact heq
        · have h1 := (h s.2).1 (by simp; omega)
          simp at h1
          have := hb3.lb h1; omega
      have hrs : r = s := Prod.ext hs he
      subst hrs
      congr 1
      apply ih ha3 hb3
      intro x
      have hx := h x
      simp at hx
      constructor
      · intro hm
        have := ha3.lb hm
        have := hx.1 (Or.inr hm)
        rcases this with h' | h'
        · omega
        · exact h'
      · intro hm
        have := hb3.lb hm
        have := hx.2 (Or.inr hm)
        rcases this with h' | h'
        · omega
        · exact h'

theorem Canon.ext {a b : List Rng} (ha : Canon a) (hb : Canon b)
    (h : ∀ x, mem x a ↔ mem x b) : a = b := CanonFrom.ext ha hb h

end Moc
