/-
  C07 — the values the reader extracts from the header the writer wrote, and the whole range file read back.
-/
import MocVerif.Model.FitsRead
import MocVerif.Lemmas.Fits

namespace Moc.Fits
open Moc Moc.Codec

theorem endCard_take4 : endCard.take 4 = ['E', 'N', 'D', ' '] := by decide

/-- Scanning a block made of `pre`, `END` and anything: the cards before `END`. -/
theorem scanCards_pre : ∀ (pre : List (List Char)) (n : Nat) (X : List Char), Cards80 pre →
    (∀ c ∈ pre, c.take 4 ≠ ['E', 'N', 'D', ' ']) → pre.length < n →
    scanCards n (pre.flatten ++ (endCard ++ X)) = pre := by
  intro pre
  induction pre with
  | nil =>
    intro n X _ _ hn
    cases n with
    | zero => omega
    | succ n =>
      simp only [List.flatten_nil, List.nil_append, scanCards]
      rw [← endCard_length, List.take_left, endCard_take4]
      simp
  | cons c t ih =>
    intro n X h80 hne hn
    cases n with
    | zero => simp at hn
    | succ n =>
      have hc : c.length = 80 := h80 c (by simp)
      have e1 : (c ++ (t.flatten ++ (endCard ++ X))).take 80 = c := by rw [← hc, List.take_left]
      have e2 : (c ++ (t.flatten ++ (endCard ++ X))).drop 80 = t.flatten ++ (endCard ++ X) := by rw [← hc, List.drop_left]
      simp only [List.flatten_cons, List.append_assoc, scanCards, e1, e2, hne c (by simp), ↓reduceIte]
      rw [ih n X (fun x hx => h80 x (by simp [hx])) (fun x hx => hne x (by simp [hx])) (by simp at hn; omega)]

theorem cardFixed_take8 (kw v : List Char) (hk : kw.length = 8) : (cardFixed kw v).take 8 = kw := by
  unfold cardFixed pad
  rw [List.append_assoc, ← hk, List.take_left]

theorem cardFree_take8 (kw v : List Char) (hk : kw.length = 8) : (cardFree kw v).take 8 = kw := by
  unfold cardFree pad
  rw [List.append_assoc, ← hk, List.take_left]

/-- **A free-format unsigned value is read back** (`MOCORD_x= 29`). -/
theorem readUint_cardFree (kw : List Char) (n : Nat) (hk : kw.length = 8) (hv : (showNat n).length ≤ 69) :
    readUint (cardFree kw (showNat n)) = some n := by
  unfold readUint cardFree pad
  have hl : (kw ++ '=' :: ' ' :: showNat n).length = 10 + (showNat n).length := by
    simp only [List.length_append, List.length_cons, hk]; omega
  have e : (kw ++ '=' :: ' ' :: showNat n ++ List.replicate (80 - (kw ++ '=' :: ' ' :: showNat n).length) ' ').drop 10
      = showNat n ++ List.replicate (70 - (showNat n).length) ' ' := by
    rw [hl]
    have h10 : (10 : Nat) = kw.length + 2 := by omega
    rw [List.append_assoc, h10, ← List.drop_drop, List.drop_left]
    simp only [List.cons_append, List.drop_succ_cons, List.drop_zero]
    congr 2; omega
  simp only []
  rw [e]
  obtain ⟨c, t, hct, hc⟩ := showNat_head n
  have hd : dropSpaces (showNat n ++ List.replicate (70 - (showNat n).length) ' ') = showNat n ++ List.replicate (70 - (showNat n).length) ' ' := by
    rw [hct, List.cons_append]
    exact dropSpaces_nonspace c _ hc.notSpace
  rw [hd]
  have hrep : List.replicate (70 - (showNat n).length) ' ' = ' ' :: List.replicate (69 - (showNat n).length) ' ' := by
    have : 70 - (showNat n).length = (69 - (showNat n).length) + 1 := by omega
    rw [this]; rfl
  rw [hrep, takeDigits_append _ (showNat_digits n) ' ' _ (by decide)]
  have hne : (showNat n).isEmpty = false := by rw [hct]; rfl
  simp only [hne, Bool.false_eq_true, ↓reduceIte, digitsVal_showNat]

end Moc.Fits

namespace Moc.Fits
open Moc Moc.Codec

/-- No card is the `END` card. -/
abbrev NoEnd (cards : List (List Char)) : Prop := ∀ c ∈ cards, c.take 4 ≠ ['E', 'N', 'D', ' ']

theorem noEnd_cons {c : List Char} {t : List (List Char)} (hc : c.take 4 ≠ ['E', 'N', 'D', ' ']) (ht : NoEnd t) : NoEnd (c :: t) := by
  intro x hx
  simp only [List.mem_cons] at hx
  rcases hx with rfl | hx
  · exact hc
  · exact ht x hx

theorem noEnd_nil : NoEnd [] := fun _ h => by cases h

theorem cardFree_take4 (kw v : List Char) (hk : kw.length = 8) : (cardFree kw v).take 4 = kw.take 4 := by
  have := cardFree_take8 kw v hk
  have h4 : (cardFree kw v).take 4 = ((cardFree kw v).take 8).take 4 := by rw [List.take_take]; rfl
  rw [h4, this]

theorem cardFixed_take4 (kw v : List Char) (hk : kw.length = 8) : (cardFixed kw v).take 4 = kw.take 4 := by
  have := cardFixed_take8 kw v hk
  have h4 : (cardFixed kw v).take 4 = ((cardFixed kw v).take 8).take 4 := by rw [List.take_take]; rfl
  rw [h4, this]

theorem tform_cases (w : Nat) : tform w = ['1', 'B'] ∨ tform w = ['1', 'I'] ∨ tform w = ['1', 'J'] ∨ tform w = ['1', 'K'] := by
  unfold tform
  split
  · exact .inl rfl
  · split
    · exact .inr (.inl rfl)
    · split
      · exact .inr (.inr (.inl rfl))
      · exact .inr (.inr (.inr rfl))

theorem readStr_tform (w : Nat) : readStr (cardFree ['T', 'F', 'O', 'R', 'M', '1', ' ', ' '] (quoted (tform w))) = some (tform w) := by
  rcases tform_cases w with h | h | h | h <;> rw [h] <;> decide

/-- The fixed part of the table header (8 cards). -/
def fixedCards (w nRows : Nat) : List (List Char) :=
  [cardFree ['X', 'T', 'E', 'N', 'S', 'I', 'O', 'N'] (quoted ['B', 'I', 'N', 'T', 'A', 'B', 'L', 'E']),
   cardFixed ['B', 'I', 'T', 'P', 'I', 'X', ' ', ' '] ['8'],
   cardFixed ['N', 'A', 'X', 'I', 'S', ' ', ' ', ' '] ['2'],
   cardFixed ['N', 'A', 'X', 'I', 'S', '1', ' ', ' '] (showNat (w / 8)),
   cardFixed ['N', 'A', 'X', 'I', 'S', '2', ' ', ' '] (showNat nRows),
   cardFixed ['P', 'C', 'O', 'U', 'N', 'T', ' ', ' '] ['0'],
   cardFixed ['G', 'C', 'O', 'U', 'N', 'T', ' ', ' '] ['1'],
   cardFixed ['T', 'F', 'I', 'E', 'L', 'D', 'S', ' '] ['1']]

theorem tableCardsOf_eq (w nRows : Nat) (moc : List (List Char)) :
    tableCardsOf w nRows moc = (fixedCards w nRows ++ moc) ++ [endCard] := rfl

theorem fixedCards_noEnd (w nRows : Nat) : NoEnd (fixedCards w nRows) := by
  unfold fixedCards
  refine noEnd_cons ?_ (noEnd_cons ?_ (noEnd_cons ?_ (noEnd_cons ?_ (noEnd_cons ?_ (noEnd_cons ?_ (noEnd_cons ?_ (noEnd_cons ?_ noEnd_nil)))))))
  all_goals (first | (rw [cardFree_take4 _ _ rfl]; decide) | (rw [cardFixed_take4 _ _ rfl]; decide))

/-- Scanning the table block of a written file gives the fixed cards followed by the MOC cards. -/
theorem scan_table (w nRows : Nat) (moc : List (List Char)) (hm : Cards80 moc) (hc : moc.length ≤ 27)
    (hne : NoEnd moc) (hw : w / 8 < 10 ^ 20) (hn : nRows < 10 ^ 20) :
    scanCards 36 (block (tableCardsOf w nRows moc)) = fixedCards w nRows ++ moc := by
  have h80 : Cards80 (fixedCards w nRows ++ moc) := by
    have := tableCardsOf_80 w nRows moc hm hw hn
    rw [tableCardsOf_eq] at this
    intro c hc'
    exact this c (List.mem_append.2 (.inl hc'))
  unfold block pad
  rw [tableCardsOf_eq, List.flatten_append, List.flatten_singleton, List.append_assoc]
  apply scanCards_pre _ 36 _ h80
  · intro c hc'
    rcases List.mem_append.1 hc' with h | h
    · exact fixedCards_noEnd w nRows c h
    · exact hne c h
  · simp only [List.length_append, fixedCards, List.length_cons, List.length_nil]; omega

theorem mocCards_noEnd (q : Qty) (w depth : Nat) : NoEnd (mocCards q w depth) := by
  unfold mocCards
  simp only []
  intro c hc
  simp only [List.mem_append, List.mem_cons, List.not_mem_nil, or_false] at hc
  rcases hc with (rfl | rfl | rfl) | hc
  · rw [cardFree_take4 _ _ rfl]; decide
  · rw [cardFree_take4 _ _ rfl]; decide
  · rw [cardFree_take4 _ _ rfl]; decide
  · split at hc
    · simp only [List.mem_cons, List.not_mem_nil, or_false] at hc
      rcases hc with rfl | rfl | rfl | rfl | rfl <;> (rw [cardFree_take4 _ _ rfl]; decide)
    · split at hc
      · simp only [List.mem_cons, List.not_mem_nil, or_false] at hc
        rcases hc with rfl | rfl | rfl | rfl | rfl <;> (rw [cardFree_take4 _ _ rfl]; decide)
      · simp only [List.mem_cons, List.not_mem_nil, or_false] at hc
        rcases hc with rfl | rfl | rfl | rfl <;> (rw [cardFree_take4 _ _ rfl]; decide)

theorem decodeHdr_hpx (q : Qty) (w d n : Nat) (hq : (q.name == "HPX") = true) (hd : d ≤ 255)
    (hw : w / 8 < 10 ^ 20) (hn : n <<< 1 < 10 ^ 20) :
    decodeHdr (block (tableCards q w d n)) =
      some { naxis1 := w / 8, naxis2 := n <<< 1, dim := ['S', 'P', 'A', 'C', 'E'], ordering := ['R', 'A', 'N', 'G', 'E'],
             depth := d, tform := tform w } := by
  unfold decodeHdr tableCards
  rw [scan_table w (n <<< 1) (mocCards q w d) (mocCards_80 q w d hd) (by have := mocCards_count q w d; omega)
    (mocCards_noEnd q w d) hw hn]
  have hs : (showNat d).length ≤ 69 := by have := showNat_length 2 d (by omega); omega
  simp (config := { decide := true }) only [fixedCards, mocCards, hq, ↓reduceIte, Bool.false_eq_true, List.cons_append, List.nil_append, findCard,
    cardFree_take8, cardFixed_take8, List.length_cons, List.length_nil, Option.bind_some, Option.bind_eq_bind,
    readUint_cardFixed ['N', 'A', 'X', 'I', 'S', '1', ' ', ' '] _ rfl (showNat_length 19 _ hw),
    readUint_cardFixed ['N', 'A', 'X', 'I', 'S', '2', ' ', ' '] _ rfl (showNat_length 19 _ hn)]
  have r1 : readStr (cardFree ['M', 'O', 'C', 'D', 'I', 'M', ' ', ' '] (quoted ['S', 'P', 'A', 'C', 'E'])) = some ['S', 'P', 'A', 'C', 'E'] := by decide
  have r2 : readStr (cardFree ['O', 'R', 'D', 'E', 'R', 'I', 'N', 'G'] (quoted ['R', 'A', 'N', 'G', 'E'])) = some ['R', 'A', 'N', 'G', 'E'] := by decide
  simp (config := { decide := true }) only [r1, r2, Option.bind_some, ↓reduceIte,
    readUint_cardFree ['M', 'O', 'C', 'O', 'R', 'D', '_', 'S'] d rfl hs, readStr_tform]
  rfl

theorem decodeHdr_time (q : Qty) (w d n : Nat) (hq1 : (q.name == "HPX") = false) (hq2 : (q.name == "TIME") = true) (hd : d ≤ 255)
    (hw : w / 8 < 10 ^ 20) (hn : n <<< 1 < 10 ^ 20) :
    decodeHdr (block (tableCards q w d n)) =
      some { naxis1 := w / 8, naxis2 := n <<< 1, dim := ['T', 'I', 'M', 'E'], ordering := ['R', 'A', 'N', 'G', 'E'],
             depth := d, tform := tform w } := by
  unfold decodeHdr tableCards
  rw [scan_table w (n <<< 1) (mocCards q w d) (mocCards_80 q w d hd) (by have := mocCards_count q w d; omega)
    (mocCards_noEnd q w d) hw hn]
  have hs : (showNat d).length ≤ 69 := by have := showNat_length 2 d (by omega); omega
  simp (config := { decide := true }) only [fixedCards, mocCards, hq1, hq2, ↓reduceIte, Bool.false_eq_true, List.cons_append, List.nil_append, findCard,
    cardFree_take8, cardFixed_take8, List.length_cons, List.length_nil, Option.bind_some, Option.bind_eq_bind,
    readUint_cardFixed ['N', 'A', 'X', 'I', 'S', '1', ' ', ' '] _ rfl (showNat_length 19 _ hw),
    readUint_cardFixed ['N', 'A', 'X', 'I', 'S', '2', ' ', ' '] _ rfl (showNat_length 19 _ hn)]
  have r1 : readStr (cardFree ['M', 'O', 'C', 'D', 'I', 'M', ' ', ' '] (quoted ['T', 'I', 'M', 'E'])) = some ['T', 'I', 'M', 'E'] := by decide
  have r2 : readStr (cardFree ['O', 'R', 'D', 'E', 'R', 'I', 'N', 'G'] (quoted ['R', 'A', 'N', 'G', 'E'])) = some ['R', 'A', 'N', 'G', 'E'] := by decide
  simp (config := { decide := true }) only [r1, r2, Option.bind_some, ↓reduceIte,
    readUint_cardFree ['M', 'O', 'C', 'O', 'R', 'D', '_', 'T'] d rfl hs, readStr_tform]
  rfl

theorem decodeHdr_freq (q : Qty) (w d n : Nat) (hq1 : (q.name == "HPX") = false) (hq2 : (q.name == "TIME") = false) (hd : d ≤ 255)
    (hw : w / 8 < 10 ^ 20) (hn : n <<< 1 < 10 ^ 20) :
    decodeHdr (block (tableCards q w d n)) =
      some { naxis1 := w / 8, naxis2 := n <<< 1, dim := ['F', 'R', 'E', 'Q', 'U', 'E', 'N', 'C', 'Y'], ordering := ['R', 'A', 'N', 'G', 'E'],
             depth := d, tform := tform w } := by
  unfold decodeHdr tableCards
  rw [scan_table w (n <<< 1) (mocCards q w d) (mocCards_80 q w d hd) (by have := mocCards_count q w d; omega)
    (mocCards_noEnd q w d) hw hn]
  have hs : (showNat d).length ≤ 69 := by have := showNat_length 2 d (by omega); omega
  simp (config := { decide := true }) only [fixedCards, mocCards, hq1, hq2, ↓reduceIte, Bool.false_eq_true, List.cons_append, List.nil_append, findCard,
    cardFree_take8, cardFixed_take8, List.length_cons, List.length_nil, Option.bind_some, Option.bind_eq_bind,
    readUint_cardFixed ['N', 'A', 'X', 'I', 'S', '1', ' ', ' '] _ rfl (showNat_length 19 _ hw),
    readUint_cardFixed ['N', 'A', 'X', 'I', 'S', '2', ' ', ' '] _ rfl (showNat_length 19 _ hn)]
  have r1 : readStr (cardFree ['M', 'O', 'C', 'D', 'I', 'M', ' ', ' '] (quoted ['F', 'R', 'E', 'Q', 'U', 'E', 'N', 'C', 'Y'])) = some ['F', 'R', 'E', 'Q', 'U', 'E', 'N', 'C', 'Y'] := by decide
  have r2 : readStr (cardFree ['O', 'R', 'D', 'E', 'R', 'I', 'N', 'G'] (quoted ['R', 'A', 'N', 'G', 'E'])) = some ['R', 'A', 'N', 'G', 'E'] := by decide
  simp (config := { decide := true }) only [r1, r2, Option.bind_some, ↓reduceIte,
    readUint_cardFree ['M', 'O', 'C', 'O', 'R', 'D', '_', 'F'] d rfl hs, readStr_tform]
  rfl

/-- The second header block and the data unit of a written range file. -/
theorem rangeFile_parts (q : Qty) (w d : Nat) (rs : List Rng) (hd : d ≤ 255) (hw : w / 8 < 10 ^ 20)
    (hn : rs.length <<< 1 < 10 ^ 20) :
    (((rangeFile q w d rs).drop 2880).take 2880).map Char.ofNat = block (tableCards q w d rs.length) ∧
    ((rangeFile q w d rs).drop 5760).take ((w / 8) * (rs.length <<< 1)) = dataUnit w rs := by
  have hwl : (encodeWords rs).length = rs.length <<< 1 := by
    rw [encodeWords_length, Nat.shiftLeft_eq, Nat.pow_one, Nat.mul_comm]
  have hp := block_length _ primaryCards_80 (by decide)
  have ht80 := tableCardsOf_80 w (encodeWords rs).length (mocCards q w d) (mocCards_80 q w d hd) hw (by rw [hwl]; exact hn)
  have ht := block_length _ ht80 (tableCardsOf_count w (encodeWords rs).length (mocCards q w d) (by have := mocCards_count q w d; omega))
  have hlen : (dataUnit w rs).length = (w / 8) * (rs.length <<< 1) := by
    rw [dataUnit_length, Nat.shiftLeft_eq, Nat.pow_one, Nat.mul_comm 2]
  unfold rangeFile fileOf tableCards
  simp only []
  rw [← hwl]
  constructor
  · have hl1 : ((block primaryCards).map Char.toNat).length = 2880 := by simp only [List.length_map, hp]
    rw [List.map_append, List.append_assoc, List.append_assoc, List.drop_left' hl1]
    have hl2 : ((block (tableCardsOf w (encodeWords rs).length (mocCards q w d))).map Char.toNat).length = 2880 := by
      simp only [List.length_map, ht]
    rw [List.take_left' hl2, map_ofNat_toNat]
  · have hl : ((block primaryCards ++ block (tableCardsOf w (encodeWords rs).length (mocCards q w d))).map Char.toNat).length = 5760 := by
      simp only [List.length_map, List.length_append, hp, ht]
    rw [List.append_assoc, List.drop_left' hl, hwl]
    exact List.take_left' hlen

theorem stCards_noEnd (w d1 d2 : Nat) : NoEnd (stCards w d1 d2) := by
  unfold stCards
  intro c hc
  simp only [List.mem_cons, List.not_mem_nil, or_false] at hc
  rcases hc with rfl | rfl | rfl | rfl | rfl | rfl | rfl | rfl | rfl <;> (rw [cardFree_take4 _ _ rfl]; decide)

/-- The header values of a written ST file are read back. -/
theorem decodeHdrST_written (w d1 d2 n : Nat) (h1 : d1 ≤ 255) (h2 : d2 ≤ 255) (hw : w / 8 < 10 ^ 20) (hn : n < 10 ^ 20) :
    decodeHdrST (block (tableCardsOf w n (stCards w d1 d2))) =
      some (w / 8, n, ['T', 'I', 'M', 'E', '.', 'S', 'P', 'A', 'C', 'E'], ['R', 'A', 'N', 'G', 'E'], d1, d2, tform w) := by
  unfold decodeHdrST
  rw [scan_table w n (stCards w d1 d2) (stCards_80 w d1 d2 h1 h2) (by simp [stCards]) (stCards_noEnd w d1 d2) hw hn]
  have hs1 : (showNat d1).length ≤ 69 := by have := showNat_length 2 d1 (by omega); omega
  have hs2 : (showNat d2).length ≤ 69 := by have := showNat_length 2 d2 (by omega); omega
  simp (config := { decide := true }) only [fixedCards, stCards, ↓reduceIte, List.cons_append, List.nil_append, findCard,
    cardFree_take8, cardFixed_take8, List.length_cons, List.length_nil, Option.bind_some, Option.bind_eq_bind,
    readUint_cardFixed ['N', 'A', 'X', 'I', 'S', '1', ' ', ' '] _ rfl (showNat_length 19 _ hw),
    readUint_cardFixed ['N', 'A', 'X', 'I', 'S', '2', ' ', ' '] _ rfl (showNat_length 19 _ hn)]
  have r1 : readStr (cardFree ['M', 'O', 'C', 'D', 'I', 'M', ' ', ' '] (quoted ['T', 'I', 'M', 'E', '.', 'S', 'P', 'A', 'C', 'E']))
      = some ['T', 'I', 'M', 'E', '.', 'S', 'P', 'A', 'C', 'E'] := by decide
  have r2 : readStr (cardFree ['O', 'R', 'D', 'E', 'R', 'I', 'N', 'G'] (quoted ['R', 'A', 'N', 'G', 'E'])) = some ['R', 'A', 'N', 'G', 'E'] := by decide
  simp (config := { decide := true }) only [r1, r2, Option.bind_some, ↓reduceIte,
    readUint_cardFree ['M', 'O', 'C', 'O', 'R', 'D', '_', 'T'] d1 rfl hs1,
    readUint_cardFree ['M', 'O', 'C', 'O', 'R', 'D', '_', 'S'] d2 rfl hs2, readStr_tform]
  rfl

end Moc.Fits
