import MocVerif.Lemmas.ValidOps
import MocVerif.Model.Expr

namespace Moc

theorem getLast?_hint (l : List Rng) (lo : Nat) (hc : CanonFrom lo l) :
    ∀ r, l.getLast? = some r → ∀ c ∈ l, c.2 ≤ r.2 := by
  induction l generalizing lo with
  | nil => intro r h; simp at h
  | cons a t ih =>
    intro r h c hc'
    obtain ⟨h1, h2, h3⟩ := hc
    cases t with
    | nil => simp at h hc'; subst h; subst hc'; exact Nat.le_refl _
    | cons b t' =>
      rw [List.getLast?_cons_cons] at h
      have := ih (a.2 + 1) h3 r h
      simp at hc'
      rcases hc' with rfl | hc'
      · have hb := this b (List.mem_cons_self ..)
        have := h3.1; have := h3.2.1; omega
      · exact this c (by simpa using hc')

theorem borrowedSrc_hintOk (d : Nat) (l : List Rng) (hc : Canon l) : (borrowedSrc d l).HintOk := by
  refine ⟨?_, Nat.le_refl _, ?_⟩
  · intro r hr
    exact ⟨canon_nonempty hc r (List.mem_of_getLast? hr), getLast?_hint l 0 hc r hr⟩
  · intro n hn; simp [borrowedSrc] at hn ⊢; omega

/-- Eager evaluation of any program over valid leaves yields a valid MOC (and a legal depth). -/
theorem evalE_valid (q : Qty) (w : Nat) (h0 : 0 < q.nCellsMax w) (e : Expr)
    (hl : e.LeavesOk q w) (hd : e.DepthsOk q w) :
    Valid q w (evalE q w e).1 (evalE q w e).2 ∧ (evalE q w e).1 ≤ q.maxDepth w := by
  induction e with
  | leaf s => exact ⟨hl.1, hd⟩
  | and a b iha ihb =>
    have ha := iha hl.1 hd.1; have hb := ihb hl.2 hd.2
    have sp := intersection_spec _ _ ha.1.1 hb.1.1
    exact ⟨valid_binary q w _ _ _ _ _ (fun p1 p2 => p1 ∧ p2) (by simp) ha.1 hb.1 sp.1 sp.2,
      Nat.max_le.2 ⟨ha.2, hb.2⟩⟩
  | or a b iha ihb =>
    have ha := iha hl.1 hd.1; have hb := ihb hl.2 hd.2
    have sp := union_spec _ _ ha.1.1 hb.1.1
    exact ⟨valid_binary q w _ _ _ _ _ (fun p1 p2 => p1 ∨ p2) (by simp) ha.1 hb.1 sp.1 sp.2,
      Nat.max_le.2 ⟨ha.2, hb.2⟩⟩
  | xor a b iha ihb =>
    have ha := iha hl.1 hd.1; have hb := ihb hl.2 hd.2
    have sp := xorLoop_spec _ _ 0 ha.1.1 hb.1.1
    exact ⟨valid_binary q w _ _ _ _ _ (fun p1 p2 => (p1 ↔ ¬ p2)) (by simp) ha.1 hb.1 sp.1 sp.2,
      Nat.max_le.2 ⟨ha.2, hb.2⟩⟩
  | minus a b iha ihb =>
    have ha := iha hl.1 hd.1; have hb := ihb hl.2 hd.2
    have e := minusItems_eq (borrowedSrc _ (evalE q w a).2) (borrowedSrc _ (evalE q w b).2)
      (borrowedSrc_hintOk (evalE q w a).1 _ ha.1.1) (borrowedSrc_hintOk (evalE q w b).1 _ hb.1.1) ha.1.1 hb.1.1
    have sp := minusLoop_spec (evalE q w a).2 (evalE q w b).2 0 0 ha.1.1 hb.1.1
    refine ⟨?_, Nat.max_le.2 ⟨ha.2, hb.2⟩⟩
    show Valid q w _ (minusItems _ _)
    rw [e]
    exact valid_binary q w _ _ _ _ _ (fun p1 p2 => p1 ∧ ¬ p2) (by simp) ha.1 hb.1 sp.1 sp.2
  | not a iha =>
    have ha := iha hl hd
    exact ⟨valid_complement q w _ _ h0 ha.1, ha.2⟩
  | degrade nd a iha =>
    have ha := iha hl hd.2
    refine ⟨?_, Nat.le_trans (Nat.min_le_right _ _) hd.1⟩
    show Valid q w (min (evalE q w a).1 nd) (degradedShift _ (evalE q w a).2)
    by_cases h : nd ≤ (evalE q w a).1
    · rw [Nat.min_eq_right h]; exact valid_degraded q w _ nd _ ha.1
    · have h' : (evalE q w a).1 ≤ nd := by omega
      rw [Nat.min_eq_left h', degraded_deeper_eq q w _ nd _ ha.1 h']; exact ha.1

end Moc
