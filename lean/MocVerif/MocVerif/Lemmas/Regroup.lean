/-
  C09 / C10 / C19 — `time_space_iter`: from the flat form to `RangeMOC2` elements.
-/
import MocVerif.Lemmas.FlatNormal

namespace Moc.Merge2D
open Moc

theorem lastEndD_append (x : Rng) : ∀ (l : List Rng) (d : Nat), lastEndD d (l ++ [x]) = x.2 := by
  intro l
  induction l with
  | nil => intro d; rfl
  | cons r t ih => intro d; simp only [List.cons_append, lastEndD, ih]

theorem lastEnd_append (l : List Rng) (x : Rng) : lastEnd (l ++ [x]) = x.2 := by
  cases l with
  | nil => rfl
  | cons r t => simp only [List.cons_append, lastEnd, lastEndD_append]

theorem firstStart_append (l : List Rng) (x : Rng) (h : l ≠ []) : firstStart (l ++ [x]) = firstStart l := by
  cases l with
  | nil => exact absurd rfl h
  | cons r t => rfl

theorem canonFrom_append (x : Rng) : ∀ (l : List Rng) (lo : Nat), CanonFrom lo l → l ≠ [] →
    lastEnd l + 1 ≤ x.1 → x.1 < x.2 → CanonFrom lo (l ++ [x]) := by
  intro l
  induction l with
  | nil => intro lo _ h; exact absurd rfl h
  | cons r t ih =>
    intro lo hc _ hle hx
    obtain ⟨h1, h2, h3⟩ := hc
    cases t with
    | nil =>
      simp only [lastEnd, lastEndD] at hle
      exact ⟨h1, h2, by simpa using hle, hx, trivial⟩
    | cons q t' =>
      have : lastEnd (q :: t') = lastEnd (r :: q :: t') := by simp [lastEnd, lastEndD]
      exact ⟨h1, h2, ih (r.2 + 1) h3 (by simp) (by rw [this]; exact hle) hx⟩

theorem firstStart_le_lastEnd {lo : Nat} {l : List Rng} (h : CanonFrom lo l) (hne : l ≠ []) :
    firstStart l < lastEnd l := by
  cases l with
  | nil => exact absurd rfl hne
  | cons r t =>
    obtain ⟨_, h2, h3⟩ := h
    simp only [firstStart, lastEnd]
    have := (lastEndD_spec t r.2 h3).1
    omega

theorem regroupFrom_spec : ∀ (rest : FlatST) (tl : List Rng) (sp : Space) (lo : Nat),
    CanonFrom lo tl → tl ≠ [] → Canon sp → sp ≠ [] → VF Canon (lastEnd tl) (some sp) rest →
    validSTB (regroupFrom (tl, sp) rest) = true ∧
    (∀ f ∈ regroupFrom (tl, sp) rest, firstStart tl ≤ firstInstant f) ∧
    ∀ t s, memST t s (regroupFrom (tl, sp) rest) ↔ (mem t tl ∧ mem s sp) ∨ memFlat t s rest := by
  intro rest
  induction rest with
  | nil =>
    intro tl sp lo hc hne hcs hns _
    have hcB : canonB tl = true := (canonB_iff tl).2 (hc.mono (Nat.zero_le _))
    have hsB : canonB sp = true := (canonB_iff sp).2 hcs
    have e1 : (!tl.isEmpty) = true := by cases tl <;> simp_all
    have e2 : (!sp.isEmpty) = true := by cases sp <;> simp_all
    refine ⟨by simp [regroupFrom, validSTB, hcB, hsB, e1, e2], ?_, fun t s => ?_⟩
    · intro f hf; simp [regroupFrom] at hf; subst hf; exact Nat.le_refl _
    · simp only [regroupFrom, memST]
      constructor
      · rintro ⟨e, he, h1, h2⟩; simp at he; subst he; exact Or.inl ⟨h1, h2⟩
      · rintro (⟨h1, h2⟩ | ⟨e, he, _⟩)
        · exact ⟨(tl, sp), by simp, h1, h2⟩
        · cases he
  | cons x rest ih =>
    intro tl sp lo hc hne hcs hns hv
    obtain ⟨tr, s'⟩ := x
    obtain ⟨v1, v2, v3, v4, v5, v6⟩ := hv
    simp only [] at v1 v2 v3 v4 v5 v6
    have hcons : ∀ t s, memFlat t s ((tr, s') :: rest) ↔ (tr.1 ≤ t ∧ t < tr.2 ∧ mem s s') ∨ memFlat t s rest :=
      fun t s => memFlat_cons t s (tr, s') rest
    simp only [regroupFrom]
    by_cases heq : (s' == sp) = true
    · rw [if_pos heq]
      have hs : s' = sp := by simpa using heq
      subst hs
      -- same coverage: the ranges do not touch
      have hgap : lastEnd tl + 1 ≤ tr.1 := by
        have : lastEnd tl ≠ tr.1 := fun h => v5 ⟨h, rfl⟩
        omega
      have hc' := canonFrom_append tr tl lo hc hne hgap v2
      have := ih (tl ++ [tr]) s' lo hc' (by simp) hcs hns (by rw [lastEnd_append]; exact v6)
      refine ⟨this.1, ?_, fun t s => ?_⟩
      · intro f hf; have := this.2.1 f hf; rw [firstStart_append tl tr hne] at this; exact this
      · rw [this.2.2 t s, hcons t s, mem_append]
        simp only [mem_cons, mem_nil, or_false]
        constructor
        · rintro (⟨h1 | h1, h2⟩ | h)
          · exact Or.inl ⟨h1, h2⟩
          · exact Or.inr (Or.inl ⟨h1.1, h1.2, h2⟩)
          · exact Or.inr (Or.inr h)
        · rintro (⟨h1, h2⟩ | ⟨h1, h2, h3⟩ | h)
          · exact Or.inl ⟨Or.inl h1, h2⟩
          · exact Or.inl ⟨Or.inr ⟨h1, h2⟩, h3⟩
          · exact Or.inr h
    · rw [if_neg heq]
      have hone : CanonFrom 0 [tr] := ⟨Nat.zero_le _, v2, trivial⟩
      have := ih [tr] s' 0 hone (by simp) v4 v3 (by simpa [lastEnd, lastEndD] using v6)
      have hcB : canonB tl = true := (canonB_iff tl).2 (hc.mono (Nat.zero_le _))
      have hsB : canonB sp = true := (canonB_iff sp).2 hcs
      have e1 : (!tl.isEmpty) = true := by cases tl <;> simp_all
      have e2 : (!sp.isEmpty) = true := by cases sp <;> simp_all
      refine ⟨?_, ?_, fun t s => ?_⟩
      · simp only [validSTB, hcB, hsB, e1, e2, this.1, Bool.and_true, Bool.true_and, List.all_eq_true,
          decide_eq_true_eq]
        intro f hf
        have := this.2.1 f hf
        simp only [firstStart] at this
        omega
      · intro f hf
        rcases List.mem_cons.1 hf with rfl | hf
        · exact Nat.le_refl _
        · have h1 := this.2.1 f hf
          simp only [firstStart] at h1
          have := firstStart_le_lastEnd hc hne
          omega
      · have hm : memST t s ((tl, sp) :: regroupFrom ([tr], s') rest) ↔
            (mem t tl ∧ mem s sp) ∨ memST t s (regroupFrom ([tr], s') rest) := by
          unfold memST
          constructor
          · rintro ⟨e, he, h1, h2⟩
            rcases List.mem_cons.1 he with rfl | he
            · exact Or.inl ⟨h1, h2⟩
            · exact Or.inr ⟨e, he, h1, h2⟩
          · rintro (⟨h1, h2⟩ | ⟨e, he, h1, h2⟩)
            · exact ⟨(tl, sp), List.mem_cons_self, h1, h2⟩
            · exact ⟨e, List.mem_cons_of_mem _ he, h1, h2⟩
        rw [hm, this.2.2 t s, hcons t s]
        simp only [mem_cons, mem_nil, or_false]
        constructor
        · rintro (h | ⟨⟨h1, h2⟩, h3⟩ | h)
          · exact Or.inl h
          · exact Or.inr (Or.inl ⟨h1, h2, h3⟩)
          · exact Or.inr (Or.inr h)
        · rintro (h | ⟨h1, h2, h3⟩ | h)
          · exact Or.inl h
          · exact Or.inr (Or.inl ⟨⟨h1, h2⟩, h3⟩)
          · exact Or.inr (Or.inr h)

/-- **`time_space_iter`** (flat coverage → `RangeMOC2` elements): for every valid flat coverage the elements form a
    VALID space-time MOC covering exactly the same pairs. -/
theorem regroup_spec (g : FlatST) (hv : VF Canon 0 none g) :
    validSTB (regroup g) = true ∧ ∀ t s, memST t s (regroup g) ↔ memFlat t s g := by
  cases g with
  | nil => exact ⟨rfl, fun t s => by constructor <;> (rintro ⟨e, he, _⟩; cases he)⟩
  | cons x rest =>
    obtain ⟨tr, sp⟩ := x
    obtain ⟨_, v2, v3, v4, _, v6⟩ := hv
    simp only [] at v2 v3 v4 v6
    have hone : CanonFrom 0 [tr] := ⟨Nat.zero_le _, v2, trivial⟩
    have := regroupFrom_spec rest [tr] sp 0 hone (by simp) v4 v3 (by simpa [lastEnd, lastEndD] using v6)
    refine ⟨this.1, fun t s => ?_⟩
    simp only [regroup]
    rw [this.2.2 t s, memFlat_cons]
    simp only [mem_cons, mem_nil, or_false]
    constructor
    · rintro (⟨⟨h1, h2⟩, h3⟩ | h)
      · exact Or.inl ⟨h1, h2, h3⟩
      · exact Or.inr h
    · rintro (⟨h1, h2, h3⟩ | h)
      · exact Or.inl ⟨⟨h1, h2⟩, h3⟩
      · exact Or.inr h


end Moc.Merge2D
