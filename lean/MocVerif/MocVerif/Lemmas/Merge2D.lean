/-
  C10 — correctness of the transliterated `Ranges2D::merge` sweep (`Model/Merge2D.lean`).
-/
import MocVerif.Model.Merge2D
import MocVerif.Lemmas.SetOps
import MocVerif.Lemmas.Sweep

namespace Moc.Merge2D
open Moc

/-! ### step functions -/

/-- State after the events of coordinate `≤ t` (for a list of non-decreasing coordinates: the state after the
    last such event). -/
def stepAt (init : Option Space) (l : List Ev) (t : Nat) : Option Space :=
  l.foldl (fun st e => if e.1 ≤ t then e.2 else st) init

@[simp] theorem stepAt_nil (init : Option Space) (t : Nat) : stepAt init [] t = init := rfl
theorem stepAt_cons (init : Option Space) (e : Ev) (l : List Ev) (t : Nat) :
    stepAt init (e :: l) t = stepAt (if e.1 ≤ t then e.2 else init) l t := rfl

/-- Coordinates non-decreasing, all `≥ lo`. -/
def SortedEv (lo : Nat) : List Ev → Prop
  | [] => True
  | e :: t => lo ≤ e.1 ∧ SortedEv e.1 t

theorem SortedEv.mono {lo lo' : Nat} {l : List Ev} (h : SortedEv lo l) (hle : lo' ≤ lo) : SortedEv lo' l := by
  cases l with
  | nil => trivial
  | cons e t => exact ⟨Nat.le_trans hle h.1, h.2⟩

theorem SortedEv.ge {lo : Nat} {l : List Ev} (h : SortedEv lo l) : ∀ e ∈ l, lo ≤ e.1 := by
  induction l generalizing lo with
  | nil => intro e he; cases he
  | cons a t ih =>
    intro e he
    cases he with
    | head => exact h.1
    | tail _ hm => exact Nat.le_trans h.1 (ih h.2 e hm)

theorem stepAt_all_gt (init : Option Space) (l : List Ev) (t : Nat) (h : ∀ e ∈ l, t < e.1) :
    stepAt init l t = init := by
  induction l generalizing init with
  | nil => rfl
  | cons e r ih =>
    rw [stepAt_cons, if_neg (by have := h e List.mem_cons_self; omega)]
    exact ih init (fun x hx => h x (List.mem_cons_of_mem _ hx))

/-- The list ends on a falling edge, and an exhausted list is in the state "outside". -/
def EndsNone (l : List Ev) (st : Option Space) : Prop :=
  (l = [] → st = none) ∧ ∀ e, l.getLast? = some e → e.2 = none

theorem EndsNone.tail {e : Ev} {t : List Ev} {st : Option Space} (h : EndsNone (e :: t) st) : EndsNone t e.2 := by
  constructor
  · intro ht; subst ht; exact h.2 e rfl
  · intro x hx
    apply h.2 x
    cases t with
    | nil => cases hx
    | cons a r => rw [List.getLast?_cons_cons]; exact hx

theorem mem_mergeEvents_ge (op : Op) : ∀ (l1 l2 : List Ev) (st1 st2 : Option Space) (lo : Nat),
    SortedEv lo l1 → SortedEv lo l2 → SortedEv lo (mergeEvents op l1 l2 st1 st2) := by
  intro l1 l2 st1 st2
  fun_induction mergeEvents op l1 l2 st1 st2 with
  | case1 => intro lo _ _; trivial
  | case2 c x2 t2 st1 _ ih => intro lo h1 h2; exact ⟨h2.1, ih c trivial h2.2⟩
  | case3 c x1 t1 _ st2 ih => intro lo h1 h2; exact ⟨h1.1, ih c h1.2 trivial⟩
  | case4 v1 x1 t1 v2 x2 t2 st1 st2 hlt ih =>
    intro lo h1 h2
    exact ⟨h1.1, ih v1 h1.2 ⟨Nat.le_of_lt hlt, h2.2⟩⟩
  | case5 v1 x1 t1 v2 x2 t2 st1 st2 hn hlt ih =>
    intro lo h1 h2
    exact ⟨h2.1, ih v2 ⟨Nat.le_of_lt hlt, h1.2⟩ h2.2⟩
  | case6 v1 x1 t1 v2 x2 t2 st1 st2 hn1 hn2 ih =>
    intro lo h1 h2
    have : v1 = v2 := by omega
    subst this
    exact ⟨h1.1, ih v1 h1.2 h2.2⟩

/-- **The merged sequence is the point-wise operation of the two step functions.** -/
theorem mergeEvents_step (op : Op) : ∀ (l1 l2 : List Ev) (st1 st2 : Option Space) (lo : Nat),
    SortedEv lo l1 → SortedEv lo l2 → EndsNone l1 st1 → EndsNone l2 st2 →
    ∀ t, stepAt (op.apply st1 st2) (mergeEvents op l1 l2 st1 st2) t =
      op.apply (stepAt st1 l1 t) (stepAt st2 l2 t) := by
  intro l1 l2 st1 st2
  fun_induction mergeEvents op l1 l2 st1 st2 with
  | case1 => intro lo _ _ _ _ t; rfl
  | case2 c x2 t2 st1 st2 ih =>
    intro lo h1 h2 e1 e2 t
    have hs1 : st1 = none := e1.1 rfl
    subst hs1
    rw [stepAt_cons, stepAt_cons]
    simp only [stepAt_nil]
    by_cases hc : c ≤ t
    · simp only [hc, if_true]
      have := ih c trivial h2.2 e1 e2.tail t
      simpa using this
    · simp only [hc, if_false]
      have hgt : ∀ e ∈ t2, t < e.1 := fun e he => by have := h2.2.ge e he; omega
      rw [stepAt_all_gt _ t2 t hgt]
      apply stepAt_all_gt
      intro e he
      have := (mem_mergeEvents_ge op [] t2 none x2 c trivial h2.2).ge e he
      omega
  | case3 c x1 t1 st1 st2 ih =>
    intro lo h1 h2 e1 e2 t
    have hs2 : st2 = none := e2.1 rfl
    subst hs2
    rw [stepAt_cons, stepAt_cons]
    simp only [stepAt_nil]
    by_cases hc : c ≤ t
    · simp only [hc, if_true]
      have := ih c h1.2 trivial e1.tail e2 t
      simpa using this
    · simp only [hc, if_false]
      have hgt : ∀ e ∈ t1, t < e.1 := fun e he => by have := h1.2.ge e he; omega
      rw [stepAt_all_gt _ t1 t hgt]
      apply stepAt_all_gt
      intro e he
      have := (mem_mergeEvents_ge op t1 [] x1 none c h1.2 trivial).ge e he
      omega
  | case4 v1 x1 t1 v2 x2 t2 st1 st2 hlt ih =>
    intro lo h1 h2 e1 e2 t
    rw [stepAt_cons, stepAt_cons]
    by_cases hc : v1 ≤ t
    · simp only [hc, if_true]
      exact ih v1 h1.2 ⟨Nat.le_of_lt hlt, h2.2⟩ e1.tail e2 t
    · simp only [hc, if_false]
      have hg1 : ∀ e ∈ t1, t < e.1 := fun e he => by have := h1.2.ge e he; omega
      have hg2 : ∀ e ∈ (v2, x2) :: t2, t < e.1 := fun e he => by
        have := (show SortedEv v2 ((v2, x2) :: t2) from ⟨Nat.le_refl _, h2.2⟩).ge e he; omega
      rw [stepAt_all_gt _ t1 t hg1, stepAt_all_gt _ _ t hg2]
      apply stepAt_all_gt
      intro e he
      have := (mem_mergeEvents_ge op t1 ((v2, x2) :: t2) x1 st2 v1 h1.2 ⟨Nat.le_of_lt hlt, h2.2⟩).ge e he
      omega
  | case5 v1 x1 t1 v2 x2 t2 st1 st2 hn hlt ih =>
    intro lo h1 h2 e1 e2 t
    rw [stepAt_cons]
    conv => rhs; rw [stepAt_cons (e := (v2, x2))]
    by_cases hc : v2 ≤ t
    · simp only [hc, if_true]
      exact ih v2 ⟨Nat.le_of_lt hlt, h1.2⟩ h2.2 e1 e2.tail t
    · simp only [hc, if_false]
      have hg2 : ∀ e ∈ t2, t < e.1 := fun e he => by have := h2.2.ge e he; omega
      have hg1 : ∀ e ∈ (v1, x1) :: t1, t < e.1 := fun e he => by
        have := (show SortedEv v1 ((v1, x1) :: t1) from ⟨Nat.le_refl _, h1.2⟩).ge e he; omega
      rw [stepAt_all_gt _ t2 t hg2, stepAt_all_gt _ _ t hg1]
      apply stepAt_all_gt
      intro e he
      have := (mem_mergeEvents_ge op ((v1, x1) :: t1) t2 st1 x2 v2 ⟨Nat.le_of_lt hlt, h1.2⟩ h2.2).ge e he
      omega
  | case6 v1 x1 t1 v2 x2 t2 st1 st2 hn1 hn2 ih =>
    intro lo h1 h2 e1 e2 t
    have : v1 = v2 := by omega
    subst this
    rw [stepAt_cons, stepAt_cons]
    conv => rhs; rw [stepAt_cons (e := (v1, x2))]
    by_cases hc : v1 ≤ t
    · simp only [hc, if_true]
      exact ih v1 h1.2 h2.2 e1.tail e2.tail t
    · simp only [hc, if_false]
      have hg1 : ∀ e ∈ t1, t < e.1 := fun e he => by have := h1.2.ge e he; omega
      have hg2 : ∀ e ∈ t2, t < e.1 := fun e he => by have := h2.2.ge e he; omega
      rw [stepAt_all_gt _ t1 t hg1, stepAt_all_gt _ t2 t hg2]
      apply stepAt_all_gt
      intro e he
      have := (mem_mergeEvents_ge op t1 t2 x1 x2 v1 h1.2 h2.2).ge e he
      omega

end Moc.Merge2D

namespace Moc.Merge2D
open Moc

/-! ### from the event sequence to segments -/

/-- `(t, s)` is covered by a flat coverage. -/
def memFlat (t s : Nat) (f : FlatST) : Prop := ∃ e ∈ f, e.1.1 ≤ t ∧ t < e.1.2 ∧ mem s e.2

theorem memFlat_append (t s : Nat) (a b : FlatST) : memFlat t s (a ++ b) ↔ memFlat t s a ∨ memFlat t s b := by
  unfold memFlat
  constructor
  · rintro ⟨e, he, h⟩
    rcases List.mem_append.1 he with h' | h'
    · exact Or.inl ⟨e, h', h⟩
    · exact Or.inr ⟨e, h', h⟩
  · rintro (⟨e, he, h⟩ | ⟨e, he, h⟩)
    · exact ⟨e, List.mem_append_left _ he, h⟩
    · exact ⟨e, List.mem_append_right _ he, h⟩

theorem memFlat_single (t s : Nat) (x : Rng × Space) : memFlat t s [x] ↔ x.1.1 ≤ t ∧ t < x.1.2 ∧ mem s x.2 := by
  unfold memFlat
  constructor
  · rintro ⟨e, he, h⟩; simp at he; subst he; exact h
  · intro h; exact ⟨x, List.mem_cons_self, h⟩

/-- State after all the events. -/
def endState (init : Option Space) (l : List Ev) : Option Space := l.foldl (fun _ e => e.2) init

theorem endState_append (init : Option Space) (l : List Ev) (e : Ev) : endState init (l ++ [e]) = e.2 := by
  simp [endState, List.foldl_append]

theorem stepAt_append (init : Option Space) (l : List Ev) (e : Ev) (t : Nat) :
    stepAt init (l ++ [e]) t = if e.1 ≤ t then e.2 else stepAt init l t := by
  simp [stepAt, List.foldl_append]

theorem stepAt_all_le (init : Option Space) (l : List Ev) (t : Nat) (h : ∀ e ∈ l, e.1 ≤ t) :
    stepAt init l t = endState init l := by
  induction l generalizing init with
  | nil => rfl
  | cons e r ih =>
    rw [stepAt_cons, if_pos (h e List.mem_cons_self)]
    exact ih e.2 (fun x hx => h x (List.mem_cons_of_mem _ hx))

/-- Closed segments in order: each starts at or after the end of the previous one (`lo`), is not reversed. -/
def SegFrom (lo : Nat) : FlatST → Prop
  | [] => True
  | e :: t => lo ≤ e.1.1 ∧ e.1.1 ≤ e.1.2 ∧ SegFrom e.1.2 t

/-- End of the last segment (`lo` if none). -/
def lastEndF (lo : Nat) : FlatST → Nat
  | [] => lo
  | e :: t => lastEndF e.1.2 t

theorem segFrom_append (x : Rng × Space) : ∀ (f : FlatST) (lo : Nat),
    SegFrom lo (f ++ [x]) ↔ SegFrom lo f ∧ lastEndF lo f ≤ x.1.1 ∧ x.1.1 ≤ x.1.2 := by
  intro f
  induction f with
  | nil => intro lo; simp [SegFrom, lastEndF]
  | cons e t ih =>
    intro lo
    simp only [List.cons_append, SegFrom, lastEndF, ih e.1.2]
    constructor
    · rintro ⟨a, b, c, d, e'⟩; exact ⟨⟨a, b, c⟩, d, e'⟩
    · rintro ⟨⟨a, b, c⟩, d, e'⟩; exact ⟨a, b, c, d, e'⟩

theorem lastEndF_append (x : Rng × Space) : ∀ (f : FlatST) (lo : Nat), lastEndF lo (f ++ [x]) = x.1.2 := by
  intro f
  induction f with
  | nil => intro lo; rfl
  | cons e t ih => intro lo; simp only [List.cons_append, lastEndF, ih]

theorem segFrom_ends {lo : Nat} {f : FlatST} (h : SegFrom lo f) : lo ≤ lastEndF lo f ∧ ∀ e ∈ f, e.1.2 ≤ lastEndF lo f := by
  induction f generalizing lo with
  | nil => exact ⟨Nat.le_refl _, fun e he => by cases he⟩
  | cons a t ih =>
    obtain ⟨h1, h2, h3⟩ := h
    have := ih h3
    simp only [lastEndF]
    refine ⟨by omega, fun e he => ?_⟩
    cases he with
    | head => exact this.1
    | tail _ hm => exact this.2 e hm

/-- Invariant of the fold of `emit` over a prefix `pre` of the event sequence whose coordinates are `≤ cl`. -/
structure EInv (P : Space → Prop) (pre : List Ev) (cl : Nat) (sw : Sw) : Prop where
  seg : SegFrom 0 sw.out
  endLe : lastEndF 0 sw.out ≤ cl
  spaces : ∀ e ∈ sw.out, e.2 ≠ [] ∧ P e.2
  curNone : sw.cur = none → ∀ S, endState none pre = some S → S = []
  curSome : ∀ t0 p, sw.cur = some (t0, p) → endState none pre = some p ∧ p ≠ [] ∧ P p ∧ lastEndF 0 sw.out ≤ t0 ∧ t0 ≤ cl
  sem : ∀ t s, t < cl →
    ((memFlat t s sw.out ∨ ∃ t0 p, sw.cur = some (t0, p) ∧ t0 ≤ t ∧ mem s p) ↔
      ∃ S, stepAt none pre t = some S ∧ mem s S)

theorem not_memFlat_of_end_le {t s : Nat} {f : FlatST} (h : SegFrom 0 f) (hle : lastEndF 0 f ≤ t) : ¬ memFlat t s f := by
  rintro ⟨e, he, _, h2, _⟩
  have := (segFrom_ends h).2 e he
  omega

theorem EInv.step {P : Space → Prop} {pre : List Ev} {cl : Nat} {sw : Sw} (h : EInv P pre cl sw)
    (hpre : ∀ e ∈ pre, e.1 ≤ cl) (c : Nat) (x : Option Space) (hc : cl ≤ c) (hP : ∀ S, x = some S → P S) :
    EInv P (pre ++ [(c, x)]) c (emit sw (c, x)) := by
  -- what is known for the instants of `[cl, c)`: the state is the end state of `pre`
  have hmid : ∀ t, cl ≤ t → stepAt none pre t = endState none pre :=
    fun t ht => stepAt_all_le none pre t (fun e he => Nat.le_trans (hpre e he) ht)
  have hstep : ∀ t, t < c → stepAt none (pre ++ [(c, x)]) t = stepAt none pre t := by
    intro t ht; rw [stepAt_append]; simp only []; rw [if_neg (by omega)]
  have hend : endState none (pre ++ [(c, x)]) = x := endState_append none pre (c, x)
  have hnm : ∀ t s, cl ≤ t → ¬ memFlat t s sw.out :=
    fun t s ht => not_memFlat_of_end_le h.seg (Nat.le_trans h.endLe ht)
  cases hcur : sw.cur with
  | none =>
    have hE := h.curNone hcur
    -- semantic part shared by the three sub-cases: nothing is open, so nothing new is covered before `c`
    have hsemN : ∀ t s, t < c → (memFlat t s sw.out ↔ ∃ S, stepAt none pre t = some S ∧ mem s S) := by
      intro t s ht
      by_cases htl : t < cl
      · have := h.sem t s htl
        rw [hcur] at this
        simpa using this
      · have htl' : cl ≤ t := by omega
        rw [hmid t htl']
        constructor
        · intro hm; exact absurd hm (hnm t s htl')
        · rintro ⟨S, hS, hm⟩
          rw [hE S hS] at hm
          exact absurd hm (by simp)
    cases x with
    | none =>
      have he : emit sw (c, none) = sw := by simp [emit, hcur]
      rw [he]
      refine ⟨h.seg, Nat.le_trans h.endLe hc, h.spaces, fun _ S hS => (by rw [hend] at hS; cases hS), ?_, ?_⟩
      · intro t0 p hp; rw [hcur] at hp; cases hp
      · intro t s ht
        rw [hstep t ht, hcur]
        simpa using hsemN t s ht
    | some cr =>
      by_cases hemp : cr.isEmpty = true
      · have he : emit sw (c, some cr) = sw := by simp [emit, hcur, hemp]
        rw [he]
        refine ⟨h.seg, Nat.le_trans h.endLe hc, h.spaces, ?_, ?_, ?_⟩
        · intro _ S hS
          rw [hend] at hS
          injection hS with hS
          subst hS
          simpa using hemp
        · intro t0 p hp; rw [hcur] at hp; cases hp
        · intro t s ht
          rw [hstep t ht, hcur]
          simpa using hsemN t s ht
      · have he : emit sw (c, some cr) = { sw with cur := some (c, cr) } := by simp [emit, hcur, hemp]
        rw [he]
        refine ⟨h.seg, Nat.le_trans h.endLe hc, h.spaces, fun hn => (by cases hn), ?_, ?_⟩
        · intro t0 p hp
          simp only [Option.some.injEq, Prod.mk.injEq] at hp
          obtain ⟨rfl, rfl⟩ := hp
          refine ⟨hend, ?_, hP _ rfl, Nat.le_trans h.endLe hc, Nat.le_refl _⟩
          intro hnil; apply hemp; rw [hnil]; rfl
        · intro t s ht
          rw [hstep t ht]
          simp only [Option.some.injEq, Prod.mk.injEq]
          rw [← hsemN t s ht]
          constructor
          · rintro (hm | ⟨t0, p, ⟨rfl, rfl⟩, h1, _⟩)
            · exact hm
            · omega
          · exact Or.inl
  | some tp =>
    obtain ⟨t0, p⟩ := tp
    obtain ⟨hE, hpne, hPp, hle0, ht0⟩ := h.curSome t0 p hcur
    -- closing the open segment at `c`
    have hclose : ∀ t s, t < c →
        ((memFlat t s (sw.out ++ [((t0, c), p)])) ↔ ∃ S, stepAt none pre t = some S ∧ mem s S) := by
      intro t s ht
      rw [memFlat_append, memFlat_single]
      simp only []
      by_cases htl : t < cl
      · rw [← h.sem t s htl, hcur]
        simp only [Option.some.injEq, Prod.mk.injEq]
        constructor
        · rintro (hm | ⟨h1, _, h3⟩)
          · exact Or.inl hm
          · exact Or.inr ⟨t0, p, ⟨rfl, rfl⟩, h1, h3⟩
        · rintro (hm | ⟨t0', p', ⟨rfl, rfl⟩, h1, h3⟩)
          · exact Or.inl hm
          · exact Or.inr ⟨h1, ht, h3⟩
      · have htl' : cl ≤ t := by omega
        rw [hmid t htl', hE]
        constructor
        · rintro (hm | ⟨_, _, h3⟩)
          · exact absurd hm (hnm t s htl')
          · exact ⟨p, rfl, h3⟩
        · rintro ⟨S, hS, hm⟩
          injection hS with hS
          subst hS
          exact Or.inr ⟨by omega, ht, hm⟩
    have hsegc : SegFrom 0 (sw.out ++ [((t0, c), p)]) := by
      rw [segFrom_append]; exact ⟨h.seg, hle0, by simp only []; omega⟩
    have hendc : lastEndF 0 (sw.out ++ [((t0, c), p)]) = c := lastEndF_append _ _ _
    have hspc : ∀ e ∈ sw.out ++ [((t0, c), p)], e.2 ≠ [] ∧ P e.2 := by
      intro e he
      rcases List.mem_append.1 he with he | he
      · exact h.spaces e he
      · simp at he; subst he; exact ⟨hpne, hPp⟩
    cases x with
    | none =>
      have he : emit sw (c, none) = { out := sw.out ++ [((t0, c), p)], cur := none } := by simp [emit, hcur]
      rw [he]
      refine ⟨hsegc, by rw [hendc]; exact Nat.le_refl _, hspc, fun _ S hS => (by rw [hend] at hS; cases hS), ?_, ?_⟩
      · intro t0' p' hp; cases hp
      · intro t s ht
        rw [hstep t ht]
        simpa using hclose t s ht
    | some cr =>
      by_cases hemp : cr.isEmpty = true
      · have he : emit sw (c, some cr) = { out := sw.out ++ [((t0, c), p)], cur := none } := by
          simp [emit, hcur, hemp]
        rw [he]
        refine ⟨hsegc, by rw [hendc]; exact Nat.le_refl _, hspc, ?_, ?_, ?_⟩
        · intro _ S hS
          rw [hend] at hS
          injection hS with hS
          subst hS
          simpa using hemp
        · intro t0' p' hp; cases hp
        · intro t s ht
          rw [hstep t ht]
          simpa using hclose t s ht
      · by_cases hneq : (p != cr) = true
        · have he : emit sw (c, some cr) = { out := sw.out ++ [((t0, c), p)], cur := some (c, cr) } := by
            simp [emit, hcur, hemp, hneq]
          rw [he]
          refine ⟨hsegc, by rw [hendc]; exact Nat.le_refl _, hspc, fun hn => (by cases hn), ?_, ?_⟩
          · intro t0' p' hp
            simp only [Option.some.injEq, Prod.mk.injEq] at hp
            obtain ⟨rfl, rfl⟩ := hp
            refine ⟨hend, ?_, hP _ rfl, by rw [hendc]; exact Nat.le_refl _, Nat.le_refl _⟩
            intro hnil; apply hemp; rw [hnil]; rfl
          · intro t s ht
            rw [hstep t ht]
            simp only [Option.some.injEq, Prod.mk.injEq]
            rw [← hclose t s ht]
            constructor
            · rintro (hm | ⟨t0', p', ⟨rfl, rfl⟩, h1, _⟩)
              · exact hm
              · omega
            · exact Or.inl
        · have hpeq : p = cr := by
            have : (p != cr) = false := by simpa using hneq
            simpa using this
          subst hpeq
          have he : emit sw (c, some p) = sw := by simp [emit, hcur, hemp]
          rw [he]
          refine ⟨h.seg, Nat.le_trans h.endLe hc, h.spaces, fun hn => (by rw [hcur] at hn; cases hn), ?_, ?_⟩
          · intro t0' p' hp
            rw [hcur] at hp
            simp only [Option.some.injEq, Prod.mk.injEq] at hp
            obtain ⟨rfl, rfl⟩ := hp
            exact ⟨hend, hpne, hPp, hle0, Nat.le_trans ht0 hc⟩
          · intro t s ht
            rw [hstep t ht, hcur]
            simp only [Option.some.injEq, Prod.mk.injEq]
            by_cases htl : t < cl
            · have := h.sem t s htl
              rw [hcur] at this
              simpa using this
            · have htl' : cl ≤ t := by omega
              rw [hmid t htl', hE]
              constructor
              · rintro (hm | ⟨t0', p', ⟨rfl, rfl⟩, _, h3⟩)
                · exact absurd hm (hnm t s htl')
                · exact ⟨p, rfl, h3⟩
              · rintro ⟨S, hS, hm⟩
                injection hS with hS
                subst hS
                exact Or.inr ⟨t0, p, ⟨rfl, rfl⟩, by omega, hm⟩

end Moc.Merge2D
