/-
  C10 — correctness of the transliterated `Ranges2D::merge` sweep (`Model/Merge2D.lean`).
-/
import MocVerif.Model.Merge2D
import MocVerif.Lemmas.SetOps
import MocVerif.Lemmas.Sweep

namespace Moc.Merge2D
open Moc

/-! ### step functions -/

/-- State after the events of coordinate `≤ t` (for a list of non-decreasing coordinates: the state after the
    last such event). -/
def stepAt (init : Option Space) (l : List Ev) (t : Nat) : Option Space :=
  l.foldl (fun st e => if e.1 ≤ t then e.2 else st) init

@[simp] theorem stepAt_nil (init : Option Space) (t : Nat) : stepAt init [] t = init := rfl
theorem stepAt_cons (init : Option Space) (e : Ev) (l : List Ev) (t : Nat) :
    stepAt init (e :: l) t = stepAt (if e.1 ≤ t then e.2 else init) l t := rfl

/-- Coordinates non-decreasing, all `≥ lo`. -/
def SortedEv (lo : Nat) : List Ev → Prop
  | [] => True
  | e :: t => lo ≤ e.1 ∧ SortedEv e.1 t

theorem SortedEv.mono {lo lo' : Nat} {l : List Ev} (h : SortedEv lo l) (hle : lo' ≤ lo) : SortedEv lo' l := by
  cases l with
  | nil => trivial
  | cons e t => exact ⟨Nat.le_trans hle h.1, h.2⟩

theorem SortedEv.ge {lo : Nat} {l : List Ev} (h : SortedEv lo l) : ∀ e ∈ l, lo ≤ e.1 := by
  induction l generalizing lo with
  | nil => intro e he; cases he
  | cons a t ih =>
    intro e he
    cases he with
    | head => exact h.1
    | tail _ hm => exact Nat.le_trans h.1 (ih h.2 e hm)

theorem stepAt_all_gt (init : Option Space) (l : List Ev) (t : Nat) (h : ∀ e ∈ l, t < e.1) :
    stepAt init l t = init := by
  induction l generalizing init with
  | nil => rfl
  | cons e r ih =>
    rw [stepAt_cons, if_neg (by have := h e List.mem_cons_self; omega)]
    exact ih init (fun x hx => h x (List.mem_cons_of_mem _ hx))

/-- The list ends on a falling edge, and an exhausted list is in the state "outside". -/
def EndsNone (l : List Ev) (st : Option Space) : Prop :=
  (l = [] → st = none) ∧ ∀ e, l.getLast? = some e → e.2 = none

theorem EndsNone.tail {e : Ev} {t : List Ev} {st : Option Space} (h : EndsNone (e :: t) st) : EndsNone t e.2 := by
  constructor
  · intro ht; subst ht; exact h.2 e rfl
  · intro x hx
    apply h.2 x
    cases t with
    | nil => cases hx
    | cons a r => rw [List.getLast?_cons_cons]; exact hx

theorem mem_mergeEvents_ge (op : Op) : ∀ (l1 l2 : List Ev) (st1 st2 : Option Space) (lo : Nat),
    SortedEv lo l1 → SortedEv lo l2 → SortedEv lo (mergeEvents op l1 l2 st1 st2) := by
  intro l1 l2 st1 st2
  fun_induction mergeEvents op l1 l2 st1 st2 with
  | case1 => intro lo _ _; trivial
  | case2 c x2 t2 st1 _ ih => intro lo h1 h2; exact ⟨h2.1, ih c trivial h2.2⟩
  | case3 c x1 t1 _ st2 ih => intro lo h1 h2; exact ⟨h1.1, ih c h1.2 trivial⟩
  | case4 v1 x1 t1 v2 x2 t2 st1 st2 hlt ih =>
    intro lo h1 h2
    exact ⟨h1.1, ih v1 h1.2 ⟨Nat.le_of_lt hlt, h2.2⟩⟩
  | case5 v1 x1 t1 v2 x2 t2 st1 st2 hn hlt ih =>
    intro lo h1 h2
    exact ⟨h2.1, ih v2 ⟨Nat.le_of_lt hlt, h1.2⟩ h2.2⟩
  | case6 v1 x1 t1 v2 x2 t2 st1 st2 hn1 hn2 ih =>
    intro lo h1 h2
    have : v1 = v2 := by omega
    subst this
    exact ⟨h1.1, ih v1 h1.2 h2.2⟩

/-- **The merged sequence is the point-wise operation of the two step functions.** -/
theorem mergeEvents_step (op : Op) : ∀ (l1 l2 : List Ev) (st1 st2 : Option Space) (lo : Nat),
    SortedEv lo l1 → SortedEv lo l2 → EndsNone l1 st1 → EndsNone l2 st2 →
    ∀ t, stepAt (op.apply st1 st2) (mergeEvents op l1 l2 st1 st2) t =
      op.apply (stepAt st1 l1 t) (stepAt st2 l2 t) := by
  intro l1 l2 st1 st2
  fun_induction mergeEvents op l1 l2 st1 st2 with
  | case1 => intro lo _ _ _ _ t; rfl
  | case2 c x2 t2 st1 st2 ih =>
    intro lo h1 h2 e1 e2 t
    have hs1 : st1 = none := e1.1 rfl
    subst hs1
    rw [stepAt_cons, stepAt_cons]
    simp only [stepAt_nil]
    by_cases hc : c ≤ t
    · simp only [hc, if_true]
      have := ih c trivial h2.2 e1 e2.tail t
      simpa using this
    · simp only [hc, if_false]
      have hgt : ∀ e ∈ t2, t < e.1 := fun e he => by have := h2.2.ge e he; omega
      rw [stepAt_all_gt _ t2 t hgt]
      apply stepAt_all_gt
      intro e he
      have := (mem_mergeEvents_ge op [] t2 none x2 c trivial h2.2).ge e he
      omega
  | case3 c x1 t1 st1 st2 ih =>
    intro lo h1 h2 e1 e2 t
    have hs2 : st2 = none := e2.1 rfl
    subst hs2
    rw [stepAt_cons, stepAt_cons]
    simp only [stepAt_nil]
    by_cases hc : c ≤ t
    · simp only [hc, if_true]
      have := ih c h1.2 trivial e1.tail e2 t
      simpa using this
    · simp only [hc, if_false]
      have hgt : ∀ e ∈ t1, t < e.1 := fun e he => by have := h1.2.ge e he; omega
      rw [stepAt_all_gt _ t1 t hgt]
      apply stepAt_all_gt
      intro e he
      have := (mem_mergeEvents_ge op t1 [] x1 none c h1.2 trivial).ge e he
      omega
  | case4 v1 x1 t1 v2 x2 t2 st1 st2 hlt ih =>
    intro lo h1 h2 e1 e2 t
    rw [stepAt_cons, stepAt_cons]
    by_cases hc : v1 ≤ t
    · simp only [hc, if_true]
      exact ih v1 h1.2 ⟨Nat.le_of_lt hlt, h2.2⟩ e1.tail e2 t
    · simp only [hc, if_false]
      have hg1 : ∀ e ∈ t1, t < e.1 := fun e he => by have := h1.2.ge e he; omega
      have hg2 : ∀ e ∈ (v2, x2) :: t2, t < e.1 := fun e he => by
        have := (show SortedEv v2 ((v2, x2) :: t2) from ⟨Nat.le_refl _, h2.2⟩).ge e he; omega
      rw [stepAt_all_gt _ t1 t hg1, stepAt_all_gt _ _ t hg2]
      apply stepAt_all_gt
      intro e he
      have := (mem_mergeEvents_ge op t1 ((v2, x2) :: t2) x1 st2 v1 h1.2 ⟨Nat.le_of_lt hlt, h2.2⟩).ge e he
      omega
  | case5 v1 x1 t1 v2 x2 t2 st1 st2 hn hlt ih =>
    intro lo h1 h2 e1 e2 t
    rw [stepAt_cons]
    conv => rhs; rw [stepAt_cons (e := (v2, x2))]
    by_cases hc : v2 ≤ t
    · simp only [hc, if_true]
      exact ih v2 ⟨Nat.le_of_lt hlt, h1.2⟩ h2.2 e1 e2.tail t
    · simp only [hc, if_false]
      have hg2 : ∀ e ∈ t2, t < e.1 := fun e he => by have := h2.2.ge e he; omega
      have hg1 : ∀ e ∈ (v1, x1) :: t1, t < e.1 := fun e he => by
        have := (show SortedEv v1 ((v1, x1) :: t1) from ⟨Nat.le_refl _, h1.2⟩).ge e he; omega
      rw [stepAt_all_gt _ t2 t hg2, stepAt_all_gt _ _ t hg1]
      apply stepAt_all_gt
      intro e he
      have := (mem_mergeEvents_ge op ((v1, x1) :: t1) t2 st1 x2 v2 ⟨Nat.le_of_lt hlt, h1.2⟩ h2.2).ge e he
      omega
  | case6 v1 x1 t1 v2 x2 t2 st1 st2 hn1 hn2 ih =>
    intro lo h1 h2 e1 e2 t
    have : v1 = v2 := by omega
    subst this
    rw [stepAt_cons, stepAt_cons]
    conv => rhs; rw [stepAt_cons (e := (v1, x2))]
    by_cases hc : v1 ≤ t
    · simp only [hc, if_true]
      exact ih v1 h1.2 h2.2 e1.tail e2.tail t
    · simp only [hc, if_false]
      have hg1 : ∀ e ∈ t1, t < e.1 := fun e he => by have := h1.2.ge e he; omega
      have hg2 : ∀ e ∈ t2, t < e.1 := fun e he => by have := h2.2.ge e he; omega
      rw [stepAt_all_gt _ t1 t hg1, stepAt_all_gt _ t2 t hg2]
      apply stepAt_all_gt
      intro e he
      have := (mem_mergeEvents_ge op t1 t2 x1 x2 v1 h1.2 h2.2).ge e he
      omega

end Moc.Merge2D

namespace Moc.Merge2D
open Moc

/-! ### from the event sequence to segments -/

/-- `(t, s)` is covered by a flat coverage. -/
def memFlat (t s : Nat) (f : FlatST) : Prop := ∃ e ∈ f, e.1.1 ≤ t ∧ t < e.1.2 ∧ mem s e.2

theorem memFlat_append (t s : Nat) (a b : FlatST) : memFlat t s (a ++ b) ↔ memFlat t s a ∨ memFlat t s b := by
  unfold memFlat
  constructor
  · rintro ⟨e, he, h⟩
    rcases List.mem_append.1 he with h' | h'
    · exact Or.inl ⟨e, h', h⟩
    · exact Or.inr ⟨e, h', h⟩
  · rintro (⟨e, he, h⟩ | ⟨e, he, h⟩)
    · exact ⟨e, List.mem_append_left _ he, h⟩
    · exact ⟨e, List.mem_append_right _ he, h⟩

theorem memFlat_single (t s : Nat) (x : Rng × Space) : memFlat t s [x] ↔ x.1.1 ≤ t ∧ t < x.1.2 ∧ mem s x.2 := by
  unfold memFlat
  constructor
  · rintro ⟨e, he, h⟩; simp at he; subst he; exact h
  · intro h; exact ⟨x, List.mem_cons_self, h⟩

/-- State after all the events. -/
def endState (init : Option Space) (l : List Ev) : Option Space := l.foldl (fun _ e => e.2) init

theorem endState_append (init : Option Space) (l : List Ev) (e : Ev) : endState init (l ++ [e]) = e.2 := by
  simp [endState, List.foldl_append]

theorem stepAt_append (init : Option Space) (l : List Ev) (e : Ev) (t : Nat) :
    stepAt init (l ++ [e]) t = if e.1 ≤ t then e.2 else stepAt init l t := by
  simp [stepAt, List.foldl_append]

theorem stepAt_all_le (init : Option Space) (l : List Ev) (t : Nat) (h : ∀ e ∈ l, e.1 ≤ t) :
    stepAt init l t = endState init l := by
  induction l generalizing init with
  | nil => rfl
  | cons e r ih =>
    rw [stepAt_cons, if_pos (h e List.mem_cons_self)]
    exact ih e.2 (fun x hx => h x (List.mem_cons_of_mem _ hx))

/-- Closed segments in order: each starts at or after the end of the previous one (`lo`), is not reversed. -/
def SegFrom (lo : Nat) : FlatST → Prop
  | [] => True
  | e :: t => lo ≤ e.1.1 ∧ e.1.1 ≤ e.1.2 ∧ SegFrom e.1.2 t

/-- End of the last segment (`lo` if none). -/
def lastEndF (lo : Nat) : FlatST → Nat
  | [] => lo
  | e :: t => lastEndF e.1.2 t

theorem segFrom_append (x : Rng × Space) : ∀ (f : FlatST) (lo : Nat),
    SegFrom lo (f ++ [x]) ↔ SegFrom lo f ∧ lastEndF lo f ≤ x.1.1 ∧ x.1.1 ≤ x.1.2 := by
  intro f
  induction f with
  | nil => intro lo; simp [SegFrom, lastEndF]
  | cons e t ih =>
    intro lo
    simp only [List.cons_append, SegFrom, lastEndF, ih e.1.2]
    constructor
    · rintro ⟨a, b, c, d, e'⟩; exact ⟨⟨a, b, c⟩, d, e'⟩
    · rintro ⟨⟨a, b, c⟩, d, e'⟩; exact ⟨a, b, c, d, e'⟩

theorem lastEndF_append (x : Rng × Space) : ∀ (f : FlatST) (lo : Nat), lastEndF lo (f ++ [x]) = x.1.2 := by
  intro f
  induction f with
  | nil => intro lo; rfl
  | cons e t ih => intro lo; simp only [List.cons_append, lastEndF, ih]

theorem segFrom_ends {lo : Nat} {f : FlatST} (h : SegFrom lo f) : lo ≤ lastEndF lo f ∧ ∀ e ∈ f, e.1.2 ≤ lastEndF lo f := by
  induction f generalizing lo with
  | nil => exact ⟨Nat.le_refl _, fun e he => by cases he⟩
  | cons a t ih =>
    obtain ⟨h1, h2, h3⟩ := h
    have := ih h3
    simp only [lastEndF]
    refine ⟨by omega, fun e he => ?_⟩
    cases he with
    | head => exact this.1
    | tail _ hm => exact this.2 e hm

/-- Invariant of the fold of `emit` over a prefix `pre` of the event sequence whose coordinates are `≤ cl`. -/
structure EInv (P : Space → Prop) (pre : List Ev) (cl : Nat) (sw : Sw) : Prop where
  seg : SegFrom 0 sw.out
  endLe : lastEndF 0 sw.out ≤ cl
  spaces : ∀ e ∈ sw.out, e.2 ≠ [] ∧ P e.2
  curNone : sw.cur = none → ∀ S, endState none pre = some S → S = []
  curSome : ∀ t0 p, sw.cur = some (t0, p) → endState none pre = some p ∧ p ≠ [] ∧ P p ∧ lastEndF 0 sw.out ≤ t0 ∧ t0 ≤ cl
  sem : ∀ t s, t < cl →
    ((memFlat t s sw.out ∨ ∃ t0 p, sw.cur = some (t0, p) ∧ t0 ≤ t ∧ mem s p) ↔
      ∃ S, stepAt none pre t = some S ∧ mem s S)

theorem not_memFlat_of_end_le {t s : Nat} {f : FlatST} (h : SegFrom 0 f) (hle : lastEndF 0 f ≤ t) : ¬ memFlat t s f := by
  rintro ⟨e, he, _, h2, _⟩
  have := (segFrom_ends h).2 e he
  omega

theorem EInv.step {P : Space → Prop} {pre : List Ev} {cl : Nat} {sw : Sw} (h : EInv P pre cl sw)
    (hpre : ∀ e ∈ pre, e.1 ≤ cl) (c : Nat) (x : Option Space) (hc : cl ≤ c) (hP : ∀ S, x = some S → P S) :
    EInv P (pre ++ [(c, x)]) c (emit sw (c, x)) := by
  -- what is known for the instants of `[cl, c)`: the state is the end state of `pre`
  have hmid : ∀ t, cl ≤ t → stepAt none pre t = endState none pre :=
    fun t ht => stepAt_all_le none pre t (fun e he => Nat.le_trans (hpre e he) ht)
  have hstep : ∀ t, t < c → stepAt none (pre ++ [(c, x)]) t = stepAt none pre t := by
    intro t ht; rw [stepAt_append]; simp only []; rw [if_neg (by omega)]
  have hend : endState none (pre ++ [(c, x)]) = x := endState_append none pre (c, x)
  have hnm : ∀ t s, cl ≤ t → ¬ memFlat t s sw.out :=
    fun t s ht => not_memFlat_of_end_le h.seg (Nat.le_trans h.endLe ht)
  cases hcur : sw.cur with
  | none =>
    have hE := h.curNone hcur
    -- semantic part shared by the three sub-cases: nothing is open, so nothing new is covered before `c`
    have hsemN : ∀ t s, t < c → (memFlat t s sw.out ↔ ∃ S, stepAt none pre t = some S ∧ mem s S) := by
      intro t s ht
      by_cases htl : t < cl
      · have := h.sem t s htl
        rw [hcur] at this
        simpa using this
      · have htl' : cl ≤ t := by omega
        rw [hmid t htl']
        constructor
        · intro hm; exact absurd hm (hnm t s htl')
        · rintro ⟨S, hS, hm⟩
          rw [hE S hS] at hm
          exact absurd hm (by simp)
    cases x with
    | none =>
      have he : emit sw (c, none) = sw := by simp [emit, hcur]
      rw [he]
      refine ⟨h.seg, Nat.le_trans h.endLe hc, h.spaces, fun _ S hS => (by rw [hend] at hS; cases hS), ?_, ?_⟩
      · intro t0 p hp; rw [hcur] at hp; cases hp
      · intro t s ht
        rw [hstep t ht, hcur]
        simpa using hsemN t s ht
    | some cr =>
      by_cases hemp : cr.isEmpty = true
      · have he : emit sw (c, some cr) = sw := by simp [emit, hcur, hemp]
        rw [he]
        refine ⟨h.seg, Nat.le_trans h.endLe hc, h.spaces, ?_, ?_, ?_⟩
        · intro _ S hS
          rw [hend] at hS
          injection hS with hS
          subst hS
          simpa using hemp
        · intro t0 p hp; rw [hcur] at hp; cases hp
        · intro t s ht
          rw [hstep t ht, hcur]
          simpa using hsemN t s ht
      · have he : emit sw (c, some cr) = { sw with cur := some (c, cr) } := by simp [emit, hcur, hemp]
        rw [he]
        refine ⟨h.seg, Nat.le_trans h.endLe hc, h.spaces, fun hn => (by cases hn), ?_, ?_⟩
        · intro t0 p hp
          simp only [Option.some.injEq, Prod.mk.injEq] at hp
          obtain ⟨rfl, rfl⟩ := hp
          refine ⟨hend, ?_, hP _ rfl, Nat.le_trans h.endLe hc, Nat.le_refl _⟩
          intro hnil; apply hemp; rw [hnil]; rfl
        · intro t s ht
          rw [hstep t ht]
          simp only [Option.some.injEq, Prod.mk.injEq]
          rw [← hsemN t s ht]
          constructor
          · rintro (hm | ⟨t0, p, ⟨rfl, rfl⟩, h1, _⟩)
            · exact hm
            · omega
          · exact Or.inl
  | some tp =>
    obtain ⟨t0, p⟩ := tp
    obtain ⟨hE, hpne, hPp, hle0, ht0⟩ := h.curSome t0 p hcur
    -- closing the open segment at `c`
    have hclose : ∀ t s, t < c →
        ((memFlat t s (sw.out ++ [((t0, c), p)])) ↔ ∃ S, stepAt none pre t = some S ∧ mem s S) := by
      intro t s ht
      rw [memFlat_append, memFlat_single]
      simp only []
      by_cases htl : t < cl
      · rw [← h.sem t s htl, hcur]
        simp only [Option.some.injEq, Prod.mk.injEq]
        constructor
        · rintro (hm | ⟨h1, _, h3⟩)
          · exact Or.inl hm
          · exact Or.inr ⟨t0, p, ⟨rfl, rfl⟩, h1, h3⟩
        · rintro (hm | ⟨t0', p', ⟨rfl, rfl⟩, h1, h3⟩)
          · exact Or.inl hm
          · exact Or.inr ⟨h1, ht, h3⟩
      · have htl' : cl ≤ t := by omega
        rw [hmid t htl', hE]
        constructor
        · rintro (hm | ⟨_, _, h3⟩)
          · exact absurd hm (hnm t s htl')
          · exact ⟨p, rfl, h3⟩
        · rintro ⟨S, hS, hm⟩
          injection hS with hS
          subst hS
          exact Or.inr ⟨by omega, ht, hm⟩
    have hsegc : SegFrom 0 (sw.out ++ [((t0, c), p)]) := by
      rw [segFrom_append]; exact ⟨h.seg, hle0, by simp only []; omega⟩
    have hendc : lastEndF 0 (sw.out ++ [((t0, c), p)]) = c := lastEndF_append _ _ _
    have hspc : ∀ e ∈ sw.out ++ [((t0, c), p)], e.2 ≠ [] ∧ P e.2 := by
      intro e he
      rcases List.mem_append.1 he with he | he
      · exact h.spaces e he
      · simp at he; subst he; exact ⟨hpne, hPp⟩
    cases x with
    | none =>
      have he : emit sw (c, none) = { out := sw.out ++ [((t0, c), p)], cur := none } := by simp [emit, hcur]
      rw [he]
      refine ⟨hsegc, by rw [hendc]; exact Nat.le_refl _, hspc, fun _ S hS => (by rw [hend] at hS; cases hS), ?_, ?_⟩
      · intro t0' p' hp; cases hp
      · intro t s ht
        rw [hstep t ht]
        simpa using hclose t s ht
    | some cr =>
      by_cases hemp : cr.isEmpty = true
      · have he : emit sw (c, some cr) = { out := sw.out ++ [((t0, c), p)], cur := none } := by
          simp [emit, hcur, hemp]
        rw [he]
        refine ⟨hsegc, by rw [hendc]; exact Nat.le_refl _, hspc, ?_, ?_, ?_⟩
        · intro _ S hS
          rw [hend] at hS
          injection hS with hS
          subst hS
          simpa using hemp
        · intro t0' p' hp; cases hp
        · intro t s ht
          rw [hstep t ht]
          simpa using hclose t s ht
      · by_cases hneq : (p != cr) = true
        · have he : emit sw (c, some cr) = { out := sw.out ++ [((t0, c), p)], cur := some (c, cr) } := by
            simp [emit, hcur, hemp, hneq]
          rw [he]
          refine ⟨hsegc, by rw [hendc]; exact Nat.le_refl _, hspc, fun hn => (by cases hn), ?_, ?_⟩
          · intro t0' p' hp
            simp only [Option.some.injEq, Prod.mk.injEq] at hp
            obtain ⟨rfl, rfl⟩ := hp
            refine ⟨hend, ?_, hP _ rfl, by rw [hendc]; exact Nat.le_refl _, Nat.le_refl _⟩
            intro hnil; apply hemp; rw [hnil]; rfl
          · intro t s ht
            rw [hstep t ht]
            simp only [Option.some.injEq, Prod.mk.injEq]
            rw [← hclose t s ht]
            constructor
            · rintro (hm | ⟨t0', p', ⟨rfl, rfl⟩, h1, _⟩)
              · exact hm
              · omega
            · exact Or.inl
        · have hpeq : p = cr := by
            have : (p != cr) = false := by simpa using hneq
            simpa using this
          subst hpeq
          have he : emit sw (c, some p) = sw := by simp [emit, hcur, hemp]
          rw [he]
          refine ⟨h.seg, Nat.le_trans h.endLe hc, h.spaces, fun hn => (by rw [hcur] at hn; cases hn), ?_, ?_⟩
          · intro t0' p' hp
            rw [hcur] at hp
            simp only [Option.some.injEq, Prod.mk.injEq] at hp
            obtain ⟨rfl, rfl⟩ := hp
            exact ⟨hend, hpne, hPp, hle0, Nat.le_trans ht0 hc⟩
          · intro t s ht
            rw [hstep t ht, hcur]
            simp only [Option.some.injEq, Prod.mk.injEq]
            by_cases htl : t < cl
            · have := h.sem t s htl
              rw [hcur] at this
              simpa using this
            · have htl' : cl ≤ t := by omega
              rw [hmid t htl', hE]
              constructor
              · rintro (hm | ⟨t0', p', ⟨rfl, rfl⟩, _, h3⟩)
                · exact absurd hm (hnm t s htl')
                · exact ⟨p, rfl, h3⟩
              · rintro ⟨S, hS, hm⟩
                injection hS with hS
                subst hS
                exact Or.inr ⟨t0, p, ⟨rfl, rfl⟩, by omega, hm⟩

end Moc.Merge2D

namespace Moc.Merge2D
open Moc

theorem EInv.foldl {P : Space → Prop} : ∀ (rest pre : List Ev) (cl : Nat) (sw : Sw), EInv P pre cl sw →
    (∀ e ∈ pre, e.1 ≤ cl) → SortedEv cl rest → (∀ e ∈ rest, ∀ S, e.2 = some S → P S) →
    ∃ cl', EInv P (pre ++ rest) cl' (rest.foldl emit sw) ∧ (∀ e ∈ pre ++ rest, e.1 ≤ cl') := by
  intro rest
  induction rest with
  | nil => intro pre cl sw h hp _ _; exact ⟨cl, by simpa using h, by simpa using hp⟩
  | cons e r ih =>
    intro pre cl sw h hp hs hP
    obtain ⟨c, x⟩ := e
    have hst := h.step hp c x hs.1 (fun S hS => hP (c, x) List.mem_cons_self S hS)
    have hp' : ∀ e ∈ pre ++ [(c, x)], e.1 ≤ c := by
      intro e he
      rcases List.mem_append.1 he with he | he
      · exact Nat.le_trans (hp e he) hs.1
      · simp at he; subst he; exact Nat.le_refl _
    obtain ⟨cl', h1, h2⟩ := ih (pre ++ [(c, x)]) c (emit sw (c, x)) hst hp' hs.2
      (fun e he => hP e (List.mem_cons_of_mem _ he))
    refine ⟨cl', ?_, ?_⟩
    · simpa [List.append_assoc] using h1
    · simpa [List.append_assoc] using h2

theorem EInv.init (P : Space → Prop) : EInv P [] 0 {} :=
  ⟨trivial, Nat.le_refl _, fun e he => (by cases he), fun _ S hS => (by cases hS),
   fun t0 p hp => (by cases hp), fun t s ht => (by omega)⟩

/-- **Segments of an event sequence**: if the sequence ends in the state "outside", the closed segments
    produced by the loop cover exactly the step function, are in order and carry non-empty coverages. -/
theorem segments_spec (P : Space → Prop) (L : List Ev) (hs : SortedEv 0 L)
    (hP : ∀ e ∈ L, ∀ S, e.2 = some S → P S) (hend : endState none L = none) :
    SegFrom 0 (L.foldl emit {}).out ∧ (∀ e ∈ (L.foldl emit {}).out, e.2 ≠ [] ∧ P e.2) ∧
    ∀ t s, memFlat t s (L.foldl emit {}).out ↔ ∃ S, stepAt none L t = some S ∧ mem s S := by
  obtain ⟨cl, h, hle⟩ := EInv.foldl L [] 0 {} (EInv.init P) (fun e he => by cases he) hs hP
  simp only [List.nil_append] at h hle
  have hcur : (L.foldl emit {}).cur = none := by
    cases hc : (L.foldl emit {}).cur with
    | none => rfl
    | some tp =>
      obtain ⟨t0, p⟩ := tp
      have := (h.curSome t0 p hc).1
      rw [hend] at this; cases this
  refine ⟨h.seg, h.spaces, fun t s => ?_⟩
  by_cases ht : t < cl
  · have := h.sem t s ht
    rw [hcur] at this
    simpa using this
  · have ht' : cl ≤ t := by omega
    rw [stepAt_all_le none L t (fun e he => Nat.le_trans (hle e he) ht'), hend]
    constructor
    · intro hm; exact absurd hm (not_memFlat_of_end_le h.seg (Nat.le_trans h.endLe ht'))
    · rintro ⟨S, hS, _⟩; cases hS

end Moc.Merge2D

namespace Moc.Merge2D
open Moc

/-! ### the final pass -/

/-- Valid flat coverage: time ranges non-empty, in order, not overlapping, coverages non-empty and satisfying
    `P`, and two touching ranges never carry the same coverage (`pe`, `ps`: end and coverage of the previous
    entry). -/
def VF (P : Space → Prop) (pe : Nat) (ps : Option Space) : FlatST → Prop
  | [] => True
  | e :: t => pe ≤ e.1.1 ∧ e.1.1 < e.1.2 ∧ e.2 ≠ [] ∧ P e.2 ∧ ¬ (pe = e.1.1 ∧ ps = some e.2) ∧
      VF P e.1.2 (some e.2) t

theorem SegFrom.mono {lo lo' : Nat} {f : FlatST} (h : SegFrom lo f) (hle : lo' ≤ lo) : SegFrom lo' f := by
  cases f with
  | nil => trivial
  | cons e t => exact ⟨Nat.le_trans hle h.1, h.2.1, h.2.2⟩

theorem postPassFrom_spec (P : Space → Prop) : ∀ (rest : FlatST) (c : Rng × Space) (pe : Nat) (ps : Option Space),
    pe ≤ c.1.1 → c.1.1 < c.1.2 → c.2 ≠ [] → P c.2 → ¬ (pe = c.1.1 ∧ ps = some c.2) →
    SegFrom c.1.2 rest → (∀ e ∈ rest, e.2 ≠ [] ∧ P e.2) →
    VF P pe ps (postPassFrom c rest) ∧
    ∀ t s, memFlat t s (postPassFrom c rest) ↔ (c.1.1 ≤ t ∧ t < c.1.2 ∧ mem s c.2) ∨ memFlat t s rest := by
  intro rest
  induction rest with
  | nil =>
    intro c pe ps h1 h2 h3 h4 h5 _ _
    refine ⟨⟨h1, h2, h3, h4, h5, trivial⟩, fun t s => ?_⟩
    simp only [postPassFrom]
    rw [memFlat_single]
    constructor
    · exact Or.inl
    · rintro (h | ⟨e, he, _⟩)
      · exact h
      · cases he
  | cons x rest ih =>
    intro c pe ps h1 h2 h3 h4 h5 hseg hsp
    obtain ⟨tr, sp⟩ := x
    obtain ⟨g1, g2, g3⟩ := hseg
    simp only [] at g1 g2 g3
    have hsp' : ∀ e ∈ rest, e.2 ≠ [] ∧ P e.2 := fun e he => hsp e (List.mem_cons_of_mem _ he)
    have hx := hsp (tr, sp) List.mem_cons_self
    simp only [postPassFrom]
    by_cases hlt : tr.1 < tr.2
    · rw [if_pos hlt]
      by_cases hfuse : (decide (c.1.2 = tr.1) && c.2 == sp) = true
      · rw [if_pos hfuse]
        simp only [Bool.and_eq_true, decide_eq_true_eq, beq_iff_eq] at hfuse
        obtain ⟨f1, f2⟩ := hfuse
        have := ih ((c.1.1, tr.2), c.2) pe ps h1 (by simp only []; omega) h3 h4 h5 g3 hsp'
        refine ⟨this.1, fun t s => ?_⟩
        rw [this.2 t s]
        simp only []
        have hcons : memFlat t s ((tr, sp) :: rest) ↔ (tr.1 ≤ t ∧ t < tr.2 ∧ mem s sp) ∨ memFlat t s rest := by
          rw [show ((tr, sp) :: rest) = [(tr, sp)] ++ rest from rfl, memFlat_append, memFlat_single]
        rw [hcons, ← f2]
        constructor
        · rintro (⟨a, b, m⟩ | h)
          · by_cases hb : t < c.1.2
            · exact Or.inl ⟨a, hb, m⟩
            · exact Or.inr (Or.inl ⟨by omega, b, m⟩)
          · exact Or.inr (Or.inr h)
        · rintro (⟨a, b, m⟩ | ⟨a, b, m⟩ | h)
          · exact Or.inl ⟨a, by omega, m⟩
          · exact Or.inl ⟨by omega, b, m⟩
          · exact Or.inr h
      · rw [if_neg hfuse]
        have hnf : ¬ (c.1.2 = tr.1 ∧ some c.2 = some sp) := by
          rintro ⟨a, b⟩
          apply hfuse
          injection b with b
          simp [a, b]
        have := ih (tr, sp) c.1.2 (some c.2) g1 hlt hx.1 hx.2 hnf g3 hsp'
        refine ⟨⟨h1, h2, h3, h4, h5, this.1⟩, fun t s => ?_⟩
        rw [show (c :: postPassFrom (tr, sp) rest) = [c] ++ postPassFrom (tr, sp) rest from rfl, memFlat_append,
          memFlat_single, this.2 t s]
        rw [show ((tr, sp) :: rest) = [(tr, sp)] ++ rest from rfl, memFlat_append, memFlat_single]
    · rw [if_neg hlt]
      have := ih c pe ps h1 h2 h3 h4 h5 (g3.mono (by omega)) hsp'
      refine ⟨this.1, fun t s => ?_⟩
      rw [this.2 t s, show ((tr, sp) :: rest) = [(tr, sp)] ++ rest from rfl, memFlat_append, memFlat_single]
      simp only []
      constructor
      · rintro (h | h)
        · exact Or.inl h
        · exact Or.inr (Or.inr h)
      · rintro (h | ⟨a, b, _⟩ | h)
        · exact Or.inl h
        · omega
        · exact Or.inr h

theorem postPass_spec (P : Space → Prop) : ∀ (f : FlatST) (lo : Nat), SegFrom lo f → (∀ e ∈ f, e.2 ≠ [] ∧ P e.2) →
    VF P lo none (postPass f) ∧ ∀ t s, memFlat t s (postPass f) ↔ memFlat t s f := by
  intro f
  induction f with
  | nil => intro lo _ _; exact ⟨trivial, fun t s => Iff.rfl⟩
  | cons x rest ih =>
    intro lo hseg hsp
    obtain ⟨tr, sp⟩ := x
    obtain ⟨g1, g2, g3⟩ := hseg
    simp only [] at g1 g2 g3
    have hsp' : ∀ e ∈ rest, e.2 ≠ [] ∧ P e.2 := fun e he => hsp e (List.mem_cons_of_mem _ he)
    have hx := hsp (tr, sp) List.mem_cons_self
    simp only [postPass]
    by_cases hlt : tr.1 < tr.2
    · rw [if_pos hlt]
      have := postPassFrom_spec P rest (tr, sp) lo none g1 hlt hx.1 hx.2 (by rintro ⟨_, h⟩; cases h) g3 hsp'
      refine ⟨this.1, fun t s => ?_⟩
      rw [this.2 t s, show ((tr, sp) :: rest) = [(tr, sp)] ++ rest from rfl, memFlat_append, memFlat_single]
    · rw [if_neg hlt]
      have := ih lo (g3.mono (by omega)) hsp'
      refine ⟨this.1, fun t s => ?_⟩
      rw [this.2 t s, show ((tr, sp) :: rest) = [(tr, sp)] ++ rest from rfl, memFlat_append, memFlat_single]
      simp only []
      constructor
      · exact Or.inr
      · rintro (⟨a, b, _⟩ | h)
        · omega
        · exact h

end Moc.Merge2D

namespace Moc.Merge2D
open Moc

/-! ### the operands -/

/-- A well-formed operand: time ranges non-empty, in order, not overlapping (they may touch), canonical
    space coverages. -/
def InOk (lo : Nat) : FlatST → Prop
  | [] => True
  | e :: t => lo ≤ e.1.1 ∧ e.1.1 < e.1.2 ∧ Canon e.2 ∧ InOk e.1.2 t

def CanonO (x : Option Space) : Prop := ∀ S, x = some S → Canon S

theorem evs_cons (e : Rng × Space) (r : FlatST) : evs (e :: r) = (e.1.1, some e.2) :: (e.1.2, none) :: evs r := rfl

theorem evs_sorted : ∀ (a : FlatST) (lo : Nat), InOk lo a → SortedEv lo (evs a) := by
  intro a
  induction a with
  | nil => intro lo _; trivial
  | cons e r ih =>
    intro lo h
    obtain ⟨h1, h2, _, h4⟩ := h
    rw [evs_cons]
    exact ⟨h1, Nat.le_of_lt h2, ih e.1.2 h4⟩

theorem evs_endsNone (a : FlatST) : EndsNone (evs a) none := by
  refine ⟨fun _ => rfl, ?_⟩
  induction a with
  | nil => intro e he; cases he
  | cons x r ih =>
    intro e he
    rw [evs_cons] at he
    cases hr : evs r with
    | nil => rw [hr] at he; simp at he; rw [← he]
    | cons y ys =>
      rw [hr, List.getLast?_cons_cons, List.getLast?_cons_cons] at he
      exact ih e (by rw [hr]; exact he)

theorem evs_canon : ∀ (a : FlatST) (lo : Nat), InOk lo a → ∀ e ∈ evs a, CanonO e.2 := by
  intro a
  induction a with
  | nil => intro lo _ e he; cases he
  | cons x r ih =>
    intro lo h e he
    obtain ⟨_, _, h3, h4⟩ := h
    rw [evs_cons] at he
    rcases List.mem_cons.1 he with rfl | he
    · intro S hS; injection hS with hS; subst hS; exact h3
    · rcases List.mem_cons.1 he with rfl | he
      · intro S hS; cases hS
      · exact ih x.1.2 h4 e he

/-- The step function of an operand is the coverage of the entry containing the instant. -/
theorem stepAt_evs : ∀ (a : FlatST) (lo : Nat), InOk lo a → ∀ t s,
    (∃ S, stepAt none (evs a) t = some S ∧ mem s S) ↔ memFlat t s a := by
  intro a
  induction a with
  | nil =>
    intro lo _ t s
    constructor
    · rintro ⟨S, hS, _⟩; cases hS
    · rintro ⟨e, he, _⟩; cases he
  | cons x r ih =>
    intro lo h t s
    obtain ⟨h1, h2, h3, h4⟩ := h
    have hs := evs_sorted r x.1.2 h4
    have hcons : memFlat t s (x :: r) ↔ (x.1.1 ≤ t ∧ t < x.1.2 ∧ mem s x.2) ∨ memFlat t s r := by
      rw [show (x :: r) = [x] ++ r from rfl, memFlat_append, memFlat_single]
    have hlater : t < x.1.2 → ¬ memFlat t s r := by
      intro ht
      rintro ⟨e, he, a1, _, _⟩
      have : ∀ (r : FlatST) (lo : Nat), InOk lo r → ∀ e ∈ r, lo ≤ e.1.1 := by
        intro r
        induction r with
        | nil => intro lo _ e he; cases he
        | cons y ys ihy =>
          intro lo hy e he
          cases he with
          | head => exact hy.1
          | tail _ hm => have := ihy y.1.2 hy.2.2.2 e hm; have := hy.2.1; have := hy.1; omega
      have := this r x.1.2 h4 e he
      omega
    rw [hcons, evs_cons, stepAt_cons, stepAt_cons]
    simp only []
    by_cases c2 : x.1.2 ≤ t
    · rw [if_pos c2, ih x.1.2 h4 t s]
      constructor
      · exact Or.inr
      · rintro (⟨_, b, _⟩ | h)
        · omega
        · exact h
    · have hgt : ∀ e ∈ evs r, t < e.1 := fun e he => by have := hs.ge e he; omega
      rw [if_neg c2, stepAt_all_gt _ (evs r) t hgt]
      by_cases c1 : x.1.1 ≤ t
      · rw [if_pos c1]
        constructor
        · rintro ⟨S, hS, hm⟩
          injection hS with hS; subst hS
          exact Or.inl ⟨c1, by omega, hm⟩
        · rintro (⟨_, _, hm⟩ | h)
          · exact ⟨x.2, rfl, hm⟩
          · exact absurd h (hlater (by omega))
      · rw [if_neg c1]
        constructor
        · rintro ⟨S, hS, _⟩; cases hS
        · rintro (⟨a1, _, _⟩ | h)
          · omega
          · exact absurd h (hlater (by omega))

/-! ### the three operations -/

/-- Point-wise meaning of the operation. -/
def Op.sem : Op → Prop → Prop → Prop
  | .union, p, q => p ∨ q
  | .inter, p, q => p ∧ q
  | .diff, p, q => p ∧ ¬ q

theorem apply_canon (op : Op) (x y : Option Space) (hx : CanonO x) (hy : CanonO y) : CanonO (op.apply x y) := by
  intro S hS
  cases op <;> cases x <;> cases y <;> simp only [Op.apply] at hS <;> (try cases hS) <;>
    first
      | exact hx _ rfl
      | exact hy _ rfl
      | exact (union_spec _ _ (hx _ rfl) (hy _ rfl)).1
      | exact (intersection_spec _ _ (hx _ rfl) (hy _ rfl)).1
      | exact (difference_spec _ _ (hx _ rfl) (hy _ rfl)).1

theorem apply_sem (op : Op) (x y : Option Space) (hx : CanonO x) (hy : CanonO y) (s : Nat) :
    (∃ S, op.apply x y = some S ∧ mem s S) ↔
      op.sem (∃ S, x = some S ∧ mem s S) (∃ S, y = some S ∧ mem s S) := by
  cases op <;> cases x <;> cases y <;> simp only [Op.apply, Op.sem]
  · simp
  · simp
  · simp
  · rename_i a b
    have := (union_spec a b (hx _ rfl) (hy _ rfl)).2 s
    simp [this]
  · simp
  · simp
  · simp
  · rename_i a b
    have := (intersection_spec a b (hx _ rfl) (hy _ rfl)).2 s
    simp [this]
  · simp
  · simp
  · simp
  · rename_i a b
    have := (difference_spec a b (hx _ rfl) (hy _ rfl)).2 s
    simp [this]

theorem mergeEvents_canon (op : Op) : ∀ (l1 l2 : List Ev) (st1 st2 : Option Space),
    (∀ e ∈ l1, CanonO e.2) → (∀ e ∈ l2, CanonO e.2) → CanonO st1 → CanonO st2 →
    ∀ e ∈ mergeEvents op l1 l2 st1 st2, CanonO e.2 := by
  intro l1 l2 st1 st2
  have hnone : CanonO none := fun S hS => by cases hS
  fun_induction mergeEvents op l1 l2 st1 st2 with
  | case1 => intro _ _ _ _ e he; cases he
  | case2 c x2 t2 st1 st2 ih =>
    intro h1 h2 c1 c2 e he
    have hx2 := h2 (c, x2) List.mem_cons_self
    rcases List.mem_cons.1 he with rfl | he
    · exact apply_canon op none x2 hnone hx2
    · exact ih h1 (fun e he => h2 e (List.mem_cons_of_mem _ he)) c1 hx2 e he
  | case3 c x1 t1 st1 st2 ih =>
    intro h1 h2 c1 c2 e he
    have hx1 := h1 (c, x1) List.mem_cons_self
    rcases List.mem_cons.1 he with rfl | he
    · exact apply_canon op x1 none hx1 hnone
    · exact ih (fun e he => h1 e (List.mem_cons_of_mem _ he)) h2 hx1 c2 e he
  | case4 v1 x1 t1 v2 x2 t2 st1 st2 hlt ih =>
    intro h1 h2 c1 c2 e he
    have hx1 := h1 (v1, x1) List.mem_cons_self
    rcases List.mem_cons.1 he with rfl | he
    · exact apply_canon op x1 st2 hx1 c2
    · exact ih (fun e he => h1 e (List.mem_cons_of_mem _ he)) h2 hx1 c2 e he
  | case5 v1 x1 t1 v2 x2 t2 st1 st2 hn hlt ih =>
    intro h1 h2 c1 c2 e he
    have hx2 := h2 (v2, x2) List.mem_cons_self
    rcases List.mem_cons.1 he with rfl | he
    · exact apply_canon op st1 x2 c1 hx2
    · exact ih h1 (fun e he => h2 e (List.mem_cons_of_mem _ he)) c1 hx2 e he
  | case6 v1 x1 t1 v2 x2 t2 st1 st2 hn1 hn2 ih =>
    intro h1 h2 c1 c2 e he
    have hx1 := h1 (v1, x1) List.mem_cons_self
    have hx2 := h2 (v2, x2) List.mem_cons_self
    rcases List.mem_cons.1 he with rfl | he
    · exact apply_canon op x1 x2 hx1 hx2
    · exact ih (fun e he => h1 e (List.mem_cons_of_mem _ he)) (fun e he => h2 e (List.mem_cons_of_mem _ he)) hx1 hx2 e he

end Moc.Merge2D

namespace Moc.Merge2D
open Moc

theorem endState_of_endsNone : ∀ (l : List Ev) (st : Option Space), EndsNone l st → endState st l = none := by
  intro l
  induction l with
  | nil => intro st h; exact h.1 rfl
  | cons e r ih =>
    intro st h
    show endState e.2 r = none
    exact ih e.2 h.tail

theorem stepAt_canon : ∀ (l : List Ev) (init : Option Space) (t : Nat), CanonO init → (∀ e ∈ l, CanonO e.2) →
    CanonO (stepAt init l t) := by
  intro l
  induction l with
  | nil => intro init t h _; exact h
  | cons e r ih =>
    intro init t h hl
    rw [stepAt_cons]
    apply ih
    · split
      · exact hl e List.mem_cons_self
      · exact h
    · exact fun x hx => hl x (List.mem_cons_of_mem _ hx)

theorem exists_bound (l : List Ev) : ∃ T, ∀ e ∈ l, e.1 ≤ T := by
  induction l with
  | nil => exact ⟨0, fun e he => by cases he⟩
  | cons a r ih =>
    obtain ⟨T, hT⟩ := ih
    refine ⟨max T a.1, fun e he => ?_⟩
    cases he with
    | head => exact Nat.le_max_right _ _
    | tail _ hm => exact Nat.le_trans (hT e hm) (Nat.le_max_left _ _)

theorem apply_none_none (op : Op) : op.apply none none = none := by cases op <;> rfl

/-- **`Ranges2D::merge` (union / intersection / difference of flat space-time coverages)**: for every pair of
    well-formed operands the result is a VALID flat coverage (time ranges non-empty, ordered, disjoint; coverages
    non-empty and canonical; no two touching ranges with the same coverage) and covers exactly the pairs
    `(t, s)` given by the point-wise operation. -/
theorem merge2_spec (op : Op) (a b : FlatST) (ha : InOk 0 a) (hb : InOk 0 b) :
    VF Canon 0 none (merge2 op a b) ∧
    ∀ t s, memFlat t s (merge2 op a b) ↔ op.sem (memFlat t s a) (memFlat t s b) := by
  have sa := evs_sorted a 0 ha
  have sb := evs_sorted b 0 hb
  have ca := evs_canon a 0 ha
  have cb := evs_canon b 0 hb
  have hnone : CanonO none := fun S hS => by cases hS
  have hs := mem_mergeEvents_ge op (evs a) (evs b) none none 0 sa sb
  have hcan := mergeEvents_canon op (evs a) (evs b) none none ca cb hnone hnone
  have hstep := mergeEvents_step op (evs a) (evs b) none none 0 sa sb (evs_endsNone a) (evs_endsNone b)
  rw [apply_none_none] at hstep
  -- the merged sequence ends "outside"
  have hend : endState none (mergeEvents op (evs a) (evs b) none none) = none := by
    obtain ⟨T, hT⟩ := exists_bound (mergeEvents op (evs a) (evs b) none none ++ (evs a ++ evs b))
    have h1 := stepAt_all_le none _ T (fun e he => hT e (List.mem_append_left _ he))
    have h2 := stepAt_all_le none (evs a) T (fun e he => hT e (List.mem_append_right _ (List.mem_append_left _ he)))
    have h3 := stepAt_all_le none (evs b) T (fun e he => hT e (List.mem_append_right _ (List.mem_append_right _ he)))
    rw [← h1, hstep T, h2, h3, endState_of_endsNone _ _ (evs_endsNone a), endState_of_endsNone _ _ (evs_endsNone b),
      apply_none_none]
  obtain ⟨g1, g2, g3⟩ := segments_spec Canon _ hs (fun e he S hS => hcan e he S hS) hend
  have pp := postPass_spec Canon _ 0 g1 g2
  refine ⟨pp.1, fun t s => ?_⟩
  unfold merge2
  rw [pp.2 t s, g3 t s, hstep t,
    apply_sem op _ _ (stepAt_canon _ none t hnone ca) (stepAt_canon _ none t hnone cb) s,
    stepAt_evs a 0 ha t s, stepAt_evs b 0 hb t s]

end Moc.Merge2D

namespace Moc.Merge2D
open Moc

/-- The flat coverage as an ST-MOC (one time range per element). -/
def toST (f : FlatST) : STMoc := f.map fun e => ([e.1], e.2)

theorem memST_toST (t s : Nat) (f : FlatST) : memST t s (toST f) ↔ memFlat t s f := by
  unfold memST toST memFlat
  constructor
  · rintro ⟨e, he, h1, h2⟩
    obtain ⟨x, hx, rfl⟩ := List.mem_map.1 he
    simp only [mem, or_false] at h1
    exact ⟨x, hx, h1.1, h1.2, h2⟩
  · rintro ⟨x, hx, h1, h2, h3⟩
    exact ⟨([x.1], x.2), List.mem_map.2 ⟨x, hx, rfl⟩, by simp [mem]; exact ⟨h1, h2⟩, h3⟩

/-- `VF` is what the executable judge `validFlatB` accepts. -/
theorem validFlatB_of_VF : ∀ (g : FlatST) (pe : Nat) (ps : Option Space), VF Canon pe ps g →
    validFlatB (toST g) = true := by
  intro g
  induction g with
  | nil => intro _ _ _; rfl
  | cons e r ih =>
    intro pe ps h
    obtain ⟨_, h2, h3, h4, _, h6⟩ := h
    have hc : canonB e.2 = true := (canonB_iff e.2).2 h4
    have hne : (!e.2.isEmpty) = true := by
      cases he : e.2 with
      | nil => exact absurd he h3
      | cons _ _ => rfl
    cases r with
    | nil =>
      simp only [toST, List.map_cons, List.map_nil, validFlatB, decide_eq_true h2, hc, hne, Bool.and_self]
    | cons f r' =>
      have ihr := ih e.1.2 (some e.2) h6
      obtain ⟨k1, k2, _, _, k5, _⟩ := h6
      have hnt : (!(decide (e.1.2 = f.1.1) && e.2 == f.2)) = true := by
        simp only [Bool.not_eq_true', Bool.and_eq_false_iff, decide_eq_false_iff_not, beq_eq_false_iff_ne]
        by_cases he : e.1.2 = f.1.1
        · right
          intro hs
          exact k5 ⟨he, by rw [hs]⟩
        · exact Or.inl he
      simp only [toST, List.map_cons, validFlatB] at ihr ⊢
      simp only [decide_eq_true h2, decide_eq_true k1, hnt, hc, hne, Bool.and_self, Bool.true_and]
      exact ihr

end Moc.Merge2D
