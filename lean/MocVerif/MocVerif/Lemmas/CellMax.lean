/-
  C05 — the cell view takes, at every step, the LARGEST aligned cell that fits: the parent of the cell
  taken at `s` is not aligned on `s` or does not fit in `[s, e)`.
-/
import MocVerif.Lemmas.CellView

namespace Moc

theorem and_mask_eq_zero_of_dvd (s sh k : Nat) (h : 2 ^ (sh + k) ∣ s) : s &&& (((1 <<< k) - 1) <<< sh) = 0 := by
  obtain ⟨c, rfl⟩ := h
  apply Nat.eq_of_testBit_eq
  intro j
  simp only [Nat.testBit_and, Nat.zero_testBit, Bool.and_eq_false_iff]
  by_cases hj : j < sh + k
  · left
    rw [Nat.testBit_two_pow_mul]
    simp only [Bool.and_eq_false_iff, decide_eq_false_iff_not]
    left; omega
  · right
    rw [Nat.testBit_shiftLeft]
    simp only [Bool.and_eq_false_iff, decide_eq_false_iff_not]
    right
    have hone : (1 <<< k) - 1 < 2 ^ k := by
      rw [Nat.shiftLeft_eq, Nat.one_mul]
      have := Nat.two_pow_pos k
      omega
    exact Nat.testBit_lt_two_pow (Nat.lt_of_lt_of_le hone (Nat.pow_le_pow_right (by decide) (by omega)))

theorem ddFromBits_succ_gt (q : Qty) (hq : q.dim = 1 ∨ q.dim = 2) (n : Nat) : n < q.dim * (ddFromBits q n + 1) := by
  unfold ddFromBits
  rcases hq with h | h <;> rw [h] <;> simp [Nat.shiftRight_eq_div_pow] <;> omega

/-- **Each step of the cell view is maximal**: when the cell taken at `s` is not a depth-0 cell, the
    cell one level up (size × 2^dim) is not aligned on `s` or does not fit in `[s, e)`. -/
theorem nextCellK_maximal (q : Qty) (hq : q.dim = 1 ∨ q.dim = 2) (w d s e : Nat) (hd : d ≤ q.maxDepth w)
    (hw : q.dim * q.maxDepth w + q.dim ≤ w)
    (hs : 2 ^ q.shiftFromMax w d ∣ s) (he : 2 ^ q.shiftFromMax w d ∣ e) (hse : s < e)
    (hpos : 0 < (nextCellK q w d s e).1.1) :
    ¬ (2 ^ (q.shiftFromMax w (nextCellK q w d s e).1.1 + q.dim) ∣ s ∧
       s + 2 ^ (q.shiftFromMax w (nextCellK q w d s e).1.1 + q.dim) ≤ e) := by
  have hdim : 0 < q.dim := by rcases hq with h | h <;> omega
  unfold nextCellK at hpos ⊢
  simp only [] at hpos ⊢
  split at hpos
  · rename_i hc
    rw [if_pos hc]
    simp only []
    intro ⟨h1, h2⟩
    simp only [Bool.or_eq_true, decide_eq_true_eq, bne_iff_ne, ne_eq] at hc
    rcases hc with hc | hc
    · -- the range is one cell long
      have : 2 ^ (q.shiftFromMax w d + q.dim) = 2 ^ q.shiftFromMax w d * 2 ^ q.dim := Nat.pow_add _ _ _
      have h2d : 2 ≤ 2 ^ q.dim := by
        calc 2 = 2 ^ 1 := rfl
          _ ≤ 2 ^ q.dim := Nat.pow_le_pow_right (by decide) hdim
      have hp := Nat.two_pow_pos (q.shiftFromMax w d)
      rw [Nat.shiftLeft_eq, Nat.one_mul] at hc
      have : 2 ^ q.shiftFromMax w d * 2 ≤ 2 ^ q.shiftFromMax w d * 2 ^ q.dim := Nat.mul_le_mul_left _ h2d
      omega
    · exact hc (and_mask_eq_zero_of_dvd s _ _ h1)
  · rename_i hc
    rw [if_neg hc]
    simp only [nextCell] at hpos ⊢
    generalize hdd : min (min (ddFromBits q (Nat.log2 (e - s))) (ddFromBits q (tz w s))) (q.maxDepth w) = dd at hpos ⊢
    have hlt : dd < q.maxDepth w := by omega
    have hsh : q.shiftFromMax w (q.maxDepth w - dd) + q.dim = q.dim * (dd + 1) := by
      unfold Qty.shiftFromMax
      have : q.maxDepth w - (q.maxDepth w - dd) = dd := by omega
      rw [this, Nat.mul_add, Nat.mul_one]
    rw [hsh]
    intro ⟨h1, h2⟩
    have hlen : e - s ≠ 0 := by omega
    -- dd is one of the two bounds
    have hcase : dd = ddFromBits q (Nat.log2 (e - s)) ∨ dd = ddFromBits q (tz w s) := by omega
    rcases hcase with hc1 | hc1
    · have := ddFromBits_succ_gt q hq (Nat.log2 (e - s))
      rw [← hc1] at this
      have hl : e - s < 2 ^ (Nat.log2 (e - s) + 1) := Nat.lt_log2_self
      have : 2 ^ (Nat.log2 (e - s) + 1) ≤ 2 ^ (q.dim * (dd + 1)) := Nat.pow_le_pow_right (by decide) (by omega)
      omega
    · have := ddFromBits_succ_gt q hq (tz w s)
      rw [← hc1] at this
      have hm : q.dim * (dd + 1) ≤ w := by
        have : q.dim * (dd + 1) ≤ q.dim * q.maxDepth w := Nat.mul_le_mul_left _ (by omega)
        omega
      have := le_tz_of_dvd w _ s h1 hm
      omega

end Moc
