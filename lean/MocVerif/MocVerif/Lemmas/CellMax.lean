/-
  C05 — the cell view takes, at every step, the LARGEST aligned cell that fits: the parent of the cell
  taken at `s` is not aligned on `s` or does not fit in `[s, e)`.
-/
import MocVerif.Lemmas.CellView

namespace Moc

theorem and_mask_eq_zero_of_dvd (s sh k : Nat) (h : 2 ^ (sh + k) ∣ s) : s &&& (((1 <<< k) - 1) <<< sh) = 0 := by
  obtain ⟨c, rfl⟩ := h
  apply Nat.eq_of_testBit_eq
  intro j
  simp only [Nat.testBit_and, Nat.zero_testBit, Bool.and_eq_false_iff]
  by_cases hj : j < sh + k
  · left
    rw [Nat.testBit_two_pow_mul]
    simp only [Bool.and_eq_false_iff, decide_eq_false_iff_not]
    left; omega
  · right
    rw [Nat.testBit_shiftLeft]
    simp only [Bool.and_eq_false_iff, decide_eq_false_iff_not]
    right
    have hone : (1 <<< k) - 1 < 2 ^ k := by
      rw [Nat.shiftLeft_eq, Nat.one_mul]
      have := Nat.two_pow_pos k
      omega
    exact Nat.testBit_lt_two_pow (Nat.lt_of_lt_of_le hone (Nat.pow_le_pow_right (by decide) (by omega)))

theorem ddFromBits_succ_gt (q : Qty) (hq : q.dim = 1 ∨ q.dim = 2) (n : Nat) : n < q.dim * (ddFromBits q n + 1) := by
  unfold ddFromBits
  rcases hq with h | h <;> rw [h] <;> simp [Nat.shiftRight_eq_div_pow] <;> omega

/-- **Each step of the cell view is maximal**: when the cell taken at `s` is not a depth-0 cell, the
    cell one level up (size × 2^dim) is not aligned on `s` or does not fit in `[s, e)`. -/
theorem nextCellK_maximal (q : Qty) (hq : q.dim = 1 ∨ q.dim = 2) (w d s e : Nat) (hd : d ≤ q.maxDepth w)
    (hw : q.dim * q.maxDepth w + q.dim ≤ w)
    (hs : 2 ^ q.shiftFromMax w d ∣ s) (he : 2 ^ q.shiftFromMax w d ∣ e) (hse : s < e)
    (hpos : 0 < (nextCellK q w d s e).1.1) :
    ¬ (2 ^ (q.shiftFromMax w (nextCellK q w d s e).1.1 + q.dim) ∣ s ∧
       s + 2 ^ (q.shiftFromMax w (nextCellK q w d s e).1.1 + q.dim) ≤ e) := by
  have hdim : 0 < q.dim := by rcases hq with h | h <;> omega
  unfold nextCellK at hpos ⊢
  simp only [] at hpos ⊢
  split at hpos
  · rename_i hc
    rw [if_pos hc]
    simp only []
    intro ⟨h1, h2⟩
    simp only [Bool.or_eq_true, decide_eq_true_eq, bne_iff_ne, ne_eq] at hc
    rcases hc with hc | hc
    · -- the range is one cell long
      have : 2 ^ (q.shiftFromMax w d + q.dim) = 2 ^ q.shiftFromMax w d * 2 ^ q.dim := Nat.pow_add _ _ _
      have h2d : 2 ≤ 2 ^ q.dim := by
        calc 2 = 2 ^ 1 := rfl
          _ ≤ 2 ^ q.dim := Nat.pow_le_pow_right (by decide) hdim
      have hp := Nat.two_pow_pos (q.shiftFromMax w d)
      rw [Nat.shiftLeft_eq, Nat.one_mul] at hc
      have : 2 ^ q.shiftFromMax w d * 2 ≤ 2 ^ q.shiftFromMax w d * 2 ^ q.dim := Nat.mul_le_mul_left _ h2d
      omega
    · exact hc (and_mask_eq_zero_of_dvd s _ _ h1)
  · rename_i hc
    rw [if_neg hc]
    simp only [nextCell] at hpos ⊢
    generalize hdd : min (min (ddFromBits q (Nat.log2 (e - s))) (ddFromBits q (tz w s))) (q.maxDepth w) = dd at hpos ⊢
    have hlt : dd < q.maxDepth w := by omega
    have hsh : q.shiftFromMax w (q.maxDepth w - dd) + q.dim = q.dim * (dd + 1) := by
      unfold Qty.shiftFromMax
      have : q.maxDepth w - (q.maxDepth w - dd) = dd := by omega
      rw [this, Nat.mul_add, Nat.mul_one]
    rw [hsh]
    intro ⟨h1, h2⟩
    have hlen : e - s ≠ 0 := by omega
    -- dd is one of the two bounds
    have hcase : dd = ddFromBits q (Nat.log2 (e - s)) ∨ dd = ddFromBits q (tz w s) := by omega
    rcases hcase with hc1 | hc1
    · have := ddFromBits_succ_gt q hq (Nat.log2 (e - s))
      rw [← hc1] at this
      have hl : e - s < 2 ^ (Nat.log2 (e - s) + 1) := Nat.lt_log2_self
      have : 2 ^ (Nat.log2 (e - s) + 1) ≤ 2 ^ (q.dim * (dd + 1)) := Nat.pow_le_pow_right (by decide) (by omega)
      omega
    · have := ddFromBits_succ_gt q hq (tz w s)
      rw [← hc1] at this
      have hm : q.dim * (dd + 1) ≤ w := by
        have : q.dim * (dd + 1) ≤ q.dim * q.maxDepth w := Nat.mul_le_mul_left _ (by omega)
        omega
      have := le_tz_of_dvd w _ s h1 hm
      omega

/-! ### From local to global maximality: a walk over greedy tiles

  Tiles are abstracted as `(j, t)`: the block `[t, t + 2^(g·j))`, aligned on its size, `j ≤ J` levels
  above the deepest one.  `GTiles` records that consecutive tiles cover `[s, e)` and that each one is
  locally maximal (its parent block is not aligned on `t` or does not fit before `e`). -/

def GTiles (g J : Nat) : Nat → Nat → List (Nat × Nat) → Prop
  | s, e, [] => s = e
  | s, e, b :: rest =>
    b.2 = s ∧ 2 ^ (g * b.1) ∣ s ∧ s + 2 ^ (g * b.1) ≤ e ∧ b.1 ≤ J ∧
    (b.1 < J → ¬ (2 ^ (g * (b.1 + 1)) ∣ s ∧ s + 2 ^ (g * (b.1 + 1)) ≤ e)) ∧
    GTiles g J (s + 2 ^ (g * b.1)) e rest

theorem gtiles_start_ge {g J : Nat} : ∀ {bs : List (Nat × Nat)} {s e : Nat}, GTiles g J s e bs →
    ∀ b ∈ bs, s ≤ b.2 := by
  intro bs
  induction bs with
  | nil => intro _ _ _ b hb; cases hb
  | cons b0 rest ih =>
    intro s e h b hb
    obtain ⟨h1, _, _, _, _, h6⟩ := h
    cases hb with
    | head => omega
    | tail _ hm =>
      have := ih h6 b hm
      have := Nat.two_pow_pos (g * b0.1)
      omega

theorem gtiles_end_le {g J : Nat} : ∀ {bs : List (Nat × Nat)} {s e : Nat}, GTiles g J s e bs →
    ∀ b ∈ bs, b.2 + 2 ^ (g * b.1) ≤ e := by
  intro bs
  induction bs with
  | nil => intro _ _ _ b hb; cases hb
  | cons b0 rest ih =>
    intro s e h b hb
    obtain ⟨h1, _, h3, _, _, h6⟩ := h
    cases hb with
    | head => omega
    | tail _ hm => exact ih h6 b hm

/-- A multiple of `m` strictly between two consecutive multiples of `m` does not exist. -/
theorem no_multiple_between (m a p : Nat) (hm : 0 < m) (ha : m ∣ a) (hp : m ∣ p) (h1 : a < p) (h2 : p < a + m) : False := by
  obtain ⟨x, rfl⟩ := ha
  obtain ⟨y, rfl⟩ := hp
  have h3 : x < y := Nat.lt_of_mul_lt_mul_left h1
  have h4 : m * y < m * (x + 1) := by rw [Nat.mul_add, Nat.mul_one]; exact h2
  have h5 : y < x + 1 := Nat.lt_of_mul_lt_mul_left h4
  omega

theorem pow_dvd_pow_mul (g a b : Nat) (h : a ≤ b) : 2 ^ (g * a) ∣ 2 ^ (g * b) :=
  Nat.pow_dvd_pow 2 (Nat.mul_le_mul_left g h)

/-- **Global maximality of greedy tiles**: no tile `(j, t)` (not at the top level) has its parent
    block `[p, p + 2^(g(j+1)))` inside `[s, e)`. -/
theorem gtiles_maximal (g J : Nat) (hg : 0 < g) : ∀ (bs : List (Nat × Nat)) (s e : Nat), GTiles g J s e bs →
    ∀ b ∈ bs, b.1 < J → ∀ p, 2 ^ (g * (b.1 + 1)) ∣ p → p ≤ b.2 → b.2 < p + 2 ^ (g * (b.1 + 1)) →
      s ≤ p → p + 2 ^ (g * (b.1 + 1)) ≤ e → False := by
  intro bs
  induction bs with
  | nil => intro _ _ _ b hb; cases hb
  | cons b0 rest ih =>
    intro s e h b hb hj p hdp hpt htp hsp hpe
    obtain ⟨h1, h2, h3, h4, h5, h6⟩ := h
    cases hb with
    | head =>
      -- the parent starts at `s` itself: excluded by local maximality
      have : p = s := by omega
      subst this
      exact h5 hj ⟨hdp, hpe⟩
    | tail _ hm =>
      have hstart := gtiles_start_ge h6 b hm
      by_cases hge : s + 2 ^ (g * b0.1) ≤ p
      · exact ih _ e h6 b hm hj p hdp hpt htp hge hpe
      · -- the parent block starts inside the first tile and reaches beyond its end
        have hpos0 := Nat.two_pow_pos (g * b0.1)
        have hposP := Nat.two_pow_pos (g * (b.1 + 1))
        by_cases hlev : b.1 + 1 ≤ b0.1
        · -- parent not larger than the first tile: it cannot straddle the end of the first tile
          have hd1 : 2 ^ (g * (b.1 + 1)) ∣ s := Nat.dvd_trans (pow_dvd_pow_mul g _ _ hlev) h2
          have hd2 : 2 ^ (g * (b.1 + 1)) ∣ s + 2 ^ (g * b0.1) := Nat.dvd_add hd1 (pow_dvd_pow_mul g _ _ hlev)
          -- `s + size0` is a multiple of the parent size strictly between `p` and `p + parent size`
          exact no_multiple_between _ p (s + 2 ^ (g * b0.1)) hposP hdp hd2 (by omega) (by omega)
        · -- parent larger than the first tile
          have hlt : b0.1 < b.1 + 1 := by omega
          have hd0 : 2 ^ (g * (b0.1 + 1)) ∣ 2 ^ (g * (b.1 + 1)) := pow_dvd_pow_mul g _ _ (by omega)
          by_cases hps : p = s
          · subst hps
            -- the parent of the first tile is aligned on `s` and fits: excluded by local maximality
            have hfit : p + 2 ^ (g * (b0.1 + 1)) ≤ e := by
              have := Nat.le_of_dvd hposP hd0
              omega
            exact h5 (by omega) ⟨Nat.dvd_trans hd0 hdp, hfit⟩
          · -- `p` is a multiple of the first tile's size strictly inside the first tile
            have hdp0 : 2 ^ (g * b0.1) ∣ p := Nat.dvd_trans (pow_dvd_pow_mul g _ _ (by omega)) hdp
            exact no_multiple_between _ s p hpos0 h2 hdp0 (by omega) (by omega)


/-! ### The cell view of a range is a sequence of greedy tiles -/

/-- The tile of a cell: levels above the deepest one, start index. -/
def tileOf (q : Qty) (w : Nat) (c : Cell) : Nat × Nat := (q.maxDepth w - c.1, c.2 <<< q.shiftFromMax w c.1)

theorem cellsOfRange_gtiles (q : Qty) (hq : q.dim = 1 ∨ q.dim = 2) (w d : Nat) (hd : d ≤ q.maxDepth w)
    (hw : q.dim * q.maxDepth w + q.dim ≤ w) :
    ∀ (fuel s e : Nat), e - s ≤ fuel → s ≤ e → 2 ^ q.shiftFromMax w d ∣ s → 2 ^ q.shiftFromMax w d ∣ e →
      GTiles q.dim (q.maxDepth w) s e ((cellsOfRange q w d fuel s e).map (tileOf q w)) := by
  intro fuel
  induction fuel with
  | zero =>
    intro s e hf hse _ _
    simp only [cellsOfRange, List.map_nil, GTiles]; omega
  | succ f ih =>
    intro s e hf hse hs he
    simp only [cellsOfRange]
    by_cases h : e ≤ s
    · simp only [h, ↓reduceIte, List.map_nil, GTiles]; omega
    · simp only [h, ↓reduceIte, List.map_cons]
      have hlt : s < e := by omega
      obtain ⟨a1, a2, a3, a4, a5⟩ := nextCellK_spec q hq w d s e hd hs he hlt
      have hmax := nextCellK_maximal q hq w d s e hd hw hs he hlt
      generalize hc : nextCellK q w d s e = cs at a1 a2 a3 a4 a5 hmax
      obtain ⟨c, s'⟩ := cs
      simp only [] at a1 a2 a3 a4 a5 hmax ⊢
      -- the cell is exactly `[s, s')`
      unfold rangeOfCell at a5
      simp only [Prod.mk.injEq] at a5
      obtain ⟨e1, e2⟩ := a5
      have hsh : q.shiftFromMax w c.1 = q.dim * (q.maxDepth w - c.1) := rfl
      have hsz : s' = s + 2 ^ (q.dim * (q.maxDepth w - c.1)) := by
        rw [← e2, ← e1, Nat.shiftLeft_eq, Nat.shiftLeft_eq, Nat.add_mul, Nat.one_mul, hsh]
      have hdv : 2 ^ (q.dim * (q.maxDepth w - c.1)) ∣ s := by
        rw [← e1, Nat.shiftLeft_eq, hsh]; exact Nat.dvd_mul_left _ _
      have hjp : q.dim * (q.maxDepth w - c.1 + 1) = q.shiftFromMax w c.1 + q.dim := by
        rw [hsh, Nat.mul_add, Nat.mul_one]
      have hfst : (tileOf q w c).1 = q.maxDepth w - c.1 := rfl
      have hsnd : (tileOf q w c).2 = c.2 <<< q.shiftFromMax w c.1 := rfl
      refine ⟨by rw [hsnd]; exact e1, by rw [hfst]; exact hdv, by rw [hfst]; omega, by rw [hfst]; omega, ?_, ?_⟩
      · intro hj
        rw [hfst] at hj ⊢
        rw [hjp]
        exact hmax (by omega)
      · rw [hfst, ← hsz]
        exact ih s' e (by omega) a2 a3 he

end Moc

namespace Moc

theorem tiles_depth (q : Qty) (w d : Nat) : ∀ (cs : List Cell) (s e : Nat), Tiles q w d s e cs → ∀ c ∈ cs, c.1 ≤ d := by
  intro cs
  induction cs with
  | nil => intro _ _ _ c hc; cases hc
  | cons c0 t ih =>
    intro s e h c hc
    obtain ⟨s', _, _, _, h4, h5⟩ := h
    cases hc with
    | head => exact h4
    | tail _ hm => exact ih s' e h5 c hm

end Moc
