/-
  Loop lemmas of the cumulative selection (C20): the accumulation loops and the sub-cell counting loop.
-/
import MocVerif.Model.Valued

namespace Moc.C20

def sumVal (l : List VCell) : Nat := (l.map (·.val)).sum

/-- The `while acc + v[i] <= thr` loop: splits the (sorted) list into the maximal prefix whose
    cumulative value stays `≤ thr` and the rest, whose first cell overshoots the threshold. -/
theorem scanWhole_spec (thr : Nat) (l : List VCell) : ∀ acc,
    let r := scanWhole thr acc l
    l = r.2.1 ++ r.2.2 ∧ r.1 = acc + sumVal r.2.1 ∧ (acc ≤ thr → r.1 ≤ thr) ∧
    (∀ c t, r.2.2 = c :: t → thr < r.1 + c.val) := by
  induction l with
  | nil => intro acc; simp [scanWhole, sumVal]
  | cons c t ih =>
    intro acc
    simp only [scanWhole]
    split
    · rename_i h
      have := ih (acc + c.val)
      generalize scanWhole thr (acc + c.val) t = r at this ⊢
      obtain ⟨a, tk, rest⟩ := r
      simp only [] at this ⊢
      obtain ⟨h1, h2, h3, h4⟩ := this
      refine ⟨by rw [h1]; rfl, ?_, fun _ => h3 h, h4⟩
      rw [h2]
      unfold sumVal
      rw [List.map_cons, List.sum_cons]; omega
    · rename_i h
      simp only []
      refine ⟨by simp, by simp [sumVal], fun h' => h', ?_⟩
      intro c' t' he
      injection he with he1 he2
      subst he1
      omega

/-- The sub-cell counting loop is Euclidean division (bounded by the fuel). -/
theorem takeSub_spec (sub : Nat) (hs : 0 < sub) : ∀ fuel k t,
    let r := takeSub sub fuel k t
    k ≤ r.1 ∧ r.1 ≤ k + fuel ∧ t = (r.1 - k) * sub + r.2 ∧ (r.1 < k + fuel → r.2 < sub) := by
  intro fuel
  induction fuel with
  | zero => intro k t; simp [takeSub]
  | succ f ih =>
    intro k t
    simp only [takeSub]
    split
    · rename_i h
      have := ih (k + 1) (t - sub)
      simp only [] at this ⊢
      obtain ⟨h1, h2, h3, h4⟩ := this
      refine ⟨by omega, by omega, ?_, fun hlt => h4 (by omega)⟩
      have e : (takeSub sub f (k + 1) (t - sub)).1 - k = ((takeSub sub f (k + 1) (t - sub)).1 - (k + 1)) + 1 := by omega
      rw [e, Nat.add_mul]; omega
    · rename_i h
      simp only []
      exact ⟨Nat.le_refl _, by omega, by simp, fun _ => by omega⟩

end Moc.C20
