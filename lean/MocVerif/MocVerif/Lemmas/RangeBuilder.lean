/-
  C06 — the max-depth RANGE builder (`RangeMocBuilder`, `from_maxdepth_ranges`, `from_cells`):
  invariant over the pushes, for every order of arrival, overlap pattern and buffer capacity.
-/
import MocVerif.Lemmas.Builders
import MocVerif.Lemmas.Degrade

namespace Moc

theorem sortedFrom_append_iff (x : Rng) : ∀ (l : List Rng) (lo : Nat),
    SortedFrom lo (l ++ [x]) ↔ SortedFrom lo l ∧ x.1 < x.2 ∧ lo ≤ x.1 ∧ ∀ y ∈ l, y.1 ≤ x.1 := by
  intro l
  induction l with
  | nil => intro lo; simp [SortedFrom]; constructor <;> (intro h; omega)
  | cons r t ih =>
    intro lo
    simp only [List.cons_append, SortedFrom, ih r.1, List.mem_cons, forall_eq_or_imp]
    constructor
    · rintro ⟨h1, h2, h3, h4, h5, h6⟩; exact ⟨⟨h1, h2, h3⟩, h4, by omega, h5, h6⟩
    · rintro ⟨⟨h1, h2, h3⟩, h4, _, h5, h6⟩; exact ⟨h1, h2, h3, h4, h5, h6⟩

theorem degradeRange_nonempty (sh : Nat) (r : Rng) (h : r.1 < r.2) :
    (degradeRange sh r).1 < (degradeRange sh r).2 := by
  rw [degradeRange_eq]
  have hc : 0 < 2 ^ sh := Nat.pos_of_ne_zero (by simp)
  have := fl_le (2 ^ sh) r.1
  have := le_ce (2 ^ sh) r.2 hc
  simp only; omega

/-- Builder invariant w.r.t. the list `pushed` of the (degraded) ranges pushed so far. -/
structure RgInv (b : RgBuilder) (pushed : List Rng) : Prop where
  sortedOk : b.sorted = true → SortedFrom 0 b.buff
  nonempty : ∀ r ∈ b.buff, r.1 < r.2
  canon : Canon (b.moc.getD [])
  sem : ∀ x, (mem x (b.moc.getD []) ∨ mem x b.buff) ↔ mem x pushed

theorem RgInv.drain {b : RgBuilder} {pushed : List Rng} (h : RgInv b pushed) : RgInv b.drain pushed := by
  have hbuf : SortedFrom 0 (if b.sorted then b.buff else sortByStart b.buff) ∧
      ∀ x, mem x (if b.sorted then b.buff else sortByStart b.buff) ↔ mem x b.buff := by
    by_cases hs : b.sorted = true
    · simp [hs]; exact h.sortedOk hs
    · simp [hs]; exact sortByStart_spec b.buff h.nonempty
  have sp := mergeOverlapping_spec _ hbuf.1
  have hc := h.canon
  have hsem := h.sem
  unfold RgBuilder.drain mergeSorted
  cases hm : b.moc with
  | none =>
    rw [hm] at hsem
    refine ⟨fun _ => trivial, by simp, sp.1, fun x => ?_⟩
    simp only [Option.getD_some]
    rw [sp.2, hbuf.2, ← hsem]; simp
  | some prev =>
    rw [hm] at hc hsem
    simp only [Option.getD_some] at hc hsem
    have un := unionLoop_spec prev _ 0 0 hc sp.1
    refine ⟨fun _ => trivial, by simp, by simpa [Canon] using un.1, fun x => ?_⟩
    simp only [Option.getD_some]
    rw [un.2, sp.2, hbuf.2, ← hsem]; simp

theorem RgInv.push {sh cap : Nat} {b : RgBuilder} {pushed : List Rng} (h : RgInv b pushed) (r : Rng)
    (hr : r.1 < r.2) : RgInv (b.push sh cap r) (pushed ++ [degradeRange sh r]) := by
  unfold RgBuilder.push
  rw [if_pos hr]
  unfold RgBuilder.pushNE
  have hne := degradeRange_nonempty sh r hr
  generalize degradeRange sh r = nr at *
  have key : ∀ b' : RgBuilder, RgInv b' (pushed ++ [nr]) →
      RgInv (if b'.buff.length = cap then b'.drain else b') (pushed ++ [nr]) := by
    intro b' hb'; split
    · exact hb'.drain
    · exact hb'
  apply key
  cases hl : b.buff.getLast? with
  | none =>
    simp only []
    have hbe : b.buff = [] := by
      cases hb : b.buff with
      | nil => rfl
      | cons a t => rw [hb] at hl; simp at hl
    refine ⟨fun _ => ?_, ?_, h.canon, fun x => ?_⟩
    · rw [hbe]; exact ⟨Nat.zero_le _, hne, trivial⟩
    · rw [hbe]; intro q hq; simp at hq; rw [hq]; exact hne
    · simp only [mem_append, ← h.sem]
      constructor
      · rintro (h' | h' | h')
        · exact Or.inl (Or.inl h')
        · exact Or.inl (Or.inr h')
        · exact Or.inr h'
      · rintro ((h' | h') | h')
        · exact Or.inl h'
        · exact Or.inr (Or.inl h')
        · exact Or.inr (Or.inr h')
  | some last =>
    simp only []
    have hsplit : b.buff.dropLast ++ [last] = b.buff := by
      obtain ⟨ys, hys⟩ := List.getLast?_eq_some_iff.1 hl
      rw [hys]; simp
    have hlast : last.1 < last.2 := h.nonempty last (List.mem_of_getLast? hl)
    by_cases hd : (decide (nr.2 < last.1) || decide (last.2 < nr.1)) = true
    · rw [if_pos hd]
      refine ⟨fun hs => ?_, ?_, h.canon, fun x => ?_⟩
      · simp only [Bool.and_eq_true, decide_eq_true_eq] at hs
        have s0 := h.sortedOk hs.1
        rw [sortedFrom_append_iff]
        refine ⟨s0, hne, Nat.zero_le _, fun y hy => ?_⟩
        rw [← hsplit, sortedFrom_append_iff] at s0
        rw [← hsplit] at hy
        rcases List.mem_append.1 hy with hy | hy
        · have := s0.2.2.2 y hy; omega
        · simp at hy; rw [hy]; omega
      · intro q hq
        rcases List.mem_append.1 hq with hq | hq
        · exact h.nonempty q hq
        · simp at hq; rw [hq]; exact hne
      · simp only [mem_append, ← h.sem]
        constructor
        · rintro (h' | h' | h')
          · exact Or.inl (Or.inl h')
          · exact Or.inl (Or.inr h')
          · exact Or.inr h'
        · rintro ((h' | h') | h')
          · exact Or.inl h'
          · exact Or.inr (Or.inl h')
          · exact Or.inr (Or.inr h')
    · rw [if_neg hd]
      simp only [Bool.or_eq_true, decide_eq_true_eq, not_or, Nat.not_lt] at hd
      have hmem : ∀ x, mem x (setLast b.buff (if nr.1 < last.1 then nr.1 else last.1, if last.2 < nr.2 then nr.2 else last.2)) ↔
          mem x b.buff ∨ mem x [nr] := by
        intro x
        unfold setLast
        conv => rhs; rw [← hsplit]
        simp only [mem_append, mem_cons, mem_nil, or_false]
        constructor
        · rintro (h' | ⟨h1, h2⟩)
          · exact Or.inl (Or.inl h')
          · split at h1 <;> split at h2 <;> omega
        · rintro ((h' | ⟨h1, h2⟩) | ⟨h1, h2⟩)
          · exact Or.inl h'
          · right; split <;> split <;> omega
          · right; split <;> split <;> omega
      refine ⟨fun hs => ?_, ?_, h.canon, fun x => ?_⟩
      · simp only at hs
        by_cases hlt : nr.1 < last.1
        · simp [hlt] at hs
        · simp only [hlt, if_false] at hs ⊢
          have s0 := h.sortedOk hs
          rw [← hsplit, sortedFrom_append_iff] at s0
          unfold setLast
          rw [sortedFrom_append_iff]
          refine ⟨s0.1, ?_, Nat.zero_le _, s0.2.2.2⟩
          simp only; split <;> omega
      · intro q hq
        unfold setLast at hq
        rcases List.mem_append.1 hq with hq | hq
        · exact h.nonempty q (List.dropLast_subset _ hq)
        · simp at hq; rw [hq]; simp only; split <;> split <;> omega
      · simp only
        rw [hmem x, mem_append, ← h.sem]
        constructor
        · rintro (h' | h' | h')
          · exact Or.inl (Or.inl h')
          · exact Or.inl (Or.inr h')
          · exact Or.inr h'
        · rintro ((h' | h') | h')
          · exact Or.inl h'
          · exact Or.inr (Or.inl h')
          · exact Or.inr (Or.inr h')

theorem RgInv.foldl {sh cap : Nat} (rs : List Rng) : ∀ {b : RgBuilder} {pushed : List Rng}, RgInv b pushed →
    (∀ r ∈ rs, r.1 < r.2) →
    RgInv (rs.foldl (RgBuilder.push sh cap) b) (pushed ++ rs.map (degradeRange sh)) := by
  induction rs with
  | nil => intro b pushed h _; simpa using h
  | cons c t ih =>
    intro b pushed h hr
    have := ih (h.push (sh := sh) (cap := cap) c (hr c List.mem_cons_self)) (fun r hr' => hr r (List.mem_cons_of_mem _ hr'))
    simpa [List.append_assoc] using this

/-- **Range builder**: for every sequence of non-empty ranges and every buffer capacity the result is the
    normal form of the union of the ranges degraded to the builder depth — a right-hand side that mentions
    neither the order of arrival, nor overlaps, nor the capacity. -/
theorem fromMaxdepthRanges_eq (sh cap : Nat) (rs : List Rng) (hr : ∀ r ∈ rs, r.1 < r.2) :
    fromMaxdepthRanges sh cap rs = normalize (rs.map (degradeRange sh)) := by
  have h0 : RgInv {} [] := ⟨fun _ => trivial, by simp, trivial, fun x => by simp⟩
  have hf := (RgInv.foldl (sh := sh) (cap := cap) rs h0 hr).drain
  simp only [List.nil_append] at hf
  have ns := normalize_spec (rs.map (degradeRange sh))
  unfold fromMaxdepthRanges RgBuilder.intoMoc
  apply Canon.ext hf.canon ns.1
  intro x
  rw [ns.2]
  have := hf.sem x
  have hb : ((rs.foldl (RgBuilder.push sh cap) {}).drain).buff = [] := rfl
  rw [hb] at this
  simpa using this

/-- Empty ranges are ignored by the (repaired) builder. -/
theorem foldl_push_filter (sh cap : Nat) (rs : List Rng) : ∀ b : RgBuilder,
    rs.foldl (RgBuilder.push sh cap) b = (rs.filter fun r => decide (r.1 < r.2)).foldl (RgBuilder.push sh cap) b := by
  induction rs with
  | nil => intro b; rfl
  | cons c t ih =>
    intro b
    by_cases hc : c.1 < c.2
    · simp only [List.foldl_cons, List.filter_cons, hc, decide_true, if_true]; exact ih _
    · simp only [List.foldl_cons, List.filter_cons, hc, decide_false]
      rw [show RgBuilder.push sh cap b c = b by unfold RgBuilder.push; rw [if_neg hc]]
      simpa using ih b

/-- **Range builder, every input**: empty ranges contribute nothing, whatever their alignment. -/
theorem fromMaxdepthRanges_eq_all (sh cap : Nat) (rs : List Rng) :
    fromMaxdepthRanges sh cap rs = normalize ((rs.filter fun r => decide (r.1 < r.2)).map (degradeRange sh)) := by
  rw [← fromMaxdepthRanges_eq sh cap _ (fun r hr => by simpa using (List.mem_filter.1 hr).2)]
  unfold fromMaxdepthRanges
  rw [foldl_push_filter]

end Moc
