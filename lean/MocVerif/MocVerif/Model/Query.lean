/-
  Queries on range sets, transliterated from `src/ranges/mod.rs` (`BorrowedRanges::{contains_val,
  contains_range, intersects_range, range_fraction, intersects}`, `SNORanges::{contains, range_sum}`),
  `src/moc/range/mod.rs` (`n_depth_max_cells`, `contains_cell`, `cell_fraction`,
  `overlapped_by_iter`), `src/moc/range/op/overlap.rs` and `src/elemset/range/mod.rs`
  (`coverage_percentage`).

  `slice::binary_search(x)` on a strictly increasing slice is modelled by its contract:
  `Ok(i)` iff `arr[i] = x`, else `Err(i)` with `i` = number of elements `< x`; in both cases
  `i = rank x arr`.
-/
import MocVerif.Model.Ranges
import MocVerif.Model.Cells

namespace Moc

/-- Number of elements `< x` (the index returned by `binary_search`, `Ok` or `Err`). -/
def rank (x : Nat) (arr : List Nat) : Nat := (arr.filter (· < x)).length

/-- `binary_search(x)`: `(found, index)`. -/
def bsearch (x : Nat) (arr : List Nat) : Bool × Nat := (arr.contains x, rank x arr)

def firstStart (l : List Rng) : Nat := match l with | [] => 0 | r :: _ => r.1

/-- `l[l.len() - 1].end` for a non-empty list. -/
def lastEnd (l : List Rng) : Nat := match l with | [] => 0 | r :: t => lastEndD r.2 t

/-- `BorrowedRanges::contains_val`. -/
def containsVal (l : List Rng) (x : Nat) : Bool :=
  if l.isEmpty || x < firstStart l || lastEnd l ≤ x then false
  else
    let arr := flatten l
    -- `match result.binary_search(x) { Ok(i) => i & 1 == 0, Err(i) => i & 1 == 1 }`
    if arr.contains x then rank x arr % 2 == 0 else rank x arr % 2 == 1

/-- `match result.binary_search(&x.start) { Ok(i) => i & 1 == 0 && x.end <= result[i | 1],
    Err(i) => i & 1 == 1 && x.end <= result[i] }` on the flattened bounds `arr`. -/
def crCore (arr : List Nat) (a b : Nat) : Bool :=
  let i := rank a arr
  if arr.contains a then i % 2 == 0 && decide (b ≤ arr.getD (i ||| 1) 0)
  else i % 2 == 1 && decide (b ≤ arr.getD i 0)

/-- `BorrowedRanges::contains_range`. -/
def containsRange (l : List Rng) (x : Rng) : Bool :=
  if l.isEmpty || x.2 ≤ firstStart l || lastEnd l ≤ x.1 then false
  else crCore (flatten l) x.1 x.2

/-- `Ok(i) => i & 1 == 0 || (i + 1 < len && x.end > result[i + 1]),
    Err(i) => i & 1 == 1 || (i < len && x.end > result[i])`. -/
def irCore (arr : List Nat) (a b : Nat) : Bool :=
  let i := rank a arr
  if arr.contains a then i % 2 == 0 || (decide (i + 1 < arr.length) && decide (b > arr.getD (i + 1) 0))
  else i % 2 == 1 || (decide (i < arr.length) && decide (b > arr.getD i 0))

/-- `BorrowedRanges::intersects_range`. -/
def intersectsRange (l : List Rng) (x : Rng) : Bool :=
  if l.isEmpty || x.2 ≤ firstStart l || lastEnd l ≤ x.1 then false
  else irCore (flatten l) x.1 x.2

/-- The `while let (Some(el), Some(er))` loop of `BorrowedRanges::intersects`. -/
def intersectsLoop : List Rng → List Rng → Bool
  | [], _ => false
  | _ :: _, [] => false
  | l :: lt, r :: rt =>
    if l.2 ≤ r.1 then intersectsLoop lt (r :: rt)
    else if r.2 ≤ l.1 then intersectsLoop (l :: lt) rt
    else true
termination_by l r => l.length + r.length

/-- `BorrowedRanges::intersects` (quick rejection + binary-search start + loop). -/
def intersects (l r : List Rng) : Bool :=
  match l, r with
  | [], _ => false
  | _, [] => false
  | l0 :: lt, r0 :: rt =>
    if l0.1 ≥ lastEndD r0.2 rt || lastEndD l0.2 lt ≤ r0.1 then false
    else if l0.1 < r0.1 then intersectsLoop ((l0 :: lt).drop (startIdx r0.1 (l0 :: lt))) (r0 :: rt)
    else if l0.1 > r0.1 then intersectsLoop (l0 :: lt) ((r0 :: rt).drop (startIdx l0.1 (r0 :: rt)))
    else intersectsLoop (l0 :: lt) (r0 :: rt)

/-- `SNORanges::contains(rhs)`: is `rhs ⊆ self`. -/
def containsAll (l rhs : List Rng) : Bool := rhs.all fun r => containsRange l r

/-- OR of all the bounds (`Ranges::trailing_zeros` folds `res | start | end`). -/
def orBounds : List Rng → Nat
  | [] => 0
  | r :: t => r.1 ||| r.2 ||| orBounds t

/-- `MocRanges::compute_min_depth`: `MAX_DEPTH − min(trailing_zeros(OR of the bounds) / DIM, MAX_DEPTH)`. -/
def computeMinDepth (q : Qty) (w : Nat) (l : List Rng) : Nat :=
  q.maxDepth w - min (tz w (orBounds l) / q.dim) (q.maxDepth w)

/-- `RangeMOC::first_index`: start of the first range. -/
def firstIndex (l : List Rng) : Option Nat := l.head?.map (·.1)

/-- `RangeMOC::last_index`: EXCLUSIVE end of the last range. -/
def lastIndex (l : List Rng) : Option Nat := l.getLast?.map (·.2)

/-- `SNORanges::range_sum`. -/
def rangeSum : List Rng → Nat
  | [] => 0
  | r :: t => (r.2 - r.1) + rangeSum t

/-- `RangeMOC::n_depth_max_cells` (`shift = shift_from_depth_max(depth)`). -/
def nDepthMaxCells (shift : Nat) (l : List Rng) : Nat := rangeSum l >>> shift

/-- Accumulation loop of `range_fraction` starting from the selected range. -/
def fracWidth (x : Rng) : List Rng → Nat
  | [] => 0
  | r :: t => if x.2 ≤ r.1 then 0 else (min r.2 x.2 - max r.1 x.1) + fracWidth x t

/-- Start index of `range_fraction`: `binary_search_by(start.cmp(x.start))`, `Ok(i) => i`,
    `Err(i) => if i > 0 && ranges[i-1].end > x.start { i - 1 } else { i }`. -/
def fracStart (l : List Rng) (a : Nat) : Nat :=
  let i := (l.filter (·.1 < a)).length
  if l.any (·.1 == a) then i
  else if i > 0 && (l.getD (i - 1) (0, 0)).2 > a then i - 1 else i

def bitLen (n : Nat) : Nat := if n = 0 then 0 else Nat.log2 n + 1

/-- `range_fraction` as the exact integer pair `(num, den)` fed to the final `f64` division
    (`(0,1)` for the literal `0.0`, `(1,1)` for the literal `1.0`). -/
def rangeFractionPair (l : List Rng) (x : Rng) : Nat × Nat :=
  if l.isEmpty || x.2 ≤ firstStart l || lastEnd l ≤ x.1 then (0, 1)
  else
    let width := fracWidth x (l.drop (fracStart l x.1))
    let tot := x.2 - x.1
    if width = 0 then (0, 1)
    else if width = tot then (1, 1)
    else if tot >>> 52 > 0 then
      let shift := bitLen (tot >>> 52)
      (width >>> shift, tot >>> shift)
    else (width, tot)

/-- `MocRange::from((depth, idx))`: the range of a cell. -/
def cellRange (shift : Nat) (idx : Nat) : Rng := (idx <<< shift, (idx + 1) <<< shift)

/-- `coverage_percentage` as the integer pair of the final division (`w` = index width). -/
def coveragePair (w ub : Nat) (l : List Rng) : Nat × Nat :=
  if w > 52 then (rangeSum l >>> (w - 52), ub >>> (w - 52)) else (rangeSum l, ub)

/-- `OverlapRangeIter::next` loop: the ranges of `l` overlapped by a range of `r`. -/
def overlapLoop : List Rng → List Rng → List Rng
  | [], _ => []
  | _ :: _, [] => []
  | l :: lt, r :: rt =>
    if l.2 ≤ r.1 then overlapLoop lt (r :: rt)
    else if r.2 ≤ l.1 then overlapLoop (l :: lt) rt
    else l :: overlapLoop lt (r :: rt)
termination_by l r => l.length + r.length

/-- `RangeMOC::overlapped_by_iter` (repaired: empty operands give an empty stream). -/
def overlappedBy (l r : List Rng) : List Rng :=
  match l, r with
  | [], _ => []
  | _, [] => []
  | l0 :: lt, r0 :: rt =>
    if l0.1 ≥ lastEndD r0.2 rt || lastEndD l0.2 lt ≤ r0.1 then []
    else if l0.1 < r0.1 then overlapLoop ((l0 :: lt).drop (startIdx r0.1 (l0 :: lt))) (r0 :: rt)
    else if l0.1 > r0.1 then overlapLoop (l0 :: lt) ((r0 :: rt).drop (startIdx l0.1 (r0 :: rt)))
    else overlapLoop (l0 :: lt) (r0 :: rt)

end Moc
