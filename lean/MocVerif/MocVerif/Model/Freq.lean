/-
  Physical quantities ↔ indices (`src/qty.rs` `Frequency::{freq2hash, hash2freq}`,
  `src/moc/range/mod.rs` `from_freq_*`, `from_microsec_*`).  Doubles are handled as their 64-bit
  patterns (`f64::to_bits`): for non-negative, non-NaN doubles the IEEE order is the order of the
  bit patterns (trusted fact), so `FREQ_MIN <= freq && freq <= FREQ_MAX` is a test on bits.
-/
import MocVerif.Model.Builders
import MocVerif.Model.Cells
import MocVerif.Model.Params

namespace Moc

def two52 : Nat := 2 ^ 52

/-- Bits of `FREQ_MIN = f64::from_bits(929 << 52)`. -/
def freqMinBits : Nat := Params.freqExpMin * two52
/-- Bits of `FREQ_MAX = f64::from_bits((1184 << 52) | MANTISSA_MASK)`. -/
def freqMaxBits : Nat := Params.freqExpMax * two52 + (two52 - 1)

/-- Does `freq2hash` accept the double with bit pattern `b` (both `assert!`s pass)? -/
def freqValid (b : Nat) : Bool := decide (freqMinBits ≤ b) && decide (b ≤ freqMaxBits)

/-- `freq_hash_dmax`: mantissa unchanged, exponent re-biased by `freqBiasEnc`. -/
def freqHash64 (b : Nat) : Nat := (b / two52 - Params.freqBiasEnc) * two52 + b % two52

/-- `Frequency::<T>::freq2hash` for a `w`-bit index type: `none` = rejected (assertion failure). -/
def freq2hash (w b : Nat) : Option Nat :=
  if freqValid b then some (narrow (64 - w) (freqHash64 b)) else none

/-- `Frequency::<T>::hash2freq` (bits of the result); Rust asserts `exponent ≤ 256`. -/
def hash2freq (w h : Nat) : Option Nat :=
  let h64 := widen (64 - w) h
  let e := h64 / two52
  if e ≤ 256 then some ((e + Params.freqBiasDec) * two52 + h64 % two52) else none

/-- `from_freq_in_hz(depth, values, cap)` on accepted values. -/
def fromFreqBits (w sh cap : Nat) (bs : List Nat) : List Rng :=
  fromFixedDepthCells sh cap (bs.filterMap fun b => (freq2hash w b).map (· >>> sh))

/-- Index range of one hertz range: start rounded down, exclusive end rounded up on a narrower type. -/
def freqRangeIdx (w : Nat) (r : Rng) : Option Rng :=
  match freq2hash w r.1, freq2hash w r.2 with
  | some a, some _ => some (a, narrowUp (64 - w) (freqHash64 r.2))
  | _, _ => none

/-- `from_freq_ranges_in_hz` (repaired: an empty range `f..f` is skipped BEFORE the exclusive end is rounded up). -/
def fromFreqRangeBits (w sh cap : Nat) (rs : List Rng) : List Rng :=
  fromMaxdepthRanges sh cap ((rs.filter fun r => decide (r.1 < r.2)).filterMap (freqRangeIdx w))

/-- `from_microsec_since_jd0`: `T::from_u64_idx(t) >> shift`. -/
def fromMicrosec (w sh cap : Nat) (ts : List Nat) : List Rng :=
  fromFixedDepthCells sh cap (ts.map fun t => (narrow (64 - w) t) >>> sh)

/-- `from_microsec_ranges_since_jd0` (repaired: an empty range is skipped BEFORE the exclusive end is rounded up
    on a narrower index type, where it would otherwise become a whole cell). -/
def fromMicrosecRanges (w sh cap : Nat) (rs : List Rng) : List Rng :=
  fromMaxdepthRanges sh cap
    ((rs.filter fun r => decide (r.1 < r.2)).map fun r => (narrow (64 - w) r.1, narrowUp (64 - w) r.2))

end Moc
