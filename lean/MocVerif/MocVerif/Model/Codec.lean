/-
  C07 / C12 — serialisation of 1-D MOCs.

  * IVOA ASCII (`src/deser/ascii.rs`): lexer (`digit1` followed by `/`, `-end`, `+len` or nothing,
    tokens separated by white space), validation loop of `from_ascii_ivoa` (first token = depth, every
    index checked against `n_cells(depth)`, REPAIRED: `>=` for cells, depth ≤ MAX_DEPTH, non-empty
    ranges, no overflow of `end + 1`), sort + adjacent-overlap check, conversion to ranges; the writer
    `to_ascii_ivoa` at token level (one bucket per depth, the deepest depth always emitted).
  * FITS range payload (`write_ranges_data` / `from_fits_*`): big-endian words, 2880-byte padding.

  IMPORT-FREE (linked into the native driver).
-/
import MocVerif.Model.Ranges
import MocVerif.Model.Cells

namespace Moc.Codec

/-- A cell range `[s, e)` of depth `d` (a cell is `e = s + 1`). -/
structure Item where
  d : Nat
  s : Nat
  e : Nat
  deriving DecidableEq, Repr

inductive Tok where
  | depth (d : Nat)
  | cell (i : Nat)
  | range (s e : Nat)      -- `end` already exclusive (`Token::Range { end: end + 1 }`)
  deriving DecidableEq, Repr

inductive CErr where
  | parse | firstTok | depthType | index | notValid
  deriving DecidableEq, Repr

/-! ### Lexer -/

def isDigit (c : Char) : Bool := '0' ≤ c && c ≤ '9'
/-- nom `multispace0`: space, tab, CR, LF. -/
def isSpace (c : Char) : Bool := c == ' ' || c == '\t' || c == '\n' || c == '\r'

def takeDigits : List Char → List Char × List Char
  | [] => ([], [])
  | c :: cs => if isDigit c then let r := takeDigits cs; (c :: r.1, r.2) else ([], c :: cs)

theorem takeDigits_length (l : List Char) : (takeDigits l).2.length ≤ l.length := by
  induction l with
  | nil => simp [takeDigits]
  | cons c cs ih =>
    unfold takeDigits
    split
    · simp only [List.length_cons]; omega
    · simp

def digitsVal (ds : List Char) : Nat := ds.foldl (fun a c => a * 10 + (c.toNat - '0'.toNat)) 0

/-- `map_res(digit1, parse::<T>)`: at least one digit, value representable on `w` bits. -/
def lexNum (w : Nat) (l : List Char) : Option (Nat × List Char) :=
  let r := takeDigits l
  if r.1.isEmpty then none
  else if digitsVal r.1 < 2 ^ w then some (digitsVal r.1, r.2) else none

/-- One token (`parse_token`). `none` = parse error (including the overflow of `end + 1`,
    `start + len + 1`, rejected by the repaired code instead of panicking). -/
def lexTok (w : Nat) (l : List Char) : Option (Tok × List Char) :=
  match lexNum w l with
  | none => none
  | some (v, rest) =>
    match rest with
    | '/' :: r => some (.depth v, r)
    | '-' :: r =>
      (match lexNum w r with
       | some (e, r') => if e + 1 < 2 ^ w then some (.range v (e + 1), r') else none
       | none => none)
    | '+' :: r =>
      (match lexNum w r with
       | some (n, r') => if v + n + 1 < 2 ^ w then some (.range v (v + n + 1), r') else none
       | none => none)
    | _ => some (.cell v, rest)

def dropSpaces : List Char → List Char
  | [] => []
  | c :: cs => if isSpace c then dropSpaces cs else c :: cs

/-- `terminated(many1(preceded(multispace0, parse_token)), multispace0)` + "remaining data" check.
    `fuel` bounds the number of tokens (callers pass the input length + 1). -/
def lexAll (w : Nat) : Nat → List Char → Option (List Tok)
  | 0, _ => none
  | fuel + 1, l =>
    match lexTok w (dropSpaces l) with
    | none => none
    | some (t, rest) =>
      if (dropSpaces rest).isEmpty then some [t]
      else match lexAll w fuel rest with
        | some ts => some (t :: ts)
        | none => none

/-! ### Validation loop of `from_ascii_ivoa` -/

def loopToks (q : Qty) (w : Nat) (cur dmax : Nat) : List Tok → List Item → Except CErr (Nat × List Item)
  | [], acc => .ok (dmax, acc.reverse)
  | .depth d :: ts, acc =>
    if d > 255 then .error .depthType
    else if d > q.maxDepth w then .error .index
    else loopToks q w d (max dmax d) ts acc
  | .cell i :: ts, acc =>
    if i ≥ q.nCells cur then .error .index
    else loopToks q w cur dmax ts (⟨cur, i, i + 1⟩ :: acc)
  | .range s e :: ts, acc =>
    if e > q.nCells cur ∨ s ≥ e then .error .index
    else loopToks q w cur dmax ts (⟨cur, s, e⟩ :: acc)

def decodeRaw (q : Qty) (w : Nat) : List Tok → Except CErr (Nat × List Item)
  | [] => .ok (0, [])
  | .depth d :: ts =>
    if d > 255 then .error .depthType
    else if d > q.maxDepth w then .error .index
    else loopToks q w d d ts []
  | _ => .error .firstTok

def rangeOfItem (q : Qty) (w : Nat) (it : Item) : Rng :=
  (it.s <<< q.shiftFromMax w it.d, it.e <<< q.shiftFromMax w it.d)

/-- Adjacent overlap in a list sorted by start (`e1.overlap(e2)` on consecutive elements). -/
def adjOverlap : List Rng → Bool
  | a :: b :: t => (decide (b.1 < a.2) && decide (a.1 < b.2)) || adjOverlap (b :: t)
  | _ => false

def sortByStart (l : List Rng) : List Rng := l.mergeSort (fun a b => decide (a.1 ≤ b.1))

/-- Sort, check, convert (`CellOrCellRangeMOC` → ranges). -/
def finish (q : Qty) (w : Nat) (r : Nat × List Item) : Except CErr (Nat × List Rng) :=
  let rs := sortByStart (r.2.map (rangeOfItem q w))
  if adjOverlap rs then .error .notValid else .ok (r.1, normalize rs)

def decodeToks (q : Qty) (w : Nat) (ts : List Tok) : Except CErr (Nat × List Rng) :=
  match decodeRaw q w ts with
  | .ok r => finish q w r
  | .error e => .error e

/-- `from_ascii_ivoa` on text. -/
def decodeAscii (q : Qty) (w : Nat) (text : List Char) : Except CErr (Nat × List Rng) :=
  match lexAll w (text.length + 1) text with
  | none => .error .parse
  | some ts => decodeToks q w ts

/-! ### Writer `to_ascii_ivoa`, token level -/

def itemTok (it : Item) : Tok := if it.e = it.s + 1 then .cell it.s else .range it.s it.e

def bucket (items : List Item) (d : Nat) : List Item := items.filter (fun it => it.d == d)

/-- One string per depth `0..=dmax`; a depth without element is omitted unless it is `dmax`. -/
def encodeFrom (items : List Item) (dmax : Nat) : Nat → Nat → List Tok
  | _, 0 => []
  | d, n + 1 =>
    let b := bucket items d
    (if b.isEmpty && d != dmax then [] else .depth d :: b.map itemTok) ++ encodeFrom items dmax (d + 1) n

def encodeToks (dmax : Nat) (items : List Item) : List Tok := encodeFrom items dmax 0 (dmax + 1)

/-! ### Writer, character level

  Decimal printing is defined here (not `Nat.repr`) so that the text the driver compares with the real
  writer's output is the very definition the character-level round-trip theorems are about. -/

def digitOf : Nat → Char
  | 0 => '0' | 1 => '1' | 2 => '2' | 3 => '3' | 4 => '4'
  | 5 => '5' | 6 => '6' | 7 => '7' | 8 => '8' | _ => '9'

/-- Decimal digits of `n`, most significant first (`Display for uN`). -/
def showNat (n : Nat) : List Char :=
  if n < 10 then [digitOf n] else showNat (n / 10) ++ [digitOf (n % 10)]
termination_by n
decreasing_by omega

def showTokC : Tok → List Char
  | .depth d => showNat d ++ ['/']
  | .cell i => showNat i ++ [' ']
  | .range s e => showNat s ++ '-' :: (showNat (e - 1) ++ [' '])

/-- Characters without folding, `start-end` notation (what `to_ascii_ivoa(None, false)` writes). -/
def encodeChars (dmax : Nat) (items : List Item) : List Char :=
  let ts := encodeToks dmax items
  let body := (ts.map showTokC).flatten
  -- a bare trailing "d/" is written as "d/ "
  match ts.getLast? with
  | some (.depth _) => body ++ [' ']
  | _ => body

def encodeText (dmax : Nat) (items : List Item) : String := String.ofList (encodeChars dmax items)

/-- The cell ranges the writer is fed with (`RangeMOC → cells → cellranges`). -/
def itemsOf (q : Qty) (w d : Nat) (rs : List Rng) : List Item :=
  (cellRangesOf (cellsOf q w d rs)).map fun c => ⟨c.1, c.2.1, c.2.2⟩

/-- The elements the JSON writer is fed with (`RangeMOC → cells`): single cells only. -/
def cellItemsOf (q : Qty) (w d : Nat) (rs : List Rng) : List Item :=
  (cellsOf q w d rs).map fun c => ⟨c.1, c.2, c.2 + 1⟩

/-! ### FITS range payload -/

/-- Big-endian bytes of `x` on `n` bytes. -/
def toBE : Nat → Nat → List Nat
  | 0, _ => []
  | n + 1, x => toBE n (x / 256) ++ [x % 256]

def fromBE (bs : List Nat) : Nat := bs.foldl (fun a b => a * 256 + b) 0

def encodeWords : List Rng → List Nat
  | [] => []
  | r :: t => r.1 :: r.2 :: encodeWords t

def decodeWords : List Nat → List Rng
  | a :: b :: t => (a, b) :: decodeWords t
  | _ => []

/-- Number of zero bytes appended after `n` data bytes (`write_final_padding`). -/
def padding (n : Nat) : Nat := if n % 2880 = 0 then 0 else 2880 - n % 2880

end Moc.Codec
