/-
  Changes of representation: ranges ↔ hierarchical cells ↔ cells-or-cell-ranges ↔ flat cells
  (`src/elem/range.rs`, `src/moc/adapters.rs`), numbering schemes (`src/qty.rs`), index widths
  (`src/idx.rs`).
-/
import MocVerif.Model.Basic

namespace Moc

/-- `x.trailing_zeros()` for `x ≠ 0` (fuel = bit width). -/
def tzAux : Nat → Nat → Nat
  | 0, _ => 0
  | fuel + 1, n => if n % 2 = 1 then 0 else 1 + tzAux fuel (n / 2)

/-- `trailing_zeros` of a `w`-bit integer (`w` for 0). -/
def tz (w n : Nat) : Nat := if n = 0 then w else tzAux w n

/-- A hierarchical cell `(depth, idx)`. -/
abbrev Cell := Nat × Nat

/-- `Q::delta_depth_max_from_n_bits_unchecked(n) = n >> (DIM - 1)`. -/
def ddFromBits (q : Qty) (n : Nat) : Nat := n >>> (q.dim - 1)

/-- One step of `MocRange::next`: largest aligned cell starting at `s` and fitting in `[s, e)`.
    Returns `(cell, new start)`. -/
def nextCell (q : Qty) (w s e : Nat) : Cell × Nat :=
  let len := e - s
  let ddLen := ddFromBits q (Nat.log2 len)
  let ddLow := ddFromBits q (tz w s)
  let dd := min (min ddLen ddLow) (q.maxDepth w)
  let sh := q.dim * dd
  ((q.maxDepth w - dd, s >>> sh), s + (1 <<< sh))

/-- One step of `next_cell_with_knowledge` (shortcut: a single `depth_max` cell when the range is
    one cell long or its start is not aligned on the parent cell). -/
def nextCellK (q : Qty) (w d s e : Nat) : Cell × Nat :=
  let shiftDd := q.shiftFromMax w d
  let lenMin := 1 <<< shiftDd
  let mask := ((1 <<< q.dim) - 1) <<< shiftDd
  if e - s = lenMin || (s &&& mask) ≠ 0 then ((d, s >>> shiftDd), s + lenMin)
  else nextCell q w s e

/-- Cells of one range (fuel = an upper bound on the number of cells, e.g. `e - s`). -/
def cellsOfRange (q : Qty) (w d : Nat) : Nat → Nat → Nat → List Cell
  | 0, _, _ => []
  | fuel + 1, s, e =>
    if e ≤ s then []
    else
      let (c, s') := nextCellK q w d s e
      c :: cellsOfRange q w d fuel s' e

/-- `CellMOCIteratorFromRanges`: the cell view of a MOC of depth `d`. -/
def cellsOf (q : Qty) (w d : Nat) (l : List Rng) : List Cell :=
  -- fuel: every step advances by at least one index (only as many steps as cells are taken)
  l.flatMap fun r => cellsOfRange q w d (r.2 - r.1) r.1 r.2

/-- `MocRange::from((depth, idx))`. -/
def rangeOfCell (q : Qty) (w : Nat) (c : Cell) : Rng :=
  let sh := q.shiftFromMax w c.1
  (c.2 <<< sh, (c.2 + 1) <<< sh)

/-- `RangeMOCIteratorFromCells::next` loop with current range `cur`. -/
def rangesOfCellsFrom (q : Qty) (w : Nat) (cur : Rng) : List Cell → List Rng
  | [] => [cur]
  | c :: t =>
    let r := rangeOfCell q w c
    if r.1 ≤ cur.2 then rangesOfCellsFrom q w (cur.1, r.2) t
    else cur :: rangesOfCellsFrom q w r t

def rangesOfCells (q : Qty) (w : Nat) : List Cell → List Rng
  | [] => []
  | c :: t => rangesOfCellsFrom q w (rangeOfCell q w c) t

/-- A cell `(d, i)` or a cell range `(d, i, j)` (`i..j` exclusive). -/
abbrev CellRange := Nat × Nat × Nat

/-- `CellOrCellRangeMOCIteratorFromCells`: group consecutive cells of the same depth. A single
    cell is `(d, i, i+1)`. -/
def cellRangesFrom (d i n : Nat) : List Cell → List CellRange
  | [] => [(d, i, i + n)]
  | c :: t => if c.1 = d ∧ i + n = c.2 then cellRangesFrom d i (n + 1) t else (d, i, i + n) :: cellRangesFrom c.1 c.2 1 t

def cellRangesOf : List Cell → List CellRange
  | [] => []
  | c :: t => cellRangesFrom c.1 c.2 1 t

/-- `RangeMOCIteratorFromCellOrCellRanges`: ranges of cell ranges, fused when touching. -/
def rangeOfCellRange (q : Qty) (w : Nat) (c : CellRange) : Rng :=
  let sh := q.shiftFromMax w c.1
  (c.2.1 <<< sh, c.2.2 <<< sh)

def rangesOfCellRangesFrom (q : Qty) (w : Nat) (cur : Rng) : List CellRange → List Rng
  | [] => [cur]
  | c :: t =>
    let r := rangeOfCellRange q w c
    if r.1 ≤ cur.2 then rangesOfCellRangesFrom q w (cur.1, r.2) t
    else cur :: rangesOfCellRangesFrom q w r t

def rangesOfCellRanges (q : Qty) (w : Nat) : List CellRange → List Rng
  | [] => []
  | c :: t => rangesOfCellRangesFrom q w (rangeOfCellRange q w c) t

/-- `DepthMaxCellsFromRanges`: the flat list of depth-`d` cells (`sh = shift_from_depth_max(d)`). -/
def flatCellsOf (sh : Nat) (l : List Rng) : List Nat :=
  l.flatMap fun r => (List.range ((r.2 - r.1) >>> sh)).map fun k => (r.1 >>> sh) + k

/-! ### numbering schemes -/

/-- `Hpx::uniq_hpx(depth, idx) = idx + 4·4^depth`. -/
def uniqHpx (d i : Nat) : Nat := i + (4 <<< (2 * d))

/-- `Hpx::from_uniq_hpx(uniq)` (Rust underflows for `uniq < 4`). -/
def fromUniqHpx (u : Nat) : Cell :=
  let d := (Nat.log2 u - 2) >>> 1
  (d, u - (4 <<< (2 * d)))

/-- `MocQty::to_uniq_gen(depth, idx) = sentinel_bit(depth) | idx` (the sentinel is above `idx`). -/
def toUniqGen (q : Qty) (d i : Nat) : Nat := ((1 <<< q.nd0Bits) <<< (q.dim * d)) ||| i

/-- `MocQty::from_uniq_gen(uniq)`. -/
def fromUniqGen (q : Qty) (u : Nat) : Cell :=
  let d := (Nat.log2 u - q.nd0Bits) / q.dim
  (d, u - ((1 <<< q.nd0Bits) <<< (q.dim * d)))

/-- `MocQty::uniq_gen_to_range(uniq)` (repaired: the shift is `shift_from_depth_max(depth)`, i.e.
    `dim * (MAX_DEPTH - depth)`; it was `(MAX_DEPTH - depth) << 1` — the HEALPix value — for every quantity). -/
def uniqGenToRange (q : Qty) (w u : Nat) : Rng := rangeOfCell q w (fromUniqGen q u)

/-- `MocQty::to_zuniq(depth, idx)`. -/
def toZuniq (q : Qty) (w d i : Nat) : Nat := ((i <<< 1) ||| 1) <<< q.shiftFromMax w d

/-- `MocQty::from_zuniq(zuniq)`. -/
def fromZuniq (q : Qty) (w z : Nat) : Cell :=
  let n := tz w z
  (q.maxDepth w - n / q.dim, z >>> (n + 1))

/-! ### index widths -/

/-- `Idx::convert` / `to_u64_idx`: to a wider type (`k` more bits). -/
def widen (k x : Nat) : Nat := x <<< k
/-- `from_u64_idx`: to a narrower type (drops the `k` low bits). -/
def narrow (k x : Nat) : Nat := x >>> k
/-- Exclusive END of a range to a narrower type: `from_u64_idx` rounds down, so one is added when bits
    were dropped (`if end.to_u64_idx() < range.end { end + 1 }`). -/
def narrowUp (k x : Nat) : Nat := if widen k (narrow k x) < x then narrow k x + 1 else narrow k x

end Moc
