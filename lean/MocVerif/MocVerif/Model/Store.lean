/-
  C13 — the in-memory MOC store (`src/storage/u64idx/store.rs`): a `Slab<(u8, InternalMoc)>` behind a
  process-wide `RwLock`.

  Modelled here, transliterated:
  * the slab of the `slab` crate (vector of `Vacant(next) | Occupied(v)` entries + head `next` of the
    free list): `insert` takes the head of the free list (or pushes), `remove` pushes the slot on it;
  * `add`, `copy_moc` (u8 counter, refuses at 255), `drop` (decrement, remove at 0);
  * `op1 / op2 / opn`: a READ phase under the read lock (look the operands up, compute) followed by
    a separate WRITE phase (`add` of the result); a failing read phase returns at once;
  * concurrent executions as sequences of lock sections (`Ev`): the RwLock makes every section atomic,
    several threads interleave their sections arbitrarily.
  Not modelled (runtime): the lock implementation itself (fairness, poisoning, re-entrancy) — the
  correspondence run exercises it with real threads under a watchdog.

  IMPORT-FREE apart from the model (linked into the native driver).
-/
import MocVerif.Model.Builders
import MocVerif.Model.Expr
import MocVerif.Model.Params

namespace Moc.Store

/-- What an entry holds: kind (0 = space, 1 = time, 2 = frequency, 3 = space-time), depth, ranges. -/
structure Val where
  kind : Nat
  depth : Nat
  rs : List Rng
  deriving DecidableEq, Repr

inductive Slot where
  | vacant (next : Nat)
  | occ (cnt : Nat) (v : Val)
  deriving DecidableEq, Repr

structure St where
  slots : List Slot
  next : Nat
  deriving Repr

def St.init : St := { slots := [], next := 0 }

/-- `Slab::get`. -/
def lookup (s : St) (i : Nat) : Option (Nat × Val) :=
  match s.slots[i]? with
  | some (.occ c v) => some (c, v)
  | _ => none

def valueAt (s : St) (i : Nat) : Option Val := (lookup s i).map (·.2)

/-- `Slab::insert((1, v))` (`insert_at`). The last branch is `unreachable!()` in the crate. -/
def insert (s : St) (v : Val) : St × Nat :=
  let key := s.next
  if key = s.slots.length then
    ({ slots := s.slots ++ [.occ 1 v], next := key + 1 }, key)
  else
    match s.slots[key]? with
    | some (.vacant n) => ({ slots := s.slots.set key (.occ 1 v), next := n }, key)
    | _ => (s, key)

/-- `Slab::remove` of an occupied slot. -/
def remove (s : St) (i : Nat) : St :=
  { slots := s.slots.set i (.vacant s.next), next := i }

inductive Err where
  | notFound | full | kind | other
  deriving DecidableEq, Repr

inductive Out where
  | idx (i : Nat)
  | unit
  | val (v : Val)
  | err (e : Err)
  deriving DecidableEq, Repr

/-- Public calls. The library operation of `op1/op2/opn` is a parameter: any function of the
    operands' VALUES (the store hands `&InternalMoc` references to it, nothing else). -/
inductive Call where
  | add (v : Val)
  | copy (i : Nat)
  | drop (i : Nat)
  | get (i : Nat)
  | op1 (f : Val → Except Err Val) (i : Nat)
  | op2 (f : Val → Val → Except Err Val) (i j : Nat)
  | opn (f : List Val → Except Err Val) (is : List Nat)

/-- Values of a list of indices (`exec_on_n_readonly_mocs`: first dead index → error). -/
def valuesF (val : Nat → Option Val) : List Nat → Option (List Val)
  | [] => some []
  | i :: is =>
    match val i, valuesF val is with
    | some v, some vs => some (v :: vs)
    | _, _ => none

/-- READ phase of an operation over a lookup function: look the operands up and compute. -/
def readPhaseF (val : Nat → Option Val) : Call → Except Err Val
  | .op1 f i => match val i with
    | some v => f v
    | none => .error .notFound
  | .op2 f i j => match val i, val j with
    | some a, some b => f a b
    | _, _ => .error .notFound
  | .opn f is => match valuesF val is with
    | some vs => f vs
    | none => .error .notFound
  | _ => .error .other

/-- READ phase on the store (under the read lock; no mutation). -/
def readPhase (s : St) (c : Call) : Except Err Val := readPhaseF (valueAt s) c

def copyMoc (s : St) (i : Nat) : St × Out :=
  match lookup s i with
  | none => (s, .err .notFound)
  | some (c, v) =>
    if c = 255 then (s, .err .full)
    else ({ s with slots := s.slots.set i (.occ (c + 1) v) }, .unit)

def dropMoc (s : St) (i : Nat) : St × Out :=
  match lookup s i with
  | none => (s, .err .notFound)
  | some (c, v) =>
    if c - 1 = 0 then (remove s i, .unit)
    else ({ s with slots := s.slots.set i (.occ (c - 1) v) }, .unit)

/-- Typed drop (`drop_smoc / drop_tmoc / drop_fmoc / drop_stmoc`, repaired): the kind of the MOC is checked FIRST, under
    the same write section; a mismatch is an error without effect, otherwise it is `drop`. -/
def dropKind (s : St) (k i : Nat) : St × Out :=
  match valueAt s i with
  | none => (s, .err .notFound)
  | some v => if v.kind = k then dropMoc s i else (s, .err .kind)

/-- One call executed alone (what a sequential client observes). -/
def step (s : St) : Call → St × Out
  | .add v => let r := insert s v; (r.1, .idx r.2)
  | .copy i => copyMoc s i
  | .drop i => dropMoc s i
  | .get i => match valueAt s i with
    | some v => (s, .val v)
    | none => (s, .err .notFound)
  | c => match readPhase s c with
    | .ok v => let r := insert s v; (r.1, .idx r.2)
    | .error e => (s, .err e)

def run (s : St) : List Call → St × List Out
  | [] => (s, [])
  | c :: cs => let r := step s c; let r2 := run r.1 cs; (r2.1, r.2 :: r2.2)

/-! ### Concurrent executions: sequences of lock sections -/

def isOp : Call → Bool
  | .op1 .. | .op2 .. | .opn .. => true
  | _ => false

def operands : Call → List Nat
  | .op1 _ i => [i]
  | .op2 _ i j => [i, j]
  | .opn _ is => is
  | _ => []

/-- A lock section. `atomic` = a whole `add/copy/drop/get` call (one section);
    `read t c` = read phase of operation `c` issued by thread `t`;
    `write t` = write phase (`add` of the computed result) of the pending operation of thread `t`. -/
inductive Ev where
  | atomic (t : Nat) (c : Call)
  | read (t : Nat) (c : Call)
  | write (t : Nat)

structure CSt where
  st : St
  pend : List (Nat × Call × Val)     -- thread, its operation, the value its read phase computed

def pendOf (p : List (Nat × Call × Val)) (t : Nat) : Option (Call × Val) :=
  (p.find? (·.1 == t)).map (·.2)

/-- Executes one lock section; returns the call that COMPLETES in it (with its output), if any. -/
def cstep (cs : CSt) : Ev → CSt × Option (Nat × Out)
  | .atomic t c => let r := step cs.st c; ({ cs with st := r.1 }, some (t, r.2))
  | .read t c =>
    match readPhase cs.st c with
    | .ok v => ({ cs with pend := (t, c, v) :: cs.pend }, none)
    | .error e => (cs, some (t, .err e))
  | .write t =>
    match pendOf cs.pend t with
    | some (_, v) =>
      let r := insert cs.st v
      ({ st := r.1, pend := cs.pend.filter (·.1 != t) }, some (t, .idx r.2))
    | none => (cs, none)

def crun (cs : CSt) : List Ev → CSt × List (Nat × Out)
  | [] => (cs, [])
  | e :: es =>
    let r := cstep cs e
    let r2 := crun r.1 es
    (r2.1, match r.2 with | some o => o :: r2.2 | none => r2.2)

/-- The sequential history a concurrent execution is equivalent to: every call placed at the lock
    section in which it completes (operations: their write phase; failed read phases: the read). -/
def linearize (cs : CSt) : List Ev → List (Nat × Call)
  | [] => []
  | e :: es =>
    let r := cstep cs e
    match e with
    | .atomic t c => (t, c) :: linearize r.1 es
    | .read t c =>
      (match readPhase cs.st c with
       | .ok _ => linearize r.1 es
       | .error _ => (t, c) :: linearize r.1 es)
    | .write t =>
      (match pendOf cs.pend t with
       | some (c, _) => (t, c) :: linearize r.1 es
       | none => linearize r.1 es)

/-- "Operands are shared read-only": no section drops an operand of an operation that is between
    its read phase and its write phase; a thread has at most one operation in flight and every
    `read` carries an operation. -/
def SafeEv (cs : CSt) : Ev → Prop
  | .atomic _ (.drop i) => ∀ p ∈ cs.pend, i ∉ operands p.2.1
  | .atomic _ c => isOp c = false
  | .read t c => isOp c = true ∧ pendOf cs.pend t = none
  | .write _ => True

def SafeTrace (cs : CSt) : List Ev → Prop
  | [] => True
  | e :: es => SafeEv cs e ∧ SafeTrace (cstep cs e).1 es

/-! ### The library operations the store dispatches to (for the correspondence run) -/

def qtyOfKind (k : Nat) : Qty :=
  if k = 0 then Params.hpx else if k = 1 then Params.time else Params.freq

def libNot (v : Val) : Except Err Val :=
  if v.kind ≥ 3 then .error .other
  else .ok { v with rs := (evalE (qtyOfKind v.kind) 64 (.not (.leaf (borrowedSrc v.depth v.rs)))).2 }

def libDegrade (nd : Nat) (v : Val) : Except Err Val :=
  if v.kind ≥ 3 then .error .other
  else
    let r := evalE (qtyOfKind v.kind) 64 (.degrade nd (.leaf (borrowedSrc v.depth v.rs)))
    .ok { kind := v.kind, depth := r.1, rs := r.2 }

def libOp2 (op : Nat) (a b : Val) : Except Err Val :=
  if a.kind ≠ b.kind then .error .kind
  else if a.kind ≥ 3 then .error .other
  else
    let q := qtyOfKind a.kind
    let x := Expr.leaf (borrowedSrc a.depth a.rs)
    let y := Expr.leaf (borrowedSrc b.depth b.rs)
    let e := if op = 0 then Expr.and x y else if op = 1 then Expr.or x y
             else if op = 2 then Expr.xor x y else Expr.minus x y
    let r := evalE q 64 e
    .ok { kind := a.kind, depth := r.1, rs := r.2 }

def libOpN (op : Nat) (vs : List Val) : Except Err Val :=
  match vs with
  | [] => .error .other
  | v :: _ =>
    if v.kind ≥ 3 then .error .other
    else if vs.all (·.kind == v.kind) then
      let r := kway (if op = 0 then opAnd else if op = 1 then opOr else opXor) (vs.map fun x => (x.depth, x.rs))
      .ok { kind := v.kind, depth := r.1, rs := r.2 }
    else .error .kind

end Moc.Store

namespace Moc.Store

/-! ### Lock sections taken by one call (observed through the `verif_hooks` feature) -/

inductive LockEv where
  | rAcq | rRel | wAcq | wRel
  deriving DecidableEq, Repr

/-- The lock sections of a call: `add/copy/drop` = one write section; `get` = one read section;
    operations = one read section, then one write section iff the read phase succeeded. -/
def lockTrace (s : St) : Call → List LockEv
  | .add _ => [.wAcq, .wRel]
  | .copy _ => [.wAcq, .wRel]
  | .drop _ => [.wAcq, .wRel]
  | .get _ => [.rAcq, .rRel]
  | c => match readPhase s c with
    | .ok _ => [.rAcq, .rRel, .wAcq, .wRel]
    | .error _ => [.rAcq, .rRel]

/-- Number of locks held after a trace, starting from `held`; `none` if a lock is acquired while one
    is already held (nesting) or released while none is held. -/
def heldAfter : Nat → List LockEv → Option Nat
  | h, [] => some h
  | h, .rAcq :: t => if h = 0 then heldAfter 1 t else none
  | h, .wAcq :: t => if h = 0 then heldAfter 1 t else none
  | h, .rRel :: t => if h = 1 then heldAfter 0 t else none
  | h, .wRel :: t => if h = 1 then heldAfter 0 t else none

/-- Lock discipline: sections never nest and everything acquired is released. -/
def Disciplined (tr : List LockEv) : Prop := heldAfter 0 tr = some 0

instance (tr : List LockEv) : Decidable (Disciplined tr) := by unfold Disciplined; exact inferInstance

end Moc.Store
