/-
  C19 — civil date and time of day → microseconds since JD 0 (`crates/cli/src/lib.rs`:
  `gregorian2jd`, `calendar2f` (Richards, algorithm 3), `hms2usec`, the `IsoRfc` / `IsoSimple`
  branches of `InputTime::parse`, `check_usec`).  Years `0 ≤ y` (every quantity below is then
  non-negative, so the `i16` / `i32` arithmetic of the Rust code — truncating division, arithmetic
  shift — coincides with the natural-number operations used here).
  IMPORT-FREE.
-/
namespace Moc.Calendar

/-- `calendar2f(y, m, d)`: `h = m - 2`, `g = y + 4716 - (12 - h) / 12`, `f = (h + 11) % 12`,
    `e = ((1461 g) >> 2) + d - 1402`, result `(e + (153 f + 2) / 5, g)`. -/
def calendar2f (y m d : Nat) : Nat × Nat :=
  let g := y + 4716 - (14 - m) / 12          -- 12 - h = 14 - m
  let f := (m + 9) % 12                      -- h + 11 = m + 9
  let e := ((1461 * g) >>> 2) + d - 1402
  (e + (153 * f + 2) / 5, g)

/-- `gregorian2jd`: Julian day NUMBER (the day that starts at 12h00 of the civil date). -/
def gregorian2jd (y m d : Nat) : Nat :=
  let jg := calendar2f y m d
  jg.1 - ((3 * ((jg.2 + 184) / 100)) >>> 2) + 38

/-- `hms2usec`. -/
def hms2usec (h mi s : Nat) : Nat := (h * 3600 + mi * 60 + s) * 1000000

/-- The instant of a civil date and time of day, in microseconds since JD 0 (a Julian day starts at
    12h00: half a day is subtracted), with the domain test of `check_usec`. -/
def isoUsec (y m d h mi s us : Nat) : Option Nat :=
  let t := gregorian2jd y m d * 86400000000 + us + hms2usec h mi s - 43200000000
  if t < 2 ^ 62 then some t else none

/-- Gregorian leap years. -/
abbrev isLeap (y : Nat) : Prop := y % 4 = 0 ∧ (y % 100 ≠ 0 ∨ y % 400 = 0)

def monthLen (y m : Nat) : Nat :=
  if m = 2 then (if isLeap y then 29 else 28)
  else if m = 4 ∨ m = 6 ∨ m = 9 ∨ m = 11 then 30 else 31

/-- The day after `(y, m, d)`. -/
def nextDay (y m d : Nat) : Nat × Nat × Nat :=
  if d < monthLen y m then (y, m, d + 1)
  else if m < 12 then (y, m + 1, 1) else (y + 1, 1, 1)

end Moc.Calendar
