/-
  C07 — the whole FITS file written for a 1-D MOC in RANGE encoding
  (`src/deser/fits/mod.rs`: `ranges_to_fits_ivoa`, `build_range_moc_keywords`, `write_fits_header`,
  `ranges_to_fits_ivoa_internal`; `src/deser/fits/common.rs`: `write_primary_hdu`,
  `write_uint_mandatory_keyword_record`, `write_keyword_record`, `parse_uint_val`;
  `src/deser/fits/keywords.rs`: the cards of the keyword map, in the order of their indices).

  Bytes are characters for the two header blocks (80-character cards, 36 cards per block, blanks
  elsewhere) followed by the data unit (`Codec.encodeWords` / `toBE`) and its zero padding.
  The reader side modelled here is what the structure of the file rests on: the unsigned value of a
  card (`parse_uint_val`: left-trim, leading digits) and the extraction of the data unit from
  `NAXIS1 × NAXIS2`.
  IMPORT-FREE (linked into the native driver).
-/
import MocVerif.Model.Codec

namespace Moc.Fits
open Moc Moc.Codec

/-- Blank-padded on the right to `n` characters (a card: 80, a header block: 2880). -/
def pad (n : Nat) (cs : List Char) : List Char := cs ++ List.replicate (n - cs.length) ' '

/-- `write_uint_mandatory_keyword_record` and the literal mandatory cards: the value is
    right-justified in columns 11–30. -/
def cardFixed (kw v : List Char) : List Char :=
  pad 80 (kw ++ '=' :: ' ' :: (List.replicate (20 - v.length) ' ' ++ v))

/-- `write_keyword_record`: the value part starts in column 11. -/
def cardFree (kw v : List Char) : List Char := pad 80 (kw ++ '=' :: ' ' :: v)

def quoted (v : List Char) : List Char := '\'' :: (v ++ ['\''])

def endCard : List Char := pad 80 ['E', 'N', 'D']

/-- One header block of 36 cards. -/
def block (cards : List (List Char)) : List Char := pad 2880 cards.flatten

/-- `write_primary_hdu`. -/
def primaryCards : List (List Char) :=
  [cardFixed ['S', 'I', 'M', 'P', 'L', 'E', ' ', ' '] ['T'], cardFixed ['B', 'I', 'T', 'P', 'I', 'X', ' ', ' '] ['8'], cardFixed ['N', 'A', 'X', 'I', 'S', ' ', ' ', ' '] ['0'],
   cardFixed ['E', 'X', 'T', 'E', 'N', 'D', ' ', ' '] ['T'], endCard]

/-- `T::TFORM`. -/
def tform (w : Nat) : List Char :=
  if w = 8 then ['1', 'B'] else if w = 16 then ['1', 'I'] else if w = 32 then ['1', 'J'] else ['1', 'K']

/-- The cards of `build_range_moc_keywords` (no MOC id, no MOC type), in the order of the keyword
    map; `q.name` is the value of `MOCDIM`. -/
def mocCards (q : Qty) (w depth : Nat) : List (List Char) :=
  let tf := cardFree ['T', 'F', 'O', 'R', 'M', '1', ' ', ' '] (quoted (tform w))
  let tt := cardFree ['T', 'T', 'Y', 'P', 'E', '1', ' ', ' '] (quoted ['R', 'A', 'N', 'G', 'E'])
  let tool := cardFree ['M', 'O', 'C', 'T', 'O', 'O', 'L', ' '] (quoted ['C', 'D', 'S', ' ', 'M', 'O', 'C', ' ', 'R', 'u', 's', 't', ' ', 'l', 'i', 'b'])
  [cardFree ['M', 'O', 'C', 'V', 'E', 'R', 'S', ' '] (quoted ['2', '.', '0']),
   cardFree ['M', 'O', 'C', 'D', 'I', 'M', ' ', ' '] (quoted (if q.name == "HPX" then ['S', 'P', 'A', 'C', 'E'] else if q.name == "TIME" then ['T', 'I', 'M', 'E'] else ['F', 'R', 'E', 'Q', 'U', 'E', 'N', 'C', 'Y'])),
   cardFree ['O', 'R', 'D', 'E', 'R', 'I', 'N', 'G'] (quoted ['R', 'A', 'N', 'G', 'E'])] ++
  (if q.name == "HPX" then
     [cardFree ['C', 'O', 'O', 'R', 'D', 'S', 'Y', 'S'] (quoted ['C']), tool, cardFree ['M', 'O', 'C', 'O', 'R', 'D', '_', 'S'] (showNat depth), tf, tt]
   else if q.name == "TIME" then
     [cardFree ['T', 'I', 'M', 'E', 'S', 'Y', 'S', ' '] (quoted ['T', 'C', 'B']), tool, cardFree ['M', 'O', 'C', 'O', 'R', 'D', '_', 'T'] (showNat depth), tf, tt]
   else
     [tool, tf, tt, cardFree ['M', 'O', 'C', 'O', 'R', 'D', '_', 'F'] (showNat depth)])

/-- `write_fits_header`: the BINTABLE cards (row width `w / 8` bytes, `nRows` rows), the MOC cards, `END`. -/
def tableCardsOf (w nRows : Nat) (moc : List (List Char)) : List (List Char) :=
  [cardFree ['X', 'T', 'E', 'N', 'S', 'I', 'O', 'N'] (quoted ['B', 'I', 'N', 'T', 'A', 'B', 'L', 'E']),
   cardFixed ['B', 'I', 'T', 'P', 'I', 'X', ' ', ' '] ['8'],
   cardFixed ['N', 'A', 'X', 'I', 'S', ' ', ' ', ' '] ['2'],
   cardFixed ['N', 'A', 'X', 'I', 'S', '1', ' ', ' '] (showNat (w / 8)),
   cardFixed ['N', 'A', 'X', 'I', 'S', '2', ' ', ' '] (showNat nRows),
   cardFixed ['P', 'C', 'O', 'U', 'N', 'T', ' ', ' '] ['0'],
   cardFixed ['G', 'C', 'O', 'U', 'N', 'T', ' ', ' '] ['1'],
   cardFixed ['T', 'F', 'I', 'E', 'L', 'D', 'S', ' '] ['1']] ++ moc ++ [endCard]

/-- A whole file: primary block, table header block, one big-endian word of `w / 8` bytes per row,
    zero padding to a multiple of 2880. -/
def fileOf (w : Nat) (moc : List (List Char)) (words : List Nat) : List Nat :=
  let data := words.flatMap (toBE (w / 8))
  (block primaryCards ++ block (tableCardsOf w words.length moc)).map Char.toNat
    ++ data ++ List.replicate (padding data.length) 0

def tableCards (q : Qty) (w depth nRanges : Nat) : List (List Char) :=
  tableCardsOf w (nRanges <<< 1) (mocCards q w depth)

/-- The data unit: big-endian words, `(start, end)` per range. -/
def dataUnit (w : Nat) (rs : List Rng) : List Nat := (encodeWords rs).flatMap (toBE (w / 8))

/-- **The whole file** `to_fits_ivoa(None, None)` writes for a range MOC. -/
def rangeFile (q : Qty) (w depth : Nat) (rs : List Rng) : List Nat :=
  fileOf w (mocCards q w depth) (encodeWords rs)

/-- An optional string card. -/
def optCard (kw : List Char) : Option (List Char) → List (List Char)
  | some v => [cardFree kw (quoted v)]
  | none => []

/-- The same cards with the optional `MOCID` (before `MOCTOOL`) and `MOCTYPE` (after it) of
    `to_fits_ivoa(Some(id), Some(type))`, at their places in the keyword map. -/
def mocCardsWith (q : Qty) (w depth : Nat) (id ty : Option (List Char)) : List (List Char) :=
  let tf := cardFree ['T', 'F', 'O', 'R', 'M', '1', ' ', ' '] (quoted (tform w))
  let tt := cardFree ['T', 'T', 'Y', 'P', 'E', '1', ' ', ' '] (quoted ['R', 'A', 'N', 'G', 'E'])
  let tool := cardFree ['M', 'O', 'C', 'T', 'O', 'O', 'L', ' '] (quoted ['C', 'D', 'S', ' ', 'M', 'O', 'C', ' ', 'R', 'u', 's', 't', ' ', 'l', 'i', 'b'])
  let idc := optCard ['M', 'O', 'C', 'I', 'D', ' ', ' ', ' '] id
  let tyc := optCard ['M', 'O', 'C', 'T', 'Y', 'P', 'E', ' '] ty
  [cardFree ['M', 'O', 'C', 'V', 'E', 'R', 'S', ' '] (quoted ['2', '.', '0']),
   cardFree ['M', 'O', 'C', 'D', 'I', 'M', ' ', ' '] (quoted (if q.name == "HPX" then ['S', 'P', 'A', 'C', 'E'] else if q.name == "TIME" then ['T', 'I', 'M', 'E'] else ['F', 'R', 'E', 'Q', 'U', 'E', 'N', 'C', 'Y'])),
   cardFree ['O', 'R', 'D', 'E', 'R', 'I', 'N', 'G'] (quoted ['R', 'A', 'N', 'G', 'E'])] ++
  (if q.name == "HPX" then
     [cardFree ['C', 'O', 'O', 'R', 'D', 'S', 'Y', 'S'] (quoted ['C'])] ++ idc ++ [tool] ++ tyc ++
       [cardFree ['M', 'O', 'C', 'O', 'R', 'D', '_', 'S'] (showNat depth), tf, tt]
   else if q.name == "TIME" then
     [cardFree ['T', 'I', 'M', 'E', 'S', 'Y', 'S', ' '] (quoted ['T', 'C', 'B'])] ++ idc ++ [tool] ++ tyc ++
       [cardFree ['M', 'O', 'C', 'O', 'R', 'D', '_', 'T'] (showNat depth), tf, tt]
   else
     idc ++ [tool] ++ tyc ++ [tf, tt, cardFree ['M', 'O', 'C', 'O', 'R', 'D', '_', 'F'] (showNat depth)])

/-- The whole file written with an identifier and / or a type. -/
def rangeFileWith (q : Qty) (w depth : Nat) (id ty : Option (List Char)) (rs : List Rng) : List Nat :=
  fileOf w (mocCardsWith q w depth id ty) (encodeWords rs)

/-- The cards of `rangemoc2d_to_fits_ivoa` (ST-MOC, version 2, no id, no type). -/
def stCards (w d1 d2 : Nat) : List (List Char) :=
  [cardFree ['M', 'O', 'C', 'V', 'E', 'R', 'S', ' '] (quoted ['2', '.', '0']),
   cardFree ['M', 'O', 'C', 'D', 'I', 'M', ' ', ' '] (quoted ['T', 'I', 'M', 'E', '.', 'S', 'P', 'A', 'C', 'E']),
   cardFree ['O', 'R', 'D', 'E', 'R', 'I', 'N', 'G'] (quoted ['R', 'A', 'N', 'G', 'E']),
   cardFree ['C', 'O', 'O', 'R', 'D', 'S', 'Y', 'S'] (quoted ['C']),
   cardFree ['T', 'I', 'M', 'E', 'S', 'Y', 'S', ' '] (quoted ['T', 'C', 'B']),
   cardFree ['M', 'O', 'C', 'T', 'O', 'O', 'L', ' '] (quoted ['C', 'D', 'S', ' ', 'M', 'O', 'C', ' ', 'R', 'u', 's', 't', ' ', 'l', 'i', 'b']),
   cardFree ['M', 'O', 'C', 'O', 'R', 'D', '_', 'S'] (showNat d2),
   cardFree ['M', 'O', 'C', 'O', 'R', 'D', '_', 'T'] (showNat d1),
   cardFree ['T', 'F', 'O', 'R', 'M', '1', ' ', ' '] (quoted (tform w))]

/-- **The whole file** written for an ST-MOC whose rows (time ranges flagged) are `rows`. -/
def stFile (w d1 d2 : Nat) (rows : List Rng) : List Nat := fileOf w (stCards w d1 d2) (encodeWords rows)

/-- The cards of `hpx_cells_to_fits_ivoa` (NUNIQ encoding). -/
def nuniqCards (w depth : Nat) : List (List Char) :=
  [cardFree ['M', 'O', 'C', 'V', 'E', 'R', 'S', ' '] (quoted ['2', '.', '0']),
   cardFree ['M', 'O', 'C', 'D', 'I', 'M', ' ', ' '] (quoted ['S', 'P', 'A', 'C', 'E']),
   cardFree ['O', 'R', 'D', 'E', 'R', 'I', 'N', 'G'] (quoted ['N', 'U', 'N', 'I', 'Q']),
   cardFree ['C', 'O', 'O', 'R', 'D', 'S', 'Y', 'S'] (quoted ['C']),
   cardFree ['M', 'O', 'C', 'T', 'O', 'O', 'L', ' '] (quoted ['C', 'D', 'S', ' ', 'M', 'O', 'C', ' ', 'R', 'u', 's', 't', ' ', 'l', 'i', 'b']),
   cardFree ['M', 'O', 'C', 'O', 'R', 'D', '_', 'S'] (showNat depth),
   cardFree ['M', 'O', 'C', 'O', 'R', 'D', 'E', 'R'] (showNat depth),
   cardFree ['T', 'F', 'O', 'R', 'M', '1', ' ', ' '] (quoted (tform w)),
   cardFree ['T', 'T', 'Y', 'P', 'E', '1', ' ', ' '] (quoted ['U', 'N', 'I', 'Q'])]

/-- **The whole file** written for an S-MOC in NUNIQ encoding: one NUNIQ number per row, ascending
    (one buffer per depth, written in depth order). -/
def nuniqFile (w depth : Nat) (uniqs : List Nat) : List Nat := fileOf w (nuniqCards w depth) uniqs

/-! ### Reader side -/

/-- Card `i` of a sequence of characters. -/
def getCard (cs : List Char) (i : Nat) : List Char := (cs.drop (80 * i)).take 80

/-- `parse_uint_val`: the value field (from column 11), left-trimmed; its leading digits. -/
def readUint (card : List Char) : Option Nat :=
  let r := takeDigits (dropSpaces (card.drop 10))
  if r.1.isEmpty then none else some (digitsVal r.1)

/-- Split a data unit into words of `k` bytes. -/
def wordsOf (k : Nat) : Nat → List Nat → List Nat
  | 0, _ => []
  | n + 1, bytes => fromBE (bytes.take k) :: wordsOf k n (bytes.drop k)

/-- What the structure of the file determines: the row width and row count declared by cards 4 and 5
    of the table header (`NAXIS1`, `NAXIS2`), and the ranges decoded from the `NAXIS1 × NAXIS2` data
    bytes that follow the two header blocks. -/
def readWords (file : List Nat) : Option (Nat × Nat × List Nat) :=
  let hdr := (file.take 5760).map Char.ofNat
  match readUint (getCard hdr 39), readUint (getCard hdr 40) with
  | some n1, some n2 =>
    let data := (file.drop 5760).take (n1 * n2)
    some (n1, n2, wordsOf n1 n2 data)
  | _, _ => none

def readStructure (file : List Nat) : Option (Nat × Nat × List Rng) :=
  match readWords file with
  | some (n1, n2, ws) => some (n1, n2, decodeWords ws)
  | none => none

end Moc.Fits
