/-
  Space-time MOCs: point-set semantics, validity predicates and the SPECIFICATIONS of the 2-D
  operators (union / intersection / difference, time fold, space fold, lookup, construction from
  observations).  The Rust implementations (`src/moc2d/range/op/or.rs`, `src/ranges/ranges2d.rs`,
  `src/hpxranges2d.rs`, the ST builders) are compared with these specifications point by point on a
  grid of representative (instant, position) pairs and their outputs are judged by `validSTB` /
  `validFlatB` (refinement to an abstract spec; no transliteration of the 1 400-line state machine).
-/
import MocVerif.Model.Query

namespace Moc

/-- Elements `(time MOC, space MOC)` (`RangeMOC2`) — or, in flat form, one time range per entry
    (`Ranges2D`). -/
abbrev STMoc := List (List Rng × List Rng)

/-- `(t, s)` is covered. -/
def memST (t s : Nat) (m : STMoc) : Prop := ∃ e ∈ m, mem t e.1 ∧ mem s e.2

def memSTB (t s : Nat) (m : STMoc) : Bool := m.any fun e => decide (mem t e.1) && decide (mem s e.2)

/-- Specification of the union: the concatenation covers exactly the union of the point sets. -/
def stUnionSpec (a b : STMoc) : STMoc := a ++ b

/-- Specification of the intersection: pairwise products of intersections. -/
def stInterSpec (a b : STMoc) : STMoc :=
  a.flatMap fun ea => b.map fun eb => (intersection ea.1 eb.1, intersection ea.2 eb.2)

/-- Point-wise evaluation of `A op B` (`op` as in `merge`: 2-bit truth table index `2a+b`). -/
def stPointOp (tt : Nat) (a b : STMoc) (t s : Nat) : Bool :=
  let x := memSTB t s a
  let y := memSTB t s b
  (tt >>> ((if x then 2 else 0) + (if y then 1 else 0))) % 2 == 1

/-- Time fold `tfold(T, A)`: union of the space coverages of `A` at the instants of `T`. -/
def tfoldB (tm : List Rng) (a : STMoc) (s : Nat) : Bool :=
  a.any fun e => decide (mem s e.2) && e.1.any (fun r => intersectsRange tm r)

/-- Space fold `sfold(S, A)`: the instants at which `A`'s (non-empty) space coverage lies inside `S`. -/
def sfoldB (sm : List Rng) (a : STMoc) (t : Nat) : Bool :=
  a.any fun e => decide (mem t e.1) && !e.2.isEmpty && containsAll sm e.2

/-- Construction from observations `(time range, space range)`: covered iff some observation covers it. -/
def obsB (obs : List (Rng × Rng)) (t s : Nat) : Bool :=
  obs.any fun o => decide (o.1.1 ≤ t ∧ t < o.1.2) && decide (o.2.1 ≤ s ∧ s < o.2.2)

/-- `RangeMOC2::min_index_left`: start of the first time range of the first element. -/
def minIndexLeft (m : STMoc) : Option Nat := m.head?.bind fun e => e.1.head?.map (·.1)

/-- `RangeMOC2::max_index_left`: EXCLUSIVE end of the last time range of the last element. -/
def maxIndexLeft (m : STMoc) : Option Nat := m.getLast?.bind fun e => e.1.getLast?.map (·.2)

/-- `RangeMOC2::compute_n_ranges`: number of time ranges + number of space ranges, over all elements. -/
def nRangesST : STMoc → Nat
  | [] => 0
  | e :: t => e.1.length + e.2.length + nRangesST t

/-- First instant of an element. -/
def firstInstant (e : List Rng × List Rng) : Nat := firstStart e.1

/-- Two time MOCs are disjoint. -/
def disjointB (a b : List Rng) : Bool := !(intersects a b)

/-- Validity of a `RangeMOC2`: every element has a non-empty canonical time MOC and a non-empty
    canonical space MOC, time MOCs of distinct elements are pairwise disjoint, elements ordered by
    time (every instant of an element precedes every instant of the following ones). -/
def validSTB : STMoc → Bool
  | [] => true
  | e :: t =>
    canonB e.1 && !e.1.isEmpty && canonB e.2 && !e.2.isEmpty &&
    -- (the order condition implies that the time MOCs are disjoint)
    t.all (fun f => decide (lastEnd e.1 ≤ firstInstant f)) && validSTB t

/-- Validity of the flat form produced by the `Ranges2D` algebra (C10): one non-empty time range
    per entry, strictly increasing and disjoint, non-empty canonical space, touching ranges with
    identical space fused. -/
def validFlatB : STMoc → Bool
  | [] => true
  | [e] => (match e.1 with | [r] => decide (r.1 < r.2) | _ => false) && canonB e.2 && !e.2.isEmpty
  | e :: f :: t =>
    (match e.1, f.1 with
     | [r], [q] => decide (r.1 < r.2) && decide (r.2 ≤ q.1) && !(decide (r.2 = q.1) && e.2 == f.2)
     | _, _ => false) && canonB e.2 && !e.2.isEmpty && validFlatB (f :: t)

end Moc

namespace Moc

/-- Flat space-time coverage (`Ranges2D`): one time range per entry. -/
abbrev FlatST := List (Rng × List Rng)

/-- `project_on_second_dim` (time fold) as the code computes it: the entries whose time range
    intersects `x` are kept and their space coverages are united (a parallel `reduce` in Rust: any
    grouping / order of the unions). -/
def tfoldRanges (x : List Rng) (flat : FlatST) : List Rng :=
  (flat.filter fun e => intersectsRange x e.1).foldl (fun acc e => union acc e.2) []

/-- `project_on_first_dim` (space fold): the time ranges of the entries all of whose space ranges
    are contained in `y`, merged by `new_from_sorted`. -/
def sfoldRanges (y : List Rng) (flat : FlatST) : List Rng :=
  newFromSorted ((flat.filter fun e => containsAll y e.2).map (·.1))

end Moc
