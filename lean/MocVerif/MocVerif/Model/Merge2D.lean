/-
  C10 — `Ranges2D::merge` (`src/ranges/ranges2d.rs`), the sweep behind the union / intersection /
  difference of flat space-time coverages, transliterated.

  The Rust loop walks the time bounds of both operands with two cursors `i`, `j` (even = start of
  range `i/2`, odd = its end).  Here every bound is an EVENT `(coordinate, state after it)`:
  `some S` after the start of a range of space coverage `S`, `none` after its end; `st1`, `st2` are
  the states after the last consumed event of each operand, which is what the Rust computes from the
  parity of the cursor and `c == v` / `c < v` (`in_t1`, `y[i >> 1]`).  The output stacks `t_ranges` /
  `s_ranges` (zipped at the end) are kept here as one stack of closed segments plus the open one
  (`last_t`, `prev_s`).  The final pass is the REPAIRED one (zero-length ranges dropped, touching
  ranges of equal space coverage fused).  IMPORT-FREE apart from the 1-D operators.
-/
import MocVerif.Model.ST

namespace Moc.Merge2D
open Moc

abbrev Space := List Rng
/-- `(coordinate, state after the bound)`. -/
abbrev Ev := Nat × Option Space

/-- The bounds of a flat coverage, in order. -/
def evs (a : FlatST) : List Ev := a.flatMap fun e => [(e.1.1, some e.2), (e.1.2, none)]

/-- `op_union`, `op_intersection`, `op_difference` on the two states. -/
inductive Op | union | inter | diff
  deriving DecidableEq, Repr

def Op.apply : Op → Option Space → Option Space → Option Space
  | .union, some a, some b => some (Moc.union a b)
  | .union, none, some b => some b
  | .union, some a, none => some a
  | .union, none, none => none
  | .inter, some a, some b => some (Moc.intersection a b)
  | .inter, _, _ => none
  | .diff, some a, some b => some (Moc.difference a b)
  | .diff, some a, none => some a
  | .diff, none, _ => none

/-- The merged sequence of `(coordinate, resulting state)` the loop goes through. -/
def mergeEvents (op : Op) : List Ev → List Ev → Option Space → Option Space → List Ev
  | [], [], _, _ => []
  | [], (c, x2) :: t2, st1, _ => (c, op.apply none x2) :: mergeEvents op [] t2 st1 x2
  | (c, x1) :: t1, [], _, st2 => (c, op.apply x1 none) :: mergeEvents op t1 [] x1 st2
  | (v1, x1) :: t1, (v2, x2) :: t2, st1, st2 =>
    if v1 < v2 then (v1, op.apply x1 st2) :: mergeEvents op t1 ((v2, x2) :: t2) x1 st2
    else if v2 < v1 then (v2, op.apply st1 x2) :: mergeEvents op ((v1, x1) :: t1) t2 st1 x2
    else (v1, op.apply x1 x2) :: mergeEvents op t1 t2 x1 x2
termination_by l1 l2 => l1.length + l2.length

/-- Output state of the loop: closed segments (oldest first) and the open one `(last_t, prev_s)`. -/
structure Sw where
  out : FlatST := []
  cur : Option (Nat × Space) := none
  deriving Repr

/-- The `if let Some(prev_ranges) = prev_s { … } else if let Some(cur_ranges) = s { … }` block. -/
def emit (sw : Sw) (e : Ev) : Sw :=
  match sw.cur, e.2 with
  | some (t0, p), some cr =>
    if cr.isEmpty then { out := sw.out ++ [((t0, e.1), p)], cur := none }
    else if p != cr then { out := sw.out ++ [((t0, e.1), p)], cur := some (e.1, cr) }
    else sw
  | some (t0, p), none => { out := sw.out ++ [((t0, e.1), p)], cur := none }
  | none, some cr => if cr.isEmpty then sw else { sw with cur := some (e.1, cr) }
  | none, none => sw

/-- The final pass (repaired): drop zero-length ranges, fuse touching ranges of equal coverage.
    `cur` is the last pushed pair (`x.last_mut()`, `y.last()`). -/
def postPassFrom (cur : Rng × Space) : FlatST → FlatST
  | [] => [cur]
  | (t, s) :: rest =>
    if t.1 < t.2 then
      if cur.1.2 = t.1 && cur.2 == s then postPassFrom ((cur.1.1, t.2), cur.2) rest
      else cur :: postPassFrom (t, s) rest
    else postPassFrom cur rest

def postPass : FlatST → FlatST
  | [] => []
  | (t, s) :: rest => if t.1 < t.2 then postPassFrom (t, s) rest else postPass rest

def merge2 (op : Op) (a b : FlatST) : FlatST :=
  postPass ((mergeEvents op (evs a) (evs b) none none).foldl emit {}).out

/-- `TimeSpaceRangesIter` (`time_space_iter`): consecutive flat entries with the same coverage form one element. -/
def regroupFrom (cur : List Rng × Space) : FlatST → STMoc
  | [] => [cur]
  | (t, s) :: rest =>
    if s == cur.2 then regroupFrom (cur.1 ++ [t], cur.2) rest
    else cur :: regroupFrom ([t], s) rest

def regroup : FlatST → STMoc
  | [] => []
  | (t, s) :: rest => regroupFrom ([t], s) rest


end Moc.Merge2D
