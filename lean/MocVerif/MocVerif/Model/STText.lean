/-
  C11 — ASCII serialisation of a space-time MOC (`moc2d_to_ascii_ivoa` / `moc2d_from_ascii_ivoa`,
  src/deser/ascii.rs): a sequence of elements `t<time MOC in ASCII> s<space MOC in ASCII>` followed by
  a depth-only element `t<d1>/ s<d2>/`; the reader splits on the two prefixes, decodes every part with
  the 1-D reader, takes the maximum of the depths and keeps the elements whose two parts are non-empty.
  IMPORT-FREE (model layer).
-/
import MocVerif.Model.Codec
import MocVerif.Model.Params

namespace Moc.STText
open Moc Moc.Codec

abbrev Elem := List Rng × List Rng

/-- Token-level document: one pair of token lists per element. -/
abbrev Doc := List (List Tok × List Tok)

/-- Writer: every element with the two global depths, then the depth-only element. -/
def encodeDoc (w : Nat) (d1 d2 : Nat) (elems : List Elem) : Doc :=
  elems.map (fun e => (encodeToks d1 (itemsOf Params.time w d1 e.1), encodeToks d2 (itemsOf Params.hpx w d2 e.2)))
    ++ [([.depth d1], [.depth d2])]

/-- JSON writer (`cellmoc2d_to_json_aladin`): the same document with single cells only. -/
def encodeDocJson (w : Nat) (d1 d2 : Nat) (elems : List Elem) : Doc :=
  elems.map (fun e => (encodeToks d1 (cellItemsOf Params.time w d1 e.1), encodeToks d2 (cellItemsOf Params.hpx w d2 e.2)))
    ++ [([.depth d1], [.depth d2])]

/-- Reader on a token-level document. -/
def decodeDoc (w : Nat) : Doc → Except CErr (Nat × Nat × List Elem)
  | [] => .ok (0, 0, [])
  | (t, s) :: rest =>
    match decodeToks Params.time w t, decodeToks Params.hpx w s, decodeDoc w rest with
    | .ok (dt, rt), .ok (ds, rs), .ok (d1, d2, es) =>
      .ok (max dt d1, max ds d2, if rt.isEmpty || rs.isEmpty then es else (rt, rs) :: es)
    | .error e, _, _ => .error e
    | _, .error e, _ => .error e
    | _, _, .error e => .error e

/-! ### Text level (for the correspondence) -/

/-- Split on a separator character (like `str::split`). -/
def splitOnChar (sep : Char) : List Char → List (List Char)
  | [] => [[]]
  | c :: t =>
    match splitOnChar sep t with
    | [] => [[]]
    | h :: r => if c = sep then [] :: h :: r else (c :: h) :: r

/-- `str::split_once`. -/
def splitOnce (sep : Char) : List Char → Option (List Char × List Char)
  | [] => none
  | c :: t => if c = sep then some ([], t) else (splitOnce sep t).map fun (a, b) => (c :: a, b)

def trimSpaces (l : List Char) : List Char := (dropSpaces l.reverse).reverse |> dropSpaces

/-- `from_ascii_ivoa` on an element part; the empty string is the empty MOC of depth 0 is NOT accepted
    by the 1-D reader (`many1`), so it is a parse error here too. -/
def decodeText (w : Nat) (text : List Char) : Except CErr (Nat × Nat × List Elem) :=
  let pieces := (splitOnChar 't' (trimSpaces text)).filter fun p => !p.isEmpty
  let rec go : List (List Char) → Except CErr (Nat × Nat × List Elem)
    | [] => .ok (0, 0, [])
    | p :: rest =>
      match splitOnce 's' p with
      | none => .error .parse
      | some (l, r) =>
        match decodeAscii Params.time w l, decodeAscii Params.hpx w r, go rest with
        | .ok (dt, rt), .ok (ds, rs), .ok (d1, d2, es) =>
          .ok (max dt d1, max ds d2, if rt.isEmpty || rs.isEmpty then es else (rt, rs) :: es)
        | .error e, _, _ => .error e
        | _, .error e, _ => .error e
        | _, _, .error e => .error e
  go pieces

/-- Writer characters without folding (`moc2d_to_ascii_ivoa(None, false)`). -/
def encodeCharsST (w d1 d2 : Nat) (elems : List Elem) : List Char :=
  (elems.map fun e =>
    't' :: (encodeChars d1 (itemsOf Params.time w d1 e.1)
      ++ 's' :: encodeChars d2 (itemsOf Params.hpx w d2 e.2))).flatten
    ++ ('t' :: (showNat d1 ++ '/' :: ' ' :: 's' :: (showNat d2 ++ ['/', '\n'])))

def encodeTextST (w d1 d2 : Nat) (elems : List Elem) : String :=
  String.ofList (encodeCharsST w d1 d2 elems)

end Moc.STText
