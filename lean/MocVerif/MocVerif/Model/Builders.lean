/-
  Incremental builders (`src/moc/builder/fixed_depth.rs`, `maxdepth_range.rs`), the sorted-merge
  iterator (`src/moc/range/op/merge.rs`) and the n-ary operators (`multi_op.rs`).
  The buffer capacity `cap` is a parameter (flush when `len = cap`).
-/
import MocVerif.Model.LazyOps

namespace Moc

/-! ### fixed-depth cell builder -/

def insertNat (x : Nat) : List Nat → List Nat
  | [] => [x]
  | y :: t => if x ≤ y then x :: y :: t else y :: insertNat x t

/-- `sort_unstable` on integers (any sorting algorithm gives the same list). -/
def sortNat : List Nat → List Nat
  | [] => []
  | x :: t => insertNat x (sortNat t)

/-- `buff_to_moc` / `OrderedFixedDepthCellsToRanges`: sorted cells (duplicates allowed) → ranges of
    cells `[from, to)`, scaled by the depth shift at the end. -/
def cellsToRangesFrom (sh from_ to : Nat) : List Nat → List Rng
  | [] => [(from_ <<< sh, to <<< sh)]
  | c :: t =>
    if to = c then cellsToRangesFrom sh from_ (to + 1) t
    else if to < c then (from_ <<< sh, to <<< sh) :: cellsToRangesFrom sh c (c + 1) t
    else cellsToRangesFrom sh from_ to t       -- duplicate of the previous cell

def cellsToRanges (sh : Nat) : List Nat → List Rng
  | [] => []
  | c :: t => cellsToRangesFrom sh c (c + 1) t

structure FdBuilder where
  buff : List Nat := []
  sorted : Bool := true
  moc : Option (List Rng) := none
  deriving Repr

/-- `drain_buffer` (v1: eager `or`; v2: lazy `or` over the builder iterator — same ranges, C01/C04). -/
def FdBuilder.drain (sh : Nat) (b : FdBuilder) : FdBuilder :=
  let buff := if b.sorted then b.buff else sortNat b.buff
  let new := cellsToRanges sh buff
  let merged := match b.moc with
    | some prev => union prev new
    | none => new
  { buff := [], sorted := true, moc := some merged }

/-- `push`. -/
def FdBuilder.push (sh cap : Nat) (b : FdBuilder) (idx : Nat) : FdBuilder :=
  match b.buff.getLast? with
  | some h =>
    if h = idx then b
    else
      let b' := { b with sorted := b.sorted && !(decide (h > idx)), buff := b.buff ++ [idx] }
      if b'.buff.length = cap then b'.drain sh else b'
  | none =>
    let b' := { b with buff := b.buff ++ [idx] }
    if b'.buff.length = cap then b'.drain sh else b'

/-- `into_moc`. -/
def FdBuilder.intoMoc (sh : Nat) (b : FdBuilder) : List Rng := ((b.drain sh).moc).getD []

/-- `RangeMOC::from_fixed_depth_cells(depth, cells, cap)`. -/
def fromFixedDepthCells (sh cap : Nat) (cells : List Nat) : List Rng :=
  (cells.foldl (FdBuilder.push sh cap) {}).intoMoc sh

/-- `append_fixed_depth_cells`: builder started from an existing MOC. -/
def appendFixedDepthCells (sh cap : Nat) (moc : List Rng) (cells : List Nat) : List Rng :=
  (cells.foldl (FdBuilder.push sh cap) { moc := some moc }).intoMoc sh

/-! ### max-depth range builder -/

/-- `MergeIterator` (`merge_sorted`): input sorted by start. Same loop as `MergeOverlappingRangesIter`. -/
def mergeSorted (l : List Rng) : List Rng := mergeOverlapping l

structure RgBuilder where
  buff : List Rng := []
  sorted : Bool := true
  moc : Option (List Rng) := none
  deriving Repr

def RgBuilder.drain (b : RgBuilder) : RgBuilder :=
  let buff := if b.sorted then b.buff else sortByStart b.buff
  let new := mergeSorted buff
  let merged := match b.moc with
    | some prev => unionLoop prev new     -- lazy `or(prev, new)`; no `peek_last` on the merge iterator
    | none => new
  { buff := [], sorted := true, moc := some merged }

/-- Replace the last element of a non-empty list. -/
def setLast (l : List Rng) (r : Rng) : List Rng := l.dropLast ++ [r]

/-- `RangeMocBuilder::push` of a non-empty range (`sh` = shift of the builder depth). -/
def RgBuilder.pushNE (sh cap : Nat) (b : RgBuilder) (r : Rng) : RgBuilder :=
  let nr := degradeRange sh r
  let b' :=
    match b.buff.getLast? with
    | some last =>
      if nr.2 < last.1 || last.2 < nr.1 then
        { b with sorted := b.sorted && decide (last.2 < nr.1), buff := b.buff ++ [nr] }
      else
        let sorted' := if nr.1 < last.1 then false else b.sorted
        let s := if nr.1 < last.1 then nr.1 else last.1
        let e := if last.2 < nr.2 then nr.2 else last.2
        { b with sorted := sorted', buff := setLast b.buff (s, e) }
    | none => { b with buff := b.buff ++ [nr] }
  if b'.buff.length = cap then b'.drain else b'

/-- `RangeMocBuilder::push` (repaired): an empty range (`start >= end`) denotes the empty set and is ignored —
    it used to be degraded like the others, i.e. kept as an empty range when aligned on the builder depth
    and turned into a whole cell otherwise. -/
def RgBuilder.push (sh cap : Nat) (b : RgBuilder) (r : Rng) : RgBuilder :=
  if r.1 < r.2 then b.pushNE sh cap r else b

def RgBuilder.intoMoc (b : RgBuilder) : List Rng := (b.drain.moc).getD []

/-- `RangeMOC::from_maxdepth_ranges(depth, ranges, cap)`. -/
def fromMaxdepthRanges (sh cap : Nat) (rs : List Rng) : List Rng :=
  (rs.foldl (RgBuilder.push sh cap) {}).intoMoc

/-- `RangeMOC::from_cells(depth, (d_i, idx_i), cap)`: cells given with their own shift. -/
def fromCells (sh cap : Nat) (cells : List (Nat × Nat)) : List Rng :=
  fromMaxdepthRanges sh cap (cells.map fun c => (c.2 <<< c.1, (c.2 + 1) <<< c.1))

/-! ### n-ary operators (`kway_or / kway_and / kway_xor` and their `_it` variants) -/

abbrev DMoc := Nat × List Rng    -- (depth_max, ranges)

/-- One pass of the `KWay4` iterator: combine the stream 4 by 4. -/
def group4 (op : DMoc → DMoc → DMoc) : List DMoc → List DMoc
  | a :: b :: c :: d :: t => op (op a b) (op c d) :: group4 op t
  | [a, b, c] => [op (op a b) c]
  | [a, b] => [op a b]
  | [a] => [a]
  | [] => []

theorem group4_length_lt (op : DMoc → DMoc → DMoc) : ∀ (l : List DMoc), 4 ≤ l.length → (group4 op l).length < l.length
  | a :: b :: c :: d :: t, _ => by
    simp only [group4, List.length_cons]
    by_cases h : 4 ≤ t.length
    · have := group4_length_lt op t h; omega
    · match t with
      | [] => simp [group4]
      | [_] => simp [group4]
      | [_, _] => simp [group4]
      | [_, _, _] => simp [group4]
      | _ :: _ :: _ :: _ :: _ => simp at h
  | [], h => by simp at h
  | [_], h => by simp at h
  | [_, _], h => by simp at h
  | [_, _, _], h => by simp at h

/-- `kway_<op>`: recursion on the 4-by-4 grouped stream. -/
def kway (op : DMoc → DMoc → DMoc) (l : List DMoc) : DMoc :=
  match l with
  | [] => (0, [])
  | [a] => a
  | [a, b] => op a b
  | [a, b, c] => op (op a b) c
  | a :: b :: c :: d :: t => kway op (group4 op (a :: b :: c :: d :: t))
termination_by l.length
decreasing_by exact group4_length_lt op _ (by simp)

def opOr (a b : DMoc) : DMoc := (max a.1 b.1, union a.2 b.2)
def opAnd (a b : DMoc) : DMoc := (max a.1 b.1, intersection a.2 b.2)
def opXor (a b : DMoc) : DMoc := (max a.1 b.1, xorLoop a.2 b.2)

end Moc
