/-
  Basic vocabulary of the model: ranges, membership, canonical form, quantities.

  IMPORT-FREE (core Lean only): everything in `Model/` is linked into the native driver.

  Rust anchors: `src/qty.rs` (MocableQty / MocQty constants), `src/ranges/mod.rs` (Ranges<T>).
-/

namespace Moc

/-- A half-open range `[start, end)` of indices at the deepest level (`Range<T>` in Rust). -/
abbrev Rng := Nat × Nat

/-- `x` is covered by the list of ranges. Structural, so `simp`/`grind` unfold it on `cons`. -/
def mem (x : Nat) : List Rng → Prop
  | [] => False
  | r :: t => (r.1 ≤ x ∧ x < r.2) ∨ mem x t

instance decMem (x : Nat) : (rs : List Rng) → Decidable (mem x rs)
  | [] => isFalse (fun h => h)
  | r :: t =>
    have := decMem x t
    inferInstanceAs (Decidable ((r.1 ≤ x ∧ x < r.2) ∨ mem x t))

/-- Canonical form relative to a lower bound `lo`:
    every range is non-empty, starts at or after `lo`, and the next range starts strictly after
    the end of the previous one (so ranges are increasing, disjoint and NON-ADJACENT). -/
def CanonFrom (lo : Nat) : List Rng → Prop
  | [] => True
  | r :: t => lo ≤ r.1 ∧ r.1 < r.2 ∧ CanonFrom (r.2 + 1) t

/-- Canonical form (`SNORanges` contract + non-adjacency = what `Ranges::new_from` produces). -/
def Canon (rs : List Rng) : Prop := CanonFrom 0 rs

/-- Executable twin of `CanonFrom`. -/
def canonFromB (lo : Nat) : List Rng → Bool
  | [] => true
  | r :: t => decide (lo ≤ r.1) && decide (r.1 < r.2) && canonFromB (r.2 + 1) t

def canonB (rs : List Rng) : Bool := canonFromB 0 rs

/-- All range bounds are `≤ ub`. -/
def BoundedBy (ub : Nat) (rs : List Rng) : Prop := ∀ r ∈ rs, r.2 ≤ ub

/-- All range bounds are multiples of `c` (cell size of the declared depth). -/
def Aligned (c : Nat) (rs : List Rng) : Prop := ∀ r ∈ rs, c ∣ r.1 ∧ c ∣ r.2

def boundedByB (ub : Nat) (rs : List Rng) : Bool := rs.all fun r => decide (r.2 ≤ ub)
def alignedB (c : Nat) (rs : List Rng) : Bool := rs.all fun r => r.1 % c == 0 && r.2 % c == 0

/-- A MOC quantity (`MocableQty` constants of `src/qty.rs`). -/
structure Qty where
  name : String
  dim : Nat        -- DIM
  nd0 : Nat        -- N_D0_CELLS
  nd0Bits : Nat    -- N_D0_BITS
  reserved : Nat   -- N_RESERVED_BITS
  deriving Repr

namespace Qty

/-- `MocQty::MAX_DEPTH` for an index type of `w` bits. -/
def maxDepth (q : Qty) (w : Nat) : Nat := (w - (q.reserved + q.nd0Bits)) / q.dim

/-- `MocQty::n_cells(depth)`. -/
def nCells (q : Qty) (d : Nat) : Nat := q.nd0 <<< (q.dim * d)

/-- `MocQty::n_cells_max()`. -/
def nCellsMax (q : Qty) (w : Nat) : Nat := q.nd0 <<< (q.dim * q.maxDepth w)

/-- `MocQty::shift_from_depth_max(depth)` (for `depth ≤ MAX_DEPTH`; Rust underflows otherwise). -/
def shiftFromMax (q : Qty) (w d : Nat) : Nat := q.dim * (q.maxDepth w - d)

/-- Size, in deepest-level indices, of one cell of depth `d`. -/
def cellSize (q : Qty) (w d : Nat) : Nat := 1 <<< q.shiftFromMax w d

end Qty

/-- A valid MOC of quantity `q`, index width `w`, declared depth `d`. -/
def Valid (q : Qty) (w d : Nat) (rs : List Rng) : Prop :=
  Canon rs ∧ BoundedBy (q.nCellsMax w) rs ∧ Aligned (q.cellSize w d) rs

def validB (q : Qty) (w d : Nat) (rs : List Rng) : Bool :=
  canonB rs && boundedByB (q.nCellsMax w) rs && alignedB (q.cellSize w d) rs

end Moc
