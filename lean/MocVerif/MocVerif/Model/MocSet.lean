/-
  moc-set (`crates/set`): reference model of a moc-set file as the ordered list of its metadata
  entries (the first void slot ends the list), commands make / append / chgstatus / purge / list,
  and queries.  Byte sizes follow the storage rule: 32-bit ranges when `depth ≤ 13`, else 64-bit.
-/
import MocVerif.Model.Query

namespace Moc

/-- Status codes of `StatusFlag`: 1 removed, 2 deprecated, 3 valid (0 = void never stored). -/
structure MsEntry where
  id : Nat
  status : Nat
  depth : Nat
  ranges : List Rng        -- at depth 29 (u64 scale)
  deriving Repr, BEq, DecidableEq

structure MocSet where
  n128 : Nat
  entries : List MsEntry
  deriving Repr

def MocSet.cap (s : MocSet) : Nat := s.n128 * 128 - 1     -- `n_mocs_max`

def elemBytes (depth : Nat) : Nat := if depth ≤ 13 then 4 else 8
def MsEntry.byteSize (e : MsEntry) : Nat := e.ranges.length * 2 * elemBytes e.depth

/-- `(new state, success)`; on failure the state is unchanged. -/
abbrev MsRes := MocSet × Bool

/-- `mocset make -n n128`: ids unique (by absolute value), list not larger than the capacity. -/
def msMake (n128 : Nat) (l : List MsEntry) : Option MocSet :=
  let s : MocSet := { n128 := n128, entries := l }
  if l.length > s.cap then none
  else if (l.map (·.id)).eraseDups.length ≠ l.length then none
  else some s

/-- `mocset append`: refused if the id is present with status > removed, or if the file is full. -/
def msAppend (s : MocSet) (e : MsEntry) : MsRes :=
  if s.entries.any (fun x => x.id == e.id && x.status > 1) then (s, false)
  else if s.entries.length ≥ s.cap then (s, false)
  else ({ s with entries := s.entries ++ [e] }, true)

/-- `mocset chgstatus <status> id,id,...`: entries with status > removed and a listed id. -/
def chgEntry (newStatus : Nat) (ids : List Nat) (x : MsEntry) : MsEntry :=
  if x.status > 1 && ids.contains x.id then { x with status := newStatus } else x

def msChgStatus (s : MocSet) (newStatus : Nat) (ids : List Nat) : MsRes :=
  ({ s with entries := s.entries.map (chgEntry newStatus ids) }, true)

/-- `mocset purge [-n n128]`: physically drops removed entries. -/
def msPurge (s : MocSet) (n128 : Option Nat) : MsRes :=
  ({ n128 := max (n128.getD 1) s.n128, entries := s.entries.filter (·.status > 1) }, true)

/-- The command line: an identifier is stored on 48 bits (`check_id`, called by `make` and — repaired — by `append`), and
    `void` (0) is the end-of-list marker, not a status (repaired: refused when the arguments are parsed).  Such a command
    is refused before the file is touched. -/
def idMask : Nat := 2 ^ 48 - 1
def msAppendCmd (s : MocSet) (e : MsEntry) : MsRes := if e.id > idMask then (s, false) else msAppend s e
def msChgStatusCmd (s : MocSet) (newStatus : Nat) (ids : List Nat) : MsRes :=
  if newStatus = 0 then (s, false) else msChgStatus s newStatus ids

/-- Rows of `mocset list`: `(id, status, depth, n_ranges, byte_size)`. -/
def msList (s : MocSet) : List (Nat × Nat × Nat × Nat × Nat) :=
  s.entries.map fun e => (e.id, e.status, e.depth, e.ranges.length, e.byteSize)

/-- `mocset extract id`: first entry with that id and status valid / deprecated. -/
def msExtract (s : MocSet) (id : Nat) : Option MsEntry :=
  s.entries.find? fun e => e.id == id && e.status > 1

/-- A history of update commands (`make` gives the initial state). -/
inductive MsCmd where
  | append (e : MsEntry)
  | chg (newStatus : Nat) (ids : List Nat)
  | purge (n128 : Option Nat)
  deriving Repr

def msStep (s : MocSet) : MsCmd → MocSet
  | .append e => (msAppend s e).1
  | .chg st ids => (msChgStatus s st ids).1
  | .purge n => (msPurge s n).1

def msRun (s : MocSet) (cs : List MsCmd) : MocSet := cs.foldl msStep s

/-! ### queries (`query pos|cone|moc`, `union`) — the SPECIFICATION on covered sets -/

/-- Identifiers matching a region: `included = false`: the MOC intersects the region;
    `included = true`: the MOC fully contains the region. `withDeprecated`: also status 2. -/
def msQuery (s : MocSet) (region : List Rng) (included withDeprecated : Bool) : List Nat :=
  (s.entries.filter fun e =>
      (e.status == 3 || (withDeprecated && e.status == 2)) &&
      (if included then !region.isEmpty && containsAll e.ranges region else intersects e.ranges region)).map (·.id)

/-- `query pos`: MOCs containing the deepest-level index `x`. -/
def msQueryPos (s : MocSet) (x : Nat) (withDeprecated : Bool) : List Nat :=
  (s.entries.filter fun e =>
      (e.status == 3 || (withDeprecated && e.status == 2)) && containsVal e.ranges x).map (·.id)

/-- The selection predicate shared by `query` and `union`. -/
def msSelected (region : List Rng) (included withDeprecated : Bool) (e : MsEntry) : Bool :=
  (e.status == 3 || (withDeprecated && e.status == 2)) &&
  (if included then !region.isEmpty && containsAll e.ranges region else intersects e.ranges region)

/-- Union, at the output depth (`sh` = its shift), of a list of selected MOCs: the SPECIFICATION
    (`RangeMocBuilder` computes exactly this for every push order and capacity: `C06.rangeBuilder_build`). -/
def unionAt (sh : Nat) (es : List MsEntry) : List Rng :=
  normalize ((es.flatMap (·.ranges)).map (degradeRange sh))

/-- `mocset union <depth> moc|cone`: union of the matching MOCs. -/
def msUnionQuery (s : MocSet) (region : List Rng) (included withDeprecated : Bool) (sh : Nat) : List Rng :=
  unionAt sh (s.entries.filter (msSelected region included withDeprecated))

/-- `mocset union <depth> pos`. -/
def msUnionPos (s : MocSet) (x : Nat) (withDeprecated : Bool) (sh : Nat) : List Rng :=
  unionAt sh (s.entries.filter fun e =>
    (e.status == 3 || (withDeprecated && e.status == 2)) && containsVal e.ranges x)

/-- `mocset union <depth> ids`: the live (valid or deprecated) MOCs with a listed identifier. -/
def msUnionIds (s : MocSet) (ids : List Nat) (sh : Nat) : List Rng :=
  unionAt sh (s.entries.filter fun e => e.status > 1 && ids.contains e.id)

/-- The conversion the (repaired) code applies to a query region before testing it against a MOC
    stored on 32 bits: degrade to depth 13 (`sh = 2·(29−13)` bits), whose bounds are then exactly
    representable on 32 bits. -/
def regionFor32 (region : List Rng) : List Rng := degradedShift 32 region

end Moc
