/-
  C09 — `Ranges2D::make_consistent` (`src/ranges/ranges2d.rs`), the range-2D construction path
  (`create_from_time_ranges_spatial_coverage`, used by the store and MOCPy), transliterated.

  Input: any list of `(time range, space coverage)` entries (overlapping, unordered).  The bounds of the
  time ranges are sorted by coordinate (ties: ends before starts, as `BoundRange::cmp`; the order inside
  a tie is unspecified in Rust — `par_sort_unstable` — and irrelevant: segments are only emitted when the
  coordinate advances), the sweep keeps the SET of open entries (`HashSet<usize>`), and between two
  successive distinct coordinates with a non-empty set it emits the union of the open coverages
  (`par_iter().reduce(union)`: order irrelevant, the union is proved to depend on the set only).
  `compress` then fuses touching ranges of equal coverage.
-/
import MocVerif.Model.Merge2D

namespace Moc.Consistent2D
open Moc

abbrev Space := List Rng

/-- `BoundRange { x, y_idx, start }`. -/
structure Bound where
  x : Nat
  idx : Nat
  start : Bool
  deriving DecidableEq, Repr

/-- `BoundRange::cmp`: by coordinate, then `false < true`. -/
def Bound.le (a b : Bound) : Bool := decide (a.x < b.x) || (decide (a.x = b.x) && (!a.start || b.start))

def insertB (b : Bound) : List Bound → List Bound
  | [] => [b]
  | c :: t => if b.le c then b :: c :: t else c :: insertB b t

def sortB : List Bound → List Bound
  | [] => []
  | b :: t => insertB b (sortB t)

def boundsFrom : Nat → List Rng → List Bound
  | _, [] => []
  | i, r :: t => ⟨r.1, i, true⟩ :: ⟨r.2, i, false⟩ :: boundsFrom (i + 1) t

/-- Union of the coverages of the open entries. -/
def unionAll (ys : List Space) (op : List Nat) : Space :=
  op.foldl (fun acc i => Moc.union acc (ys.getD i [])) []

structure St where
  prev : Nat
  op : List Nat          -- the open entries (a set)
  out : FlatST := []
  deriving Repr

def step (ys : List Space) (st : St) (b : Bound) : St :=
  let out := if st.prev < b.x && !st.op.isEmpty then st.out ++ [((st.prev, b.x), unionAll ys st.op)] else st.out
  let op := if b.start then (if st.op.contains b.idx then st.op else b.idx :: st.op)
            else st.op.filter (· != b.idx)
  { prev := b.x, op := op, out := out }

/-- `compress`: fuse touching time ranges of equal coverage (`Ordering::Less` is `unreachable!()`). -/
def compressFrom (cur : Rng × Space) : FlatST → FlatST
  | [] => [cur]
  | (t, s) :: rest =>
    if cur.1.2 = t.1 && cur.2 == s then compressFrom ((cur.1.1, t.2), cur.2) rest
    else cur :: compressFrom (t, s) rest

def compress : FlatST → FlatST
  | [] => []
  | e :: rest => compressFrom e rest

/-- `Ranges2D::new(x, y).make_consistent()`. -/
def makeConsistent (entries : FlatST) : FlatST :=
  match sortB (boundsFrom 0 (entries.map (·.1))) with
  | [] => []
  | first :: rest =>
    compress (rest.foldl (step (entries.map (·.2))) { prev := first.x, op := [first.idx] }).out

/-- `HpxRanges2D::create_from_time_ranges_spatial_coverage` / `create_from_time_ranges_positions` (repaired), for time
    ranges already aligned on the time depth: an observation whose time range or whose coverage is empty covers
    nothing and is removed AS A WHOLE before the sweep (the time ranges alone used to be filtered, which paired every
    later observation with the coverage of the previous one; an empty coverage used to give an element with an empty
    S-MOC). -/
def fromObservations (entries : FlatST) : FlatST :=
  makeConsistent (entries.filter fun e => decide (e.1.1 < e.1.2) && !e.2.isEmpty)

end Moc.Consistent2D
