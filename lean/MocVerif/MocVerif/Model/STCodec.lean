/-
  C11 — FITS (version 2) payload of a space-time MOC (`write_ranges2d_data` /
  `RangeMoc2DIterFromFits::next`, src/deser/fits/mod.rs): one (start, end) row per range; the rows of
  the time ranges of an element carry the most significant bit on both bounds, the rows of its space
  ranges follow unflagged; the reader splits elements on the alternation unflagged → flagged.
  IMPORT-FREE.
-/
import MocVerif.Model.Basic

namespace Moc.STCodec

abbrev Elem := List Rng × List Rng       -- (time ranges, space ranges)

def flag (w : Nat) : Nat := 2 ^ (w - 1)

/-- `start & end & MSB_MASK == MSB_MASK` on `w`-bit words. -/
def isT (w : Nat) (r : Rng) : Bool := decide (flag w ≤ r.1) && decide (flag w ≤ r.2)
def setFlag (w : Nat) (r : Rng) : Rng := (r.1 + flag w, r.2 + flag w)
def unflag (w : Nat) (r : Rng) : Rng := (r.1 - flag w, r.2 - flag w)

def encElem (w : Nat) (e : Elem) : List Rng := e.1.map (setFlag w) ++ e.2

def encodeST (w : Nat) : List Elem → List Rng
  | [] => []
  | e :: es => encElem w e ++ encodeST w es

/-- The reader, as one pass over the rows: `t`, `s` are the (reversed) time and space ranges of the
    element being read (`prev_t` of the Rust iterator is the one-element `t` after a split). -/
def go (w : Nat) : List Rng → List Rng → List Rng → List Elem
  | [], t, s => if t.isEmpty && s.isEmpty then [] else [(t.reverse, s.reverse)]
  | r :: rest, t, s =>
    if isT w r then
      if s.isEmpty then go w rest (unflag w r :: t) s
      else (t.reverse, s.reverse) :: go w rest [unflag w r] []
    else go w rest t (r :: s)

def decodeST (w : Nat) (rows : List Rng) : List Elem := go w rows [] []

end Moc.STCodec
