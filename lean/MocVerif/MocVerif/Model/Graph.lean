/-
  C17, space part — morphology of a set of cells over an ADJACENCY RELATION given as data
  (for HEALPix: the neighbour lists of `cdshealpix::nested::neighbours`, sent by the harness).

  expanded / contracted / external and internal borders are the definitions of the property over the
  given adjacency; splitting is a flood fill (closure under "neighbour inside the set").
  The HEALPix geometry itself is NOT modelled: it is the parameter `g`.
  IMPORT-FREE.
-/
namespace Moc.Graph

/-- Adjacency lists: `(cell, neighbours)`. -/
abbrev Adj := List (Nat × List Nat)

def nbrs (g : Adj) (c : Nat) : List Nat :=
  match g.lookup c with
  | some l => l
  | none => []

/-- Insertion into a sorted duplicate-free list. -/
def ins (x : Nat) : List Nat → List Nat
  | [] => [x]
  | y :: t => if x < y then x :: y :: t else if x = y then y :: t else y :: ins x t

/-- Sorted, duplicate-free version of a list. -/
def norm (l : List Nat) : List Nat := l.foldr ins []

/-- Cells equal or adjacent to a cell of `s`. -/
def expanded (g : Adj) (s : List Nat) : List Nat := norm (s ++ s.flatMap (nbrs g))

/-- `univ \ expanded (univ \ s)`: cells of `s` none of whose neighbours is outside `s`. -/
def contracted (g : Adj) (univ s : List Nat) : List Nat :=
  let e := expanded g (univ.filter fun y => !s.contains y)
  norm (univ.filter fun x => !e.contains x)

def extBorder (g : Adj) (s : List Nat) : List Nat := norm ((expanded g s).filter fun x => !s.contains x)
def intBorder (g : Adj) (univ s : List Nat) : List Nat :=
  let c := contracted g univ s
  norm (s.filter fun x => !c.contains x)

/-- Cells of `rest` adjacent to a cell of `cur`. -/
def frontier (g : Adj) (rest cur : List Nat) : List Nat :=
  rest.filter fun n => cur.any fun c => (nbrs g c).contains n

/-- Flood fill: `cur` = cells reached so far, `rest` = cells of the set not reached yet
    (fuel: `|rest|` suffices, every productive step removes at least one cell from `rest`). -/
def closure (g : Adj) : Nat → List Nat → List Nat → List Nat
  | 0, _, cur => cur
  | k + 1, rest, cur =>
    match frontier g rest cur with
    | [] => cur
    | f :: fs => closure g k (rest.filter fun n => !(f :: fs).contains n) (cur ++ (f :: fs))

/-- Connected component of `c` inside `s` (`c ∈ s`). -/
def componentOf (g : Adj) (s : List Nat) (c : Nat) : List Nat :=
  closure g s.length (s.filter fun x => x != c) [c]

/-- Partition into connected components: repeatedly take the component of the first remaining cell
    inside the REMAINING cells (fuel: `|s|`). -/
def split (g : Adj) : Nat → List Nat → List (List Nat)
  | 0, _ => []
  | _, [] => []
  | k + 1, c :: t =>
    let comp := componentOf g (c :: t) c
    norm comp :: split g k ((c :: t).filter fun x => !comp.contains x)

def splitAll (g : Adj) (s : List Nat) : List (List Nat) := split g s.length s

end Moc.Graph
