/-
  Cumulative-value selection on multi-order maps (`src/elem/valuedcell.rs`
  `valued_cells_to_moc_with_opt` and its four recursive descents), over integers: values are
  multiples of `4^(max_depth − depth)` so every `/4` of a descent is exact (the correspondence
  feeds exactly such dyadic `f64`s, for which the floating-point computation is exact too).
  `none` = a Rust `assert!` fails.  The accumulated value is advanced past the split lower boundary
  cell (repaired behaviour).
-/
import MocVerif.Model.Ranges
import MocVerif.Model.Cells

namespace Moc

/-- A map cell: depth, index, value, density key (`value · 4^depth`, same order as the Rust density). -/
structure VCell where
  depth : Nat
  idx : Nat
  val : Nat
  dens : Nat
  deriving Repr, BEq, DecidableEq

/-- Stable insertion (Rust's `sort_by` is stable): `x` goes before the first `y` with `after y x`. -/
def insertStable (after : VCell → VCell → Bool) (x : VCell) : List VCell → List VCell
  | [] => [x]
  | y :: t => if after y x then x :: y :: t else y :: insertStable after x t

def sortStable (after : VCell → VCell → Bool) (l : List VCell) : List VCell :=
  l.foldl (fun acc x => insertStable after x acc) []

/-- `while subcell_val <= target_val { target_val -= subcell_val; i += 1 }`: `(k, remaining)`. -/
def takeSub (sub : Nat) : Nat → Nat → Nat → Nat × Nat
  | 0, k, t => (k, t)
  | fuel + 1, k, t => if sub ≤ t then takeSub sub fuel (k + 1) (t - sub) else (k, t)

/-- `recursive_descent` (fuel = `max_depth − depth`). Cells are `(depth, idx)`. -/
def descent : Nat → Nat → Nat → Nat → Bool → Nat → Option (List Cell)
  | 0, depth, ipix, cellVal, strict, t =>
    if cellVal ≥ t then
      -- (repaired) a target of 0: the threshold is the lower bound of the cell, nothing of it is added
      (if t = 0 then some [] else some (if cellVal = t || !strict then [(depth, ipix)] else []))
    else none
  | fuel + 1, depth, ipix, cellVal, strict, t =>
    if cellVal ≥ t then
      if t = 0 then some [] else
      let sub := cellVal / 4
      let (k, t') := takeSub sub 5 0 t
      if k < 4 then
        (descent fuel (depth + 1) (ipix * 4 + k) sub strict t').map fun rest =>
          ((List.range k).map fun i => (depth + 1, ipix * 4 + i)) ++ rest
      else none
    else none

/-- `reverse_recursive_descent`: sub-cells taken from index 3 downwards. -/
def descentR : Nat → Nat → Nat → Nat → Bool → Nat → Option (List Cell)
  | 0, depth, ipix, cellVal, strict, t =>
    if cellVal ≥ t then
      -- (repaired) a target of 0: the threshold is the lower bound of the cell, nothing of it is added
      (if t = 0 then some [] else some (if cellVal = t || !strict then [(depth, ipix)] else []))
    else none
  | fuel + 1, depth, ipix, cellVal, strict, t =>
    if cellVal ≥ t then
      if t = 0 then some [] else
      let sub := cellVal / 4
      let (k, t') := takeSub sub 5 0 t
      if k < 4 then
        (descentR fuel (depth + 1) (ipix * 4 + (3 - k)) sub strict t').map fun rest =>
          ((List.range k).map fun i => (depth + 1, ipix * 4 + (3 - i))) ++ rest
      else none
    else none

/-- `recursive_descent_rev`: start adding cells once `target_val` has been reached. -/
def descentRev : Nat → Nat → Nat → Nat → Bool → Nat → Option (List Cell)
  | 0, depth, ipix, cellVal, strict, t =>
    if cellVal ≥ t then
      -- (repaired) a target of 0: the threshold is the lower bound of the cell, the whole cell is added
      (if t = 0 then some [(depth, ipix)] else some (if cellVal ≠ t && !strict then [(depth, ipix)] else []))
    else none
  | fuel + 1, depth, ipix, cellVal, strict, t =>
    if cellVal ≥ t then
      if t = 0 then some [(depth, ipix)] else
      let sub := cellVal / 4
      let (k, t') := takeSub sub 5 0 t
      -- (Rust has no assert here: with k = 4 it would descend into a non-existing fifth sub-cell)
      if k < 4 then
        (descentRev fuel (depth + 1) (ipix * 4 + k) sub strict t').map fun rest =>
          rest ++ ((List.range (3 - k)).map fun i => (depth + 1, ipix * 4 + k + 1 + i))
      else none
    else none

/-- `reverse_recursive_descent_rev` (repaired: it recursed into the NON-reversed `recursive_descent_rev`, so that only
    the first level was taken in reverse order and the selections `[0, x]` and `[x, total]` of a map overlapped). -/
def descentRRev : Nat → Nat → Nat → Nat → Bool → Nat → Option (List Cell)
  | 0, depth, ipix, cellVal, strict, t =>
    if cellVal ≥ t then
      -- (repaired) a target of 0: the threshold is the lower bound of the cell, the whole cell is added
      (if t = 0 then some [(depth, ipix)] else some (if cellVal ≠ t && !strict then [(depth, ipix)] else []))
    else none
  | fuel + 1, depth, ipix, cellVal, strict, t =>
    if cellVal ≥ t then
      if t = 0 then some [(depth, ipix)] else
      let sub := cellVal / 4
      let (k, t') := takeSub sub 5 0 t
      if k < 4 then
        (descentRRev fuel (depth + 1) (ipix * 4 + (3 - k)) sub strict t').map fun rest =>
          rest ++ ((List.range (3 - k)).map fun i => (depth + 1, ipix * 4 + (3 - k - 1 - i)))
      else none
    else none

/-- The `while i < len && acc + v[i] <= thr` loops: `(acc', taken, rest)`. -/
def scanWhole (thr : Nat) : Nat → List VCell → Nat × List VCell × List VCell
  | acc, [] => (acc, [], [])
  | acc, c :: t =>
    if acc + c.val ≤ thr then
      let (a, tk, r) := scanWhole thr (acc + c.val) t
      (a, c :: tk, r)
    else (acc, [], c :: t)

/-- `valued_cells_to_moc_with_opt`: the selected cells (before the final `new_from`). -/
def selectCells (maxDepth : Nat) (cells : List VCell) (from_ to : Nat) (asc strict noSplit rev : Bool) :
    Option (List Cell) :=
  let maxDepth := max maxDepth (cells.foldl (fun m c => max m c.depth) 0)
  let sorted := if asc then sortStable (fun y x => decide (y.dens > x.dens)) cells
                else sortStable (fun y x => decide (y.dens < x.dens)) cells
  let (acc, _, rest) := scanWhole from_ 0 sorted
  -- lower boundary cell
  let low : Option (Nat × List Cell × List VCell) :=
    match rest with
    | c :: rest' =>
      if acc < from_ then
        if noSplit then some (acc + c.val, if strict then [] else [(c.depth, c.idx)], rest')
        else
          ((if rev then descentRRev else descentRev) (maxDepth - c.depth) c.depth c.idx c.val strict (from_ - acc)).map
            fun cs => (acc + c.val, cs, rest')
      else some (acc, [], rest)
    | [] => some (acc, [], [])
  low.bind fun (acc, lowCells, rest) =>
    let (acc2, whole, rest2) := scanWhole to acc rest
    let wholeCells := whole.map fun c => (c.depth, c.idx)
    match rest2 with
    | c :: _ =>
      if acc2 < to then
        if noSplit then some (lowCells ++ wholeCells ++ (if strict then [] else [(c.depth, c.idx)]))
        else
          ((if rev then descentR else descent) (maxDepth - c.depth) c.depth c.idx c.val strict (to - acc2)).map
            fun cs => lowCells ++ wholeCells ++ cs
      else some (lowCells ++ wholeCells)
    | [] => some (lowCells ++ wholeCells)

/-- Final MOC: `HpxRanges::new_from` of the ranges of the selected cells (Hpx, 64-bit: depth 29). -/
def selectMoc (maxDepth : Nat) (cells : List VCell) (from_ to : Nat) (asc strict noSplit rev : Bool) :
    Option (List Rng) :=
  (selectCells maxDepth cells from_ to asc strict noSplit rev).map fun cs =>
    newFrom (cs.map fun c => (c.2 <<< (2 * (29 - c.1)), (c.2 + 1) <<< (2 * (29 - c.1))))

end Moc
