/-
  C14 / C16 — the moc-set FILE, at the level of its 64-bit header words and data bytes
  (`crates/set/src/lib.rs`, `mk.rs`, `append.rs`, `chgstatus.rs`, `purge.rs`, `list.rs`, `extract.rs`).

  Layout: word 0 = `n128`; then `cap = 128·n128 − 1` metadata words (`FlagDepthId`: status on bits
  56–57, depth on bits 48–55, identifier on the 48 low bits; the word 0 ends the list); then
  `cap + 1` index words (cumulative END offsets, the first one being the header size); then the data
  bytes: for each MOC its ranges as little-endian pairs of `u32` (depth ≤ 13, values at depth-13
  scale) or `u64` (deeper, depth-29 scale).

  Writers are transliterated as simultaneous walks over the two arrays (what the Rust cursors do);
  the reader is the `zip` of the two iterators.  `abs` maps a file to the abstract `MocSet` of
  `Model/MocSet.lean`; `Props/C14.lean` proves that every command on files commutes with `abs`.
  IMPORT-FREE (linked into the native driver).
-/
import MocVerif.Model.MocSet

namespace Moc.MsFile
open Moc

/-! ### The metadata word (`FlagDepthId`) -/

/-- `FlagDepthId::new`. -/
def pack (status depth id : Nat) : Nat := (status <<< 56) ||| (depth <<< 48) ||| (id &&& idMask)
/-- `FlagDepthId::status` (`(raw >> 56) as u8 & 0b11`). -/
def wStatus (w : Nat) : Nat := (w >>> 56) &&& 3
/-- `FlagDepthId::depth` (`(raw >> 48) as u8`). -/
def wDepth (w : Nat) : Nat := (w >>> 48) % 256
/-- `FlagDepthId::identifier`. -/
def wId (w : Nat) : Nat := w &&& idMask

/-! ### Little-endian words -/

def toLE : Nat → Nat → List Nat
  | 0, _ => []
  | n + 1, x => (x % 256) :: toLE n (x / 256)

def fromLE : List Nat → Nat
  | [] => 0
  | b :: t => b + 256 * fromLE t

/-- `n` words of `k` bytes each. -/
def decWords (k : Nat) : Nat → List Nat → List Nat
  | 0, _ => []
  | n + 1, bytes => fromLE (bytes.take k) :: decWords k n (bytes.drop k)

def encWords (k : Nat) : List Nat → List Nat
  | [] => []
  | x :: t => toLE k x ++ encWords k t

/-- Storage scale: 32-bit ranges hold depth-13 indices (`convert` to `u32` = shift by 32 bits). -/
def stoShift (depth : Nat) : Nat := if depth ≤ 13 then 32 else 0

def flatten2 : List Rng → List Nat
  | [] => []
  | r :: t => r.1 :: r.2 :: flatten2 t

def pairs : List Nat → List Rng
  | a :: b :: t => (a, b) :: pairs t
  | _ => []

/-- The bytes written for a MOC (`ranges.as_bytes()` of the `u32` / `u64` range slice). -/
def entryBytes (e : MsEntry) : List Nat :=
  encWords (elemBytes e.depth) ((flatten2 e.ranges).map (· >>> stoShift e.depth))

/-- The ranges read back from a byte slice (`MocSetFileReader::ranges::<T>` + conversion to u64). -/
def bytesRanges (depth : Nat) (bytes : List Nat) : List Rng :=
  let k := elemBytes depth
  pairs ((decWords k (bytes.length / k) bytes).map (· <<< stoShift depth))

/-! ### The file -/

structure File where
  n128 : Nat
  mwords : List Nat      -- `cap` words
  index : List Nat     -- `cap + 1` words
  data : List Nat      -- bytes from offset `hdr` on
  deriving Repr, DecidableEq

def hdrBytes (n128 : Nat) : Nat := n128 <<< 11
def capOf (n128 : Nat) : Nat := (n128 <<< 7) - 1

def zeros (n : Nat) : List Nat := List.replicate n 0

/-- One stored MOC: its metadata word and its bytes. -/
abbrev Item := Nat × List Nat

def itemOf (e : MsEntry) : Item := (pack e.status e.depth e.id, entryBytes e)

/-- Cumulative end offsets. -/
def idxFrom (start : Nat) : List Item → List Nat
  | [] => []
  | it :: t => (start + it.2.length) :: idxFrom (start + it.2.length) t

def dataOf : List Item → List Nat
  | [] => []
  | it :: t => it.2 ++ dataOf t

/-- The file `make` / `purge` write for a list of items (followed by `tail` bytes: what an
    interrupted append may leave behind; empty for `make` and `purge`). -/
def build (n128 : Nat) (items : List Item) (tail : List Nat) : File :=
  { n128 := n128,
    mwords := items.map (·.1) ++ zeros (capOf n128 - items.length),
    index := hdrBytes n128 :: (idxFrom (hdrBytes n128) items ++ zeros (capOf n128 - items.length)),
    data := dataOf items ++ tail }

/-! ### Reader: `meta().into_iter().zip(index().into_iter())` -/

/-- Rows `(word, start, end)`: stops at the first void word, or at the first MOC whose end lies
    beyond the mapped length. -/
def readRows (fileLen : Nat) : List Nat → List Nat → List (Nat × Nat × Nat)
  | m :: ms, i0 :: i1 :: is =>
    if m = 0 then [] else if i1 ≤ fileLen then (m, i0, i1) :: readRows fileLen ms (i1 :: is) else []
  | _, _ => []

def slice (data : List Nat) (a b : Nat) : List Nat := (data.drop a).take (b - a)

def File.fileLen (f : File) : Nat := hdrBytes f.n128 + f.data.length

def File.rows (f : File) : List (Nat × Nat × Nat) := readRows f.fileLen f.mwords f.index

def rowEntry (hdr : Nat) (data : List Nat) (row : Nat × Nat × Nat) : MsEntry :=
  { id := wId row.1, status := wStatus row.1, depth := wDepth row.1,
    ranges := bytesRanges (wDepth row.1) (slice data (row.2.1 - hdr) (row.2.2 - hdr)) }

/-- **Abstraction map**: the moc-set a reader sees in the file. -/
def abs (f : File) : MocSet :=
  { n128 := f.n128, entries := f.rows.map (rowEntry (hdrBytes f.n128) f.data) }

/-- `mocset list`: `(id, status, depth, n_ranges, byte_size)` computed as `list.rs` does, from the
    words only (`n_ranges = byte_size / (elem_byte_size << 1)`). -/
def fileList (f : File) : List (Nat × Nat × Nat × Nat × Nat) :=
  f.rows.map fun r =>
    let sz := r.2.2 - r.2.1
    (wId r.1, wStatus r.1, wDepth r.1, sz / (elemBytes (wDepth r.1) <<< 1), sz)

/-- `mocset extract id`: the first row whose identifier matches and whose status is valid or deprecated. -/
def fileExtract (f : File) (id : Nat) : Option MsEntry :=
  (f.rows.find? fun r => wId r.1 == id && (wStatus r.1 == 3 || wStatus r.1 == 2)).map
    (rowEntry (hdrBytes f.n128) f.data)

/-! ### Writers -/

/-- `MocSetFileWriter::append_moc`: the scan for the first void entry, with the duplicate test,
    then the three stores.  Returns the new arrays and the offset the data is written at;
    `none` = refused (identifier already live, or no void entry among the `cap` slots). -/
def scan (id word len : Nat) : List Nat → List Nat → Option (List Nat × List Nat × Nat)
  | m :: ms, i0 :: i1 :: is =>
    if id = wId m ∧ wStatus m > 1 then none
    else if m = 0 then some (word :: ms, i0 :: (i0 + len) :: is, i0)
    else match scan id word len ms (i1 :: is) with
      | some (ms', is', off) => some (m :: ms', i0 :: is', off)
      | none => none
  | _, _ => none

/-- `seek(pos)` + `write_all(bytes)`: overwrites, extends, never truncates. -/
def writeAt (data : List Nat) (pos : Nat) (bytes : List Nat) : List Nat :=
  data.take pos ++ bytes ++ data.drop (pos + bytes.length)

def fileAppend (f : File) (e : MsEntry) : File × Bool :=
  let bytes := entryBytes e
  match scan e.id (pack e.status e.depth e.id) bytes.length f.mwords f.index with
  | none => (f, false)
  | some (m', i', off) =>
    ({ f with mwords := m', index := i', data := writeAt f.data (off - hdrBytes f.n128) bytes }, true)

/-- `chg_multi_status`: walks the metadata up to the first void status; a live entry whose
    identifier is in the target map is rewritten with the new status and the identifier is taken
    off the map. -/
def chgScan (st : Nat) : List Nat → List Nat → List Nat
  | _, [] => []
  | ids, m :: ms =>
    if wStatus m = 0 then m :: ms
    else if wStatus m > 1 ∧ ids.contains (wId m) then
      pack st (wDepth m) (wId m) :: chgScan st (ids.erase (wId m)) ms
    else m :: chgScan st ids ms

def fileChg (f : File) (st : Nat) (ids : List Nat) : File × Bool :=
  ({ f with mwords := chgScan st ids.eraseDups f.mwords }, true)

/-- `chg_multi_status` interrupted after `k` of its in-place stores (one per changed entry): the walk
    stops where the writer was killed. -/
def chgScanK (st : Nat) : Nat → List Nat → List Nat → List Nat
  | _, _, [] => []
  | k, ids, m :: ms =>
    if wStatus m = 0 then m :: ms
    else if wStatus m > 1 ∧ ids.contains (wId m) then
      if wStatus m = st then m :: chgScanK st k (ids.erase (wId m)) ms   -- `status != new_status` is false: no store
      else match k with
        | 0 => m :: ms
        | k + 1 => pack st (wDepth m) (wId m) :: chgScanK st k (ids.erase (wId m)) ms
    else m :: chgScanK st k ids ms

def fileChgPrefix (f : File) (st : Nat) (ids : List Nat) (k : Nat) : File :=
  { f with mwords := chgScanK st k ids.eraseDups f.mwords }

/-- The item `purge` re-packs (`append_moc_bytes(status, id, depth, ...)`) and copies from a row. -/
def rowItem (hdr : Nat) (data : List Nat) (r : Nat × Nat × Nat) : Item :=
  (pack (wStatus r.1) (wDepth r.1) (wId r.1), slice data (r.2.1 - hdr) (r.2.2 - hdr))

/-- `purge`: a new file holding the live rows, re-packed, their bytes copied. -/
def filePurge (f : File) (n : Option Nat) : File × Bool :=
  let live := f.rows.filter fun r => decide (wStatus r.1 > 1)
  (build (max (n.getD 1) f.n128) (live.map (rowItem (hdrBytes f.n128) f.data)) [], true)

/-- `make` (same refusals as the abstract command). -/
def fileMake (n128 : Nat) (l : List MsEntry) : Option File :=
  match msMake n128 l with
  | some _ => some (build n128 (l.map itemOf) [])
  | none => none

/-- A history of update commands run on the file. -/
def fileStep (f : File) : MsCmd → File
  | .append e => (fileAppend f e).1
  | .chg st ids => (fileChg f st ids).1
  | .purge n => (filePurge f n).1

def fileRun (f : File) (cs : List MsCmd) : File := cs.foldl fileStep f

/-- The three stores of `append`, one at a time, in the (repaired) program order: data, index word,
    metadata word.  `k` = number of stores already performed (C16: what a reader sees if the writer
    is killed there). -/
def fileAppendPrefix (f : File) (e : MsEntry) (k : Nat) : File :=
  let bytes := entryBytes e
  match scan e.id (pack e.status e.depth e.id) bytes.length f.mwords f.index with
  | none => f
  | some (m', i', off) =>
    let f1 := if k ≥ 1 then { f with data := writeAt f.data (off - hdrBytes f.n128) bytes } else f
    let f2 := if k ≥ 2 then { f1 with index := i' } else f1
    if k ≥ 3 then { f2 with mwords := m' } else f2

end Moc.MsFile
