/-
  C05 — `HpxToUniqIter` (`src/elemset/range/hpx.rs`): ranges → NUNIQ ranges, one depth after the
  other from depth 0: at each depth the part of every remaining range made of whole cells of that
  depth is emitted (`pix1 = (start + off) >> shift`, `pix2 = end >> shift`), collected in a buffer,
  and subtracted from the remaining ranges (`difference(new_from(buffer))`) before the next depth.
  Levels are counted from the deepest one: level `j` has cells of `2^(g·j)` indices (`g` = DIM).
  IMPORT-FREE.
-/
import MocVerif.Model.Ranges
import MocVerif.Model.Cells
import MocVerif.Model.Params

namespace Moc.UniqIter
open Moc

/-- One pass with cells of `2^k` indices: the aligned part `[c1, c2)` of every range, when not empty. -/
def pass (k : Nat) : List Rng → List Rng
  | [] => []
  | r :: t =>
    let c1 := ((r.1 + (2 ^ k - 1)) >>> k) <<< k
    let c2 := (r.2 >>> k) <<< k
    if c2 > c1 then (c1, c2) :: pass k t else pass k t

/-- The whole iteration from level `j` down to level 0: `(level, aligned range)` in emission order. -/
def run (g : Nat) : Nat → List Rng → List (Nat × Rng)
  | 0, rs => (pass 0 rs).map fun b => (0, b)
  | j + 1, rs =>
    let buf := pass (g * (j + 1)) rs
    (buf.map fun b => (j + 1, b)) ++ run g j (difference rs (normalize buf))

/-- The NUNIQ numbers emitted (HEALPix: `g = 2`, `J` = MAX_DEPTH of the index type): for an aligned
    range at level `j` (depth `J − j`), `4·4^depth + pix` for every cell index `pix`. -/
def uniqValues (J : Nat) (es : List (Nat × Rng)) : List Nat :=
  es.flatMap fun e =>
    let k := 2 * e.1
    let d := J - e.1
    (List.range ((e.2.2 >>> k) - (e.2.1 >>> k))).map fun i => (4 <<< (2 * d)) + (e.2.1 >>> k) + i

/-- `HpxUniq2DepthIdxIter`: the same cells as `(depth, index)` pairs, in emission order (depth, then index). -/
def depthIdx (g J : Nat) (es : List (Nat × Rng)) : List (Nat × Nat) :=
  es.flatMap fun e =>
    let k := g * e.1
    (List.range ((e.2.2 >>> k) - (e.2.1 >>> k))).map fun i => (J - e.1, (e.2.1 >>> k) + i)

/-- `UniqToHpxIter`: every NUNIQ number of every NUNIQ range, one after the other, becomes the range of its cell
    at the deepest level of the index type. -/
def uniqToHpx (w : Nat) : List Rng → List Rng
  | [] => []
  | r :: t => ((List.range (r.2 - r.1)).map fun i => rangeOfCell Params.hpx w (fromUniqHpx (r.1 + i))) ++ uniqToHpx w t

end Moc.UniqIter
