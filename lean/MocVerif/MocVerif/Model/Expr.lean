/-
  Operator trees ("programs") over MOCs, evaluated eagerly (the `RangeMOC` methods) and lazily
  (the streaming iterators).  Used by C02 (every program yields a valid MOC) and C04 (lazy = eager).
-/
import MocVerif.Model.LazyOps

namespace Moc

inductive Expr where
  | leaf (s : Src)
  | and (a b : Expr)
  | or (a b : Expr)
  | xor (a b : Expr)
  | minus (a b : Expr)
  | not (a : Expr)
  | degrade (nd : Nat) (a : Expr)
  deriving Repr

/-- `&RangeMOC → RangeRefMocIter`: borrowed iterator over an in-memory MOC (`peek_last` = last range,
    exact size hints). -/
def borrowedSrc (d : Nat) (l : List Rng) : Src :=
  { depth := d, items := l, last := l.getLast?, lo := l.length, hi := some l.length,
    later := [(l.length - 1, some (l.length - 1)), (l.length - 2, some (l.length - 2))] }

/-- Eager evaluation with the `RangeMOC` methods: `(depth_max, ranges)`. -/
def evalE (q : Qty) (w : Nat) : Expr → Nat × List Rng
  | .leaf s => (s.depth, s.items)
  | .and a b => let x := evalE q w a; let y := evalE q w b; (max x.1 y.1, intersection x.2 y.2)
  | .or a b => let x := evalE q w a; let y := evalE q w b; (max x.1 y.1, union x.2 y.2)
  | .xor a b => let x := evalE q w a; let y := evalE q w b; (max x.1 y.1, xorLoop x.2 y.2)
  | .minus a b =>
    let x := evalE q w a; let y := evalE q w b
    (max x.1 y.1, minusItems (borrowedSrc x.1 x.2) (borrowedSrc y.1 y.2))
  | .not a => let x := evalE q w a; (x.1, complement (q.nCellsMax w) x.2)
  | .degrade nd a => let x := evalE q w a; (min x.1 nd, degradedShift (q.shiftFromMax w nd) x.2)

/-- Lazy evaluation: the tree of streaming iterators over the leaf sources. -/
def evalL (q : Qty) (w : Nat) : Expr → Src
  | .leaf s => s
  | .and a b => andSrc (evalL q w a) (evalL q w b)
  | .or a b => orSrc (evalL q w a) (evalL q w b)
  | .xor a b => xorSrc (evalL q w a) (evalL q w b)
  | .minus a b => minusSrc (evalL q w a) (evalL q w b)
  | .not a => notSrc (q.nCellsMax w) (evalL q w a)
  | .degrade nd a => degradeSrc (q.shiftFromMax w nd) nd (evalL q w a)

/-- Every `degrade nd` node has `nd ≤ MAX_DEPTH` (Rust's `shift_from_depth_max` underflows otherwise). -/
def Expr.DepthsOk (q : Qty) (w : Nat) : Expr → Prop
  | .leaf s => s.depth ≤ q.maxDepth w
  | .and a b | .or a b | .xor a b | .minus a b => a.DepthsOk q w ∧ b.DepthsOk q w
  | .not a => a.DepthsOk q w
  | .degrade nd a => nd ≤ q.maxDepth w ∧ a.DepthsOk q w

/-- Every leaf is a valid MOC whose source advertises consistent hints. -/
def Expr.LeavesOk (q : Qty) (w : Nat) : Expr → Prop
  | .leaf s => Valid q w s.depth s.items ∧ s.HintOkAll
  | .and a b | .or a b | .xor a b | .minus a b => a.LeavesOk q w ∧ b.LeavesOk q w
  | .not a => a.LeavesOk q w
  | .degrade _ a => a.LeavesOk q w

end Moc
