/-
  C07 — reader side of the FITS header (`src/deser/fits/common.rs`: `get_str_val_no_quote`,
  `parse_uint_val`; `src/deser/fits/mod.rs`: the keyword loop up to `END`): the VALUES the reader extracts
  from the table header of a range MOC — row width, row count, dimension, ordering, depth — and the decoding
  of the whole file from them.  (The real reader also validates the order of the mandatory cards and
  rejects unknown values; this is the extraction it performs on a header it accepts.)
  IMPORT-FREE.
-/
import MocVerif.Model.Fits

namespace Moc.Fits
open Moc Moc.Codec

/-- The cards of a header block up to (excluding) `END`. -/
def scanCards : Nat → List Char → List (List Char)
  | 0, _ => []
  | n + 1, cs =>
    let c := cs.take 80
    if c.take 4 = ['E', 'N', 'D', ' '] then [] else c :: scanCards n (cs.drop 80)

/-- First card with that keyword (columns 1–8). -/
def findCard (kw : List Char) : List (List Char) → Option (List Char)
  | [] => none
  | c :: t => if c.take 8 = kw then some c else findCard kw t

def dropTrailingSpaces (l : List Char) : List Char := (dropSpaces l.reverse).reverse

/-- `get_str_val_no_quote`: the value field, left-trimmed, must open with a quote; the characters up to the
    next quote, right-trimmed. -/
def readStr (card : List Char) : Option (List Char) :=
  match dropSpaces (card.drop 10) with
  | '\'' :: rest =>
    let v := rest.takeWhile (· != '\'')
    if (rest.drop v.length).head? = some '\'' then some (dropTrailingSpaces v) else none
  | _ => none

structure Hdr where
  naxis1 : Nat
  naxis2 : Nat
  dim : List Char
  ordering : List Char
  depth : Nat
  tform : List Char
  deriving DecidableEq, Repr

/-- The keyword carrying the depth, by dimension. -/
def depthKw (dim : List Char) : List Char :=
  if dim = ['S', 'P', 'A', 'C', 'E'] then ['M', 'O', 'C', 'O', 'R', 'D', '_', 'S']
  else if dim = ['T', 'I', 'M', 'E'] then ['M', 'O', 'C', 'O', 'R', 'D', '_', 'T']
  else ['M', 'O', 'C', 'O', 'R', 'D', '_', 'F']

def decodeHdr (tableBlock : List Char) : Option Hdr := do
  let cs := scanCards 36 tableBlock
  let n1 ← (findCard ['N', 'A', 'X', 'I', 'S', '1', ' ', ' '] cs).bind readUint
  let n2 ← (findCard ['N', 'A', 'X', 'I', 'S', '2', ' ', ' '] cs).bind readUint
  let dim ← (findCard ['M', 'O', 'C', 'D', 'I', 'M', ' ', ' '] cs).bind readStr
  let ord ← (findCard ['O', 'R', 'D', 'E', 'R', 'I', 'N', 'G'] cs).bind readStr
  let d ← (findCard (depthKw dim) cs).bind readUint
  let tf ← (findCard ['T', 'F', 'O', 'R', 'M', '1', ' ', ' '] cs).bind readStr
  pure { naxis1 := n1, naxis2 := n2, dim := dim, ordering := ord, depth := d, tform := tf }

/-- The whole range file: header values, then `NAXIS1 × NAXIS2` data bytes as `(start, end)` pairs. -/
def decodeRangeFile (file : List Nat) : Option (Hdr × List Rng) := do
  let h ← decodeHdr (((file.drop 2880).take 2880).map Char.ofNat)
  let data := (file.drop 5760).take (h.naxis1 * h.naxis2)
  pure (h, decodeWords (wordsOf h.naxis1 h.naxis2 data))

/-- The values the reader extracts from the table header of an ST-MOC file: row width, row count, dimension,
    ordering, time depth, space depth, column format. -/
def decodeHdrST (tableBlock : List Char) : Option (Nat × Nat × List Char × List Char × Nat × Nat × List Char) := do
  let cs := scanCards 36 tableBlock
  let n1 ← (findCard ['N', 'A', 'X', 'I', 'S', '1', ' ', ' '] cs).bind readUint
  let n2 ← (findCard ['N', 'A', 'X', 'I', 'S', '2', ' ', ' '] cs).bind readUint
  let dim ← (findCard ['M', 'O', 'C', 'D', 'I', 'M', ' ', ' '] cs).bind readStr
  let ord ← (findCard ['O', 'R', 'D', 'E', 'R', 'I', 'N', 'G'] cs).bind readStr
  let dt ← (findCard ['M', 'O', 'C', 'O', 'R', 'D', '_', 'T'] cs).bind readUint
  let ds ← (findCard ['M', 'O', 'C', 'O', 'R', 'D', '_', 'S'] cs).bind readUint
  let tf ← (findCard ['T', 'F', 'O', 'R', 'M', '1', ' ', ' '] cs).bind readStr
  pure (n1, n2, dim, ord, dt, ds, tf)

end Moc.Fits
