/-
  C09 — `FixedDepthSTMocBuilder::buff_to_moc` (`src/moc2d/builder/maxdepths_cell.rs`): a buffer of
  `(time cell, space cell)` observations, sorted by time cell, becomes a list of elements: the space cells of
  one time cell are gathered (a `FixedDepthMocBuilder`: sorted, duplicate-free), and CONSECUTIVE time cells
  carrying the same space coverage are grouped in one element (`moc_2.eq(p_moc_2)`).
  Cells are plain indices at the two depths of the builder.
  IMPORT-FREE.
-/
import MocVerif.Model.Graph

namespace Moc.STBuilder
open Moc.Graph

/-- One observation added to the groups `(time cell, sorted space cells)`, kept sorted by time cell
    (`sort_unstable_by` on the time cell + one `FixedDepthMocBuilder` per time cell). -/
def addObs (t s : Nat) : List (Nat × List Nat) → List (Nat × List Nat)
  | [] => [(t, [s])]
  | (t', S) :: rest =>
    if t < t' then (t, [s]) :: (t', S) :: rest
    else if t = t' then (t', ins s S) :: rest
    else (t', S) :: addObs t s rest

def groups (buf : List (Nat × Nat)) : List (Nat × List Nat) :=
  buf.foldr (fun o acc => addObs o.1 o.2 acc) []

/-- Consecutive time cells with the same space coverage form one element. -/
def mergeRuns : List (Nat × List Nat) → List (List Nat × List Nat)
  | [] => []
  | (t, S) :: rest =>
    match mergeRuns rest with
    | (ts, S') :: more => if S = S' then (t :: ts, S') :: more else ([t], S) :: (ts, S') :: more
    | [] => [([t], S)]

/-- The elements `buff_to_moc` builds: `(time cells, space cells)`. -/
def buffToElems (buf : List (Nat × Nat)) : List (List Nat × List Nat) := mergeRuns (groups buf)

end Moc.STBuilder
