/-
  C19 — the `moc` command-line tool (crates/cli/src/op.rs, convert.rs, from.rs, output.rs).

  `moc op <inter|union|symdiff|minus> L R`: both FITS files are opened as STREAMING range iterators
  (no `peek_last`, exact size hint from NAXIS2); when the index widths differ the narrower operand goes
  through `ConvertIterator` (`*_lconv` / `*_rconv`: every bound shifted left by the width difference),
  the lazy operator of `src/moc/range/op` is applied and piped into the writer.
  `moc op complement|degrade`: `not()` / `degrade(d)` on the stream.  `moc convert`: decode + encode.
  `moc from timestamp|timerange` (microseconds): the fixed-depth builders of C06/C18.
  IMPORT-FREE.
-/
import MocVerif.Model.Expr
import MocVerif.Model.Freq

namespace Moc.Cli

inductive Op2 where
  | inter | union | symdiff | minus
  deriving DecidableEq, Repr

/-- `left_moc.convert::<TR, QR>()` when the widths differ, the stream itself otherwise. -/
def promote (q : Qty) (wFrom wTo : Nat) (s : Src) : Src :=
  if wFrom = wTo then s else convertSrc (wTo - wFrom) (q.maxDepth wTo) s

def lazyOp : Op2 → Src → Src → Src
  | .inter => andSrc
  | .union => orSrc
  | .symdiff => xorSrc
  | .minus => minusSrc

/-- `moc op <op> L R`: (index width of the result, result stream). -/
def op2 (q : Qty) (op : Op2) (wl : Nat) (l : Src) (wr : Nat) (r : Src) : Nat × Src :=
  (max wl wr, lazyOp op (promote q wl (max wl wr) l) (promote q wr (max wl wr) r))

/-- `moc op complement`. -/
def complementOp (q : Qty) (w : Nat) (s : Src) : Src := notSrc (q.nCellsMax w) s

/-- `moc op degrade d`. -/
def degradeOp (q : Qty) (w nd : Nat) (s : Src) : Src := degradeSrc (q.shiftFromMax w nd) nd s

/-- Index ranges of a `w`-bit MOC expressed in the 64-bit index space (to compare outputs written
    with different widths / in text formats). -/
def to64 (w : Nat) (rs : List Rng) : List Rng := rs.map fun r => (r.1 <<< (64 - w), r.2 <<< (64 - w))

end Moc.Cli
