/-
  Lazy / streaming operators of `src/moc/range/op/{and,or,xor,minus,not,degrade}.rs`.

  A streaming source is its remaining sequence of ranges plus the hints it advertises
  (`peek_last`, `size_hint`, `depth_max`).  `collect(op(l, r))` only depends on the sequences the
  operands yield, so every operator is a function on `Src`; the hints of the result are computed
  exactly as the Rust `new` / `peek_last` / `size_hint` do (at creation time).
-/
import MocVerif.Model.Ranges

namespace Moc

/-- A `RangeMOCIterator`: declared depth, the ranges it will yield, and the hints. -/
structure Src where
  depth : Nat
  items : List Rng
  last : Option Rng := none          -- `peek_last()` (constant for all sources of this code base)
  lo : Nat := 0                      -- `size_hint().0`
  hi : Option Nat := none            -- `size_hint().1`
  /-- `size_hint()` after 1, 2, … calls of `next()` (as advertised by the source kind). -/
  later : List (Nat × Option Nat) := []
  deriving Repr, BEq, DecidableEq

/-- What `peek_last` / `size_hint` promise. -/
def Src.HintOk (s : Src) : Prop :=
  (∀ r, s.last = some r → r.1 < r.2 ∧ ∀ c ∈ s.items, c.2 ≤ r.2) ∧
  s.lo ≤ s.items.length ∧ (∀ n, s.hi = some n → s.items.length ≤ n)

def Src.hintOkB (s : Src) : Bool :=
  (match s.last with | none => true | some r => decide (r.1 < r.2) && s.items.all fun c => decide (c.2 ≤ r.2)) &&
  decide (s.lo ≤ s.items.length) &&
  (match s.hi with | none => true | some n => decide (s.items.length ≤ n))

/-- The documented contract of `peek_last` (`RangeMOCIterator`, src/moc/mod.rs): "returns the last range
    of the iterator (or at least a range having the last range upper bound)" — when a source announces a
    last range, it does yield ranges and the last one ends exactly there. -/
def Src.LastExact (s : Src) : Prop :=
  ∀ q, s.last = some q → ∃ c, s.items.getLast? = some c ∧ c.2 = q.2

/-- Executable form; `strict = false` is for a source observed after some `next()`: an exhausted vector
    source still answers its (constant) last range. -/
def Src.lastExactB (s : Src) (strict : Bool) : Bool :=
  match s.last with
  | none => true
  | some q =>
    match s.items.getLast? with
    | none => !strict
    | some c => c.2 == q.2

/-- The hints a source advertises after 1, 2, … `next()` are consistent with what then remains. -/
def laterOk : List Rng → List (Nat × Option Nat) → Prop
  | _, [] => True
  | items, h :: t =>
    h.1 ≤ items.tail.length ∧ (∀ n, h.2 = some n → items.tail.length ≤ n) ∧ laterOk items.tail t

/-- Hints consistent now and after every further `next()` the model knows about. -/
def Src.HintOkAll (s : Src) : Prop := s.HintOk ∧ laterOk s.items s.later

/-- The source after `next()` was called once (hints: the ones the source then advertises;
    `(0, None)` – no information – when the source gave none). -/
def Src.afterNext (s : Src) : Src :=
  match s.later with
  | [] => { s with items := s.items.tail, lo := 0, hi := none }
  | h :: t => { s with items := s.items.tail, lo := h.1, hi := h.2, later := t }

def Src.afterNexts : Nat → Src → Src
  | 0, s => s
  | k + 1, s => Src.afterNexts k s.afterNext

/-- `if let Some(up) = it.peek_last() { up.end <= x } else { false }`. -/
def endLe (last : Option Rng) (x : Nat) : Bool :=
  match last with
  | some up => decide (up.2 ≤ x)
  | none => false

/-! ### and -/

/-- `AndRangeIter::new` quick rejections + `next` loop. -/
def andItems (l r : Src) : List Rng :=
  match l.items, r.items with
  | [], _ => []
  | _ :: _, [] => []
  | l0 :: lt, r0 :: rt =>
    -- `if let (Some(up_left), Some(low_right)) = (left_it.peek_last(), &right)`
    if endLe l.last r0.1 || endLe r.last l0.1 then [] else interLoop (l0 :: lt) (r0 :: rt)

def andSizeHi (l r : Src) : Option Nat :=
  match l.hi, r.hi with
  | some n1, some n2 => some (1 + n1 + n2)
  | _, _ => none

/-- `size_hint().1` of `or` / `xor` / `minus` (repaired: `2 + n1 + n2`). -/
def binSizeHi (l r : Src) : Option Nat :=
  match l.hi, r.hi with
  | some n1, some n2 => some (2 + n1 + n2)
  | _, _ => none

/-- `and(l, r)`. NB `size_hint` is evaluated on the operands *after* the initial `next()`. -/
def andSrc (l r : Src) : Src :=
  { depth := max l.depth r.depth, items := andItems l r, last := none, lo := 0,
    hi := andSizeHi l.afterNext r.afterNext }

/-! ### or -/

def orLast (l r : Src) : Option Rng :=
  match l.last, r.last with
  | some r1, some r2 =>
    if r2.2 < r1.1 then some r1
    else if r1.2 < r2.1 then some r2
    else some (min r1.1 r2.1, max r1.2 r2.2)
  | _, _ => none

/-- `OrRangeIter`: `DisjointRightFirst` fast path (the `DisjointLeftFirst` test is a verbatim
    duplicate of the first one in the source, hence dead) or the regular loop. -/
def orItems (l r : Src) : List Rng :=
  match r.last, l.items with
  | some lastRight, l0 :: _ =>
    if lastRight.2 < l0.1 then r.items ++ l.items else unionLoop l.items r.items
  | _, _ => unionLoop l.items r.items

def orDisjoint (l r : Src) : Bool :=
  match r.last, l.items with
  | some lastRight, l0 :: _ => decide (lastRight.2 < l0.1)
  | _, _ => false

/-- `OrRangeIter::new`.  In the `DisjointRightFirst` strategy `size_hint` is `Chain::size_hint` of
    `right.into_iter() ⧺ right_it ⧺ left.into_iter() ⧺ left_it` (the two `Option` iterators are exact). -/
def orSrc (l r : Src) : Src :=
  let one (s : Src) : Nat := if s.items.isEmpty then 0 else 1
  { depth := max l.depth r.depth, items := orItems l r, last := orLast l r,
    lo := if orDisjoint l r then one r + r.afterNext.lo + one l + l.afterNext.lo else 0,
    hi := if orDisjoint l r then
            (match l.afterNext.hi, r.afterNext.hi with
             | some a, some b => some (one r + b + one l + a) | _, _ => none)
          else binSizeHi l.afterNext r.afterNext }

/-! ### xor -/

/-- `XorRangeIter::next` loop; heads are the (possibly rewritten) current ranges. -/
def xorLoop : List Rng → List Rng → List Rng
  | [], r => r
  | l :: lt, [] => l :: lt
  | l :: lt, r :: rt =>
    if l.2 = r.1 then xorLoop lt ((l.1, r.2) :: rt)
    else if r.2 = l.1 then xorLoop ((r.1, l.2) :: lt) rt
    else if l.2 < r.1 then l :: xorLoop lt (r :: rt)
    else if r.2 < l.1 then r :: xorLoop (l :: lt) rt
    else if l.2 = r.2 then
      if l.1 = r.1 then xorLoop lt rt
      else if l.1 < r.1 then (l.1, r.1) :: xorLoop lt rt
      else (r.1, l.1) :: xorLoop lt rt
    else if l.2 < r.2 then
      if l.1 = r.1 then xorLoop lt ((l.2, r.2) :: rt)
      else if l.1 < r.1 then (l.1, r.1) :: xorLoop lt ((l.2, r.2) :: rt)
      else (r.1, l.1) :: xorLoop lt ((l.2, r.2) :: rt)
    else
      if l.1 = r.1 then xorLoop ((r.2, l.2) :: lt) rt
      else if l.1 < r.1 then (l.1, r.1) :: xorLoop ((r.2, l.2) :: lt) rt
      else (r.1, l.1) :: xorLoop ((r.2, l.2) :: lt) rt
termination_by l r => l.length + r.length

/-- `XorRangeIter::new` (repaired): when both operands end at the same index their common tail is removed
    and nothing is known about the end of the result; otherwise the larger end is the end of the result. -/
def xorLast (l r : Src) : Option Rng :=
  match l.last, r.last with
  | some r1, some r2 => if r1.2 = r2.2 then none else orLast l r
  | _, _ => none

def xorSrc (l r : Src) : Src :=
  { depth := max l.depth r.depth, items := xorLoop l.items r.items, last := xorLast l r, lo := 0,
    hi := binSizeHi l.afterNext r.afterNext }

/-! ### minus -/

/-- `MinusRangeIter::next` loop. -/
def minusLoop : List Rng → List Rng → List Rng
  | [], _ => []
  | l :: lt, [] => l :: lt
  | l :: lt, r :: rt =>
    if l.2 ≤ r.1 then l :: minusLoop lt (r :: rt)
    else if r.2 ≤ l.1 then minusLoop (l :: lt) (consumeWhileEndLe l.1 rt)
    else if l.2 ≤ r.2 then
      if l.1 < r.1 then (l.1, r.1) :: minusLoop lt (r :: rt)
      else minusLoop (consumeWhileEndLe r.2 lt) (r :: rt)
    else if r.1 ≤ l.1 then minusLoop ((r.2, l.2) :: lt) rt
    else (l.1, r.1) :: minusLoop ((r.2, l.2) :: lt) rt
termination_by l r => l.length + r.length
decreasing_by
  all_goals simp_wf
  all_goals (first | omega | (have := consumeWhileEndLe_length_le l.1 rt; omega) | (have := consumeWhileEndLe_length_le r.2 lt; omega))

def minusItems (l r : Src) : List Rng :=
  match l.items, r.items with
  | [], _ => []
  | l0 :: lt, [] => l0 :: lt
  | l0 :: lt, r0 :: rt =>
    -- disjoint extents: `right` is dropped, the whole left operand is yielded
    -- (repaired behaviour, /repo commit "fix: lazy minus returned an empty MOC ...")
    if endLe l.last r0.1 || endLe r.last l0.1 then l0 :: lt else minusLoop (l0 :: lt) (r0 :: rt)

def minusSrc (l r : Src) : Src :=
  { depth := max l.depth r.depth, items := minusItems l r, last := none, lo := 0,
    hi := binSizeHi l.afterNext r.afterNext }

/-! ### not -/

/-- `NotRangeIter`: `complement` with upper bound `n_cells_max`, as a stream. -/
def notItems (ub : Nat) (s : Src) : List Rng := complement ub s.items

/-- Number of source items consumed by `NotRangeIter::new`. -/
def notConsumed (ub : Nat) : List Rng → Nat
  | [] => 0
  | r :: t => if r.1 = 0 then (if r.2 = ub then 1 else (if t.isEmpty then 1 else 2)) else 1

/-- `curr.is_some()` right after `new`. -/
def notCurrSome (ub : Nat) : List Rng → Bool
  | [] => true
  | r :: _ => !(r.1 = 0 && r.2 = ub)

/-- `NotRangeIter` with the repaired `size_hint`: nothing if `curr` is `None`, else `curr` + one
    range per remaining input range + possibly a last range up to `n_cells_max`. -/
def notSrc (ub : Nat) (s : Src) : Src :=
  let k := notConsumed ub s.items
  let rem := s.afterNexts k
  if notCurrSome ub s.items then
    { depth := s.depth, items := notItems ub s, last := none,
      lo := rem.lo + 1, hi := rem.hi.map (· + 2) }
  else
    { depth := s.depth, items := notItems ub s, last := none, lo := 0, hi := some 0 }

/-! ### degrade -/

/-- `DegradeRangeIter::next` with `curr = cur` (already degraded). -/
def degradeFrom (sh : Nat) (cur : Rng) : List Rng → List Rng
  | [] => [cur]
  | n :: t =>
    let nr := degradeRange sh n
    if nr.1 > cur.2 then cur :: degradeFrom sh nr t
    else degradeFrom sh (cur.1, nr.2) t

/-- `degrade(it, new_depth)`; `sh = Q::shift_from_depth_max(new_depth)` (ignored when
    `new_depth ≥ it.depth_max()`: masks are then the identity). -/
def degradeSrc (sh newDepth : Nat) (s : Src) : Src :=
  if newDepth < s.depth then
    { depth := newDepth,
      items := (match s.items with | [] => [] | r :: t => degradeFrom sh (degradeRange sh r) t),
      last := none, lo := 0, hi := none }
  else
    { depth := s.depth,
      items := (match s.items with | [] => [] | r :: t => degradeFrom 0 r t),
      last := none, lo := 0, hi := none }

/-! ### check / convert -/

/-- `CheckedIterator` (repaired `size_hint`): same stream, `peek_last` forwarded, one element is
    held in `curr`. -/
def checkSrc (s : Src) : Src :=
  if s.items.isEmpty then { s with lo := 0, hi := some 0, later := [] }
  else { s with lo := s.afterNext.lo + 1, hi := s.afterNext.hi.map (· + 1), later := [] }

/-- `ConvertIterator` from a `w`-bit to a wider `w'`-bit index type: every bound is shifted left by
    `w' - w` bits; depth `min(depth, MAX_DEPTH')`; hints forwarded (scaled `peek_last`). -/
def convertSrc (sh maxDepth' : Nat) (s : Src) : Src :=
  { s with depth := min s.depth maxDepth',
           items := s.items.map fun r => (r.1 <<< sh, r.2 <<< sh),
           last := s.last.map fun r => (r.1 <<< sh, r.2 <<< sh) }

end Moc
