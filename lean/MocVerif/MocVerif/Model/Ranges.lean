/-
  Eager range-set primitives, transliterated from `src/ranges/mod.rs`
  (`BorrowedRanges::{merge, union, intersection, complement_with_upper_bound}`,
   `MergeOverlappingRangesIter`, `Ranges::new_from`) and `src/elemset/range/mod.rs` (`degraded`).

  Loops become structural recursions; Rust's inner `while` skip-loops are folded into the
  outer recursion (same sequence of comparisons, same output).
-/
import MocVerif.Model.Basic

namespace Moc

/-! ### `Ranges::new_from` = sort by start + `MergeOverlappingRangesIter(shift = None)` -/

/-- Insert in a list sorted by `start` (spec of `sort_unstable_by(start)` up to the order of
    equal starts, which `mergeOverlapping` is insensitive to). -/
def insertByStart (r : Rng) : List Rng → List Rng
  | [] => [r]
  | s :: t => if r.1 ≤ s.1 then r :: s :: t else s :: insertByStart r t

def sortByStart : List Rng → List Rng
  | [] => []
  | r :: t => insertByStart r (sortByStart t)

/-- `MergeOverlappingRangesIter` with `shift = None`, with `last = cur`:
    `if curr.start <= prev.end { prev.end = max(curr.end, prev.end) } else { emit prev }`. -/
def mergeOvFrom (cur : Rng) : List Rng → List Rng
  | [] => [cur]
  | r :: t =>
    if r.1 ≤ cur.2 then mergeOvFrom (cur.1, max r.2 cur.2) t
    else cur :: mergeOvFrom r t

def mergeOverlapping : List Rng → List Rng
  | [] => []
  | r :: t => mergeOvFrom r t

/-- `Ranges::new_from_sorted`. -/
def newFromSorted (l : List Rng) : List Rng := mergeOverlapping l

/-- `Ranges::new_from`. NB: like the Rust code it does **not** drop empty input ranges
    (callers never pass any); `normalize` below does. -/
def newFrom (l : List Rng) : List Rng := mergeOverlapping (sortByStart l)

/-- Normal form of an arbitrary list of ranges: drop empty ones, sort, fuse. -/
def normalize (l : List Rng) : List Rng := newFrom (l.filter fun r => r.1 < r.2)

/-! ### `intersection` -/

/-- Main `while let (Some(el), Some(er))` loop of `intersection` (and of the lazy `AndRangeIter`). -/
def interLoop : List Rng → List Rng → List Rng
  | [], _ => []
  | _ :: _, [] => []
  | l :: lt, r :: rt =>
    if l.2 ≤ r.1 then interLoop lt (r :: rt)
    else if r.2 ≤ l.1 then interLoop (l :: lt) rt
    else
      let from_ := max l.1 r.1
      if l.2 < r.2 then (from_, l.2) :: interLoop lt (r :: rt)
      else if r.2 < l.2 then (from_, r.2) :: interLoop (l :: lt) rt
      else (from_, l.2) :: interLoop lt rt
termination_by l r => l.length + r.length

/-- `binary_search_by(|x| x.start.cmp(key))` followed by `Ok(i) => i, Err(i) => i - 1`,
    used when `l[0].start < key`: index of the last range whose start is `≤ key`. -/
def startIdx (key : Nat) : List Rng → Nat
  | [] => 0
  | [_] => 0
  | _ :: s :: t => if s.1 ≤ key then 1 + startIdx key (s :: t) else 0

/-- End of the last range (`l[l.len() - 1].end`), `d` being the end of the range before the list. -/
def lastEndD (d : Nat) : List Rng → Nat
  | [] => d
  | r :: t => lastEndD r.2 t

/-- `BorrowedRanges::intersection`. -/
def intersection (l r : List Rng) : List Rng :=
  match l, r with
  | [], _ => []
  | _, [] => []
  | l0 :: lt, r0 :: rt =>
    let lLast := lastEndD l0.2 lt
    let rLast := lastEndD r0.2 rt
    if l0.1 ≥ rLast || lLast ≤ r0.1 then []
    else if l0.1 < r0.1 then interLoop ((l0 :: lt).drop (startIdx r0.1 (l0 :: lt))) (r0 :: rt)
    else if l0.1 > r0.1 then interLoop (l0 :: lt) ((r0 :: rt).drop (startIdx l0.1 (r0 :: rt)))
    else interLoop (l0 :: lt) (r0 :: rt)

/-! ### `union` -/

/-- `consume_while_end_lower_than(it, to)`: drop ranges whose end is `≤ to`. -/
def consumeWhileEndLe (to : Nat) : List Rng → List Rng
  | [] => []
  | c :: t => if c.2 > to then c :: t else consumeWhileEndLe to t

theorem consumeWhileEndLe_length_le (to : Nat) (l : List Rng) :
    (consumeWhileEndLe to l).length ≤ l.length := by
  induction l with
  | nil => simp [consumeWhileEndLe]
  | cons c t ih => simp only [consumeWhileEndLe]; split <;> simp <;> omega

/-- Main `loop` of `union` (and of the lazy `OrRangeIter`, `Regular` strategy). The head of each
    list is the (possibly widened) current range `left` / `right`. -/
def unionLoop : List Rng → List Rng → List Rng
  | [], r => r
  | l :: lt, [] => l :: lt
  | l :: lt, r :: rt =>
    if l.2 < r.1 then l :: unionLoop lt (r :: rt)
    else if r.2 < l.1 then r :: unionLoop (l :: lt) rt
    else if l.2 ≤ r.2 then
      unionLoop (consumeWhileEndLe r.2 lt) ((min l.1 r.1, r.2) :: rt)
    else
      unionLoop ((min l.1 r.1, l.2) :: lt) (consumeWhileEndLe l.2 rt)
termination_by l r => l.length + r.length
decreasing_by
  all_goals simp_wf
  all_goals (first | omega | (have := consumeWhileEndLe_length_le r.2 lt; omega) | (have := consumeWhileEndLe_length_le l.2 rt; omega))

/-- `binary_search_by(|x| x.end.cmp(key))` with `Ok(i) | Err(i) => i`: number of ranges whose end is `< key`. -/
def endIdx (key : Nat) : List Rng → Nat
  | [] => 0
  | s :: t => if s.2 < key then 1 + endIdx key t else 0

/-- `BorrowedRanges::union`. -/
def union (l r : List Rng) : List Rng :=
  match l, r with
  | [], r => r
  | l, [] => l
  | l0 :: lt, r0 :: rt =>
    let lLast := lastEndD l0.2 lt
    let rLast := lastEndD r0.2 rt
    if lLast < r0.1 then (l0 :: lt) ++ (r0 :: rt)
    else if rLast < l0.1 then (r0 :: rt) ++ (l0 :: lt)
    else if l0.2 < r0.1 then
      let il := endIdx r0.1 (l0 :: lt)
      (l0 :: lt).take il ++ unionLoop ((l0 :: lt).drop il) (r0 :: rt)
    else if l0.1 > r0.2 then
      let ir := endIdx l0.1 (r0 :: rt)
      (r0 :: rt).take ir ++ unionLoop (l0 :: lt) ((r0 :: rt).drop ir)
    else unionLoop (l0 :: lt) (r0 :: rt)

/-! ### `merge` (generic edge sweep, used by `difference`) -/

/-- `utils::flatten`. -/
def flatten : List Rng → List Nat
  | [] => []
  | r :: t => r.1 :: r.2 :: flatten t

/-- `utils::unflatten` (pairs consecutive values; a dangling last value is dropped as in Rust's
    `len >> 1`). -/
def unflatten : List Nat → List Rng
  | a :: b :: t => (a, b) :: unflatten t
  | _ => []

/-- One step of the `while i < ll || j < rl` loop. `li`/`rj` are the remaining flattened bounds;
    `inL`/`inR` tell whether the *next* bound of each side is a falling edge (`i & 1 != 0`);
    `open_` is `result.len() & 1 == 1`. Returns the result bounds. -/
def mergeSweep (op : Bool → Bool → Bool) :
    (li : List Nat) → (iOdd : Bool) → (rj : List Nat) → (jOdd : Bool) → (open_ : Bool) → List Nat
  | [], _, [], _, _ => []
  | [], iOdd, rv :: rj, jOdd, open_ =>
    let inR := !jOdd
    if open_ != op false inR then rv :: mergeSweep op [] iOdd rj (!jOdd) (!open_)
    else mergeSweep op [] iOdd rj (!jOdd) open_
  | lv :: li, iOdd, [], jOdd, open_ =>
    let inL := !iOdd
    if open_ != op inL false then lv :: mergeSweep op li (!iOdd) [] jOdd (!open_)
    else mergeSweep op li (!iOdd) [] jOdd open_
  | lv :: li, iOdd, rv :: rj, jOdd, open_ =>
    let c := min lv rv
    let inL := (!iOdd && c == lv) || (iOdd && c < lv)
    let inR := (!jOdd && c == rv) || (jOdd && c < rv)
    let add := open_ != op inL inR
    if c == lv && c == rv then
      if add then c :: mergeSweep op li (!iOdd) rj (!jOdd) (!open_)
      else mergeSweep op li (!iOdd) rj (!jOdd) open_
    else if c == lv then
      if add then c :: mergeSweep op li (!iOdd) (rv :: rj) jOdd (!open_)
      else mergeSweep op li (!iOdd) (rv :: rj) jOdd open_
    else
      if add then c :: mergeSweep op (lv :: li) iOdd rj (!jOdd) (!open_)
      else mergeSweep op (lv :: li) iOdd rj (!jOdd) open_
termination_by li _ rj _ _ => li.length + rj.length

/-- `BorrowedRanges::merge`. -/
def merge (op : Bool → Bool → Bool) (l r : List Rng) : List Rng :=
  unflatten (mergeSweep op (flatten l) false (flatten r) false false)

/-- `SNORanges::difference`. -/
def difference (l r : List Rng) : List Rng := merge (fun a b => a && !b) l r

/-! ### `complement_with_upper_bound` -/

/-- The `.map(|range| { let r = last..range.start; last = range.end; r })` part plus the final push. -/
def complFrom (last ub : Nat) : List Rng → List Rng
  | [] => if last < ub then [(last, ub)] else []
  | r :: t => (last, r.1) :: complFrom r.2 ub t

/-- `BorrowedRanges::complement_with_upper_bound`. -/
def complement (ub : Nat) : List Rng → List Rng
  | [] => [(0, ub)]
  | r :: t => if r.1 = 0 then complFrom r.2 ub t else complFrom 0 ub (r :: t)

/-! ### `degraded` -/

/-- `x & rm_bits_mask` where `rm_bits_mask = !0 << shift`. -/
def floorTo (s x : Nat) : Nat := (x >>> s) <<< s

/-- `(x + bits_to_be_rm_mask) & rm_bits_mask`. -/
def ceilTo (s x : Nat) : Nat := ((x + ((1 <<< s) - 1)) >>> s) <<< s

/-- `degrade_range`. -/
def degradeRange (s : Nat) (r : Rng) : Rng := (floorTo s r.1, ceilTo s r.2)

/-- `MocRanges::degraded` given the shift `Q::shift_from_depth_max(depth)`. -/
def degradedShift (s : Nat) (l : List Rng) : List Rng :=
  mergeOverlapping (l.map (degradeRange s))

end Moc
