/-
  Expansion / contraction of Time and Frequency MOCs (`RangeMOC<T, Time<T>>::{expanded, contracted}`,
  same code for `Frequency`), `c` = size of one cell of the MOC depth, `ub` = `n_cells_max`.
  `contracted` is the repaired version (no shrinking on the domain bounds).
-/
import MocVerif.Model.Builders

namespace Moc

def tfGrow (c ub : Nat) (r : Rng) : Rng :=
  (if r.1 > 0 then r.1 - c else r.1, if r.2 < ub then r.2 + c else r.2)

/-- `expanded`: grow every range by one cell on each side (clipped), then `merge_sorted`. -/
def tfExpanded (c ub : Nat) (l : List Rng) : List Rng := mergeSorted (l.map (tfGrow c ub))

def tfShrink (c ub : Nat) (r : Rng) : Option Rng :=
  let s := if r.1 > 0 then r.1 + c else r.1
  let e := if r.2 < ub then r.2 - c else r.2
  if s < e then some (s, e) else none

/-- `contracted` (repaired). -/
def tfContracted (c ub : Nat) (l : List Rng) : List Rng := l.filterMap (tfShrink c ub)

end Moc
