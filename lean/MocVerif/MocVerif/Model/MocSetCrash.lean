/-
  C16 — what another process sees during / after an interrupted `append`.
  An update is the sequence of its externally visible effects, in the order the running program
  makes them visible (mmap stores are visible at once, buffered data only once flushed).
  A kill at a point keeps exactly what was visible (page cache survives the process).
-/
namespace Moc

/-- Visible effects of `append`. -/
inductive Eff where
  | dataVisible (nBytes : Nat)   -- `data.write_all` + `flush` reached the file
  | indexStore (endByte : Nat)   -- cumulative end offset stored in the (shared) index array
  | metaStore                    -- non-void metadata word stored: the entry becomes LISTED
  deriving Repr, DecidableEq

/-- What a reader that opens the file sees. -/
structure View where
  fileLen : Nat          -- bytes physically in the file
  index : List Nat       -- end offsets present in the index array (slot i ↦ end of MOC i)
  listed : Nat           -- number of non-void metadata entries
  deriving Repr, DecidableEq

def applyEff (v : View) : Eff → View
  | .dataVisible n => { v with fileLen := v.fileLen + n }
  | .indexStore e => { v with index := v.index ++ [e] }
  | .metaStore => { v with listed := v.listed + 1 }

def visible (v : View) (effs : List Eff) : View := effs.foldl applyEff v

/-- `l[i]` (0 when out of range). -/
def nthD : List Nat → Nat → Nat
  | [], _ => 0
  | x :: _, 0 => x
  | _ :: t, i + 1 => nthD t i

/-- Every listed MOC has its complete data inside the file (so `list`, `query`, `extract` succeed:
    no byte range beyond the end of the file / of the mapping). -/
def Consistent (v : View) : Prop :=
  v.listed ≤ v.index.length ∧ ∀ i, i < v.listed → nthD v.index i ≤ v.fileLen

instance (v : View) : Decidable (Consistent v) := by
  unfold Consistent
  exact inferInstanceAs (Decidable (_ ∧ ∀ i, i < v.listed → _))

/-- The repaired order of `append_moc_bytes`: data flushed, then index, then meta. -/
def appendEffs (v : View) (n : Nat) : List Eff :=
  [.dataVisible n, .indexStore (v.fileLen + n), .metaStore]

/-- The original order: index and meta stored through the mapping BEFORE the data writer is flushed. -/
def appendEffsOriginal (v : View) (n : Nat) : List Eff :=
  [.indexStore (v.fileLen + n), .metaStore, .dataVisible n]

/-! ### `chgstatus`: one in-place store of a metadata word per changed entry -/

/-- The status words of the listed entries, as a reader sees them. -/
abbrev Statuses := List Nat

/-- One visible effect of `chgstatus`: the status of entry `i` becomes `st` (a single aligned 8-byte store
    through the shared mapping; depth, identifier, index and data are untouched). -/
def applyStatus (v : Statuses) (e : Nat × Nat) : Statuses := v.set e.1 e.2

def visibleStatuses (v : Statuses) (effs : List (Nat × Nat)) : Statuses := effs.foldl applyStatus v

/-- The stores performed by `chgstatus <st> <ids>` on entries `(id, status)`, in file order: the live entries
    with a listed identifier whose status differs from the new one. -/
def chgEffsFrom (st : Nat) (ids : List Nat) : Nat → List (Nat × Nat) → List (Nat × Nat)
  | _, [] => []
  | i, (id, s) :: t =>
    if s > 1 ∧ ids.contains id ∧ s ≠ st then (i, st) :: chgEffsFrom st ids (i + 1) t
    else chgEffsFrom st ids (i + 1) t

def chgEffs (st : Nat) (ids : List Nat) (entries : List (Nat × Nat)) : List (Nat × Nat) :=
  chgEffsFrom st ids 0 entries

/-! ### `purge`: the new file is written under a temporary name, then renamed over the old one -/

inductive PurgeEff where
  | tmpWritten      -- temporary file created / written / flushed (invisible under the set's name)
  | rename          -- atomic replacement of the set by the temporary file
  | lockRemoved
  deriving Repr, DecidableEq

/-- What a reader opening the SET'S NAME sees: the old content until the rename, the new one after. -/
def purgeView {α : Type} (old new : α) (effs : List PurgeEff) : α :=
  if effs.contains .rename then new else old

def purgeEffs : List PurgeEff := [.tmpWritten, .rename, .lockRemoved]

end Moc
