/-
  C16 — what another process sees during / after an interrupted `append`.
  An update is the sequence of its externally visible effects, in the order the running program
  makes them visible (mmap stores are visible at once, buffered data only once flushed).
  A kill at a point keeps exactly what was visible (page cache survives the process).
-/
namespace Moc

/-- Visible effects of `append`. -/
inductive Eff where
  | dataVisible (nBytes : Nat)   -- `data.write_all` + `flush` reached the file
  | indexStore (endByte : Nat)   -- cumulative end offset stored in the (shared) index array
  | metaStore                    -- non-void metadata word stored: the entry becomes LISTED
  deriving Repr, DecidableEq

/-- What a reader that opens the file sees. -/
structure View where
  fileLen : Nat          -- bytes physically in the file
  index : List Nat       -- end offsets present in the index array (slot i ↦ end of MOC i)
  listed : Nat           -- number of non-void metadata entries
  deriving Repr, DecidableEq

def applyEff (v : View) : Eff → View
  | .dataVisible n => { v with fileLen := v.fileLen + n }
  | .indexStore e => { v with index := v.index ++ [e] }
  | .metaStore => { v with listed := v.listed + 1 }

def visible (v : View) (effs : List Eff) : View := effs.foldl applyEff v

/-- `l[i]` (0 when out of range). -/
def nthD : List Nat → Nat → Nat
  | [], _ => 0
  | x :: _, 0 => x
  | _ :: t, i + 1 => nthD t i

/-- Every listed MOC has its complete data inside the file (so `list`, `query`, `extract` succeed:
    no byte range beyond the end of the file / of the mapping). -/
def Consistent (v : View) : Prop :=
  v.listed ≤ v.index.length ∧ ∀ i, i < v.listed → nthD v.index i ≤ v.fileLen

instance (v : View) : Decidable (Consistent v) := by
  unfold Consistent
  exact inferInstanceAs (Decidable (_ ∧ ∀ i, i < v.listed → _))

/-- The repaired order of `append_moc_bytes`: data flushed, then index, then meta. -/
def appendEffs (v : View) (n : Nat) : List Eff :=
  [.dataVisible n, .indexStore (v.fileLen + n), .metaStore]

/-- The original order: index and meta stored through the mapping BEFORE the data writer is flushed. -/
def appendEffsOriginal (v : View) (n : Nat) : List Eff :=
  [.indexStore (v.fileLen + n), .metaStore, .dataVisible n]

end Moc
