/-
  C17 — `RangeMOC::fill_holes(except_n_largest)` (`src/moc/range/mod.rs`): the complement is split into
  connected components (neighbours sharing an edge OR a vertex), the components are sorted by decreasing
  coverage, the `1 + except_n_largest` largest ones are left alone and all the others are added to the MOC.
  Over an adjacency given as data, like the rest of `Model/Graph.lean`.
  IMPORT-FREE.
-/
import MocVerif.Model.Graph

namespace Moc.Graph

/-- Stable insertion by decreasing size (`sort_by(|a, b| b.0.partial_cmp(&a.0))` is a stable sort). -/
def insBySize (c : List Nat) : List (List Nat) → List (List Nat)
  | [] => [c]
  | d :: t => if d.length < c.length then c :: d :: t else d :: insBySize c t

def sortBySize (cs : List (List Nat)) : List (List Nat) := cs.foldr insBySize []

/-- The components of the complement, largest first. -/
def holesSorted (g : Adj) (univ s : List Nat) : List (List Nat) :=
  sortBySize (splitAll g (univ.filter fun y => !s.contains y))

/-- The cut falls between two components of the same size: which one is kept depends on the order in which
    the implementation discovers them (not fixed by the definition). -/
def tieAtCut (cs : List (List Nat)) (k : Nat) : Bool :=
  match cs[k - 1]?, cs[k]? with
  | some a, some b => k ≥ 1 && a.length == b.length
  | _, _ => false

/-- `fill_holes(Some(n))`: the MOC plus every component of its complement except the `1 + n` largest. -/
def fillHoles (g : Adj) (univ s : List Nat) (n : Nat) : List Nat :=
  norm (s ++ ((holesSorted g univ s).drop (1 + n)).flatten)

/-- `fill_holes_smaller_than(f)`: the MOC plus every component of its complement covering at most the sky
    fraction `f`, i.e. made of at most `k` cells of the working depth (`k = ⌊f · n_cells⌋`). -/
def fillHolesSmaller (g : Adj) (univ s : List Nat) (k : Nat) : List Nat :=
  norm (s ++ ((splitAll g (univ.filter fun y => !s.contains y)).filter fun c => decide (c.length ≤ k)).flatten)

end Moc.Graph
